#!/bin/bash
# Offline setup: warm the Go build cache for every harness (built against the current /repo).
cd "$(dirname "$0")"
export GOFLAGS=-mod=mod GOPROXY=off GOSUMDB=off GOTOOLCHAIN=local
export GOCACHE="${VERIF_GOCACHE:-/verif/.gocache}"
mkdir -p .build
go build -o .build/xform ./cmd/xform || exit 1
for d in harness/*/; do
  id=$(basename "$d")
  B=".build/$id"; mkdir -p "$B/ov"
  XARGS=()
  [ -f "$d/xform.args" ] && XARGS=($(grep -v '^#' "$d/xform.args"))
  .build/xform -repo /repo -out "$B/ov" -hooks "$PWD/hooks" "${XARGS[@]}" || exit 1
  go build -tags verif -overlay "$B/ov/overlay.json" -o "$B/harness" "./$d" || exit 1
done
echo setup ok
