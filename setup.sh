#!/bin/bash
# Offline setup: warm the Go build cache by building every registered harness against /repo.
cd "$(dirname "$0")"
rc=0
for id in $(python3 -c "import json;print(' '.join(c['property_id'] for c in json.load(open('MANIFEST.json'))['checks']))"); do
  VERIF_BUILD_ONLY=1 ./check "$id" || rc=1
done
[ $rc = 0 ] && echo "setup ok"
exit $rc
