// Package vsync replaces package sync for repository packages rewritten by cmd/xform (-sync).
// Every operation is a scheduling point of verif/mc/sched; blocking is modelled explicitly
// (a thread that cannot proceed is not enabled). Lock fairness / writer preference of the Go
// runtime is not modelled: any enabled thread may take a free lock (an over-approximation).
// Outside a controlled execution the primitives work for single-threaded use (setup code).
package vsync

import (
	"sync"

	"verif/mc/sched"
)

type Locker = sync.Locker
type Pool = sync.Pool

type Mutex struct {
	locked bool
}

func (m *Mutex) Lock() {
	sched.Point()
	for m.locked {
		sched.Block(m)
	}
	m.locked = true
}
func (m *Mutex) TryLock() bool {
	sched.Point()
	if m.locked {
		return false
	}
	m.locked = true
	return true
}
func (m *Mutex) Unlock() {
	if !m.locked {
		panic("sync: unlock of unlocked mutex")
	}
	m.locked = false
	sched.Wake(m)
	if sched.Active() {
		sched.Point()
	}
}

type RWMutex struct {
	writer  bool
	readers int
}

func (m *RWMutex) Lock() {
	sched.Point()
	for m.writer || m.readers > 0 {
		sched.Block(m)
	}
	m.writer = true
}
func (m *RWMutex) Unlock() {
	if !m.writer {
		panic("sync: Unlock of unlocked RWMutex")
	}
	m.writer = false
	sched.Wake(m)
	if sched.Active() {
		sched.Point()
	}
}
func (m *RWMutex) RLock() {
	sched.Point()
	for m.writer {
		sched.Block(m)
	}
	m.readers++
}
func (m *RWMutex) RUnlock() {
	if m.readers <= 0 {
		panic("sync: RUnlock of unlocked RWMutex")
	}
	m.readers--
	sched.Wake(m)
	if sched.Active() {
		sched.Point()
	}
}
func (m *RWMutex) TryLock() bool {
	sched.Point()
	if m.writer || m.readers > 0 {
		return false
	}
	m.writer = true
	return true
}
func (m *RWMutex) TryRLock() bool {
	sched.Point()
	if m.writer {
		return false
	}
	m.readers++
	return true
}
func (m *RWMutex) RLocker() Locker { return (*rlocker)(m) }

type rlocker RWMutex

func (r *rlocker) Lock()   { (*RWMutex)(r).RLock() }
func (r *rlocker) Unlock() { (*RWMutex)(r).RUnlock() }

// Map wraps sync.Map; each operation is atomic and preceded by a scheduling point.
type Map struct{ m sync.Map }

func (m *Map) Load(k any) (any, bool)           { sched.Point(); return m.m.Load(k) }
func (m *Map) Store(k, v any)                   { sched.Point(); m.m.Store(k, v) }
func (m *Map) Delete(k any)                     { sched.Point(); m.m.Delete(k) }
func (m *Map) LoadOrStore(k, v any) (any, bool) { sched.Point(); return m.m.LoadOrStore(k, v) }
func (m *Map) LoadAndDelete(k any) (any, bool)  { sched.Point(); return m.m.LoadAndDelete(k) }
func (m *Map) Swap(k, v any) (any, bool)        { sched.Point(); return m.m.Swap(k, v) }
func (m *Map) CompareAndSwap(k, o, n any) bool  { sched.Point(); return m.m.CompareAndSwap(k, o, n) }
func (m *Map) CompareAndDelete(k, o any) bool   { sched.Point(); return m.m.CompareAndDelete(k, o) }
func (m *Map) Range(f func(k, v any) bool) {
	sched.Point()
	m.m.Range(func(k, v any) bool {
		r := f(k, v)
		sched.Point() // Range is not a snapshot: other threads may run between callbacks
		return r
	})
}

type Once struct {
	done bool
	m    Mutex
}

func (o *Once) Do(f func()) {
	o.m.Lock()
	defer o.m.Unlock()
	if !o.done {
		defer func() { o.done = true }()
		f()
	}
}

type WaitGroup struct{ n int }

func (w *WaitGroup) Add(d int) {
	sched.Point()
	w.n += d
	if w.n < 0 {
		panic("sync: negative WaitGroup counter")
	}
	if w.n == 0 {
		sched.Wake(w)
	}
}
func (w *WaitGroup) Done() { w.Add(-1) }
func (w *WaitGroup) Wait() {
	sched.Point()
	for w.n > 0 {
		sched.Block(w)
	}
}
