// Package vatomic replaces sync/atomic typed values for rewritten packages: each operation is
// atomic and preceded by a scheduling point of verif/mc/sched.
package vatomic

import (
	"sync/atomic"

	"verif/mc/sched"
)

type Bool struct{ v atomic.Bool }

func (b *Bool) Load() bool                    { sched.Point(); return b.v.Load() }
func (b *Bool) Store(x bool)                  { sched.Point(); b.v.Store(x) }
func (b *Bool) Swap(x bool) bool              { sched.Point(); return b.v.Swap(x) }
func (b *Bool) CompareAndSwap(o, n bool) bool { sched.Point(); return b.v.CompareAndSwap(o, n) }

type Uint64 struct{ v atomic.Uint64 }

func (b *Uint64) Load() uint64                    { sched.Point(); return b.v.Load() }
func (b *Uint64) Store(x uint64)                  { sched.Point(); b.v.Store(x) }
func (b *Uint64) Add(x uint64) uint64             { sched.Point(); return b.v.Add(x) }
func (b *Uint64) Swap(x uint64) uint64            { sched.Point(); return b.v.Swap(x) }
func (b *Uint64) CompareAndSwap(o, n uint64) bool { sched.Point(); return b.v.CompareAndSwap(o, n) }

type Int64 struct{ v atomic.Int64 }

func (b *Int64) Load() int64                    { sched.Point(); return b.v.Load() }
func (b *Int64) Store(x int64)                  { sched.Point(); b.v.Store(x) }
func (b *Int64) Add(x int64) int64              { sched.Point(); return b.v.Add(x) }
func (b *Int64) CompareAndSwap(o, n int64) bool { sched.Point(); return b.v.CompareAndSwap(o, n) }

type Uint32 struct{ v atomic.Uint32 }

func (b *Uint32) Load() uint32                    { sched.Point(); return b.v.Load() }
func (b *Uint32) Store(x uint32)                  { sched.Point(); b.v.Store(x) }
func (b *Uint32) Add(x uint32) uint32             { sched.Point(); return b.v.Add(x) }
func (b *Uint32) CompareAndSwap(o, n uint32) bool { sched.Point(); return b.v.CompareAndSwap(o, n) }

type Int32 struct{ v atomic.Int32 }

func (b *Int32) Load() int32                    { sched.Point(); return b.v.Load() }
func (b *Int32) Store(x int32)                  { sched.Point(); b.v.Store(x) }
func (b *Int32) Add(x int32) int32              { sched.Point(); return b.v.Add(x) }
func (b *Int32) CompareAndSwap(o, n int32) bool { sched.Point(); return b.v.CompareAndSwap(o, n) }

// ---- the rest of the sync/atomic surface (a change to the code under test may start using any of
// it: the check must then still build and give a verdict) ----

type Uintptr struct{ v atomic.Uintptr }

func (b *Uintptr) Load() uintptr                    { sched.Point(); return b.v.Load() }
func (b *Uintptr) Store(x uintptr)                  { sched.Point(); b.v.Store(x) }
func (b *Uintptr) Add(x uintptr) uintptr            { sched.Point(); return b.v.Add(x) }
func (b *Uintptr) Swap(x uintptr) uintptr           { sched.Point(); return b.v.Swap(x) }
func (b *Uintptr) CompareAndSwap(o, n uintptr) bool { sched.Point(); return b.v.CompareAndSwap(o, n) }

func (b *Int64) Swap(x int64) int64    { sched.Point(); return b.v.Swap(x) }
func (b *Uint32) Swap(x uint32) uint32 { sched.Point(); return b.v.Swap(x) }
func (b *Int32) Swap(x int32) int32    { sched.Point(); return b.v.Swap(x) }

// Pointer is atomic.Pointer[T] with a scheduling point before every operation.
type Pointer[T any] struct{ v atomic.Pointer[T] }

func (p *Pointer[T]) Load() *T                    { sched.Point(); return p.v.Load() }
func (p *Pointer[T]) Store(x *T)                  { sched.Point(); p.v.Store(x) }
func (p *Pointer[T]) Swap(x *T) *T                { sched.Point(); return p.v.Swap(x) }
func (p *Pointer[T]) CompareAndSwap(o, n *T) bool { sched.Point(); return p.v.CompareAndSwap(o, n) }

// Value is atomic.Value with a scheduling point before every operation.
type Value struct{ v atomic.Value }

func (p *Value) Load() any                    { sched.Point(); return p.v.Load() }
func (p *Value) Store(x any)                  { sched.Point(); p.v.Store(x) }
func (p *Value) Swap(x any) any               { sched.Point(); return p.v.Swap(x) }
func (p *Value) CompareAndSwap(o, n any) bool { sched.Point(); return p.v.CompareAndSwap(o, n) }

// function forms
func AddInt32(a *int32, d int32) int32         { sched.Point(); return atomic.AddInt32(a, d) }
func AddInt64(a *int64, d int64) int64         { sched.Point(); return atomic.AddInt64(a, d) }
func AddUint32(a *uint32, d uint32) uint32     { sched.Point(); return atomic.AddUint32(a, d) }
func AddUint64(a *uint64, d uint64) uint64     { sched.Point(); return atomic.AddUint64(a, d) }
func AddUintptr(a *uintptr, d uintptr) uintptr { sched.Point(); return atomic.AddUintptr(a, d) }
func LoadInt32(a *int32) int32                 { sched.Point(); return atomic.LoadInt32(a) }
func LoadInt64(a *int64) int64                 { sched.Point(); return atomic.LoadInt64(a) }
func LoadUint32(a *uint32) uint32              { sched.Point(); return atomic.LoadUint32(a) }
func LoadUint64(a *uint64) uint64              { sched.Point(); return atomic.LoadUint64(a) }
func LoadUintptr(a *uintptr) uintptr           { sched.Point(); return atomic.LoadUintptr(a) }
func StoreInt32(a *int32, v int32)             { sched.Point(); atomic.StoreInt32(a, v) }
func StoreInt64(a *int64, v int64)             { sched.Point(); atomic.StoreInt64(a, v) }
func StoreUint32(a *uint32, v uint32)          { sched.Point(); atomic.StoreUint32(a, v) }
func StoreUint64(a *uint64, v uint64)          { sched.Point(); atomic.StoreUint64(a, v) }
func StoreUintptr(a *uintptr, v uintptr)       { sched.Point(); atomic.StoreUintptr(a, v) }
func SwapInt32(a *int32, v int32) int32        { sched.Point(); return atomic.SwapInt32(a, v) }
func SwapInt64(a *int64, v int64) int64        { sched.Point(); return atomic.SwapInt64(a, v) }
func SwapUint32(a *uint32, v uint32) uint32    { sched.Point(); return atomic.SwapUint32(a, v) }
func SwapUint64(a *uint64, v uint64) uint64    { sched.Point(); return atomic.SwapUint64(a, v) }
func CompareAndSwapInt32(a *int32, o, n int32) bool {
	sched.Point()
	return atomic.CompareAndSwapInt32(a, o, n)
}
func CompareAndSwapInt64(a *int64, o, n int64) bool {
	sched.Point()
	return atomic.CompareAndSwapInt64(a, o, n)
}
func CompareAndSwapUint32(a *uint32, o, n uint32) bool {
	sched.Point()
	return atomic.CompareAndSwapUint32(a, o, n)
}
func CompareAndSwapUint64(a *uint64, o, n uint64) bool {
	sched.Point()
	return atomic.CompareAndSwapUint64(a, o, n)
}
