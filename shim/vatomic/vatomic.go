// Package vatomic replaces sync/atomic typed values for rewritten packages: each operation is
// atomic and preceded by a scheduling point of verif/mc/sched.
package vatomic

import (
	"sync/atomic"

	"verif/mc/sched"
)

type Bool struct{ v atomic.Bool }

func (b *Bool) Load() bool                    { sched.Point(); return b.v.Load() }
func (b *Bool) Store(x bool)                  { sched.Point(); b.v.Store(x) }
func (b *Bool) Swap(x bool) bool              { sched.Point(); return b.v.Swap(x) }
func (b *Bool) CompareAndSwap(o, n bool) bool { sched.Point(); return b.v.CompareAndSwap(o, n) }

type Uint64 struct{ v atomic.Uint64 }

func (b *Uint64) Load() uint64                    { sched.Point(); return b.v.Load() }
func (b *Uint64) Store(x uint64)                  { sched.Point(); b.v.Store(x) }
func (b *Uint64) Add(x uint64) uint64             { sched.Point(); return b.v.Add(x) }
func (b *Uint64) Swap(x uint64) uint64            { sched.Point(); return b.v.Swap(x) }
func (b *Uint64) CompareAndSwap(o, n uint64) bool { sched.Point(); return b.v.CompareAndSwap(o, n) }

type Int64 struct{ v atomic.Int64 }

func (b *Int64) Load() int64                    { sched.Point(); return b.v.Load() }
func (b *Int64) Store(x int64)                  { sched.Point(); b.v.Store(x) }
func (b *Int64) Add(x int64) int64              { sched.Point(); return b.v.Add(x) }
func (b *Int64) CompareAndSwap(o, n int64) bool { sched.Point(); return b.v.CompareAndSwap(o, n) }

type Uint32 struct{ v atomic.Uint32 }

func (b *Uint32) Load() uint32                    { sched.Point(); return b.v.Load() }
func (b *Uint32) Store(x uint32)                  { sched.Point(); b.v.Store(x) }
func (b *Uint32) Add(x uint32) uint32             { sched.Point(); return b.v.Add(x) }
func (b *Uint32) CompareAndSwap(o, n uint32) bool { sched.Point(); return b.v.CompareAndSwap(o, n) }

type Int32 struct{ v atomic.Int32 }

func (b *Int32) Load() int32                    { sched.Point(); return b.v.Load() }
func (b *Int32) Store(x int32)                  { sched.Point(); b.v.Store(x) }
func (b *Int32) Add(x int32) int32              { sched.Point(); return b.v.Add(x) }
func (b *Int32) CompareAndSwap(o, n int32) bool { sched.Point(); return b.v.CompareAndSwap(o, n) }
