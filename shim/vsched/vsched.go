// Package vsched owns the `go` statements of repository packages that were rewritten by
// cmd/xform (`go f(x)` => `vsched.Go(func(){ f(x) })`). Instead of starting a goroutine, Go
// appends the task to a run queue owned by the harness; the harness decides when and in which
// order queued tasks run, each to completion on the harness goroutine. A task that spawns further
// tasks simply appends to the queue. This is the minimal, single-goroutine scheduler: it is sound
// for code whose spawned functions never block on each other (they may take and release mutexes
// within one task). Blocking primitives are NOT intercepted here.
package vsched

import (
	"runtime"
	"strings"
	"sync"
)

// Task is one queued `go` statement.
type Task struct {
	ID   uint64 // creation order since Reset
	Site string // function that executed the go statement (short form), e.g. "dv.(*Router).ribUpdate"
	Ctx  string // harness-chosen context label current when the task was spawned
	f    func()
}

// Spawn, if set, takes over every rewritten `go` statement (e.g. a cooperative scheduler that
// runs tasks as baton-holding goroutines); the run queue below is then unused.
var Spawn func(f func())

// RecordSites makes Go record the spawning function of every task (costs a stack walk per task).
var RecordSites = false

var (
	mu    sync.Mutex
	queue []*Task
	seq   uint64
	ctx   string
	ran   uint64
)

// Reset drops all queued tasks and counters (call at the start of every execution).
func Reset() {
	mu.Lock()
	defer mu.Unlock()
	queue, seq, ctx, ran = nil, 0, "", 0
}

// SetContext sets the label attached to tasks spawned from now on (tasks spawned while another
// task runs inherit that task's label). Returns the previous label.
func SetContext(c string) string {
	mu.Lock()
	defer mu.Unlock()
	old := ctx
	ctx = c
	return old
}

// Go queues f. It is what rewritten `go` statements call.
func Go(f func()) {
	if Spawn != nil {
		Spawn(f)
		return
	}
	site := ""
	if !RecordSites {
	} else if pc, _, _, ok := runtime.Caller(1); ok {
		if fn := runtime.FuncForPC(pc); fn != nil {
			site = fn.Name()
			if i := strings.LastIndex(site, "/"); i >= 0 {
				site = site[i+1:]
			}
		}
	}
	mu.Lock()
	defer mu.Unlock()
	seq++
	queue = append(queue, &Task{ID: seq, Site: site, Ctx: ctx, f: f})
}

// Pending returns the number of queued tasks.
func Pending() int { mu.Lock(); defer mu.Unlock(); return len(queue) }

// Ran returns the number of tasks run since Reset.
func Ran() uint64 { mu.Lock(); defer mu.Unlock(); return ran }

// Tasks returns a snapshot of the queue (oldest first).
func Tasks() []Task {
	mu.Lock()
	defer mu.Unlock()
	out := make([]Task, len(queue))
	for i, t := range queue {
		out[i] = Task{ID: t.ID, Site: t.Site, Ctx: t.Ctx}
	}
	return out
}

// RunOne removes the i-th queued task (0 = oldest) and runs it to completion on the caller's
// goroutine. It returns false if there is no such task.
func RunOne(i int) bool {
	mu.Lock()
	if i < 0 || i >= len(queue) {
		mu.Unlock()
		return false
	}
	t := queue[i]
	queue = append(queue[:i:i], queue[i+1:]...)
	old := ctx
	ctx = t.Ctx
	ran++
	mu.Unlock()
	t.f()
	mu.Lock()
	ctx = old
	mu.Unlock()
	return true
}

// RunAll runs queued tasks in FIFO order until the queue is empty or max tasks have run
// (max <= 0: no limit). It returns the number of tasks run and whether the queue is empty.
func RunAll(max int) (n int, empty bool) {
	for max <= 0 || n < max {
		if !RunOne(0) {
			return n, true
		}
		n++
	}
	return n, Pending() == 0
}

// TakeAll removes and returns every queued task (oldest first) without running it. Together with
// Put and Task.Run it lets a harness hold tasks back across events.
func TakeAll() []*Task {
	mu.Lock()
	defer mu.Unlock()
	out := queue
	queue = nil
	return out
}

// Put appends previously taken tasks to the queue (they keep their IDs and labels).
func Put(ts []*Task) {
	mu.Lock()
	defer mu.Unlock()
	queue = append(queue, ts...)
}

// Run executes a task that was taken out of the queue (TakeAll) on the calling goroutine.
func (t *Task) Run() { t.f() }
