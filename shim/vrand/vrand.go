// Package vrand replaces math/rand for packages under test: a deterministic counter-based
// source that the harness resets per execution.
package vrand

import "sync"

var (
	mu    sync.Mutex
	state uint64 = 0x9E3779B97F4A7C15
)

func Reset() { mu.Lock(); state = 0x9E3779B97F4A7C15; mu.Unlock() }

func next() uint64 {
	mu.Lock()
	defer mu.Unlock()
	state += 0x9E3779B97F4A7C15
	z := state
	z = (z ^ (z >> 30)) * 0xBF58476D1CE4E5B9
	z = (z ^ (z >> 27)) * 0x94D049BB133111EB
	return z ^ (z >> 31)
}

func Uint64() uint64       { return next() }
func Uint32() uint32       { return uint32(next() >> 32) }
func Int63() int64         { return int64(next() >> 1) }
func Int() int             { return int(next() >> 1) }
func Int31() int32         { return int32(next() >> 33) }
func Intn(n int) int       { return int(next() % uint64(n)) }
func Int63n(n int64) int64 { return int64(next() % uint64(n)) }
func Int31n(n int32) int32 { return int32(next() % uint64(n)) }
func Float64() float64     { return float64(next()>>11) / (1 << 53) }
func Seed(int64)           {}
func Read(p []byte) (int, error) {
	for i := range p {
		p[i] = byte(next())
	}
	return len(p), nil
}
