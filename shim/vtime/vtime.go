// Package vtime is a drop-in replacement for the subset of package time used by the packages
// under test. The check-time source overlay (cmd/xform) redirects `import "time"` of selected
// repository packages here, so the clock is owned by the harness: Now() only moves when the
// harness calls Advance/Set, timers fire synchronously from Advance (in deadline order) and only
// if the harness enabled them, Sleep never blocks (it calls a hook so a scheduler may yield).
package vtime

import (
	"sort"
	"sync"
	"time"
)

type (
	Time     = time.Time
	Duration = time.Duration
	Month    = time.Month
	Location = time.Location
)

const (
	Nanosecond  = time.Nanosecond
	Microsecond = time.Microsecond
	Millisecond = time.Millisecond
	Second      = time.Second
	Minute      = time.Minute
	Hour        = time.Hour
	RFC3339     = time.RFC3339
	RFC3339Nano = time.RFC3339Nano
	UnixDate    = time.UnixDate
)

var UTC = time.UTC
var Local = time.Local

// Epoch is the virtual time at Reset.
var Epoch = time.Unix(1_700_000_000, 0)

var (
	mu        sync.Mutex
	now       = Epoch
	timers    []*Timer
	seq       uint64
	fire      bool // whether Advance runs due timer callbacks
	SleepHook func(d Duration)
)

// Reset puts the clock back to Epoch and drops all timers. fireTimers selects whether
// AfterFunc callbacks run when the clock passes their deadline.
func Reset(fireTimers bool) {
	mu.Lock()
	defer mu.Unlock()
	now = Epoch
	timers = nil
	seq = 0
	fire = fireTimers
}

func Now() Time { mu.Lock(); defer mu.Unlock(); return now }

func Since(t Time) Duration { return Now().Sub(t) }
func Until(t Time) Duration { return t.Sub(Now()) }

func Unix(sec, nsec int64) Time                { return time.Unix(sec, nsec) }
func UnixMilli(ms int64) Time                  { return time.UnixMilli(ms) }
func UnixMicro(us int64) Time                  { return time.UnixMicro(us) }
func ParseDuration(s string) (Duration, error) { return time.ParseDuration(s) }
func Date(y int, m Month, d, h, mi, s, ns int, loc *Location) Time {
	return time.Date(y, m, d, h, mi, s, ns, loc)
}
func Parse(layout, value string) (Time, error) { return time.Parse(layout, value) }

// Advance moves the clock forward by d, firing due timers in (deadline, creation) order with the
// clock set to each timer's deadline while it runs.
func Advance(d Duration) {
	mu.Lock()
	target := now.Add(d)
	for {
		if !fire {
			break
		}
		// earliest due timer
		sort.SliceStable(timers, func(i, j int) bool {
			if !timers[i].when.Equal(timers[j].when) {
				return timers[i].when.Before(timers[j].when)
			}
			return timers[i].id < timers[j].id
		})
		if len(timers) == 0 || timers[0].when.After(target) {
			break
		}
		t := timers[0]
		timers = timers[1:]
		t.active = false
		if t.when.After(now) {
			now = t.when
		}
		f := t.f
		mu.Unlock()
		if f != nil {
			f()
		}
		mu.Lock()
	}
	if target.After(now) {
		now = target
	}
	mu.Unlock()
}

// PendingTimers returns the number of armed timers.
func PendingTimers() int { mu.Lock(); defer mu.Unlock(); return len(timers) }

// Timer mimics *time.Timer for AfterFunc users.
type Timer struct {
	C      <-chan Time
	id     uint64
	when   Time
	f      func()
	active bool
}

func AfterFunc(d Duration, f func()) *Timer {
	mu.Lock()
	defer mu.Unlock()
	seq++
	t := &Timer{id: seq, when: now.Add(d), f: f, active: true}
	timers = append(timers, t)
	return t
}

func NewTimer(d Duration) *Timer {
	ch := make(chan Time, 1)
	t := AfterFunc(d, nil)
	t.C = ch
	t.f = func() {
		select {
		case ch <- Now():
		default:
		}
	}
	return t
}

func After(d Duration) <-chan Time { return NewTimer(d).C }

func (t *Timer) Stop() bool {
	mu.Lock()
	defer mu.Unlock()
	if !t.active {
		return false
	}
	t.active = false
	for i, x := range timers {
		if x == t {
			timers = append(timers[:i], timers[i+1:]...)
			break
		}
	}
	return true
}

func (t *Timer) Reset(d Duration) bool {
	was := t.Stop()
	mu.Lock()
	defer mu.Unlock()
	t.when = now.Add(d)
	t.active = true
	timers = append(timers, t)
	return was
}

// Ticker never ticks on its own; harnesses call the ticked function directly.
type Ticker struct {
	C <-chan Time
	c chan Time
}

func NewTicker(d Duration) *Ticker {
	c := make(chan Time, 1)
	return &Ticker{C: c, c: c}
}
func (t *Ticker) Stop()            {}
func (t *Ticker) Reset(d Duration) {}
func Tick(d Duration) <-chan Time  { return NewTicker(d).C }

// Sleep never blocks on the wall clock.
func Sleep(d Duration) {
	if SleepHook != nil {
		SleepHook(d)
	}
}
