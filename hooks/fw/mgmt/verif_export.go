//go:build verif

// White-box access for the verification harnesses in /verif: hands one command Interest to the
// real management module handler (the call Thread.Run makes for every Interest it receives) and
// returns the status code of the ControlResponse the module sent through the internal transport.
// Never part of a normal build (tag verif); added through `go build -overlay`.
package mgmt

import (
	"github.com/named-data/ndnd/fw/face"
	enc "github.com/named-data/ndnd/std/encoding"
	mgmt "github.com/named-data/ndnd/std/ndn/mgmt_2022"
	spec "github.com/named-data/ndnd/std/ndn/spec_2022"
)

var verifThread *Thread

// VerifReset forgets the management thread (call after loading a new configuration).
func VerifReset() { verifThread = nil }

func verifGetThread() *Thread {
	if verifThread == nil {
		verifThread = MakeMgmtThread()
		// the internal transport is created but not started: responses stay in its send queue
		verifThread.transport = face.VerifMakeInternalTransport()
	}
	return verifThread
}

// VerifCommand delivers /localhost/nfd/<module>/<verb>/<params> as received from face inFace.
// status is 0 if the module sent no (decodable) response.
func VerifCommand(module, verb string, params *mgmt.ControlArgs, inFace uint64) (status uint64, body *mgmt.ControlArgs) {
	m := verifGetThread()
	name := append(enc.Name{}, m.localPrefix...)
	name = append(name, enc.NewStringComponent(enc.TypeGenericNameComponent, module),
		enc.NewStringComponent(enc.TypeGenericNameComponent, verb))
	if params != nil {
		cp := &mgmt.ControlParameters{Val: params}
		name = append(name, enc.NewBytesComponent(enc.TypeGenericNameComponent, cp.Encode().Join()))
	}
	mod, ok := m.modules[module]
	if !ok {
		return 0, nil
	}
	mod.handleIncomingInterest(&spec.Interest{NameV: name}, nil, inFace)
	for _, frame := range m.transport.VerifDrainSent() {
		pkt, _, err := spec.ReadPacket(enc.NewBufferReader(frame))
		if err != nil || pkt.LpPacket == nil {
			continue
		}
		inner, _, err := spec.ReadPacket(enc.NewWireReader(pkt.LpPacket.Fragment))
		if err != nil || inner.Data == nil {
			continue
		}
		resp, err := mgmt.ParseControlResponse(enc.NewWireReader(inner.Data.Content()), true)
		if err != nil || resp.Val == nil {
			continue
		}
		status, body = resp.Val.StatusCode, resp.Val.Params
	}
	return
}
