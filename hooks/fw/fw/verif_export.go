//go:build verif

// White-box access for the verification harnesses in /verif. This file is never part of a
// normal build (tag verif) and is added to the package through `go build -overlay`.
// It lets a harness drive ONE forwarding thread synchronously (no Run() loop, no goroutine):
// every call below executes exactly the code the corresponding arm of Thread.Run() executes.
package fw

import (
	"github.com/named-data/ndnd/fw/defn"
	"github.com/named-data/ndnd/fw/table"
)

// VerifConfigure sets the package configuration that Configure() would read from core.GetConfig().
func VerifConfigure(queueSize int, threads int) {
	fwQueueSize = queueSize
	NumFwThreads = threads
	lockThreadsToCores = false
}

// VerifInterest = the `case pendingPacket := <-t.pendingInterests` arm of Run().
func (t *Thread) VerifInterest(pkt *defn.Pkt) { t.processIncomingInterest(pkt) }

// VerifData = the `case pendingPacket := <-t.pendingDatas` arm of Run().
func (t *Thread) VerifData(pkt *defn.Pkt) { t.processIncomingData(pkt) }

// VerifPitTick = the `case <-pitUpdateTimer` arm of Run().
func (t *Thread) VerifPitTick() { t.pitCS.Update() }

// VerifDnlTick = the `case <-t.deadNonceList.Ticker.C` arm of Run().
func (t *Thread) VerifDnlTick() { t.deadNonceList.RemoveExpiredEntries() }

// VerifTick runs both periodic arms of Run() once (PIT reaper first, then dead-nonce-list reaper).
func (t *Thread) VerifTick() {
	t.pitCS.Update()
	t.deadNonceList.RemoveExpiredEntries()
}

// VerifTakeQueued drains the thread's input queues (packets queued through QueueInterest /
// QueueData by a real link service) and processes them synchronously, Interests first.
// Returns the number of packets processed.
func (t *Thread) VerifTakeQueued() (n int) {
	for {
		select {
		case p := <-t.pendingInterests:
			t.processIncomingInterest(p)
			n++
		case p := <-t.pendingDatas:
			t.processIncomingData(p)
			n++
		default:
			return
		}
	}
}

// VerifPitCs returns the thread's PIT-CS (always a *table.PitCsTree today).
func (t *Thread) VerifPitCs() *table.PitCsTree { return t.pitCS.(*table.PitCsTree) }

// VerifDnl returns the thread's dead nonce list.
func (t *Thread) VerifDnl() *table.DeadNonceList { return t.deadNonceList }

// VerifStrategyNames lists the names of the strategies the real loader instantiated for t.
func (t *Thread) VerifStrategyNames() []string {
	out := make([]string, 0, len(t.strategies))
	for _, s := range t.strategies {
		out = append(out, s.GetName().String())
	}
	return out
}
