//go:build verif

// White-box access for the verification harnesses in /verif (shared). Never part of a normal
// build (tag verif); added to the package through `go build -overlay`.
// It provides an in-memory implementation of the unexported transport interface and synchronous
// entry points of the REAL NDNLPv2 link service, so that a harness can hand a received frame to
// NDNLPLinkService.handleIncomingFrame (decode, reassembly, LP header fields, dispatchInterest /
// dispatchData towards the forwarding threads) without sockets and without goroutines.
package face

import (
	"strconv"

	defn "github.com/named-data/ndnd/fw/defn"
	"github.com/named-data/ndnd/fw/dispatch"
)

// VerifMemTransport is an in-memory transport: sendFrame records (a copy of) every frame,
// nothing is ever received on its own.
type VerifMemTransport struct {
	transportBase
	Sent [][]byte
}

func (t *VerifMemTransport) String() string {
	return "VerifMemTransport, FaceID=" + strconv.FormatUint(t.faceID, 10)
}
func (t *VerifMemTransport) SetPersistency(persistency Persistency) bool {
	t.persistency = persistency
	return true
}
func (t *VerifMemTransport) GetSendQueueSize() uint64 { return 0 }
func (t *VerifMemTransport) sendFrame(frame []byte) {
	t.Sent = append(t.Sent, append([]byte{}, frame...))
	t.nOutBytes += uint64(len(frame))
}
func (t *VerifMemTransport) runReceive() {}
func (t *VerifMemTransport) Close()      { t.running.Store(false) }

// VerifNewMemLinkService builds a real NDNLPLinkService on an in-memory transport with the given
// face id, scope, link type, MTU and options. No goroutine is started and the face is NOT added
// to the face table or to dispatch (the harness decides what dispatch.GetFace returns).
func VerifNewMemLinkService(faceID uint64, scope defn.Scope, linkType defn.LinkType, mtu int, options NDNLPLinkServiceOptions) (*NDNLPLinkService, *VerifMemTransport) {
	t := &VerifMemTransport{}
	t.makeTransportBase(defn.MakeNullFaceURI(), defn.MakeNullFaceURI(), PersistencyPermanent, scope, linkType, mtu)
	t.running.Store(true)
	l := MakeNDNLPLinkService(t, options)
	l.SetFaceID(faceID)
	return l, t
}

// VerifHandleIncomingFrame is handleIncomingFrame, called synchronously: what runReceive of a
// transport does with every frame it reads. Decoded packets end up in the input queues of the
// forwarding threads registered in dispatch (Thread.VerifTakeQueued processes them).
func (l *NDNLPLinkService) VerifHandleIncomingFrame(frame []byte) { l.handleIncomingFrame(frame) }

// VerifSendPacket is sendPacket, called synchronously: what runSend does with every queued packet.
func (l *NDNLPLinkService) VerifSendPacket(out dispatch.OutPkt) { sendPacket(l, out) }

// VerifDrainSent returns (and removes) the frames the internal component has sent so far on a
// transport whose runReceive loop is not running.
func (t *InternalTransport) VerifDrainSent() (out [][]byte) {
	for {
		select {
		case f := <-t.sendQueue:
			out = append(out, f)
		default:
			return
		}
	}
}

// VerifMakeInternalTransport is MakeInternalTransport with queues that do not depend on whether
// face.Configure() has run (faceQueueSize is 0 before it): nothing reads the queues concurrently.
func VerifMakeInternalTransport() *InternalTransport {
	t := MakeInternalTransport()
	t.recvQueue = make(chan []byte, 1024)
	t.sendQueue = make(chan []byte, 1024)
	return t
}
