//go:build verif

// White-box access for the verification harnesses in /verif. This file is never part of a
// normal build (tag verif) and is added to the package through `go build -overlay`.
package table

import (
	"fmt"
	"sort"
	"strings"
	"time"

	enc "github.com/named-data/ndnd/std/encoding"
)

// ---- constructors / configuration ----

func VerifNewFibTree() FibStrategy { newFibStrategyTableTree(); return FibStrategyTable }
func VerifNewFibHT(m uint16) FibStrategy {
	newFibStrategyTableHashTable(m)
	return FibStrategyTable
}

func VerifResetRib() {
	Rib = RibTable{RibEntry: RibEntry{children: map[*RibEntry]bool{}}}
}

func VerifConfigure(csCap int, admit, serve bool, dnlLifetime time.Duration) {
	csCapacity = csCap
	csAdmit = admit
	csServe = serve
	csReplacementPolicy = "lru"
	deadNonceListLifetime = dnlLifetime
	tableQueueSize = 1024
}

func VerifSetProducerRegions(names []enc.Name) {
	NetworkRegion = new(networkRegionTable)
	for _, n := range names {
		NetworkRegion.Add(n)
	}
}

const VerifPitTick = expiredPitTickerInterval

// ---- FIB dumps ----

func nhString(nh []*FibNextHopEntry) string {
	s := make([]string, 0, len(nh))
	for _, h := range nh {
		s = append(s, fmt.Sprintf("%d:%d", h.Nexthop, h.Cost))
	}
	sort.Strings(s)
	return strings.Join(s, ",")
}

// VerifFibNode describes one private node/entry of a FIB implementation.
type VerifFibNode struct {
	Path     string // name reconstructed from the structure (tree) or entry name (HT)
	NameSet  bool
	Nexthops string
	Strategy string
	Children int
	// NexthopOrder is the next-hop list in its actual (private) order: canonical states must
	// distinguish it, since update code may depend on the order.
	NexthopOrder string
}

func nhOrder(nh []*FibNextHopEntry) string {
	s := make([]string, 0, len(nh))
	for _, h := range nh {
		s = append(s, fmt.Sprintf("%d:%d", h.Nexthop, h.Cost))
	}
	return strings.Join(s, ">")
}

// VerifDumpFib returns a canonical dump of the private structure of a FIB.
func VerifDumpFib(f FibStrategy) (nodes []VerifFibNode, aux []string) {
	switch t := f.(type) {
	case *FibStrategyTree:
		var walk func(n *fibStrategyTreeEntry, path enc.Name)
		walk = func(n *fibStrategyTreeEntry, path enc.Name) {
			st := ""
			if n.strategy != nil {
				st = n.strategy.String()
			}
			nodes = append(nodes, VerifFibNode{Path: path.String(), NameSet: n.name != nil, Nexthops: nhString(n.nexthops), Strategy: st, Children: len(n.children), NexthopOrder: nhOrder(n.nexthops)})
			for _, c := range n.children {
				walk(c, append(append(enc.Name{}, path...), c.component))
			}
		}
		walk(t.root, enc.Name{})
		for _, e := range t.fibPrefixes {
			aux = append(aux, "fibPrefixes:"+e.name.String()+"#"+fmt.Sprint(len(e.nexthops)))
		}
	case *FibStrategyHashTable:
		for _, e := range t.realTable {
			st := ""
			if e.strategy != nil {
				st = e.strategy.String()
			}
			nodes = append(nodes, VerifFibNode{Path: e.name.String(), NameSet: true, Nexthops: nhString(e.nexthops), Strategy: st, NexthopOrder: nhOrder(e.nexthops)})
		}
		for h, v := range t.virtTable {
			names := []string{}
			for nb, l := range t.virtTableNames[h] {
				n, _ := enc.NameFromBytes([]byte(nb))
				names = append(names, fmt.Sprintf("%s/%d", n.String(), l))
			}
			sort.Strings(names)
			aux = append(aux, fmt.Sprintf("virt md=%d names=%v", v.md, names))
		}
		for h, set := range t.virtTableNames {
			if _, ok := t.virtTable[h]; !ok {
				aux = append(aux, fmt.Sprintf("virtTableNames-without-virtTable %d", len(set)))
			}
		}
	}
	sort.Slice(nodes, func(i, j int) bool { return nodes[i].Path < nodes[j].Path })
	sort.Strings(aux)
	return
}

// ---- RIB dump ----

type VerifRibNode struct {
	Path     string
	NameSet  bool
	Routes   string
	Children int
	// RouteOrder: routes in their actual slice order
	RouteOrder string
}

func VerifDumpRib() (nodes []VerifRibNode) {
	var walk func(n *RibEntry, path enc.Name)
	walk = func(n *RibEntry, path enc.Name) {
		rs := []string{}
		for _, r := range n.routes {
			rs = append(rs, fmt.Sprintf("f%d/o%d/c%d/fl%d", r.FaceID, r.Origin, r.Cost, r.Flags))
		}
		ord := strings.Join(rs, ">")
		sort.Strings(rs)
		nodes = append(nodes, VerifRibNode{Path: path.String(), NameSet: n.Name != nil, Routes: strings.Join(rs, ","), Children: len(n.children), RouteOrder: ord})
		for c := range n.children {
			walk(c, append(append(enc.Name{}, path...), c.component))
		}
	}
	walk(&Rib.RibEntry, enc.Name{})
	sort.Slice(nodes, func(i, j int) bool { return nodes[i].Path < nodes[j].Path })
	return
}

// ---- PIT/CS dump ----

type VerifInRec struct {
	Face     uint64
	Nonce    uint32
	ExpireIn time.Duration
	Token    string
}
type VerifOutRec struct {
	Face     uint64
	Nonce    uint32
	Age      time.Duration
	ExpireIn time.Duration
}
type VerifPitEntry struct {
	Name        string
	CanBePrefix bool
	MustBeFresh bool
	Hint        string
	Satisfied   bool
	Token       uint32
	In          []VerifInRec
	Out         []VerifOutRec
	Queued      bool
	ExpireIn    time.Duration // entry expiration time relative to now (meaningful only if Queued)
	QueuePrio   time.Duration // priority in the expiry queue relative to now
	InTokenMap  bool
}
type VerifCsEntry struct {
	Name    string
	StaleIn time.Duration
	Wire    []byte
	InMap   bool
}
type VerifPitCsDump struct {
	Nodes        int      // name tree nodes excluding root
	DeadNodes    []string // nodes with no PIT entry, no CS entry, and no descendant holding one
	Pit          []VerifPitEntry
	Cs           []VerifCsEntry
	NPit, NCs    int // the counters
	TokenMapSize int
	CsMapSize    int
	QueueLen     int
	LruOrder     []string // names in LRU queue order (front = next to evict); "?<hash>" if not in csMap
	LruLocations int
}

func VerifDumpPitCs(p *PitCsTree, now time.Time) VerifPitCsDump {
	d := VerifPitCsDump{NPit: p.nPitEntries, NCs: p.nCsEntries, TokenMapSize: len(p.pitTokenMap), CsMapSize: len(p.csMap), QueueLen: p.pitExpiryQueue.Len()}
	byIndex := map[uint64]string{}
	var walk func(n *pitCsTreeNode, path enc.Name) bool
	walk = func(n *pitCsTreeNode, path enc.Name) bool {
		live := len(n.pitEntries) > 0 || n.csEntry != nil
		for _, e := range n.pitEntries {
			pe := VerifPitEntry{Name: path.String(), CanBePrefix: e.canBePrefix, MustBeFresh: e.mustBeFresh, Satisfied: e.satisfied, Token: e.token}
			if e.forwardingHintNew != nil {
				pe.Hint = e.forwardingHintNew.String()
			}
			for _, r := range e.inRecords {
				pe.In = append(pe.In, VerifInRec{Face: r.Face, Nonce: r.LatestNonce, ExpireIn: r.ExpirationTime.Sub(now), Token: string(r.PitToken)})
			}
			sort.Slice(pe.In, func(i, j int) bool { return pe.In[i].Face < pe.In[j].Face })
			for _, r := range e.outRecords {
				pe.Out = append(pe.Out, VerifOutRec{Face: r.Face, Nonce: r.LatestNonce, Age: now.Sub(r.LatestTimestamp), ExpireIn: r.ExpirationTime.Sub(now)})
			}
			sort.Slice(pe.Out, func(i, j int) bool { return pe.Out[i].Face < pe.Out[j].Face })
			pe.Queued = e.pqItem != nil
			pe.ExpireIn = e.expirationTime.Sub(now)
			if t, ok := p.pitTokenMap[e.token]; ok && t == e {
				pe.InTokenMap = true
			}
			d.Pit = append(d.Pit, pe)
		}
		if n.csEntry != nil {
			ce := VerifCsEntry{Name: path.String(), StaleIn: n.csEntry.staleTime.Sub(now), Wire: n.csEntry.wire}
			if m, ok := p.csMap[n.csEntry.index]; ok && m == n.csEntry {
				ce.InMap = true
			}
			byIndex[n.csEntry.index] = path.String()
			d.Cs = append(d.Cs, ce)
		}
		for _, c := range n.children {
			d.Nodes++
			cp := append(append(enc.Name{}, path...), *c.component)
			if walk(c, cp) {
				live = true
			}
		}
		if !live && n.parent != nil {
			d.DeadNodes = append(d.DeadNodes, path.String())
		}
		return live
	}
	walk(p.root, enc.Name{})
	sort.Slice(d.Pit, func(i, j int) bool {
		a, b := d.Pit[i], d.Pit[j]
		if a.Name != b.Name {
			return a.Name < b.Name
		}
		if a.CanBePrefix != b.CanBePrefix {
			return !a.CanBePrefix
		}
		if a.MustBeFresh != b.MustBeFresh {
			return !a.MustBeFresh
		}
		return a.Hint < b.Hint
	})
	sort.Slice(d.Cs, func(i, j int) bool { return d.Cs[i].Name < d.Cs[j].Name })
	sort.Strings(d.DeadNodes)
	if lru, ok := p.csReplacement.(*CsLRU); ok {
		d.LruLocations = len(lru.locations)
		for e := lru.queue.Front(); e != nil; e = e.Next() {
			idx := e.Value.(uint64)
			if n, ok := byIndex[idx]; ok {
				d.LruOrder = append(d.LruOrder, n)
			} else {
				d.LruOrder = append(d.LruOrder, fmt.Sprintf("?%x", idx))
			}
		}
	}
	return d
}

// VerifDnl returns the number of entries in the dead nonce list and its queue.
func VerifDnl(d *DeadNonceList) (int, int) { return len(d.list), d.expirationQueue.Len() }
