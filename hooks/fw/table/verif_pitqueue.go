//go:build verif

// Additional white-box access (PIT expiry-queue priorities). Separate file: verif_export.go is
// shared and must not be edited. The priority of a queue item lives in an unexported field of
// std/utils/priority_queue.Item, which this package cannot name; it is READ through reflection
// (reading unexported integer fields is permitted by package reflect; nothing is written).
package table

import (
	"reflect"
	"time"
)

// VerifPitQueueEntry is the expiry-queue state of one PIT entry.
type VerifPitQueueEntry struct {
	Name        string
	CanBePrefix bool
	MustBeFresh bool
	Hint        string
	Token       uint32
	Queued      bool
	PrioIn      time.Duration // queue priority (absolute UnixNano) minus now; valid only if Queued
}

// VerifPitQueue returns, for every PIT entry in the tree, whether it sits in the expiry queue and
// with which priority (relative to now). An entry that is not queued is never reaped.
func VerifPitQueue(p *PitCsTree, now time.Time) (out []VerifPitQueueEntry) {
	var walk func(n *pitCsTreeNode)
	walk = func(n *pitCsTreeNode) {
		for _, e := range n.pitEntries {
			q := VerifPitQueueEntry{Name: e.encname.String(), CanBePrefix: e.canBePrefix, MustBeFresh: e.mustBeFresh, Token: e.token}
			if e.forwardingHintNew != nil {
				q.Hint = e.forwardingHintNew.String()
			}
			if e.pqItem != nil {
				q.Queued = true
				prio := reflect.ValueOf(e.pqItem).Elem().FieldByName("priority").Int()
				q.PrioIn = time.Duration(prio - now.UnixNano())
			}
			out = append(out, q)
		}
		for _, c := range n.children {
			walk(c)
		}
	}
	walk(p.root)
	return
}
