#!/usr/bin/env python3
"""Prints the seeded-change statistics table (markdown) from /verif/seeded/*/meta.json."""
import json, glob, collections
tot=collections.Counter(); first=collections.Counter(); now=collections.Counter(); npb=collections.Counter(); cross=collections.Counter()
for f in sorted(glob.glob('/verif/seeded/*/meta.json')):
    m=json.load(open(f)); p=m['property']
    tot[p]+=1
    det=m['our_check']['detected']
    now[p]+=det
    first[p]+= (det and m.get('first_run_detected',True))
    if m.get('judged_not_property_breaking'): npb[p]+=1
    s=m.get('strengthening','')
    if not det and ('detected by C' in s): cross[p]+=1
print('| property | seeds | detected on first run | detected now | caught by a sibling check | judged not property-breaking | still missed |')
print('|---|---|---|---|---|---|---|')
for p in sorted(tot):
    print(f'| {p} | {tot[p]} | {first[p]} | {now[p]} | {cross[p]} | {npb[p]} | {tot[p]-now[p]-cross[p]-npb[p]} |')
T=sum(tot.values())
print(f'| **all** | {T} | {sum(first.values())} | {sum(now.values())} | {sum(cross.values())} | {sum(npb.values())} | {T-sum(now.values())-sum(cross.values())-sum(npb.values())} |')
