#!/bin/bash
# usage: tools/recheck_seed.sh <seed name> [<ID of the check to run, default: the seed's property>] [tier]
# Re-runs a check against an already confirmed seed (scratch worktree) and updates meta.json:our_check
# (or meta.json:sibling_check when the check is not the seed's own property).
N="$1"; D="/verif/seeded/$N"; OWN="${N%%-*}"; ID="${2:-$OWN}"; TIER="${3:-quick}"
OUT="$(/verif/tools/mutate.sh "$D/patch.diff" "$ID" "$TIER" 2>&1)"
RC=$(echo "$OUT" | sed -n 's/^MUTANT: check exit=\([0-9]*\).*/\1/p'); NV=$(echo "$OUT" | sed -n 's/^MUTANT: check exit=[0-9]* violations=\([0-9]*\).*/\1/p')
FIRST="$(echo "$OUT" | grep -m1 '^VIOLATION' | sed 's/replay=[^ ]* //' | cut -c1-400)"
python3 - "$D/meta.json" "$OWN" "$ID" "$TIER" "${RC:-9}" "${NV:-0}" "$FIRST" <<'PY'
import json,sys
p,own,pid,tier,rc,nv,first=sys.argv[1:8]
m=json.load(open(p))
rec={'command':f'VERIF_REPO=<scratch> ./check {pid} --tier {tier}','exit':int(rc),'violations':int(nv),'detected':int(rc)==1,'first_violation':first}
if pid==own:
    if 'first_run_detected' not in m: m['first_run_detected']=bool(m.get('our_check',{}).get('detected'))
    m['our_check']=rec
else:
    m['sibling_check']=dict(rec, property=pid)
json.dump(m,open(p,'w'),indent=1)
print(sys.argv[1].split('/')[-2], pid, 'exit', rc, 'violations', nv)
PY
