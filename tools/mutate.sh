#!/bin/bash
# usage: tools/mutate.sh <patch.diff> <ID> [tier]  -- applies a patch to /repo, runs the check, reverts.
P="$(realpath "$1")"; ID="$2"; TIER="${3:-quick}"
git -C /repo apply "$P" || { echo "patch does not apply"; exit 3; }
/verif/check "$ID" --tier "$TIER" > /tmp/mut.$$.log 2>&1; rc=$?
git -C /repo checkout -- . ; git -C /repo clean -fdq
echo "exit=$rc"; grep -c '^VIOLATION' /tmp/mut.$$.log; grep -m3 '^VIOLATION\|CHECK-ERROR' /tmp/mut.$$.log | cut -c1-400; rm -f /tmp/mut.$$.log
exit $rc
