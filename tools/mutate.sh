#!/bin/bash
# usage: tools/mutate.sh <patch.diff> <ID> [tier] [--tests]
# Applies a patch to a SCRATCH worktree of /repo (never to /repo itself), optionally runs the
# repository's own test suite there (--tests: must still pass for a valid mutant), runs the check
# against the scratch tree, prints a summary, removes the worktree. Exit code = the check's.
P="$(realpath "$1")"; ID="$2"; TIER="quick"; TESTS=0
shift 2
for a in "$@"; do case "$a" in --tests) TESTS=1;; *) TIER="$a";; esac; done
export GOFLAGS=-mod=mod GOPROXY=off GOSUMDB=off GOTOOLCHAIN=local
WT="$(mktemp -d /tmp/mut-XXXXXX)"; rmdir "$WT"
git -C /repo worktree add -q --detach "$WT" HEAD || exit 3
# carry uncommitted changes of /repo (normally none)
git -C /repo diff | git -C "$WT" apply 2>/dev/null
cleanup() { git -C /repo worktree remove --force "$WT" 2>/dev/null; rm -rf "$WT" /verif/.build/*-"$(echo "$WT" | md5sum | cut -c1-8)"; }
trap cleanup EXIT
git -C "$WT" apply "$P" || { echo "MUTANT: patch does not apply"; exit 3; }
if [ $TESTS = 1 ]; then
  if (cd "$WT" && go build ./... && go test -vet=off -count=1 ./... ) > "$WT.tests.log" 2>&1; then echo "MUTANT: builds, repository tests PASS"; else echo "MUTANT: INVALID (build or repository tests fail)"; tail -20 "$WT.tests.log"; rm -f "$WT.tests.log"; exit 4; fi
  rm -f "$WT.tests.log"
fi
LOG="$(mktemp /tmp/mutlog-XXXXXX)"
VERIF_REPO="$WT" /verif/check "$ID" --tier "$TIER" > "$LOG" 2>&1; rc=$?
echo "MUTANT: check exit=$rc violations=$(grep -c '^VIOLATION' "$LOG")"
grep -m3 '^VIOLATION\|CHECK-ERROR' "$LOG" | cut -c1-500
rm -f "$LOG"
exit $rc
