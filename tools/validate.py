#!/opt/veriftools/pyvenv/bin/python
import json, jsonschema, sys, glob
m = json.load(open('/verif/MANIFEST.json'))
jsonschema.validate(m, json.load(open('/root/.vp/MANIFEST.schema.json')))
es = json.load(open('/root/.vp/EVIDENCE.schema.json'))
ok = True
for c in m['checks']:
    f = c['evidence_file']
    try:
        e = json.load(open(f))
        jsonschema.validate(e, es)
        if e['level'] != c['level_claimed']['category']:
            print('LEVEL MISMATCH', f); ok = False
    except Exception as ex:
        print('INVALID', f, str(ex)[:300]); ok = False
print('manifest valid; evidence', 'ok' if ok else 'PROBLEMS')
sys.exit(0 if ok else 1)
