#!/bin/bash
# usage: tools/regress_seeds.sh [parallel] [ID...]  - re-runs every confirmed seed that is recorded as detected
# (by its own check, or by a sibling check) and prints the ones that are NOT detected any more.
# Read-only with respect to meta.json; results go to stdout (one line per seed).
P="${1:-3}"; shift
IDS="$*"
cd /verif
python3 - "$IDS" <<'PY' | xargs -r -P "$P" -L 1 bash -c 'out=$(tools/mutate.sh "seeded/$0/patch.diff" "$1" quick 2>&1 | grep "^MUTANT: check"); echo "$0 $1 $out"'
import json,glob,sys,os
ids=sys.argv[1].split()
for f in sorted(glob.glob('/verif/seeded/*/meta.json')):
    m=json.load(open(f)); n=os.path.basename(os.path.dirname(f)); p=m['property']
    if ids and p not in ids and not (m.get('sibling_check',{}).get('property') in ids): continue
    if m['our_check']['detected']:
        print(n,p)
    elif m.get('sibling_check',{}).get('detected'):
        print(n,m['sibling_check']['property'])
PY
