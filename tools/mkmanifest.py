#!/usr/bin/env python3
"""Regenerates /verif/MANIFEST.json from tools/checks.json (claimed) and tools/not_applicable.json."""
import json, os
root = os.path.dirname(os.path.dirname(os.path.abspath(__file__)))
checks = json.load(open(os.path.join(root, "tools/checks.json")))
na = json.load(open(os.path.join(root, "tools/not_applicable.json")))
props = [json.loads(l)["id"] for l in open(os.path.join(root, "properties.jsonl")) if l.strip()]
engines = {}
out_checks = []
for pid in props:
    if pid not in checks:
        continue
    c = checks[pid]
    engines.setdefault(c["engine"], []).append(pid)
    out_checks.append({
        "property_id": pid,
        "quick_cmd": f"./check {pid} --tier quick",
        "thorough_cmd": f"./check {pid} --tier thorough",
        "evidence_file": f"/verif/evidence/{pid}.json",
        "replay_cmd_template": f"./check {pid} --replay {{path}}",
        "engine": c["engine"],
        "level_claimed": {"category": c["category"], "text": c["text"], "design_ref": c.get("design_ref", "DESIGN.md")},
        "level_note": c["note"],
        "technique": c["technique"],
    })
eng_desc = {
    "explore": ("mc/explore", "explicit-state breadth-first search whose transition function is the real implementation (fresh instance + history replay), canonical-state de-duplication, multi-process sharding"),
    "sched": ("mc/sched", "controlled cooperative scheduler + stateless DFS over interleavings with iterative preemption bounding"),
    "enum": ("mc/enum", "bounded exhaustive input enumeration (odometers over boundary domains, deviation bounding), sharded"),
}
manifest = {
    "version": 1,
    "setup_cmd": "./setup.sh",
    "hooks": {
        "guard": "verif",
        "enable": "go build -tags verif -overlay <generated overlay.json>: hook files live in /verif/hooks/<pkg>/ (shared) and /verif/harness/<id>/hooks/<pkg>/ (one check only), all //go:build verif, and are added to the repository packages through the build overlay together with rewritten copies (time/math-rand/sync imports redirected to /verif/shim) generated from the CURRENT /repo working tree by cmd/xform at every check; /repo itself carries no hook code",
        "baseline_off_cmd": "cd /repo && GOFLAGS=-mod=mod GOPROXY=off GOSUMDB=off GOTOOLCHAIN=local go test -vet=off -count=1 -timeout 25m ./...",
        "source_commits": [],
        "add_only": True,
    },
    "engines": [{"name": k, "path": eng_desc[k][0], "serves_properties": v, "kind_free_text": eng_desc[k][1]} for k, v in engines.items()],
    "checks": out_checks,
    "not_applicable": [{"property_id": p, "reason": na[p]} for p in props if p not in checks],
    "notes": "All checks are bounded exhaustive explorations executed on the real code; see DESIGN.md. Exit 0 = held on everything explored, 1 = VIOLATION, 2 = CHECK-ERROR (the check itself is broken, e.g. harness no longer builds).",
}
for p in props:
    if p not in checks and p not in na:
        raise SystemExit(f"{p}: neither claimed nor not_applicable")
json.dump(manifest, open(os.path.join(root, "MANIFEST.json"), "w"), indent=1)
print("claimed:", [c["property_id"] for c in out_checks])
