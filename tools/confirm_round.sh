#!/bin/bash
# usage: tools/confirm_round.sh <round> [parallel] [ID...]  - confirm every /tmp/seedout/<ID>-<round>-<i>/ not yet in /verif/seeded
R="$1"; P="${2:-3}"; shift; shift
IDS="$*"
cd /verif
for d in /tmp/seedout/C??-"$R"-?; do
  [ -f "$d/patch.diff" ] || continue
  n="$(basename "$d")"; id="${n%%-*}"
  if [ -n "$IDS" ] && ! echo " $IDS " | grep -q " $id "; then continue; fi
  [ -d "/verif/seeded/$n" ] && continue
  echo "$d $id"
done | xargs -r -P "$P" -L 1 bash -c 'tools/confirm_seed.sh "$0" "$1" 2>&1 | grep "^SEED"'
