#!/usr/bin/env python3
"""usage: addtext.py <ID> <text|note|technique> <string to append>  - appends to tools/checks.json (idempotent)"""
import json, sys, os
root = os.path.dirname(os.path.dirname(os.path.abspath(__file__)))
p = os.path.join(root, "tools/checks.json")
c = json.load(open(p))
pid, field, s = sys.argv[1], sys.argv[2], sys.argv[3]
if s.strip() not in c[pid][field]:
    c[pid][field] = c[pid][field].rstrip() + (" " if not s.startswith(";") else "") + s.strip()
json.dump(c, open(p, "w"), indent=1)
