#!/bin/bash
# usage: tools/confirm_seed.sh <seed dir with patch.diff, demo test, meta.json> <ID> [tier]
# Confirms a seeded change independently in a scratch worktree: (1) builds, (2) repository tests
# pass with it, (3) the demo fails with it, (4) the demo passes without it; then runs our check
# against it. Records everything into /verif/seeded/<name>/ (patch.diff, demo, meta.json).
D="$(realpath "$1")"; ID="$2"; TIER="${3:-quick}"
NAME="$(basename "$D")"
export GOFLAGS=-mod=mod GOPROXY=off GOSUMDB=off GOTOOLCHAIN=local
WT="$(mktemp -d /tmp/seedchk-XXXXXX)"; rmdir "$WT"
git -C /repo worktree add -q --detach "$WT" HEAD || exit 3
trap 'git -C /repo worktree remove --force "$WT" 2>/dev/null; rm -rf "$WT"' EXIT
DEMO="$(ls "$D" | grep -E '_test\.go$|\.go$' | head -1)"
PKG="$(python3 - "$D/patch.diff" <<'PY'
import sys,re,os
files=re.findall(r'^\+\+\+ b/(.*)$', open(sys.argv[1]).read(), re.M)
print(os.path.dirname(files[0]))
PY
)"
# demo package: from meta.json if present
DP="$(python3 -c "
import json,os
m=json.load(open('$D/meta.json'))
d=m.get('demo_package','')
if not d and m.get('demo_test_location'): d=os.path.dirname(m['demo_test_location'])
print(d)" 2>/dev/null)"
[ -n "$DP" ] && PKG="$DP"
cp "$D/$DEMO" "$WT/$PKG/"
res() { echo "$1"; }
# (4) demo passes without the change
( cd "$WT" && go test -vet=off -count=1 -run . "./$PKG" > "$WT.clean.log" 2>&1 ); CLEAN=$?
git -C "$WT" apply "$D/patch.diff" || { echo "SEED: patch does not apply"; exit 4; }
( cd "$WT" && go build ./... > "$WT.build.log" 2>&1 ); BUILD=$?
# (3) demo fails with the change
( cd "$WT" && go test -vet=off -count=1 -run . "./$PKG" > "$WT.demo.log" 2>&1 ); DEMOFAIL=$?
# (2) repository tests pass with the change (demo removed)
rm -f "$WT/$PKG/$DEMO"
( cd "$WT" && go test -vet=off -count=1 ./... > "$WT.tests.log" 2>&1 ); TESTS=$?
LOG="$(mktemp /tmp/seedlog-XXXXXX)"
VERIF_REPO="$WT" /verif/check "$ID" --tier "$TIER" > "$LOG" 2>&1; RC=$?
NV=$(grep -c '^VIOLATION' "$LOG"); FIRST="$(grep -m1 '^VIOLATION' "$LOG" | sed 's/replay=[^ ]* //' | cut -c1-400)"
OK=1; [ $CLEAN = 0 ] && [ $BUILD = 0 ] && [ $DEMOFAIL != 0 ] && [ $TESTS = 0 ] || OK=0
echo "SEED $NAME: demo_passes_clean=$([ $CLEAN = 0 ] && echo yes || echo NO) builds=$([ $BUILD = 0 ] && echo yes || echo NO) demo_fails_with_patch=$([ $DEMOFAIL != 0 ] && echo yes || echo NO) repo_tests_pass=$([ $TESTS = 0 ] && echo yes || echo NO) => valid=$OK ; check exit=$RC violations=$NV"
if [ $OK = 1 ]; then
  mkdir -p "/verif/seeded/$NAME"
  cp "$D/patch.diff" "$D/$DEMO" "/verif/seeded/$NAME/"
  python3 - "$D/meta.json" "/verif/seeded/$NAME/meta.json" "$ID" "$TIER" "$RC" "$NV" "$FIRST" "$PKG" <<'PY'
import json,sys
src,dst,pid,tier,rc,nv,first,pkg=sys.argv[1:9]
try: m=json.load(open(src))
except Exception: m={}
m['property']=pid
m['demo_package']=pkg
m['confirmed_by_lead']={'builds':True,'repo_tests_pass_with_patch':True,'demo_fails_with_patch':True,'demo_passes_without':True,
  'how':'tools/confirm_seed.sh in a scratch git worktree of /repo HEAD: go test of the demo before applying the patch (pass), go build ./..., go test of the demo after applying (fail), full go test -vet=off -count=1 ./... without the demo (pass)'}
m['our_check']={'command':f'VERIF_REPO=<scratch> ./check {pid} --tier {tier}','exit':int(rc),'violations':int(nv),'detected':int(rc)==1,'first_violation':first}
json.dump(m,open(dst,'w'),indent=1)
PY
fi
rm -f "$LOG" "$WT".*.log
rm -rf /verif/.build/*-"$(echo "$WT" | md5sum | cut -c1-8)"
exit 0
