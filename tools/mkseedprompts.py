#!/usr/bin/env python3
"""Generate the prompts for one round of independent seeded-change agents.

usage: mkseedprompts.py <round> [K]   -> /tmp/seedout/prompt-<ID>-<round>.txt for every property

The prompt carries only the property text (title, statement, quantifier, anchored files) and one-line
descriptions of the changes earlier rounds already produced (so that the new ones differ); nothing about
/verif's checks, models or oracles.
"""
import json, os, sys, glob

rnd = sys.argv[1]
K = sys.argv[2] if len(sys.argv) > 2 else "3"
root = os.path.dirname(os.path.dirname(os.path.abspath(__file__)))
tmpl = open("/tmp/seedout/PROMPT_TEMPLATE.txt").read() if os.path.exists("/tmp/seedout/PROMPT_TEMPLATE.txt") else open(os.path.join(root, "tools/SEED_PROMPT_TEMPLATE.txt")).read()

EMPH = {
    "10": ("This is the tenth round. Prefer changes of these kinds, which earlier rounds under-used: "
          "(a) results that cross a layer boundary: a function that reports (value, ok) / (n, err) and now says ok for a partial result, a caller that stops looking at a returned flag, "
          "an error that is logged instead of returned - the callee stays right, the CALLER now acts on something slightly wrong in one situation; "
          "(b) the order of 'tell others' and 'update myself': a callback / notification / reply issued before the state change it announces (or after a state change it should precede), "
          "so that a re-entrant or immediately following operation sees the old state; "
          "(c) the second life of an identity: remove-then-add of the same name / face / neighbour / version / sequence, re-registration after expiry, an id or token reused after its owner went away, "
          "a restart that continues from a counter which should restart (or the reverse); "
          "(d) long jumps in time: the clock advances by many periods in ONE step (several deadlines, several heartbeat intervals, refresh and expiry due at once) and a loop handles only the first, "
          "re-arms from the wrong base, or processes them in the wrong order; "
          "(e) partial failure among several: one of N next hops / faces / segments / neighbours / commands fails or is absent and the handling of the REST changes (stops early, skips the successor, double-counts); "
          "(f) estimates vs actuals: a size / length / count computed ahead of time that differs from the real one only for one shape (a shorter signature, a longer length field, a slice that grew past its capacity "
          "and stopped aliasing - or started to); "
          "(g) identity vs equality: comparison by pointer where by value is needed (or the reverse), a shallow copy where a deep one is needed, a map keyed by something that is equal for two different things "
          "(or different for two equal things) in one rare shape. "),
    "9": ("This is the ninth round. Prefer changes of these kinds, which earlier rounds under-used: "
          "(a) iteration while mutating: removing from a slice or map while ranging over it, an index that is not adjusted after a deletion, swap-with-last removal that skips the "
          "swapped-in element, a loop that stops after the first match where two ADJACENT elements qualify - visible only when two qualifying items sit next to each other; "
          "(b) duplicates and multiplicity: the same item present twice (two routes of one face, one neighbour over two faces, the same name under two types, a repeated element in a list), "
          "de-duplication applied on one path but not on the other, a count that is taken before vs after de-duplication; "
          "(c) stale derived values: a cached hash / length / encoded wire / sorted order / 'best' pointer that is not invalidated after ONE particular mutation, a memoised result "
          "re-used across a change of configuration, a snapshot taken too early; "
          "(d) scope of state: something that must be per-face / per-thread / per-entry / per-call hoisted to a wider scope (package-level scratch buffer, shared slice re-sliced to [:0], "
          "one timer for many entries), or the reverse (a per-instance copy of what must be shared) - visible only with two instances alive at once; "
          "(e) compound guards: one operand of a multi-part condition changed (&& vs ||, a negation, a dropped conjunct, nil-check vs length-check) so that exactly ONE of the four "
          "or eight combinations behaves differently, and that combination is rare; "
          "(f) protocol constants at their exact limit: hop limit 1 and 255, cost 15/16 (infinity), the minimum MTU, maximum packet size, 252/253/65535/65536-byte lengths, sequence or version "
          "wrap-around, the last slot of a fixed-size table, exactly-full buffers; "
          "(g) start-up and defaults: the path the real daemon takes when it constructs the object (constructor A vs constructor B, configuration defaults, a zero value that means "
          "'use default' on one path and 'zero' on another), first use right after creation, behaviour before the first timer tick. "),
    "8": ("This is the eighth round. Prefer changes of these kinds, which earlier rounds under-used: "
          "(a) OBSERVATION channels the property names but ordinary tests never read: reported sizes and counters, status codes and echoed parameters, dataset fields, "
          "returned booleans/errors, the token or mark carried along - the main effect stays right, what is reported or passed on is wrong in one situation; "
          "(b) determinism of ordering and tie-breaking: a result that starts to depend on map iteration order, an unstable sort, equal-cost or equal-time ties resolved differently on two paths; "
          "(c) the boundary between two representations of 'nothing': nil vs empty, zero vs absent optional field, a default applied on one path but not the other, an option cleared vs never set; "
          "(d) coincidences in time: two events at the same instant, an entry refreshed exactly at / just before its expiry, a timer re-armed from the wrong base, an operation arriving between the "
          "two halves of another (after the check, before the update); "
          "(e) a multi-step update that stops half-way: an early return, an error or a 'nothing to do' shortcut that leaves one of two structures updated (routing table vs forwarding table, "
          "index map vs queue, pending table vs token map, store vs metadata); "
          "(f) rarely exercised protocol features: forwarding hints, implicit digests, FinalBlockId, MustBeFresh together with CanBePrefix, congestion marks, Nack reasons, link types "
          "(multi-access / ad hoc), face persistency, expiration periods, second-best next hops. "),
    "7": ("This is the seventh round. Prefer changes of these kinds, which earlier rounds under-used: "
          "(a) memory aliasing and buffer re-use: a defensive copy dropped or moved, a returned slice that aliases internal state, append() on a shared backing array, "
          "a pooled/re-used object not reset, a value captured by reference and changed later - visible only when the caller or a later operation re-uses the memory; "
          "(b) scale-dependent thresholds: a queue/channel/batch capacity, a per-tick or per-call cap on work, a counter that saturates or wraps, a limit summed over the wrong scope - "
          "correct for small runs, wrong only beyond the threshold; "
          "(c) restart / re-creation / reconfiguration at run time: an object closed and re-created under the same identity, a sequence number or version that restarts lower, "
          "a setting changed through its run-time setter after use, state keyed by an identifier that gets re-used; "
          "(d) faults from the environment: a send/write that fails, a closed face or store, a full queue, a lookup that returns nothing - the error path reports twice, not at all, "
          "or leaves a half-done update behind; "
          "(e) a slip in GENERIC code used by many callers (encoding readers/writers, the TLV generator's templates, name/component helpers, priority queue, tries) that only affects one rare "
          "type, shape, size or segmentation - remember to regenerate generated code if you touch a template; "
          "(f) two cooperating edits that are each harmless alone (a guard removed in one place because another place 'already checks', a field initialised in one constructor but not the other). "),
    "6": ("This is the sixth round. Prefer changes of these kinds, which earlier rounds under-used: "
          "(a) behaviour under NON-DEFAULT configuration values or option combinations (read the configuration/option structs the code consults: thread counts, "
          "capacities 0/1, lifetimes, table algorithm parameters, MTU, feature flags on/off, local-fields/congestion/reliability options) where the default path stays correct; "
          "(b) time boundaries: < vs <= on instants, exactly-equal deadlines, zero or very large durations, millisecond/nanosecond unit slips, a deadline computed from the wrong base time, "
          "an expiry refreshed/not refreshed on one path; "
          "(c) idempotence and repetition: the same operation issued twice, removing something absent, re-adding something present, a second identical packet, close twice, "
          "an update that should be a no-op but is not (or should not be a no-op but is); "
          "(d) interaction of TWO subsystems the property touches (cache + pending table, routing table + face table, fragmentation + header options, signer + encoder, store + fetcher) "
          "where each is right alone; "
          "(e) the LAST element / the ONLY element / the element equal to a bound in a loop or slice operation (off-by-one at the end, empty result vs nil, first-vs-last on ties). "),
    "5": ("This is the fifth round. Prefer changes of these kinds, which earlier rounds under-used: "
          "(a) a change in a HELPER the property's code relies on rather than in the obvious file (encoding/utility helpers, priority queue, "
          "name/hash helpers, option/config parsing, constants and defaults) whose effect only shows through the property's code path; "
          "(b) lifecycle slips: cleanup/close/reset paths, re-initialisation, re-use of an object after it was closed or emptied, state that survives a "
          "remove-then-re-add of the same key, counters or indices not reset; "
          "(c) integer width/conversion slips (uint16/uint32/int casts, truncation, signed/unsigned comparison, overflow at a size threshold such as 253, 65536, MTU, capacity); "
          "(d) ordering of two writes or of a check and an update (check-then-act, publish-before-initialise, a lock scope narrowed by one statement, an early unlock), "
          "visible only under one specific interleaving or re-entrant call; "
          "(e) an error path that swallows or mis-propagates (returns nil error with a partial result, continues instead of returning, retries the wrong thing). "),
    "4": ("This is the fourth round. Prefer changes of these kinds, which earlier rounds under-used: "
          "(a) a DIFFERENT entry point or code path reaching the same state (an alternative public function, an error/early-return path, "
          "a rarely-taken branch such as a retransmission, an update of an existing item rather than an insert, a removal of the last/only/middle item); "
          "(b) interaction between two features (two options, two kinds of entry living under the same name/prefix, an operation arriving while an earlier one is half-finished or already expired); "
          "(c) arithmetic/ordering slips in comparisons (< vs <=, wrong operand, unsigned wrap-around, a sort or tie-break changed, first-match vs best-match); "
          "(d) a value computed from the WRONG one of two similar variables (loop variable vs captured variable, old vs new value, parent vs child). "),
}

for line in open(os.path.join(root, "properties.jsonl")):
    p = json.loads(line)
    pid = p["id"]
    prior = []
    for m in sorted(glob.glob(os.path.join(root, "seeded", pid + "-*", "meta.json"))):
        try:
            j = json.load(open(m))
        except Exception:
            continue
        files = ",".join(j.get("files_changed", []))
        prior.append("- [%s] %s" % (files, " ".join(str(j.get("what_it_breaks", "")).split())[:260]))
    extra = EMPH.get(rnd, "")
    if prior:
        extra += ("Earlier rounds already produced the following changes for this property - produce DIFFERENT ones "
                  "(different code location or mechanism):\n" + "\n".join(prior) + "\n")
    extra += ('Record in meta.json the field "demo_package" = the repo-relative directory the demo test file belongs in. '
              "Do NOT use `git stash` (stashes are shared between worktrees and other engineers work concurrently); "
              "use `git diff > file`, `git checkout -- .` and `git apply` instead.")
    files = (p.get("anchors") or {}).get("files", [])
    if isinstance(files, list):
        files = ", ".join(f if isinstance(f, str) else json.dumps(f) for f in files)
    q = p.get("quantifier", {})
    s = (tmpl.replace("@ID@", pid).replace("@N@", rnd).replace("@K@", K)
         .replace("@TITLE@", p["title"]).replace("@STATEMENT@", p["statement"])
         .replace("@QUANT@", q.get("text", "") if isinstance(q, dict) else str(q))
         .replace("@FILES@", files).replace("@EXTRA@", extra))
    out = "/tmp/seedout/prompt-%s-%s.txt" % (pid, rnd)
    open(out, "w").write(s)
    print(out, len(s))
