#!/bin/bash
# usage: tools/applyfix.sh <patch.diff> "<fix: commit message>"
# Applies a reviewed fix patch to a scratch worktree of /repo HEAD, builds, runs the repository's
# own tests, commits there and cherry-picks the commit onto /repo (one defect per commit).
P="$(realpath "$1")"; MSG="$2"
case "$MSG" in fix:*) ;; *) echo "message must start with fix:"; exit 2;; esac
export GOFLAGS=-mod=mod GOPROXY=off GOSUMDB=off GOTOOLCHAIN=local
WT="$(mktemp -d /tmp/applyfix-XXXXXX)"; rmdir "$WT"
git -C /repo worktree add -q --detach "$WT" HEAD || exit 3
trap 'git -C /repo worktree remove --force "$WT" 2>/dev/null' EXIT
git -C "$WT" apply "$P" || { echo "APPLYFIX: patch does not apply"; exit 4; }
( cd "$WT" && go build ./... && go test -vet=off -count=1 ./... ) > "$WT.log" 2>&1 || { echo "APPLYFIX: build/tests FAIL"; tail -20 "$WT.log"; rm -f "$WT.log"; exit 5; }
rm -f "$WT.log"
git -C "$WT" add -A && git -C "$WT" commit -qm "$MSG" || exit 6
C=$(git -C "$WT" log --format=%H -1)
git -C /repo cherry-pick "$C" > /dev/null || { echo "APPLYFIX: cherry-pick failed"; exit 7; }
echo "APPLYFIX: $(git -C /repo log --format='%h %s' -1)"
