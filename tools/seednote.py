#!/usr/bin/env python3
"""usage: seednote.py <seed name> <note>   - records that the first run missed the seed and what was strengthened"""
import json, sys
p = '/verif/seeded/%s/meta.json' % sys.argv[1]
m = json.load(open(p))
m['first_run_detected'] = False
m['strengthening'] = sys.argv[2]
json.dump(m, open(p, 'w'), indent=1)
print(sys.argv[1], 'detected now:', m['our_check']['detected'])
