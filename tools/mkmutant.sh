#!/bin/bash
# usage: tools/mkmutant.sh <ID> <name> <repo-relative-file> <python-replace-old> <python-replace-new>
# Creates /verif/mutants/<ID>/<name>.diff by replacing the first occurrence of <old> with <new> in a scratch worktree.
ID="$1"; NAME="$2"; F="$3"; OLD="$4"; NEW="$5"
WT="$(mktemp -d /tmp/mkmut-XXXXXX)"; rmdir "$WT"
git -C /repo worktree add -q --detach "$WT" HEAD || exit 3
trap 'git -C /repo worktree remove --force "$WT"' EXIT
OLD="$OLD" NEW="$NEW" python3 - "$WT/$F" <<'PY'
import os,sys
p=sys.argv[1]; s=open(p).read(); old=os.environ['OLD']; new=os.environ['NEW']
if old not in s: sys.exit("pattern not found")
open(p,'w').write(s.replace(old,new,1))
PY
[ $? = 0 ] || exit 4
mkdir -p "/verif/mutants/$ID"
git -C "$WT" diff > "/verif/mutants/$ID/$NAME.diff"
echo "wrote /verif/mutants/$ID/$NAME.diff ($(wc -l < /verif/mutants/$ID/$NAME.diff) lines)"
