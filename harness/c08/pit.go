package main

// PIT side of C08: Interest / Data / time histories on ONE real forwarding thread (harness/fwsim);
// after every transition the counters must equal the true number of entries and no entry may
// outlive its records; every reached state is then closed under quiescence: the clock is advanced
// beyond every lifetime involved with the periodic reaper running, after which the PIT, its token
// map and expiry queue and the dead nonce list must be empty and the name tree must hold only
// paths to live cache entries.

import (
	"fmt"
	"sort"
	"strings"
	"time"

	"verif/harness/fwsim"
	"verif/mc/explore"
	"verif/mc/report"
)

type pitInst struct {
	sim *fwsim.Sim
	// tokens this forwarder attached to Interests it sent upstream, in order
	tokens [][]byte
	// entries seen without any record (satisfied or answered from cache): key -> first seen
	bare map[string]time.Time
	// latest deadline (arrival + lifetime) among the Interests recorded in a PIT entry since it
	// was created: key -> deadline
	deadline map[string]time.Time
	// reference of "satisfied": PIT entries holding an unexpired Interest that an arriving Data
	// satisfied by the rule of the property text (echo of the token this forwarder attached, else
	// name equal / prefix with CanBePrefix), whatever face the Data arrived on: key -> arrival time.
	// Independent of the implementation's own satisfied flag and record clearing.
	satAt map[string]time.Time
	// entries created for (or holding nothing but) an Interest that was answered from the cache - a
	// Data copy went back to the Interest's face within the arrival call: key -> arrival time. Such
	// an entry is satisfied the moment it comes into being ("including entries created for Interests
	// answered from the cache"), whatever records the forwarder keeps in it.
	csHitAt map[string]time.Time
	// C08.when findings made just BEFORE a periodic reaper run inside a T op (see step)
	pre []report.Violation
}

type pitSys struct {
	cfg fwsim.Config
	ops []explore.Op
	do  map[string]func(in *pitInst)
	// longest Interest lifetime of the alphabet (length of the quiescent period)
	maxLife time.Duration
}

const tick = 100 * time.Millisecond

// csMode: "cs" = admit + serve, "csa" = admit only (every Data is cached, no Interest is answered
// from the cache: cache entries and pending Interests share name-tree nodes), "nocs" = neither.
// capacity: content-store capacity (a management-configurable value); with the 2-3 Data names of
// the alphabets, capacity >= 3 never evicts, 2 evicts in the "pitc" alphabet only, 1 evicts as soon
// as a second name is cached, 0 evicts every Data right after it was admitted.
// own: the PIT reaper runs only when the table's OWN timer has fired (fwsim.Config.OwnPitTimer), as
// in Thread.Run(), instead of unconditionally after every 100 ms clock step.
func newPitSys(slice, strategy, csMode, fib string, capacity int, own bool) *pitSys {
	s := &pitSys{do: map[string]func(in *pitInst){}, maxLife: time.Second}
	s.cfg = fwsim.Config{
		OwnPitTimer: own,
		FibAlgo:     fib, HashtableM: 2, CsCapacity: capacity, CsCapacityExact: true,
		CsAdmit: csMode == "cs" || csMode == "csa", CsServe: csMode == "cs", DnlLifetime: 2 * time.Second,
		Routes:     []fwsim.Route{{Prefix: "/a", Face: fwsim.N2, Cost: 1}, {Prefix: "/", Face: fwsim.N3, Cost: 2}},
		Strategies: []fwsim.StrategyChoice{{Prefix: "/", Strategy: strategy}},
	}
	if strategy == "mix" {
		// the strategy is chosen per prefix: best-route by default, multicast under /a/b
		s.cfg.Strategies = []fwsim.StrategyChoice{{Prefix: "/", Strategy: fwsim.BestRoute}, {Prefix: "/a/b", Strategy: fwsim.Multicast}}
	}
	add := func(n string, f func(in *pitInst)) {
		if _, dup := s.do[n]; dup {
			report.Fatal("pit alphabet: duplicate op %q", n)
		}
		s.ops = append(s.ops, explore.Op{Name: n})
		s.do[n] = f
	}
	// addI: one Interest arrival. mbf = MustBeFresh.
	addI := func(face uint64, name string, cbp, mbf bool, nonce uint32, life time.Duration) {
		label := fmt.Sprintf("I(f%d,%s,cbp=%v,n%d,%v)", face, name, cbp, nonce, life)
		if mbf {
			label = fmt.Sprintf("I(f%d,%s,cbp=%v,mbf,n%d,%v)", face, name, cbp, nonce, life)
		}
		add(label, func(in *pitInst) {
			k := entryKey(name, cbp, mbf, "")
			sent := in.interest(face, fwsim.InterestSpec{Name: name, CanBePrefix: cbp, MustBeFresh: mbf, Nonce: fwsim.U32(nonce), Lifetime: fwsim.Dur(life)}, fwsim.LP{}, k, life)
			for _, x := range sent {
				if x.Kind == fwsim.KInterest && len(x.PitToken) > 0 {
					in.tokens = append(in.tokens, x.PitToken)
				}
			}
		})
	}
	// addD: one Data arrival on `face`. fresh < 0: no FreshnessPeriod (stale as soon as cached).
	// tok "echo": the Data echoes the token this forwarder attached to the last Interest it sent.
	addD := func(face uint64, name string, fresh time.Duration, tok string) {
		label := fmt.Sprintf("D(f%d,%s,tok=%s)", face, name, tok)
		if fresh < 0 {
			label = fmt.Sprintf("D(f%d,%s,nofresh,tok=%s)", face, name, tok)
		}
		add(label, func(in *pitInst) {
			lp := fwsim.LP{}
			if tok == "echo" && len(in.tokens) > 0 {
				lp.PitToken = in.tokens[len(in.tokens)-1]
			}
			ds := fwsim.DataSpec{Name: name, Content: "x"}
			if fresh >= 0 {
				ds.Freshness = fwsim.Dur(fresh)
			}
			in.data(face, ds, lp)
		})
	}
	tops := func(dts ...time.Duration) {
		for _, dt := range dts {
			dt := dt
			add(fmt.Sprintf("T(%v)", dt), func(in *pitInst) { in.run(dt) })
		}
	}
	switch slice {
	case "pit":
		s.basePit(add, addI, addD)
		tops(100*time.Millisecond, 300*time.Millisecond, 1100*time.Millisecond)
	case "pitm":
		// Data that satisfies SEVERAL pending Interests at once (exact name + CanBePrefix on a
		// prefix + the MustBeFresh twin on the same node: the multi-match branch of the Data
		// pipeline) and Data arriving on a face that is itself a downstream (consumer and producer
		// behind the same face), possibly the only one of an entry; lifetimes {0, 1 s}: an explicit
		// InterestLifetime of 0 is a legal value (the Interest expires at once).
		for _, face := range []uint64{fwsim.L1, fwsim.N4} {
			for _, life := range []time.Duration{time.Second, 0} {
				addI(face, "/a", true, false, 1, life)
				addI(face, "/a/b", false, false, 1, life)
				addI(face, "/a/b", false, true, 1, life)
			}
			// the root of the name tree holds PIT entries too
			addI(face, "/", true, false, 1, time.Second)
		}
		for _, face := range []uint64{fwsim.N2, fwsim.N4, fwsim.L1} {
			for _, name := range []string{"/a", "/a/b"} {
				addD(face, name, time.Second, "none")
			}
		}
		addD(fwsim.N2, "/a/b", time.Second, "echo")
		tops(100*time.Millisecond, 300*time.Millisecond)
	case "pith":
		// cache HITS: every Interest shape of the universe (exact, CanBePrefix, MustBeFresh, the
		// zero-component name "/" with CanBePrefix, two faces, lifetimes 1 s and 4 s) against Data that
		// is cached solicited or unsolicited, fresh (1 s) or stale at once; the entry an answered Interest
		// created must go promptly under EVERY strategy (the strategy's AfterContentStoreHit decides
		// what is left in the entry) - also when the strategy is chosen per prefix
		s.maxLife = 4 * time.Second
		for _, sh := range []struct {
			face     uint64
			name     string
			cbp, mbf bool
			life     time.Duration
		}{{fwsim.L1, "/a", false, false, time.Second}, {fwsim.N4, "/a", false, false, 4 * time.Second}, {fwsim.L1, "/a", true, false, time.Second},
			{fwsim.N4, "/a/b", false, false, time.Second}, {fwsim.L1, "/a/b", false, true, 4 * time.Second}, {fwsim.N4, "/", true, false, time.Second}, {fwsim.L1, "/", true, true, time.Second}} {
			addI(sh.face, sh.name, sh.cbp, sh.mbf, 1, sh.life)
		}
		for _, name := range []string{"/a", "/a/b"} {
			addD(fwsim.N2, name, time.Second, "none")
			addD(fwsim.N2, name, -1, "none")
		}
		addD(fwsim.N2, "/a/b", time.Second, "echo")
		tops(100*time.Millisecond, 300*time.Millisecond, 1100*time.Millisecond)
	case "pitc":
		// cache entries and pending Interests on the same / nested name-tree nodes: Data without
		// FreshnessPeriod is stale at once, so a MustBeFresh Interest stays pending next to it (with
		// "csa" every Interest does); three Data names against capacity 0/1/2: eviction, by
		// solicited and unsolicited Data, of an entry at, below and above a node holding PIT entries.
		for _, sh := range []struct {
			name     string
			cbp, mbf bool
		}{{"/a/b", false, false}, {"/a/b", false, true}, {"/a", true, false}, {"/a", true, true}} {
			addI(fwsim.L1, sh.name, sh.cbp, sh.mbf, 1, time.Second)
		}
		addI(fwsim.N4, "/a/b", false, true, 1, time.Second)
		addI(fwsim.L1, "/a/b", false, true, 2, 200*time.Millisecond)
		for _, fresh := range []time.Duration{-1, time.Second} {
			for _, name := range []string{"/a", "/a/b", "/a/b/c"} {
				addD(fwsim.N2, name, fresh, "none")
			}
		}
		addD(fwsim.N2, "/a/b", -1, "echo")
		tops(100*time.Millisecond, 1100*time.Millisecond)
	case "pitb":
		// scale: a burst of k Interests with DISTINCT names and a short lifetime from one face within
		// one step (k entries fall due in the same reaper period; k = 101 and 350 straddle a
		// per-run budget of 100 once and more than three times), next to ordinary traffic
		addI(fwsim.L1, "/a", false, false, 1, 200*time.Millisecond)
		addI(fwsim.N4, "/a/b", false, false, 1, time.Second)
		for _, k := range []int{101, 350} {
			k := k
			add(fmt.Sprintf("BurstNames(f1,/a/b/z0..z%d,200ms)", k-1), func(in *pitInst) {
				for i := 0; i < k; i++ {
					name := fmt.Sprintf("/a/b/z%d", i)
					key := entryKey(name, false, false, "")
					delete(in.satAt, key)
					in.sim.Interest(fwsim.L1, fwsim.InterestSpec{Name: name, Nonce: fwsim.U32(uint32(5000 + i)), Lifetime: fwsim.Dur(200 * time.Millisecond)}, fwsim.LP{})
				}
				dl := in.sim.Now().Add(200 * time.Millisecond)
				for _, e := range in.sim.Dump().Pit {
					if strings.HasPrefix(e.Name, "/a/b/z") {
						key := entryKey(e.Name, e.CanBePrefix, e.MustBeFresh, e.Hint)
						if old, ok := in.deadline[key]; !ok || dl.After(old) {
							in.deadline[key] = dl
						}
					}
				}
			})
		}
		addD(fwsim.N2, "/a/b", time.Second, "none")
		addD(fwsim.N2, "/a/b/z0", time.Second, "none")
		tops(100*time.Millisecond, 300*time.Millisecond)
	case "pito":
		// mixed lifetimes: one long-lived Interest (4 s, the default lifetime) keeps the head of the
		// expiry queue far away while short-lived ones (100 ms, explicit 0) come, expire or are
		// satisfied; meant for the own-timer mode, where reclaiming them depends on how the table
		// re-arms its timer
		s.maxLife = 4 * time.Second
		addI(fwsim.L1, "/a", false, false, 1, 4*time.Second)
		addI(fwsim.N4, "/a", false, false, 2, time.Second)
		addI(fwsim.N4, "/a/b", false, false, 1, 100*time.Millisecond)
		addI(fwsim.L1, "/a/b", false, false, 2, 0)
		addI(fwsim.L1, "/a/b/c", true, false, 1, 4*time.Second)
		addD(fwsim.N2, "/a", time.Second, "none")
		addD(fwsim.N2, "/a/b", time.Second, "none")
		addD(fwsim.N2, "/a/b/c", time.Second, "echo")
		tops(100*time.Millisecond, 300*time.Millisecond)
	default:
		report.Fatal("unknown pit alphabet %q", slice)
	}
	return s
}

// interest injects one Interest arrival for entry k and books it by what the property text says:
// answered from the cache (a Data copy goes back to the arrival face within the call) = satisfied,
// the entry created for it must go promptly; otherwise recorded with its lifetime.
func (in *pitInst) interest(face uint64, is fwsim.InterestSpec, lp fwsim.LP, k string, life time.Duration) []fwsim.Send {
	// a new Interest re-opens the entry: what an earlier Data satisfied is consumed
	delete(in.satAt, k)
	heldRecords := false
	for _, e := range in.sim.Dump().Pit {
		if entryKey(e.Name, e.CanBePrefix, e.MustBeFresh, e.Hint) == k && len(e.In)+len(e.Out) > 0 {
			heldRecords = true
		}
	}
	now := in.sim.Now()
	sent := in.sim.Interest(face, is, lp)
	answered := false
	for _, x := range sent {
		if x.Kind == fwsim.KData && x.Face == face {
			answered = true
		}
	}
	switch {
	case answered && !heldRecords:
		if _, ok := in.csHitAt[k]; !ok {
			in.csHitAt[k] = now
		}
	case answered:
		// the entry also holds Interests of other faces / earlier ones: their lifetimes govern (and
		// whether the answered one counts as "recorded" is left open: the later deadline is taken)
		in.recorded(k, life)
	default:
		delete(in.csHitAt, k)
		in.recorded(k, life)
	}
	return sent
}

// recorded notes that an Interest with the given lifetime arrived for entry k: if the entry exists
// afterwards, its deadline is the latest arrival + lifetime among the Interests recorded in it.
func (in *pitInst) recorded(k string, life time.Duration) {
	for _, e := range in.sim.Dump().Pit {
		if entryKey(e.Name, e.CanBePrefix, e.MustBeFresh, e.Hint) == k {
			if dl, ok := in.deadline[k]; !ok || in.sim.Now().Add(life).After(dl) {
				in.deadline[k] = in.sim.Now().Add(life)
			}
		}
	}
}

func isPrefixOf(prefix, name string) bool {
	return prefix == "/" || name == prefix || strings.HasPrefix(name, prefix+"/")
}

// data injects one Data arrival and notes, by the match rule of the property text alone, which
// pending Interests (PIT entries with an unexpired in-record just before the arrival) it satisfies.
func (in *pitInst) data(face uint64, ds fwsim.DataSpec, lp fwsim.LP) {
	before := in.sim.Dump()
	now := in.sim.Now()
	in.sim.Data(face, ds, lp)
	_, et, byToken := fwsim.IssuedToken(lp.PitToken)
	for _, e := range before.Pit {
		pending := false
		for _, r := range e.In {
			if r.ExpireIn > 0 {
				pending = true
			}
		}
		if !pending {
			continue
		}
		hit := false
		if byToken {
			hit = e.InTokenMap && e.Token == et
		} else {
			hit = e.Name == ds.Name || (e.CanBePrefix && isPrefixOf(e.Name, ds.Name))
		}
		if hit {
			k := entryKey(e.Name, e.CanBePrefix, e.MustBeFresh, e.Hint)
			if _, ok := in.satAt[k]; !ok {
				in.satAt[k] = now
			}
		}
	}
}

// basePit is the original alphabet: two faces, /a (exact and CanBePrefix) and /a/b, two nonces,
// lifetimes 200 ms / 1 s, NextHopFaceId, a retransmission burst, Data from the upstream face by
// name and by token.
func (s *pitSys) basePit(add func(string, func(in *pitInst)), addI func(uint64, string, bool, bool, uint32, time.Duration), addD func(uint64, string, time.Duration, string)) {
	for _, face := range []uint64{fwsim.L1, fwsim.N4} {
		for _, name := range []string{"/a", "/a/b"} {
			for _, cbp := range []bool{false, true} {
				for _, nonce := range []uint32{1, 2} {
					for _, life := range []time.Duration{200 * time.Millisecond, time.Second} {
						if cbp && name == "/a/b" {
							continue
						}
						if nonce == 2 && life == time.Second {
							continue
						}
						addI(face, name, cbp, false, nonce, life)
					}
				}
			}
		}
	}
	// consumer-chosen next hop (NextHopFaceId) on a face where it is enabled: the Interest is sent
	// straight to that face, bypassing the strategy
	add("I(f1,/a,n1,1s,nexthop=N2)", func(in *pitInst) {
		nh := fwsim.N2
		k := entryKey("/a", false, false, "")
		in.interest(fwsim.L1, fwsim.InterestSpec{Name: "/a", Nonce: fwsim.U32(1), Lifetime: fwsim.Dur(time.Second)}, fwsim.LP{NextHopFaceID: &nh}, k, time.Second)
	})
	// NextHopFaceId that the forwarder must refuse: a face that does not exist, and the arrival
	// face itself. The Interest is dropped, but whatever PIT state it created must still drain.
	for _, v := range []struct {
		label string
		nh    uint64
	}{{"missing", 99}, {"self", fwsim.L1}} {
		v := v
		add(fmt.Sprintf("I(f1,/a/b,n1,200ms,nexthop=%s)", v.label), func(in *pitInst) {
			nh := v.nh
			k := entryKey("/a/b", false, false, "")
			in.interest(fwsim.L1, fwsim.InterestSpec{Name: "/a/b", Nonce: fwsim.U32(1), Lifetime: fwsim.Dur(200 * time.Millisecond)}, fwsim.LP{NextHopFaceID: &nh}, k, 200*time.Millisecond)
		})
	}
	// a burst of retransmissions with fresh nonces: every one moves the previous nonce to the dead
	// nonce list, so >100 records fall due in the same reaper tick (the reaper removes <=100 per tick)
	add("Burst(f1,/a/b,103 nonces,200ms)", func(in *pitInst) {
		k := entryKey("/a/b", false, false, "")
		for i := 0; i < 103; i++ {
			in.interest(fwsim.L1, fwsim.InterestSpec{Name: "/a/b", Nonce: fwsim.U32(uint32(1000 + i)), Lifetime: fwsim.Dur(200 * time.Millisecond)}, fwsim.LP{}, k, 200*time.Millisecond)
		}
	})
	for _, name := range []string{"/a", "/a/b"} {
		for _, tok := range []string{"none", "echo"} {
			addD(fwsim.N2, name, time.Second, tok)
		}
	}
}

// run advances the clock in reaper-interval steps, running the periodic arms each step.
func (in *pitInst) run(d time.Duration) {
	for d > 0 {
		step := tick
		if d < step {
			step = d
		}
		in.pre = append(in.pre, in.step(step)...)
		d -= step
	}
}

// step moves the clock by dt, evaluates the C08.when clause on the state the forwarder was in up to
// this instant (nothing has happened since the previous step: every entry present now was present
// during the whole interval, so its age is judged at the END of the interval, before the periodic
// work of this instant has had its turn), then runs the periodic arms: unconditionally, or - own
// timer mode - the PIT reaper only if the table's own timer has fired.
func (in *pitInst) step(dt time.Duration) []report.Violation {
	in.sim.Advance(dt)
	var v []report.Violation
	if !in.pitEmpty() {
		v = in.whenViolations()
	}
	for i := range v {
		v[i].Detail = "just before the periodic reaper's turn: " + v[i].Detail
	}
	if in.sim.Cfg.OwnPitTimer {
		in.sim.ServeOwn()
	} else {
		in.sim.Tick()
	}
	return v
}

func (s *pitSys) New() any {
	return &pitInst{sim: fwsim.New(s.cfg), bare: map[string]time.Time{}, deadline: map[string]time.Time{}, satAt: map[string]time.Time{}, csHitAt: map[string]time.Time{}}
}
func (s *pitSys) Ops(any) []explore.Op { return s.ops }
func (s *pitSys) Do(i any, op explore.Op) {
	in := i.(*pitInst)
	s.do[op.Name](in)
	in.track()
	in.pre = nil
}

// dedupKeys keeps the first violation of every key.
func dedupKeys(in []report.Violation) (out []report.Violation) {
	seen := map[string]bool{}
	for _, x := range in {
		if !seen[x.Clause+"|"+x.Key] {
			seen[x.Clause+"|"+x.Key] = true
			out = append(out, x)
		}
	}
	return
}

func entryKey(name string, cbp, mbf bool, hint string) string {
	return fmt.Sprintf("%s|%v|%v|%s", name, cbp, mbf, hint)
}

// pitEmpty: the PIT reports no entries (the reported size is compared with the true number of
// entries after every transition and at the end of the quiescent period, clause C08.count / C08.pit;
// in between it only saves taking a dump when there is nothing to judge).
func (in *pitInst) pitEmpty() bool { return in.sim.Thread.VerifPitCs().PitSize() == 0 }

// track maintains first-seen times of record-less entries (for the "promptly once satisfied" clause).
func (in *pitInst) track() {
	d := in.sim.Dump()
	now := in.sim.Now()
	seen := map[string]bool{}
	present := map[string]bool{}
	for _, e := range d.Pit {
		present[entryKey(e.Name, e.CanBePrefix, e.MustBeFresh, e.Hint)] = true
	}
	for k := range in.deadline {
		if !present[k] {
			delete(in.deadline, k)
		}
	}
	for k := range in.satAt {
		if !present[k] {
			delete(in.satAt, k)
		}
	}
	for k := range in.csHitAt {
		if !present[k] {
			delete(in.csHitAt, k)
		}
	}
	for _, e := range d.Pit {
		if len(e.In) == 0 && len(e.Out) == 0 {
			k := entryKey(e.Name, e.CanBePrefix, e.MustBeFresh, e.Hint)
			seen[k] = true
			if _, ok := in.bare[k]; !ok {
				in.bare[k] = now
			}
		}
	}
	for k := range in.bare {
		if !seen[k] {
			delete(in.bare, k)
		}
	}
}

func (s *pitSys) Apply(i any, op explore.Op) (v []report.Violation) {
	in := i.(*pitInst)
	in.pre = nil
	s.do[op.Name](in)
	in.track()
	v = append(v, dedupKeys(in.pre)...)
	in.pre = nil
	last := opKind(op.Name)
	d := in.sim.Dump()
	pc := in.sim.Thread.VerifPitCs()
	if pc.PitSize() != len(d.Pit) || in.sim.Thread.GetNumPitEntries() != len(d.Pit) {
		v = append(v, report.Violation{Clause: "C08.count", Key: "PitSize differs from stored entries after " + last, Detail: fmt.Sprintf("PitSize()=%d, %d entries in the tree", pc.PitSize(), len(d.Pit))})
	}
	if pc.CsSize() != len(d.Cs) {
		v = append(v, report.Violation{Clause: "C08.count", Key: "CsSize differs from stored entries after " + last, Detail: fmt.Sprintf("CsSize()=%d, %d entries in the tree", pc.CsSize(), len(d.Cs))})
	}
	if d.TokenMapSize != len(d.Pit) {
		v = append(v, report.Violation{Clause: "C08.pit", Key: "token map size differs from PIT entries after " + last, Detail: fmt.Sprintf("pitTokenMap has %d entries, PIT has %d", d.TokenMapSize, len(d.Pit))})
	}
	// Only meaningful right after the reaper ran (T ops).
	if last == "T" {
		v = append(v, in.whenViolations()...)
	}
	return v
}

// whenViolations: entries must not outlive their records (latest lifetime) by more than two reaper
// ticks, and record-less (satisfied / cache-answered) entries must go within two ticks.
func (in *pitInst) whenViolations() (v []report.Violation) {
	d := in.sim.Dump()
	now := in.sim.Now()
	for _, e := range d.Pit {
		// "or promptly once it is satisfied": every entry an arriving Data satisfied (by the match
		// rule of the property text, whichever face the Data came from, however many entries it
		// satisfied at once) must be gone within two reaper ticks, records or not
		if t0, ok := in.satAt[entryKey(e.Name, e.CanBePrefix, e.MustBeFresh, e.Hint)]; ok && now.Sub(t0) > 2*tick && len(e.In)+len(e.Out) > 0 {
			v = append(v, report.Violation{Clause: "C08.when", Key: "PIT entry satisfied by Data keeps its records and is not removed promptly", Detail: fmt.Sprintf("entry %s cbp=%v mbf=%v held an unexpired Interest when a Data satisfying it arrived %v ago, and is still in the PIT with %d in-/%d out-records (satisfied flag=%v, queued=%v)", e.Name, e.CanBePrefix, e.MustBeFresh, now.Sub(t0), len(e.In), len(e.Out), e.Satisfied, e.Queued)})
			continue
		}
		// "including entries created for Interests answered from the cache": gone within two reaper
		// ticks of the answer, whatever the forwarder recorded in them
		if t0, ok := in.csHitAt[entryKey(e.Name, e.CanBePrefix, e.MustBeFresh, e.Hint)]; ok && now.Sub(t0) > 2*tick && len(e.In)+len(e.Out) > 0 {
			v = append(v, report.Violation{Clause: "C08.when", Key: "PIT entry created for an Interest answered from the cache keeps its records and is not removed promptly", Detail: fmt.Sprintf("entry %s cbp=%v mbf=%v was created for an Interest that was answered from the cache %v ago (the Data copy went back to the Interest's face within the arrival call) and is still in the PIT with %d in-/%d out-records (satisfied flag=%v, queued=%v, expires in %v)", e.Name, e.CanBePrefix, e.MustBeFresh, now.Sub(t0), len(e.In), len(e.Out), e.Satisfied, e.Queued, e.ExpireIn)})
			continue
		}
		if len(e.In)+len(e.Out) > 0 {
			// "no later than shortly after the latest lifetime among the Interests recorded in it"
			dl, ok := in.deadline[entryKey(e.Name, e.CanBePrefix, e.MustBeFresh, e.Hint)]
			if ok && now.Sub(dl) > 2*tick {
				v = append(v, report.Violation{Clause: "C08.when", Key: "PIT entry outlives the latest lifetime of the Interests recorded in it", Detail: fmt.Sprintf("entry %s cbp=%v still present %v after the latest Interest lifetime elapsed: %+v queue=%+v", e.Name, e.CanBePrefix, now.Sub(dl), e, in.sim.Queue())})
			}
		} else if t0, ok := in.bare[entryKey(e.Name, e.CanBePrefix, e.MustBeFresh, e.Hint)]; ok && now.Sub(t0) > 2*tick {
			kind := "satisfied"
			if !e.Satisfied {
				kind = "never forwarded (answered from cache or dropped)"
			}
			v = append(v, report.Violation{Clause: "C08.when", Key: "record-less PIT entry not removed promptly: " + kind, Detail: fmt.Sprintf("entry %s cbp=%v has no in/out records for %v and is still in the PIT (queued=%v satisfied=%v)", e.Name, e.CanBePrefix, now.Sub(t0), e.Queued, e.Satisfied)})
		}
	}
	return
}

// CheckState: quiescence closure. The "when" clause is evaluated after every reaper tick on the way, so
// an entry that lingers (but is gone once every lifetime has elapsed) is seen as well.
func (s *pitSys) CheckState(i any) (v []report.Violation) {
	in := i.(*pitInst)
	// longest Interest lifetime (1 s; 4 s in the mixed-lifetime alphabet), DNL lifetime 2 s; the DNL
	// reaper removes <=100 per tick
	seenKey := map[string]bool{}
	quiet := s.maxLife + 2*time.Second + 2*time.Second
	for left := quiet; left > 0; left -= tick {
		pre := in.step(tick)
		if in.pitEmpty() && len(pre) == 0 {
			clear(in.bare)
			clear(in.deadline)
			clear(in.satAt)
			clear(in.csHitAt)
			continue
		}
		in.track()
		for _, x := range append(pre, in.whenViolations()...) {
			if !seenKey[x.Key] {
				seenKey[x.Key] = true
				x.Detail = "during the quiescent period: " + x.Detail
				v = append(v, x)
			}
		}
	}
	d := in.sim.Dump()
	if len(d.Pit) > 0 {
		kinds := map[string]bool{}
		for _, e := range d.Pit {
			k := fmt.Sprintf("records=%v satisfied=%v queued=%v", len(e.In)+len(e.Out) > 0, e.Satisfied, e.Queued)
			kinds[k] = true
		}
		var ks []string
		for k := range kinds {
			ks = append(ks, k)
		}
		sort.Strings(ks)
		v = append(v, report.Violation{Clause: "C08.pit", Key: "PIT not empty at quiescence: " + strings.Join(ks, " / "), Detail: fmt.Sprintf("%d PIT entries remain %v after the last event (all lifetimes <= %v): %+v", len(d.Pit), quiet, s.maxLife, d.Pit)})
	}
	if d.NPit != len(d.Pit) || d.TokenMapSize != len(d.Pit) || d.QueueLen > len(d.Pit) {
		v = append(v, report.Violation{Clause: "C08.pit", Key: "PIT bookkeeping differs from entries at quiescence", Detail: fmt.Sprintf("counter=%d tokenMap=%d queue=%d entries=%d", d.NPit, d.TokenMapSize, d.QueueLen, len(d.Pit))})
	}
	if len(d.Pit) == 0 && len(d.DeadNodes) > 0 {
		v = append(v, report.Violation{Clause: "C08.tree", Key: "PIT/CS name tree keeps dead branch at quiescence", Detail: fmt.Sprintf("nodes %v lead to no PIT or CS entry", d.DeadNodes)})
	}
	if d.NCs != len(d.Cs) {
		v = append(v, report.Violation{Clause: "C08.count", Key: "CsSize differs from stored entries at quiescence", Detail: fmt.Sprintf("counter=%d entries=%d", d.NCs, len(d.Cs))})
	}
	if n, q := in.sim.DnlSize(); n != 0 || q != 0 {
		v = append(v, report.Violation{Clause: "C08.dnl", Key: "dead nonce list not empty after its lifetime", Detail: fmt.Sprintf("%d nonces / %d queue items remain %v after the last event (lifetime 2 s)", n, q, quiet)})
	}
	return v
}

func (s *pitSys) Canon(i any) string {
	in := i.(*pitInst)
	d := in.sim.Dump()
	now := in.sim.Now()
	sat := func(x time.Duration) time.Duration { return fwsim.Saturate(x, -3*tick, 2*time.Second) }
	var b strings.Builder
	tokIdx := map[uint32]int{}
	for k, e := range d.Pit {
		tokIdx[e.Token] = k
		fmt.Fprintf(&b, "P[%s %v %v sat=%v q=%v exp=%v in=", e.Name, e.CanBePrefix, e.MustBeFresh, e.Satisfied, e.Queued, sat(e.ExpireIn))
		for _, r := range e.In {
			fmt.Fprintf(&b, "(%d,%d,%v)", r.Face, r.Nonce, sat(r.ExpireIn))
		}
		b.WriteString(" out=")
		for _, r := range e.Out {
			fmt.Fprintf(&b, "(%d,%d,%v,%v)", r.Face, r.Nonce, sat(r.Age), sat(r.ExpireIn))
		}
		if t0, ok := in.bare[entryKey(e.Name, e.CanBePrefix, e.MustBeFresh, e.Hint)]; ok {
			fmt.Fprintf(&b, " bare=%v", sat(now.Sub(t0)))
		}
		if dl, ok := in.deadline[entryKey(e.Name, e.CanBePrefix, e.MustBeFresh, e.Hint)]; ok {
			fmt.Fprintf(&b, " dl=%v", sat(dl.Sub(now)))
		}
		if t0, ok := in.satAt[entryKey(e.Name, e.CanBePrefix, e.MustBeFresh, e.Hint)]; ok {
			fmt.Fprintf(&b, " satisfied=%v", sat(now.Sub(t0)))
		}
		if t0, ok := in.csHitAt[entryKey(e.Name, e.CanBePrefix, e.MustBeFresh, e.Hint)]; ok {
			fmt.Fprintf(&b, " cshit=%v", sat(now.Sub(t0)))
		}
		b.WriteString("]")
	}
	for _, q := range in.sim.Queue() {
		fmt.Fprintf(&b, "Q[%s %v %v %v]", q.Name, q.CanBePrefix, q.Queued, sat(q.PrioIn))
	}
	for _, c := range d.Cs {
		fmt.Fprintf(&b, "C[%s %v]", c.Name, sat(c.StaleIn))
	}
	fmt.Fprintf(&b, "lru=%v dead=%v", d.LruOrder, d.DeadNodes)
	n, q := in.sim.DnlSize()
	fmt.Fprintf(&b, " dnl=%d/%d", n, q)
	if in.sim.Cfg.OwnPitTimer {
		// when the table's own timer was last served (its next deadline is private to the clock shim)
		_, since := in.sim.OwnTimerStats()
		fmt.Fprintf(&b, " own=%v", sat(since))
	}
	// last issued token matters (echo): identify by the entry it maps to
	if len(in.tokens) > 0 {
		_, et, _ := fwsim.IssuedToken(in.tokens[len(in.tokens)-1])
		if k, ok := tokIdx[et]; ok {
			fmt.Fprintf(&b, " lasttok->%d", k)
		} else {
			b.WriteString(" lasttok->gone")
		}
	}
	return b.String()
}

func buildPit(cfg string) explore.System {
	f := strings.Fields(cfg) // pit|pitm|pitc|pitb|pito|pith br|mc|mix cs|csa|nocs <fib> [cap=N] [own]
	st := fwsim.BestRoute
	if f[1] == "mc" {
		st = fwsim.Multicast
	}
	if f[1] == "mix" {
		st = "mix"
	}
	capacity := 2
	own := false
	for _, x := range f[4:] {
		if x == "own" {
			own = true
			continue
		}
		if _, err := fmt.Sscanf(x, "cap=%d", &capacity); err != nil {
			report.Fatal("bad pit config %q", cfg)
		}
	}
	return newPitSys(f[0], st, f[2], f[3], capacity, own)
}

func pitConfigs(th bool) []explore.Config {
	d := 4
	if th {
		d = 5
	}
	var c []explore.Config
	// (the small focused alphabets first: what they leave of their share of the budget goes to the
	// wide base alphabet)
	// cache hits x strategy (best-route, multicast, chosen per prefix) x FIB x capacity x reaper drive
	for _, name := range []string{"pith mc cs nametree", "pith br cs hashtable", "pith mix cs nametree cap=1", "pith mc cs hashtable own"} {
		c = append(c, explore.Config{Name: name, MaxDepth: d, MaxDev: -1})
	}
	if th {
		for _, name := range []string{"pith br cs nametree own", "pith mix cs hashtable", "pith mc cs nametree cap=1", "pith br cs nametree cap=0"} {
			c = append(c, explore.Config{Name: name, MaxDepth: d - 1, MaxDev: -1})
		}
	}
	// multi-match / Data from a downstream face / lifetime 0
	for _, name := range []string{"pitm br cs nametree", "pitm mc nocs hashtable"} {
		c = append(c, explore.Config{Name: name, MaxDepth: d, MaxDev: -1})
	}
	// cache entries next to pending Interests under content-store capacities 1, 0, 2
	c = append(c, explore.Config{Name: "pitc br cs nametree cap=1", MaxDepth: d + 1, MaxDev: -1})
	c = append(c, explore.Config{Name: "pitc mc csa hashtable cap=0", MaxDepth: d + 1, MaxDev: -1})
	c = append(c, explore.Config{Name: "pitc mc cs nametree cap=2", MaxDepth: d, MaxDev: -1})
	if th {
		for _, name := range []string{"pitc mc csa nametree cap=1", "pitc br cs hashtable cap=0", "pitc br csa nametree cap=2", "pitm mc cs nametree cap=1", "pitm br csa nametree cap=0"} {
			c = append(c, explore.Config{Name: name, MaxDepth: d, MaxDev: -1})
		}
	}
	// the reaper driven by the table's OWN timer (as Thread.Run() does) instead of a fixed schedule:
	// mixed long (4 s) and short (1 s, 100 ms, 0) lifetimes, and the ordinary alphabets
	c = append(c, explore.Config{Name: "pito br cs nametree own", MaxDepth: d + 1, MaxDev: -1})
	c = append(c, explore.Config{Name: "pito mc nocs hashtable own", MaxDepth: d, MaxDev: -1})
	// scale: bursts of 101 / 350 distinct names falling due in one reaper period
	// (a burst costs as much as 350 ordinary steps: one level less than the other alphabets)
	c = append(c, explore.Config{Name: "pitb br cs nametree", MaxDepth: d - 1, MaxDev: -1})
	c = append(c, explore.Config{Name: "pitb mc nocs nametree own", MaxDepth: d - 1, MaxDev: -1})
	if th {
		for _, name := range []string{"pitm br cs nametree own", "pitc mc csa hashtable cap=0 own", "pit br cs nametree own", "pito mc cs nametree", "pitb br nocs hashtable own"} {
			c = append(c, explore.Config{Name: name, MaxDepth: d - 1, MaxDev: -1})
		}
	}
	for _, name := range []string{"pit br cs nametree", "pit mc cs nametree", "pit br nocs hashtable", "pit mc nocs nametree"} {
		c = append(c, explore.Config{Name: name, MaxDepth: d, MaxDev: -1})
	}
	return c
}
