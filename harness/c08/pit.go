package main

import "verif/mc/explore"

// PIT side: filled in on top of harness/fwsim (see pit_fwsim.go when present).
func buildPit(cfg string) explore.System  { return nil }
func pitConfigs(th bool) []explore.Config { return nil }
