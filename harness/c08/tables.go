package main

// Table-level sub-systems of C08: structural minimality of the FIB (tree and hash table), the RIB
// and the content-store side of the PIT/CS name tree after every update history.

import (
	"fmt"
	"sort"
	"strings"
	"time"

	"github.com/named-data/ndnd/fw/table"
	enc "github.com/named-data/ndnd/std/encoding"
	"github.com/named-data/ndnd/std/ndn"
	spec "github.com/named-data/ndnd/std/ndn/spec_2022"
	sec "github.com/named-data/ndnd/std/security"
	"verif/mc/explore"
	"verif/mc/report"
	"verif/shim/vtime"
)

var nmCache = map[string]enc.Name{}

func nm(s string) enc.Name {
	if n, ok := nmCache[s]; ok {
		return n
	}
	n, err := enc.NameFromStr(s)
	if err != nil {
		panic(err)
	}
	nmCache[s] = n
	return n
}

var mcName = "/localhost/nfd/strategy/multicast/v=1"

func opKind(op string) string { return op[:strings.Index(op, "(")] }

// requiredPaths returns every proper and improper prefix (as URI, root = "/") of the given names.
func requiredPaths(live []string) map[string]bool {
	req := map[string]bool{"/": true}
	for _, l := range live {
		n := nm(l)
		for k := 1; k <= len(n); k++ {
			req[n[:k].String()] = true
		}
	}
	return req
}

// ---------- FIB ----------

type fibSys struct {
	kind     string // tree | ht<m>
	prefixes []string
	ops      []explore.Op
	do       map[string]func()
}

func newFibSys(kind string, prefixes []string) *fibSys {
	s := &fibSys{kind: kind, prefixes: prefixes, do: map[string]func(){}}
	add := func(n string, f func()) { s.ops = append(s.ops, explore.Op{Name: n}); s.do[n] = f }
	for _, p := range prefixes {
		p := p
		for _, f := range []uint64{1, 2} {
			f := f
			add(fmt.Sprintf("Ins(%s,f%d)", p, f), func() { table.FibStrategyTable.InsertNextHopEnc(nm(p), f, 1) })
			add(fmt.Sprintf("Rem(%s,f%d)", p, f), func() { table.FibStrategyTable.RemoveNextHopEnc(nm(p), f) })
		}
		add(fmt.Sprintf("Clear(%s)", p), func() { table.FibStrategyTable.ClearNextHopsEnc(nm(p)) })
		add(fmt.Sprintf("Replace(%s,{f1})", p), func() { table.FibStrategyTable.ReplaceNextHopsEnc(nm(p), map[uint64]uint64{1: 1}) })
		add(fmt.Sprintf("Replace(%s,{})", p), func() { table.FibStrategyTable.ReplaceNextHopsEnc(nm(p), map[uint64]uint64{}) })
		if p != "/" {
			add(fmt.Sprintf("SetS(%s)", p), func() { table.FibStrategyTable.SetStrategyEnc(nm(p), nm(mcName)) })
			add(fmt.Sprintf("Unset(%s)", p), func() { table.FibStrategyTable.UnSetStrategyEnc(nm(p)) })
		}
	}
	return s
}

func newFib(kind string) {
	if kind == "tree" {
		table.VerifNewFibTree()
	} else {
		var m int
		fmt.Sscanf(kind, "ht%d", &m)
		table.VerifNewFibHT(uint16(m))
	}
}

func (s *fibSys) New() any                { newFib(s.kind); return nil }
func (s *fibSys) Ops(any) []explore.Op    { return s.ops }
func (s *fibSys) Do(_ any, op explore.Op) { s.do[op.Name]() }
func (s *fibSys) Canon(any) string {
	n, a := table.VerifDumpFib(table.FibStrategyTable)
	return fmt.Sprint(n, a)
}
func (s *fibSys) Apply(_ any, op explore.Op) []report.Violation {
	s.do[op.Name]()
	return fibLeaks(s.kind, opKind(op.Name))
}

// fibLeaks: the FIB structure holds nothing beyond what its live entries (next hops or strategy) require.
func fibLeaks(kind, last string) (v []report.Violation) {
	f := table.FibStrategyTable
	live := []string{}
	for _, e := range f.GetAllFIBEntries() {
		live = append(live, e.Name().String())
	}
	for _, e := range f.GetAllForwardingStrategies() {
		live = append(live, e.Name().String())
	}
	nodes, aux := table.VerifDumpFib(f)
	bad := func(key, detail string) {
		v = append(v, report.Violation{Clause: "C08.fib", Key: key + " after " + last, Detail: detail})
	}
	if kind == "tree" {
		req := requiredPaths(live)
		var extra []string
		for _, n := range nodes {
			p := n.Path
			if p == "" {
				p = "/"
			}
			if !req[p] {
				extra = append(extra, p)
			}
		}
		if len(extra) > 0 {
			bad("tree FIB keeps dead nodes", fmt.Sprintf("name-tree FIB nodes %v lie on no path to an entry with next hops or a strategy (live entries %v)", extra, live))
		}
		liveNh := map[string]bool{}
		for _, e := range f.GetAllFIBEntries() {
			liveNh[e.Name().String()] = true
		}
		for _, a := range aux {
			// fibPrefixes:<name>#<n nexthops>
			if strings.HasPrefix(a, "fibPrefixes:") {
				name := a[len("fibPrefixes:"):strings.LastIndex(a, "#")]
				if !liveNh[name] {
					bad("tree FIB fibPrefixes keeps dead prefix", fmt.Sprintf("fibPrefixes still maps %s which has no next hops (live %v)", name, live))
				}
			}
		}
	} else {
		liveSet := map[string]bool{}
		for _, l := range live {
			liveSet[l] = true
		}
		for _, n := range nodes {
			p := n.Path
			if !liveSet[p] {
				bad("hashtable FIB keeps dead real entry", fmt.Sprintf("realTable holds %s which has neither next hops nor strategy", p))
			}
		}
		// virtual entries must be exactly those required by real entries of length >= m
		var m int
		fmt.Sscanf(kind, "ht%d", &m)
		want := map[string][]string{}
		for l := range liveSet {
			n := nm(l)
			if len(n) >= m {
				vn := n[:m].String()
				want[vn] = append(want[vn], fmt.Sprintf("%s/%d", l, len(n)))
			}
		}
		// compare virtual entries: the set of virtual names and their member names must be exact;
		// md is a search hint: it must be at least the longest member (a stale larger value costs
		// extra probes but retains nothing), so it is normalised before comparing.
		var wantAux, gotAux []string
		for _, names := range want {
			sort.Strings(names)
			wantAux = append(wantAux, fmt.Sprintf("names=%v", names))
		}
		for _, a := range aux {
			if i := strings.Index(a, "names="); i >= 0 && strings.HasPrefix(a, "virt md=") {
				var md int
				fmt.Sscanf(a, "virt md=%d", &md)
				need := 0
				for _, x := range strings.Fields(strings.Trim(a[i+6:], "[]")) {
					var l int
					fmt.Sscanf(x[strings.LastIndex(x, "/")+1:], "%d", &l)
					if l > need {
						need = l
					}
				}
				if md < need {
					bad("hashtable FIB virtual entry md too small", fmt.Sprintf("%s but longest member has %d components", a, need))
				}
				gotAux = append(gotAux, a[i:])
			} else {
				gotAux = append(gotAux, a)
			}
		}
		sort.Strings(wantAux)
		sort.Strings(gotAux)
		if strings.Join(gotAux, ";") != strings.Join(wantAux, ";") {
			bad("hashtable FIB virtual tables not minimal", fmt.Sprintf("virtual tables %v, live real entries require exactly %v", gotAux, wantAux))
		}
	}
	return
}

// ---------- RIB ----------

type ribSys struct {
	fib      string
	prefixes []string
	ops      []explore.Op
	do       map[string]func()
}

func newRibSys(fib string, prefixes []string, origins []uint64, flags []uint64) *ribSys {
	s := &ribSys{fib: fib, prefixes: prefixes, do: map[string]func(){}}
	add := func(n string, f func()) { s.ops = append(s.ops, explore.Op{Name: n}); s.do[n] = f }
	for _, p := range prefixes {
		p := p
		for _, f := range []uint64{1, 2} {
			f := f
			for _, o := range origins {
				o := o
				os := ""
				if len(origins) > 1 {
					os = fmt.Sprintf(",o%d", o)
				}
				for _, fl := range flags {
					fl := fl
					add(fmt.Sprintf("Reg(%s,f%d%s,fl%d)", p, f, os, fl), func() {
						table.Rib.AddEncRoute(nm(p), &table.Route{FaceID: f, Origin: o, Cost: 1, Flags: fl})
					})
				}
				add(fmt.Sprintf("Unreg(%s,f%d%s)", p, f, os), func() { table.Rib.RemoveRouteEnc(nm(p), f, o) })
			}
		}
	}
	for _, f := range []uint64{1, 2} {
		f := f
		add(fmt.Sprintf("FaceDown(f%d)", f), func() { table.Rib.CleanUpFace(f) })
	}
	return s
}

func (s *ribSys) New() any                { newFib(s.fib); table.VerifResetRib(); return nil }
func (s *ribSys) Ops(any) []explore.Op    { return s.ops }
func (s *ribSys) Do(_ any, op explore.Op) { s.do[op.Name]() }
func (s *ribSys) Canon(any) string {
	n, a := table.VerifDumpFib(table.FibStrategyTable)
	return fmt.Sprint(n, a, table.VerifDumpRib())
}
func (s *ribSys) Apply(_ any, op explore.Op) []report.Violation {
	s.do[op.Name]()
	last := opKind(op.Name)
	var v []report.Violation
	live := []string{}
	for _, e := range table.Rib.GetAllEntries() {
		live = append(live, e.Name.String())
	}
	req := requiredPaths(live)
	var extra []string
	for _, n := range table.VerifDumpRib() {
		p := n.Path
		if p == "" {
			p = "/"
		}
		if !req[p] {
			extra = append(extra, p)
		}
	}
	if len(extra) > 0 {
		v = append(v, report.Violation{Clause: "C08.rib", Key: "RIB keeps dead nodes after " + last, Detail: fmt.Sprintf("RIB tree nodes %v lie on no path to an entry with routes (entries with routes: %v)", extra, live)})
	}
	// state of a removed face is reclaimed: right after the face teardown no RIB route and no FIB next
	// hop of that face is left
	var down uint64
	if n, _ := fmt.Sscanf(op.Name, "FaceDown(f%d)", &down); n == 1 {
		var left []string
		for _, n := range table.VerifDumpRib() {
			for _, r := range strings.Split(n.Routes, ",") {
				if strings.HasPrefix(r, fmt.Sprintf("f%d/", down)) {
					left = append(left, "RIB "+n.Path+" "+r)
				}
			}
		}
		nodes, _ := table.VerifDumpFib(table.FibStrategyTable)
		for _, n := range nodes {
			for _, h := range strings.Split(n.Nexthops, ",") {
				if strings.HasPrefix(h, fmt.Sprintf("%d:", down)) {
					left = append(left, "FIB "+n.Path+" "+h)
				}
			}
		}
		if len(left) > 0 {
			v = append(v, report.Violation{Clause: "C08.rib", Key: "routes / next hops of a removed face survive the face teardown", Detail: fmt.Sprintf("after %s: %v", op.Name, left)})
		}
	}
	// the FIB underneath must stay minimal as well
	for _, x := range fibLeaks(s.fib, last) {
		x.Key = "via RIB: " + x.Key
		v = append(v, x)
	}
	return v
}

// ---------- CS side of the PIT/CS tree ----------

type csSys struct {
	cap0 int
	ops  []explore.Op
	do   map[string]func(cs *table.PitCsTree)
}

type csPkt struct {
	data *spec.Data
	wire []byte
}

var csPktCache = map[string]csPkt{}

func mkData(name string, fresh int) csPkt {
	k := fmt.Sprint(name, fresh)
	if p, ok := csPktCache[k]; ok {
		return p
	}
	cfg := &ndn.DataConfig{}
	if fresh >= 0 {
		d := time.Duration(fresh) * time.Millisecond
		cfg.Freshness = &d
	}
	ed, err := spec.Spec{}.MakeData(nm(name), cfg, enc.Wire{[]byte("x")}, sec.NewSha256Signer())
	if err != nil {
		panic(err)
	}
	w := ed.Wire.Join()
	p, _, err := spec.ReadPacket(enc.NewBufferReader(w))
	if err != nil {
		panic(err)
	}
	csPktCache[k] = csPkt{p.Data, w}
	return csPktCache[k]
}

func newCsSys(cap0 int) *csSys {
	s := &csSys{cap0: cap0, do: map[string]func(cs *table.PitCsTree){}}
	add := func(n string, f func(cs *table.PitCsTree)) { s.ops = append(s.ops, explore.Op{Name: n}); s.do[n] = f }
	names := []string{"/a", "/a/b", "/a/b/c", "/d/e"}
	for _, n := range names {
		n := n
		add(fmt.Sprintf("Put(%s)", n), func(cs *table.PitCsTree) { p := mkData(n, 1000); cs.InsertData(p.data, p.wire) })
		add(fmt.Sprintf("Get(%s)", n), func(cs *table.PitCsTree) { cs.FindMatchingDataFromCS(&spec.Interest{NameV: nm(n)}) })
	}
	for _, k := range []int{0, 1, 2} {
		k := k
		add(fmt.Sprintf("Cap(%d)", k), func(*table.PitCsTree) { table.SetCsCapacity(k) })
	}
	return s
}

func (s *csSys) New() any {
	vtime.Reset(false)
	table.VerifConfigure(s.cap0, true, true, 6*time.Second)
	return table.NewPitCS(func(table.PitEntry) {})
}
func (s *csSys) Ops(any) []explore.Op    { return s.ops }
func (s *csSys) Do(i any, op explore.Op) { s.do[op.Name](i.(*table.PitCsTree)) }
func (s *csSys) Canon(i any) string {
	d := table.VerifDumpPitCs(i.(*table.PitCsTree), vtime.Now())
	names := []string{}
	for _, c := range d.Cs {
		names = append(names, c.Name)
	}
	return fmt.Sprint(table.CsCapacity(), names, d.LruOrder, d.LruLocations, d.DeadNodes, d.Nodes, d.CsMapSize, d.NCs)
}
func (s *csSys) Apply(i any, op explore.Op) []report.Violation {
	cs := i.(*table.PitCsTree)
	s.do[op.Name](cs)
	return csLeaks(cs, opKind(op.Name))
}

func csLeaks(cs *table.PitCsTree, last string) (v []report.Violation) {
	d := table.VerifDumpPitCs(cs, vtime.Now())
	if len(d.DeadNodes) > 0 {
		v = append(v, report.Violation{Clause: "C08.tree", Key: "PIT/CS name tree keeps dead branch after " + last, Detail: fmt.Sprintf("name-tree nodes %v hold no PIT entry, no CS entry and lead to none", d.DeadNodes)})
	}
	if cs.CsSize() != len(d.Cs) {
		v = append(v, report.Violation{Clause: "C08.count", Key: "CsSize differs from stored entries after " + last, Detail: fmt.Sprintf("CsSize()=%d, %d entries in the tree", cs.CsSize(), len(d.Cs))})
	}
	names := []string{}
	for _, c := range d.Cs {
		names = append(names, c.Name)
		if !c.InMap {
			v = append(v, report.Violation{Clause: "C08.cs", Key: "CS entry missing from csMap after " + last, Detail: c.Name})
		}
	}
	lru := append([]string{}, d.LruOrder...)
	sort.Strings(lru)
	sort.Strings(names)
	if strings.Join(lru, ",") != strings.Join(names, ",") {
		v = append(v, report.Violation{Clause: "C08.cs", Key: "LRU queue and stored entries differ after " + last, Detail: fmt.Sprintf("LRU queue %v vs stored %v", lru, names)})
	}
	if d.CsMapSize != len(d.Cs) || d.LruLocations != len(d.Cs) {
		v = append(v, report.Violation{Clause: "C08.cs", Key: "csMap/locations size differs from stored entries after " + last, Detail: fmt.Sprintf("csMap=%d locations=%d stored=%d", d.CsMapSize, d.LruLocations, len(d.Cs))})
	}
	return
}

func buildTables(cfg string) explore.System {
	f := strings.Fields(cfg)
	switch f[0] {
	case "fib":
		return newFibSys(f[1], []string{"/", "/a", "/a/b", "/a/b/c", "/a/x"})
	case "rib":
		return newRibSys(f[1], []string{"/", "/a", "/a/b/c", "/a/x"}, []uint64{0}, []uint64{0, 1, 2})
	case "rib2o":
		// several routes of one face under different origins at one prefix (per-origin removal,
		// face teardown with more than one route per prefix)
		return newRibSys(f[1], []string{"/a", "/a/b/c"}, []uint64{0, 128, 65}, []uint64{1})
	case "cs":
		var c int
		fmt.Sscan(f[1], &c)
		return newCsSys(c)
	}
	return nil
}
