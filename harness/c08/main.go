// C08: forwarder state is reclaimed — PIT, name trees and nonce list drain at quiescence.
// Explicit-state searches on the real tables; after EVERY transition the white-box dump must
// show nothing beyond what the live entries require (FIB, RIB, CS side of the name tree), and for
// the PIT side (pit.go) every reached state is additionally closed under quiescence.
package main

import (
	"encoding/json"
	"fmt"
	"os"
	"os/exec"
	"path/filepath"
	"strings"
	"time"

	"verif/mc/explore"
	"verif/mc/report"
)

// seamPass builds harness/c08/seambin against the current tree (hooks, no clock rewrite) and runs
// the real Thread.Run() loop through each schedule of the reaper-timer seam: signal due while the
// thread is idle, and while it is held busy starting before the 1st, 2nd and 3rd signal.
func seamPass(rep *report.Reporter, cov report.Coverage) {
	b := os.Getenv("VERIF_BUILD_DIR")
	repo := os.Getenv("VERIF_REPO_DIR")
	root := report.Root()
	ov := filepath.Join(b, "ov-seam")
	os.RemoveAll(ov)
	if out, err := exec.Command(filepath.Join(b, "xform"), "-repo", repo, "-out", ov, "-hooks", filepath.Join(root, "hooks")).CombinedOutput(); err != nil {
		report.Fatal("seam pass: xform failed: %v %s", err, out)
	}
	args := []string{"build", "-tags", "verif", "-overlay", filepath.Join(ov, "overlay.json"), "-o", filepath.Join(b, "seambin")}
	if mf := filepath.Join(b, "alt.mod"); fileExists(mf) {
		args = append(args, "-modfile="+mf)
	}
	args = append(args, "./harness/c08/seambin")
	cmd := exec.Command("go", args...)
	cmd.Dir = root
	if out, err := cmd.CombinedOutput(); err != nil {
		report.Fatal("seam pass: build failed: %v %s", err, out)
	}
	type res struct {
		Drained bool  `json:"drained"`
		Waited  int64 `json:"waited_ms"`
		Pit     int   `json:"pit"`
		Held    bool  `json:"held"`
	}
	var runs []map[string]any
	for _, busyAt := range []int{-1, 10, 150, 250} {
		out, err := exec.Command(filepath.Join(b, "seambin"), fmt.Sprint(busyAt)).Output()
		var r res
		if err != nil || json.Unmarshal(out, &r) != nil {
			report.Fatal("seam pass: run busyAt=%d failed: %v %s", busyAt, err, out)
		}
		sched := "reaper signals fall due while the thread is idle"
		if busyAt >= 0 {
			sched = fmt.Sprintf("thread held busy for 1 s from %d ms (reaper signal falls due meanwhile)", busyAt)
		}
		runs = append(runs, map[string]any{"schedule": sched, "drained": r.Drained, "waited_ms": r.Waited, "thread_was_held": r.Held})
		if !r.Drained {
			rep.Add(report.Violation{Clause: "C08.pit", Key: "PIT never drains on the real Run() loop when the reaper signal falls due while the thread is busy",
				Detail: fmt.Sprintf("real Thread.Run() loop, Interests with 200 ms lifetime, %s: %d PIT entries remain 45 s later", sched, r.Pit),
				Replay: map[string]any{"mode": "seam", "busy_at_ms": busyAt}})
		}
	}
	cov["timer_seam_pass"] = map[string]any{"runs": runs, "note": "free-running real-time pass over the 4 schedules of the reaper-timer seam (timer goroutine -> channel -> Run() select); passes as soon as the PIT is empty, fails only after 45 s"}
}

func fileExists(p string) bool { _, err := os.Stat(p); return err == nil }

func build(cfg string) explore.System {
	if strings.HasPrefix(cfg, "pit") {
		return buildPit(cfg)
	}
	return buildTables(cfg)
}

// replaySeam re-runs one schedule of the timer-seam pass from a replay file (mode "seam").
func replaySeam(path string) (handled bool, code int) {
	b, err := os.ReadFile(path)
	if err != nil {
		return false, 0
	}
	var f struct {
		Replay struct {
			Mode   string `json:"mode"`
			BusyAt int    `json:"busy_at_ms"`
		} `json:"replay"`
	}
	if json.Unmarshal(b, &f) != nil || f.Replay.Mode != "seam" {
		return false, 0
	}
	rep := report.New("C08", "model_checking")
	cov := report.Coverage{}
	seamPass(rep, cov)
	for _, r := range cov["timer_seam_pass"].(map[string]any)["runs"].([]map[string]any) {
		fmt.Printf("replayed: %v drained=%v\n", r["schedule"], r["drained"])
		if r["drained"] == false {
			code = 1
		}
	}
	if code == 1 {
		fmt.Printf("VIOLATION property=C08 replay=%s\n", path)
	} else {
		fmt.Println("replay: violation not reproduced")
	}
	return true, code
}

func main() {
	if len(os.Args) >= 3 && os.Args[1] == "--replay" {
		if ok, code := replaySeam(os.Args[2]); ok {
			os.Exit(code)
		}
	}
	explore.Main(explore.Spec{
		ID: "C08", PanicClause: "C08.panic", Build: build, Extra: func(rep *report.Reporter, cov report.Coverage) {
			if os.Getenv("VERIF_ONLY") == "" {
				seamPass(rep, cov)
			}
		},
		Configs: func(th bool) []explore.Config {
			d := map[string]int{"fib": 4, "rib": 3, "cs": 6}
			if th {
				d = map[string]int{"fib": 5, "rib": 4, "cs": 8}
			}
			var c []explore.Config
			for _, k := range []string{"tree", "ht1", "ht2", "ht3"} {
				c = append(c, explore.Config{Name: "fib " + k, MaxDepth: d["fib"], MaxDev: -1})
			}
			for _, k := range []string{"tree", "ht2"} {
				c = append(c, explore.Config{Name: "rib " + k, MaxDepth: d["rib"], MaxDev: -1})
				c = append(c, explore.Config{Name: "rib2o " + k, MaxDepth: d["rib"] + 2, MaxDev: -1})
			}
			for _, k := range []string{"1", "2"} {
				c = append(c, explore.Config{Name: "cs " + k, MaxDepth: d["cs"], MaxDev: -1})
			}
			c = append(c, pitConfigs(th)...)
			ad := 3
			if th {
				ad = 4
			}
			c = append(c, explore.Config{Name: "audit(no dedup) pit br cs nametree", BuildName: "pit br cs nametree", MaxDepth: ad, MaxDev: -1, NoDedup: true})
			c = append(c, explore.Config{Name: "audit(no dedup) cs 1", BuildName: "cs 1", MaxDepth: ad + 2, MaxDev: -1, NoDedup: true})
			// development aid: VERIF_ONLY=<prefix> keeps the configurations whose name starts with it
			if only := os.Getenv("VERIF_ONLY"); only != "" {
				var k []explore.Config
				for _, x := range c {
					if strings.HasPrefix(x.Name, only) {
						k = append(k, x)
					}
				}
				c = k
			}
			return c
		},
		Budget: func(th bool) time.Duration {
			if th {
				return 25 * time.Minute
			}
			return 90 * time.Second
		},
		Rule: "BFS over update histories on the real FIB (tree, hash table m=1..3), RIB over FIB, content store, and Interest/Data/time histories on a real forwarding thread (three alphabets: pit = two faces, exact/CanBePrefix, retransmissions, NextHopFaceId, bursts, Data by name and token; pitm = Data satisfying several entries at once, arriving on the upstream or on a downstream face, lifetimes 1 s and explicit 0; pitc = MustBeFresh/stale Data/admit-only so that cache entries and pending Interests share name-tree nodes, three Data names against content-store capacity 0, 1, 2; pitb = bursts of 101 / 350 Interests with distinct names and a 200 ms lifetime in one step; pito = one long-lived (4 s) Interest next to short-lived ones (1 s, 100 ms, explicit 0) and Data satisfying either; pith = cache hits: every Interest shape (exact, CanBePrefix, MustBeFresh, the zero-component name / with CanBePrefix, two faces, lifetimes 1 s / 4 s) against solicited and unsolicited, fresh and stale cached Data, under best-route, multicast and a per-prefix strategy choice); the periodic PIT reaper runs after every 100 ms clock step or - configurations 'own' - only when the table's OWN timer (PitCsTree.UpdateTimer(), armed by NewPitCS/Update through time.AfterFunc on the virtual clock) has fired, as in Thread.Run(); after every transition a white-box dump of the private structures is compared with the minimal structure its live entries require; PIT states are additionally closed under quiescence (clock advanced beyond every lifetime with the periodic reaper running)",
		Assumptions: []string{
			"equal canonical state (white-box dumps with clock-relative times) implies equal futures",
			"finite universes of 4-5 nested/sibling prefixes, 2 faces",
			"C08.when is evaluated after every periodic run AND just before it (an entry present then was present during the whole preceding clock step); in the 'own' configurations the thread serves the reaper signal at the end of the 100 ms clock step in which the table's timer fell due (all lifetimes and steps are multiples of 100 ms, so on the unchanged tree the signal is served the instant it falls due) and never runs the reaper without a signal; the dead-nonce-list reaper keeps its fixed 100 ms ticker",
			"'promptly once satisfied' is judged against a reference of satisfaction kept by the harness (match rule of the property text: echoed token of this forwarder, else equal name / prefix with CanBePrefix; entries holding an unexpired Interest when the Data arrives, whatever face it arrives on), not against the implementation's satisfied flag; 'promptly' and 'shortly after' = two reaper intervals",
			"an Interest is 'answered from the cache' when a Data copy goes back to its face within the arrival call; an entry that held no records before that Interest (created for it, or satisfied and waiting for removal) must be gone within two reaper intervals of the answer whatever records the forwarder keeps in it; if the entry also held records of other Interests their lifetimes govern",
		},
	})
}
