// C08: forwarder state is reclaimed — PIT, name trees and nonce list drain at quiescence.
// Explicit-state searches on the real tables; after EVERY transition the white-box dump must
// show nothing beyond what the live entries require (FIB, RIB, CS side of the name tree), and for
// the PIT side (pit.go) every reached state is additionally closed under quiescence.
package main

import (
	"strings"
	"time"

	"verif/mc/explore"
)

func build(cfg string) explore.System {
	if strings.HasPrefix(cfg, "pit") {
		return buildPit(cfg)
	}
	return buildTables(cfg)
}

func main() {
	explore.Main(explore.Spec{
		ID: "C08", PanicClause: "C08.panic", Build: build,
		Configs: func(th bool) []explore.Config {
			d := map[string]int{"fib": 4, "rib": 3, "cs": 6}
			if th {
				d = map[string]int{"fib": 5, "rib": 4, "cs": 8}
			}
			var c []explore.Config
			for _, k := range []string{"tree", "ht1", "ht2", "ht3"} {
				c = append(c, explore.Config{Name: "fib " + k, MaxDepth: d["fib"], MaxDev: -1})
			}
			for _, k := range []string{"tree", "ht2"} {
				c = append(c, explore.Config{Name: "rib " + k, MaxDepth: d["rib"], MaxDev: -1})
				c = append(c, explore.Config{Name: "rib2o " + k, MaxDepth: d["rib"] + 2, MaxDev: -1})
			}
			for _, k := range []string{"1", "2"} {
				c = append(c, explore.Config{Name: "cs " + k, MaxDepth: d["cs"], MaxDev: -1})
			}
			c = append(c, pitConfigs(th)...)
			ad := 3
			if th {
				ad = 4
			}
			c = append(c, explore.Config{Name: "audit(no dedup) pit br cs nametree", BuildName: "pit br cs nametree", MaxDepth: ad, MaxDev: -1, NoDedup: true})
			c = append(c, explore.Config{Name: "audit(no dedup) cs 1", BuildName: "cs 1", MaxDepth: ad + 2, MaxDev: -1, NoDedup: true})
			return c
		},
		Budget: func(th bool) time.Duration {
			if th {
				return 25 * time.Minute
			}
			return 100 * time.Second
		},
		Rule: "BFS over update histories on the real FIB (tree, hash table m=1..3), RIB over FIB, content store, and Interest/Data/time histories on a real forwarding thread; after every transition a white-box dump of the private structures is compared with the minimal structure its live entries require; PIT states are additionally closed under quiescence (clock advanced beyond every lifetime with the periodic reaper running)",
		Assumptions: []string{
			"equal canonical state (white-box dumps with clock-relative times) implies equal futures",
			"finite universes of 4-5 nested/sibling prefixes, 2 faces",
		},
	})
}
