// C08 timer-seam pass (free-running, real time): the PIT reaper is driven by a timer goroutine
// that signals the forwarding thread's Run() loop over a channel. The synchronous searches call the
// reaper arm directly and cannot see that seam, so this program runs the REAL Thread.Run() loop in
// a goroutine and forces each of the seam's schedules: the reaper signal falls due while the thread
// is idle (waiting in its select), or while it is busy inside a SendPacket that the harness holds
// back for a second (starting before the 1st, 2nd or 3rd signal). Whatever the schedule, the PIT
// must drain once every Interest lifetime has elapsed. Built WITHOUT the virtual-clock rewrite.
//
// usage: seambin <busy-start-ms | -1>   prints one JSON line {"drained":bool,"waited_ms":n,"pit":n}
package main

import (
	"encoding/json"
	"fmt"
	"os"
	"sync/atomic"
	"time"

	"verif/harness/fwsim"
)

func main() {
	var busyAt int
	fmt.Sscan(os.Args[1], &busyAt)
	release := make(chan struct{})
	var held atomic.Bool
	var hold atomic.Bool
	cfg := fwsim.Config{
		FibAlgo: "nametree", CsCapacity: 2, CsAdmit: false, CsServe: false, DnlLifetime: 500 * time.Millisecond,
		Routes:          []fwsim.Route{{Prefix: "/a", Face: fwsim.N2, Cost: 1}},
		Strategies:      []fwsim.StrategyChoice{{Prefix: "/", Strategy: fwsim.BestRoute}},
		RealLinkService: true,
		OnSend: func(uint64) {
			if hold.Load() && held.CompareAndSwap(false, true) {
				<-release // the forwarding thread is busy until the harness lets go
			}
		},
	}
	t0 := time.Now()
	sim := fwsim.New(cfg)
	go sim.Thread.Run()
	send := func(name string, nonce uint32) {
		sim.Enqueue(fwsim.L1, fwsim.MakeInterest(fwsim.InterestSpec{Name: name, Nonce: fwsim.U32(nonce), Lifetime: fwsim.Dur(200 * time.Millisecond)}), fwsim.LP{})
	}
	// an Interest right away so that the PIT is not empty
	send("/a/x", 1)
	if busyAt >= 0 {
		time.Sleep(time.Until(t0.Add(time.Duration(busyAt) * time.Millisecond)))
		hold.Store(true)
		send("/a/y", 2) // its transmission is held back: the thread is busy from now on
		time.Sleep(1 * time.Second)
		close(release)
	}
	// every lifetime is 200 ms: the PIT must be empty shortly afterwards; generous ceiling
	start := time.Now()
	drained := false
	for time.Since(start) < 45*time.Second {
		if time.Since(t0) > 1500*time.Millisecond && sim.Thread.GetNumPitEntries() == 0 {
			drained = true
			break
		}
		time.Sleep(50 * time.Millisecond)
	}
	json.NewEncoder(os.Stdout).Encode(map[string]any{"drained": drained, "waited_ms": time.Since(start).Milliseconds(), "pit": sim.Thread.GetNumPitEntries(), "held": held.Load()})
}
