package pktgen

import (
	"crypto/ecdsa"
	"crypto/rsa"
	"crypto/x509"
	"encoding/base64"
	"fmt"
	"time"

	enc "github.com/named-data/ndnd/std/encoding"
	"github.com/named-data/ndnd/std/ndn"
	"github.com/named-data/ndnd/std/security"
)

// FixedTimer is a deterministic ndn.Timer for the signers that accept one.
type FixedTimer struct{}

var fixedNow = time.Date(2024, 2, 29, 12, 34, 56, 789_000_000, time.UTC)

func (FixedTimer) Now() time.Time                              { return fixedNow }
func (FixedTimer) Sleep(time.Duration)                         {}
func (FixedTimer) Schedule(time.Duration, func()) func() error { return func() error { return nil } }
func (FixedTimer) Nonce() []byte                               { return []byte{0xde, 0xad, 0xbe, 0xef, 1, 2, 3, 4} }

// RecSigner wraps a shipped signer and records what the packet encoder asked it to sign, the
// signature it returned and the SigConfig it announced.
type RecSigner struct {
	Inner   ndn.Signer
	Cfg     *ndn.SigConfig
	Covered []byte // copy of the joined wire handed to ComputeSigValue
	Asked   bool
	SigVal  []byte
}

// CertZone is the (non-UTC) location in which the validity period of certificate-mode signers is
// handed to the packet API: the same instants, expressed in another zone. The API must encode
// the instants, whatever Location the time values carry.
var CertZone = time.FixedZone("verif+0530", 5*3600+1800)

func init() {
	// The shipped certificate-mode signers take NotBefore/NotAfter from time.Now(), i.e. in
	// time.Local: run the whole harness in a non-UTC zone, like an application on a desktop.
	time.Local = CertZone
}

func (r *RecSigner) SigInfo() (*ndn.SigConfig, error) {
	c, err := r.Inner.SigInfo()
	if c != nil && c.NotBefore != nil {
		t := c.NotBefore.In(CertZone)
		c.NotBefore = &t
	}
	if c != nil && c.NotAfter != nil {
		t := c.NotAfter.In(CertZone)
		c.NotAfter = &t
	}
	r.Cfg = c
	return c, err
}
func (r *RecSigner) EstimateSize() uint { return r.Inner.EstimateSize() }
func (r *RecSigner) ComputeSigValue(w enc.Wire) ([]byte, error) {
	r.Asked = true
	r.Covered = r.Covered[:0]
	for _, b := range w {
		r.Covered = append(r.Covered, b...)
	}
	s, err := r.Inner.ComputeSigValue(w)
	r.SigVal = append([]byte(nil), s...)
	return s, err
}

// SignerSpec describes one way of constructing a shipped signer, with its matching validator.
type SignerSpec struct {
	Name     string
	Family   string // sha256 | hmac | ecdsa | rsa | empty
	New      func() ndn.Signer
	Validate func(cov enc.Wire, sig ndn.Signature) bool // nil: no validator is shipped for it
	Slow     bool                                       // expensive verification (tamper clause bounds it)
	// KeyVariant: same constructor and mode as another entry, only the key material differs (HMAC
	// key lengths around the SHA-256 block size, a second ECDSA / RSA key). Not part of the
	// generic "signer" deviation dimension; C12 enumerates them as signer modes of their own.
	KeyVariant bool
	// FailsToSign: a shipped constructor given a key with which every ComputeSigValue call returns
	// an error (RSA-384 is too short for PKCS#1 v1.5 with SHA-256). Only used as a predecessor in
	// signer histories: a failed signing call must not influence later ones.
	FailsToSign bool
	// CurveBits: bit size of the curve of an ECDSA signer's key (0 for the other families).
	CurveBits int
	// SizeClass: set for the signers of the signature-size dimension (ext_sigsize.go): which length
	// form the estimate falls in and whether the signature is as long as the estimate. Qualifies
	// violation keys.
	SizeClass string
}

// EcdsaMaxDER is the length of the longest ASN.1 DER ECDSA signature (SEQUENCE of two INTEGERs)
// for a curve whose order has the given bit size: each INTEGER holds ceil(bits/8) magnitude
// bytes plus a zero sign byte when bits is a multiple of 8. Written from X.690, shares nothing
// with std/security.
func EcdsaMaxDER(bits int) int {
	n := (bits + 7) / 8
	if bits%8 == 0 {
		n++
	}
	body := 2 * (2 + n)
	if body < 128 {
		return 2 + body
	}
	return 3 + body
}

var (
	HmacKey     = []byte("verif-hmac-key-0123456789")
	KeyP256     *ecdsa.PrivateKey
	KeyP521     *ecdsa.PrivateKey
	KeyRSA1024  *rsa.PrivateKey
	KeyRSA2048  *rsa.PrivateKey
	KeyP256b    *ecdsa.PrivateKey
	KeyRSA2048b *rsa.PrivateKey
	KeyRSA384   *rsa.PrivateKey
	KeyP224     *ecdsa.PrivateKey
	KeyP384     *ecdsa.PrivateKey
)

// HmacKeyLens are the lengths of the additional HMAC keys: 0 (the signers accept an empty key), 1, and around the digest size (32) and
// the block size (64) of SHA-256, where HMAC treats the key differently (RFC 2104: a key longer
// than the block is replaced by its digest).
var HmacKeyLens = []int{0, 1, 32, 63, 64, 65, 128}

// HmacKeyOfLen returns the fixed test key of n bytes.
func HmacKeyOfLen(n int) []byte {
	k := make([]byte, n)
	for i := range k {
		k[i] = byte(0x30 + (i*11+n)%75)
	}
	return k
}

func mustKey(b64 string) any {
	der, err := base64.StdEncoding.DecodeString(b64)
	if err != nil {
		panic(err)
	}
	k, err := x509.ParsePKCS8PrivateKey(der)
	if err != nil {
		panic(err)
	}
	return k
}

func init() {
	KeyP256 = mustKey(keyP256).(*ecdsa.PrivateKey)
	KeyP521 = mustKey(keyP521).(*ecdsa.PrivateKey)
	KeyRSA1024 = mustKey(keyRSA1024).(*rsa.PrivateKey)
	KeyRSA2048 = mustKey(keyRSA2048).(*rsa.PrivateKey)
	KeyP256b = mustKey(keyP256b).(*ecdsa.PrivateKey)
	KeyRSA2048b = mustKey(keyRSA2048b).(*rsa.PrivateKey)
	KeyRSA2048b.Precompute()
	KeyRSA384 = mustKey(keyRSA384).(*rsa.PrivateKey)
	KeyP224 = mustKey(keyP224).(*ecdsa.PrivateKey)
	KeyP384 = mustKey(keyP384).(*ecdsa.PrivateKey)
	KeyRSA1024.Precompute()
	KeyRSA2048.Precompute()
	signerList = buildSigners()
	ecdsaKeys := map[string]*ecdsa.PrivateKey{"ecdsa-p256": KeyP256, "ecdsa-p256-cert": KeyP256, "ecdsa-p256-int": KeyP256,
		"ecdsa-p521": KeyP521, "ecdsa-p256-keyB": KeyP256b, "ecdsa-p224": KeyP224, "ecdsa-p384": KeyP384}
	for i := range signerList {
		if signerList[i].Family == "ecdsa" {
			k := ecdsaKeys[signerList[i].Name]
			if k == nil {
				panic("pktgen: no key recorded for " + signerList[i].Name)
			}
			signerList[i].CurveBits = k.Curve.Params().BitSize
		}
	}
}

func keyName(s string) enc.Name {
	return enc.Name{
		enc.Component{Typ: 8, Val: []byte("K")},
		enc.Component{Typ: 8, Val: []byte(s)},
		enc.Component{Typ: 8, Val: []byte("KEY")},
	}
}

// Signers lists every constructor of std/security present at this commit, in each mode
// (plain / certificate / interest).
func Signers() []SignerSpec { return signerList }

var signerList []SignerSpec

func buildSigners() []SignerSpec {
	day := 24 * time.Hour
	sha := func(c enc.Wire, s ndn.Signature) bool { return security.Sha256Validate(c, s) }
	hm := func(c enc.Wire, s ndn.Signature) bool { return security.HmacValidate(c, s, HmacKey) }
	ec := func(k *ecdsa.PrivateKey) func(enc.Wire, ndn.Signature) bool {
		return func(c enc.Wire, s ndn.Signature) bool { return security.EcdsaValidate(c, s, &k.PublicKey) }
	}
	rs := func(k *rsa.PrivateKey) func(enc.Wire, ndn.Signature) bool {
		return func(c enc.Wire, s ndn.Signature) bool { return security.RsaValidate(c, s, &k.PublicKey) }
	}
	list := []SignerSpec{
		{Name: "sha256", Family: "sha256", New: func() ndn.Signer { return security.NewSha256Signer() }, Validate: sha},
		{Name: "sha256-int", Family: "sha256", New: func() ndn.Signer { return security.NewSha256IntSigner(FixedTimer{}) }, Validate: sha},
		{Name: "hmac", Family: "hmac", New: func() ndn.Signer { return security.NewHmacSigner(keyName("h"), HmacKey, false, 0) }, Validate: hm},
		{Name: "hmac-cert", Family: "hmac", New: func() ndn.Signer { return security.NewHmacSigner(keyName("h"), HmacKey, true, day) }, Validate: hm},
		{Name: "hmac-int", Family: "hmac", New: func() ndn.Signer { return security.NewHmacIntSigner(HmacKey, FixedTimer{}) }, Validate: hm},
		{Name: "ecdsa-p256", Family: "ecdsa", New: func() ndn.Signer { return security.NewEccSigner(false, false, 0, KeyP256, keyName("e")) }, Validate: ec(KeyP256)},
		{Name: "ecdsa-p256-cert", Family: "ecdsa", New: func() ndn.Signer { return security.NewEccSigner(true, false, day, KeyP256, keyName("e")) }, Validate: ec(KeyP256)},
		{Name: "ecdsa-p256-int", Family: "ecdsa", New: func() ndn.Signer { return security.NewEccSigner(false, true, 0, KeyP256, keyName("e")) }, Validate: ec(KeyP256)},
		{Name: "ecdsa-p521", Family: "ecdsa", New: func() ndn.Signer { return security.NewEccSigner(false, false, 0, KeyP521, keyName("e5")) }, Validate: ec(KeyP521), Slow: true},
		{Name: "rsa2048", Family: "rsa", New: func() ndn.Signer { return security.NewRsaSigner(false, false, 0, KeyRSA2048, keyName("r")) }, Validate: rs(KeyRSA2048)},
		{Name: "rsa2048-cert", Family: "rsa", New: func() ndn.Signer { return security.NewRsaSigner(true, false, day, KeyRSA2048, keyName("r")) }, Validate: rs(KeyRSA2048)},
		{Name: "rsa2048-int", Family: "rsa", New: func() ndn.Signer { return security.NewRsaSigner(false, true, 0, KeyRSA2048, keyName("r")) }, Validate: rs(KeyRSA2048)},
		{Name: "rsa1024", Family: "rsa", New: func() ndn.Signer { return security.NewRsaSigner(false, false, 0, KeyRSA1024, keyName("r1")) }, Validate: rs(KeyRSA1024)},
		{Name: "rsa1024-int", Family: "rsa", New: func() ndn.Signer { return security.NewRsaSigner(false, true, 0, KeyRSA1024, keyName("r1")) }, Validate: rs(KeyRSA1024)},
		{Name: "empty-test", Family: "empty", New: func() ndn.Signer { return security.NewEmptySigner() }},
		// key locator name with four zero-length components: /K/<e>/<e>/<e>/<e>/KEY
		{Name: "hmac-klempty", Family: "hmac", New: func() ndn.Signer { return security.NewHmacSigner(keyNameEmpties(), HmacKey, false, 0) }, Validate: hm},
	}
	// key material variants (appended last: the indices of the modes above never change)
	for _, n := range HmacKeyLens {
		key := HmacKeyOfLen(n)
		val := func(c enc.Wire, s ndn.Signature) bool { return security.HmacValidate(c, s, key) }
		list = append(list,
			SignerSpec{Name: fmt.Sprintf("hmac-key%d", n), Family: "hmac", KeyVariant: true, Validate: val,
				New: func() ndn.Signer { return security.NewHmacSigner(keyName("h"), key, false, 0) }},
			SignerSpec{Name: fmt.Sprintf("hmac-int-key%d", n), Family: "hmac", KeyVariant: true, Validate: val,
				New: func() ndn.Signer { return security.NewHmacIntSigner(key, FixedTimer{}) }})
	}
	list = append(list,
		SignerSpec{Name: "ecdsa-p256-keyB", Family: "ecdsa", KeyVariant: true, Validate: ec(KeyP256b),
			New: func() ndn.Signer { return security.NewEccSigner(false, false, 0, KeyP256b, keyName("eB")) }},
		SignerSpec{Name: "rsa2048-keyB", Family: "rsa", KeyVariant: true, Validate: rs(KeyRSA2048b),
			New: func() ndn.Signer { return security.NewRsaSigner(false, false, 0, KeyRSA2048b, keyName("rB")) }},
		SignerSpec{Name: "ecdsa-p224", Family: "ecdsa", KeyVariant: true, Validate: ec(KeyP224),
			New: func() ndn.Signer { return security.NewEccSigner(false, false, 0, KeyP224, keyName("e2")) }},
		SignerSpec{Name: "ecdsa-p384", Family: "ecdsa", KeyVariant: true, Validate: ec(KeyP384),
			New: func() ndn.Signer { return security.NewEccSigner(false, false, 0, KeyP384, keyName("e3")) }},
		SignerSpec{Name: "rsa384-unusable", Family: "rsa", KeyVariant: true, FailsToSign: true, Validate: rs(KeyRSA384),
			New: func() ndn.Signer { return security.NewRsaSigner(false, false, 0, KeyRSA384, keyName("r3")) }},
		SignerSpec{Name: "rsa384-unusable-int", Family: "rsa", KeyVariant: true, FailsToSign: true, Validate: rs(KeyRSA384),
			New: func() ndn.Signer { return security.NewRsaSigner(false, true, 0, KeyRSA384, keyName("r3")) }})
	return list
}

func keyNameEmpties() enc.Name {
	n := enc.Name{enc.Component{Typ: 8, Val: []byte("K")}}
	for i := 0; i < 4; i++ {
		n = append(n, enc.Component{Typ: 8, Val: []byte{}})
	}
	return append(n, enc.Component{Typ: 8, Val: []byte("KEY")})
}

// SignerPool hands out ONE signer object per signer mode, so that consecutive packets are signed by
// the same object (an application keeps its signer; state leaking between packets shows up only then).
type SignerPool struct{ objs map[int]ndn.Signer }

func NewSignerPool() *SignerPool { return &SignerPool{objs: map[int]ndn.Signer{}} }

func (p *SignerPool) Get(i int) ndn.Signer {
	if s, ok := p.objs[i]; ok {
		return s
	}
	s := Signers()[i].New()
	p.objs[i] = s
	return s
}

// SignerIndex returns the index of the named signer in Signers() (-1 if absent).
func SignerIndex(name string) int {
	for i, s := range Signers() {
		if s.Name == name {
			return i
		}
	}
	return -1
}
