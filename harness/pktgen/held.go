package pktgen

// Packets that stay alive: an application builds a packet, keeps the EncodedData / EncodedInterest
// the API returned (its Wire, BY REFERENCE), and goes on building more packets with the same signer
// object and, often, the same name / payload / config objects. Everything the API returned for the
// earlier packet must stay what it was. This file provides the pieces for that universe:
// BuildHeld (one call of the packet API with explicitly supplied signer object and input objects,
// nothing copied or joined away), InputPool (interns the input objects of a sequence so that equal
// inputs of different builds are the SAME objects) and Held (the un-copied outcome plus private
// copies of everything, taken right after the build).

import (
	"bytes"
	"fmt"
	"time"

	enc "github.com/named-data/ndnd/std/encoding"
	"github.com/named-data/ndnd/std/ndn"
	spec "github.com/named-data/ndnd/std/ndn/spec_2022"
)

// Inputs are the objects handed to MakeInterest / MakeData for one build.
type Inputs struct {
	Name    enc.Name
	Payload enc.Wire
	ICfg    *ndn.InterestConfig
	DCfg    *ndn.DataConfig
}

// InputPool interns input objects by their description: two builds of one sequence whose
// descriptions agree in the name (payload, config) get the same enc.Name (enc.Wire, *Config)
// object. SpareCap > 0 gives every name slice that much unused capacity (a name an application
// built with append).
type InputPool struct {
	SpareCap int
	names    map[string]enc.Name
	pays     map[string]enc.Wire
	icfgs    map[string]*ndn.InterestConfig
	dcfgs    map[string]*ndn.DataConfig
}

func NewInputPool(spareCap int) *InputPool {
	return &InputPool{SpareCap: spareCap, names: map[string]enc.Name{}, pays: map[string]enc.Wire{},
		icfgs: map[string]*ndn.InterestConfig{}, dcfgs: map[string]*ndn.DataConfig{}}
}

func mkNameCap(cs []Comp, salt, spare int) enc.Name {
	n := make(enc.Name, len(cs), len(cs)+spare)
	copy(n, MkName(cs, salt))
	return n
}

func optStr[T any](p *T) string {
	if p == nil {
		return "-"
	}
	return fmt.Sprint(*p)
}

// inputsFor materialises (pool == nil: fresh objects, exact capacities) or looks up the inputs of d.
func inputsFor(d *Desc, pool *InputPool) Inputs {
	var in Inputs
	spare := 0
	if pool != nil {
		spare = pool.SpareCap
	}
	mkI := func() *ndn.InterestConfig {
		cfg := &ndn.InterestConfig{CanBePrefix: d.CanBePrefix, MustBeFresh: d.MustBeFresh}
		if d.Nonce != nil {
			cfg.Nonce = p64(*d.Nonce)
		}
		if d.Lifetime != nil {
			v := *d.Lifetime
			cfg.Lifetime = &v
		}
		if d.HopLimit != nil {
			cfg.HopLimit = pu(*d.HopLimit)
		}
		if d.Hint != nil {
			cfg.ForwardingHint = make([]enc.Name, len(d.Hint), len(d.Hint)+spare)
			for i, h := range d.Hint {
				cfg.ForwardingHint[i] = mkNameCap(h, 20+10*i, spare)
			}
		}
		return cfg
	}
	mkD := func() *ndn.DataConfig {
		cfg := &ndn.DataConfig{}
		if d.Freshness != nil {
			v := *d.Freshness
			cfg.Freshness = &v
		}
		if d.ContentType != nil {
			ct := ndn.ContentType(*d.ContentType)
			cfg.ContentType = &ct
		}
		if d.FinalBlock != nil {
			c := MkName([]Comp{*d.FinalBlock}, 40)[0]
			cfg.FinalBlockID = &c
		}
		return cfg
	}
	if pool == nil {
		in.Name, in.Payload = mkNameCap(d.Name, 0, 0), d.Payload()
		if d.Interest {
			in.ICfg = mkI()
		} else {
			in.DCfg = mkD()
		}
		return in
	}
	nk := compsStr(d.Name)
	if n, ok := pool.names[nk]; ok {
		in.Name = n
	} else {
		in.Name = mkNameCap(d.Name, 0, spare)
		pool.names[nk] = in.Name
	}
	pk := fmt.Sprintf("%d/%s", d.PaySize, d.PaySplit)
	if w, ok := pool.pays[pk]; ok {
		in.Payload = w
	} else {
		in.Payload = d.Payload()
		pool.pays[pk] = in.Payload
	}
	if d.Interest {
		hk := "absent"
		if d.Hint != nil {
			hk = "["
			for _, h := range d.Hint {
				hk += compsStr(h) + ";"
			}
			hk += "]"
		}
		k := fmt.Sprintf("%v/%v/%s/%s/%s/%s", d.CanBePrefix, d.MustBeFresh, hk, optStr(d.Nonce), optStr(d.Lifetime), optStr(d.HopLimit))
		if c, ok := pool.icfgs[k]; ok {
			in.ICfg = c
		} else {
			in.ICfg = mkI()
			pool.icfgs[k] = in.ICfg
		}
	} else {
		fb := "-"
		if d.FinalBlock != nil {
			fb = fmt.Sprintf("%d:%d", d.FinalBlock.Typ, d.FinalBlock.Len)
		}
		k := fmt.Sprintf("%s/%s/%s", optStr(d.ContentType), optStr(d.Freshness), fb)
		if c, ok := pool.dcfgs[k]; ok {
			in.DCfg = c
		} else {
			in.DCfg = mkD()
			pool.dcfgs[k] = in.DCfg
		}
	}
	return in
}

// Held is one packet kept alive exactly as the API returned it.
type Held struct {
	*Built              // Wire, SigCov, FinalNm are the API's own objects (never copied); Bytes is a private copy taken right after the build
	In           Inputs // the objects that were handed to the API
	InDigest     string // rendering of the inputs' contents taken BEFORE the build
	ExactCapName bool   // the name slice handed in had no spare capacity and no trailing digest component: FinalName cannot legally alias it
}

// renderInputs flattens everything reachable from the inputs that the API must only read.
// A trailing ParametersSha256Digest component of an Interest name is left out: the API may strip
// or replace it (the property is silent), also in place.
func renderInputs(interest bool, in *Inputs) string {
	var b bytes.Buffer
	nm := func(n enc.Name) {
		fmt.Fprintf(&b, "name[%d]", len(n))
		for _, c := range n {
			fmt.Fprintf(&b, " %d:%x", c.Typ, c.Val)
		}
		b.WriteByte(';')
	}
	n := in.Name
	if interest && len(n) > 0 && n[len(n)-1].Typ == enc.TypeParametersSha256DigestComponent {
		n = n[:len(n)-1]
	}
	nm(n)
	if in.Payload == nil {
		b.WriteString("pay nil;")
	} else {
		fmt.Fprintf(&b, "pay[%d]", len(in.Payload))
		for _, s := range in.Payload {
			fmt.Fprintf(&b, " %d:%x", len(s), s)
		}
		b.WriteByte(';')
	}
	if c := in.ICfg; c != nil {
		fmt.Fprintf(&b, "icfg %v %v %s %s %s hint", c.CanBePrefix, c.MustBeFresh, optStr(c.Nonce), optStr(c.Lifetime), optStr(c.HopLimit))
		if c.ForwardingHint == nil {
			b.WriteString(" nil;")
		} else {
			for _, h := range c.ForwardingHint {
				nm(h)
			}
		}
	}
	if c := in.DCfg; c != nil {
		fmt.Fprintf(&b, "dcfg %s %s", optStr(c.ContentType), optStr(c.Freshness))
		if c.FinalBlockID != nil {
			fmt.Fprintf(&b, " final %d:%x", c.FinalBlockID.Typ, c.FinalBlockID.Val)
		}
	}
	return b.String()
}

// InputsIntact tells whether the input objects still hold what they held before the build
// ("" if so, else which input changed).
func (h *Held) InputsIntact() string {
	now := renderInputs(h.Desc.Interest, &h.In)
	if now == h.InDigest {
		return ""
	}
	a, b := h.InDigest, now
	i := 0
	for i < len(a) && i < len(b) && a[i] == b[i] {
		i++
	}
	// name the section the first difference falls in
	sec := "name"
	for _, s := range []string{"pay", "icfg", "dcfg"} {
		if j := bytes.Index([]byte(a), []byte(";"+s)); j >= 0 && i > j {
			sec = s
		}
	}
	return map[string]string{"name": "name", "pay": "payload buffers", "icfg": "InterestConfig", "dcfg": "DataConfig"}[sec]
}

// BuildHeld calls the packet API once. signer: the shipped signer OBJECT to use (nil with
// d.Signer >= 0: a fresh one; ignored when d.Signer < 0); it is wrapped in a fresh recorder that
// hands the signature slice through untouched. pool: where the input objects come from (nil:
// fresh ones). Nothing the API returns is copied, except into Bytes.
func BuildHeld(d *Desc, signer ndn.Signer, pool *InputPool) (h *Held) {
	b := &Built{Desc: d}
	h = &Held{Built: b}
	b.Name = MkName(d.Name, 0)
	if d.Hint != nil {
		b.Hint = make([]enc.Name, len(d.Hint))
		for i, x := range d.Hint {
			b.Hint[i] = MkName(x, 20+10*i)
		}
	}
	if !d.Interest && d.FinalBlock != nil {
		c := MkName([]Comp{*d.FinalBlock}, 40)[0]
		b.Final = &c
	}
	h.In = inputsFor(d, pool)
	h.InDigest = renderInputs(d.Interest, &h.In)
	n := h.In.Name
	h.ExactCapName = cap(n) == len(n) && !(len(n) > 0 && n[len(n)-1].Typ == enc.TypeParametersSha256DigestComponent)
	var sg ndn.Signer
	if d.Signer >= 0 {
		sp := Signers()[d.Signer]
		b.SignerSp = &sp
		if signer == nil {
			signer = sp.New()
		}
		b.Rec = &RecSigner{Inner: signer}
		sg = b.Rec
	}
	defer func() {
		if r := recover(); r != nil {
			b.Panic = PanicSite(r)
		}
	}()
	if d.Interest {
		e, err := spec.Spec{}.MakeInterest(h.In.Name, h.In.ICfg, h.In.Payload, sg)
		if err != nil {
			b.Err = err
			return
		}
		b.Wire, b.SigCov, b.FinalNm = e.Wire, e.SigCovered, e.FinalName
	} else {
		e, err := spec.Spec{}.MakeData(h.In.Name, h.In.DCfg, h.In.Payload, sg)
		if err != nil {
			b.Err = err
			return
		}
		b.Wire, b.SigCov = e.Wire, e.SigCovered
	}
	b.Bytes = make([]byte, 0, b.Wire.Length())
	for _, s := range b.Wire {
		b.Bytes = append(b.Bytes, s...)
	}
	return
}

// ElementAt names the innermost TLV element of the (walked) packet that contains offset off, and
// whether off lies in its type/length header or in its value: "SignatureValue value",
// "Name/GenericNameComponent value", "Data length".
func ElementAt(root *Node, off int) string {
	if root == nil {
		return "bytes"
	}
	names := map[uint64]string{5: "Interest", 6: "Data", 7: "Name", 8: "GenericNameComponent", 1: "ImplicitSha256DigestComponent",
		2: "ParametersSha256DigestComponent", 0x21: "CanBePrefix", 0x12: "MustBeFresh", 0x1e: "ForwardingHint", 0x0a: "Nonce",
		0x0c: "InterestLifetime", 0x22: "HopLimit", 0x24: "ApplicationParameters", 0x2c: "InterestSignatureInfo",
		0x2e: "InterestSignatureValue", 0x14: "MetaInfo", 0x15: "Content", 0x16: "SignatureInfo", 0x17: "SignatureValue",
		0x18: "ContentType", 0x19: "FreshnessPeriod", 0x1a: "FinalBlockId", 0x1b: "SignatureType", 0x1c: "KeyLocator",
		0x26: "SignatureNonce", 0x28: "SignatureTime", 0x2a: "SignatureSeqNum", 0xfd: "ValidityPeriod"}
	nm := func(n *Node) string {
		if s, ok := names[n.Typ]; ok && !(n.Parent != nil && n.Parent.Typ == 7 && n.Typ != 8 && n.Typ != 1 && n.Typ != 2) {
			return s
		}
		if n.Parent != nil && n.Parent.Typ == 7 {
			return "name component"
		}
		return fmt.Sprintf("element %#x", n.Typ)
	}
	cur := root
	for {
		var next *Node
		for _, k := range cur.Kids {
			if off >= k.Start && off < k.End {
				next = k
			}
		}
		if next == nil {
			break
		}
		cur = next
	}
	part := "value"
	if off < cur.VStart {
		part = "type/length header"
	}
	s := nm(cur)
	if cur.Parent != nil && cur.Parent != root {
		s = nm(cur.Parent) + "/" + s
	}
	return s + " " + part
}

// HeldShapes are the packet shapes of the held-packet universe for signer mode si (-1: unsigned):
// the base shapes plus deviations in the dimensions that move or resize what is signed and what
// the encoder allocates itself (name length, payload size across the 253 boundary supplied in
// several buffers, empty payload, forwarding hint, MetaInfo). All pairwise different.
func HeldShapes(si int) []Base {
	two := []Comp{{8, 1}, {8, 2}}
	three := []Comp{{8, 1}, {8, 2}, {8, 32}}
	one := []Comp{{0x32, 2}}
	ms := func(ms uint64) *time.Duration { return pd(ms) }
	return []Base{
		{"D-min", Desc{Name: two, PaySize: -1, Signer: si}},
		{"D-allmeta", Desc{Name: two, ContentType: p64(0), Freshness: ms(1000), FinalBlock: &Comp{0x32, 1}, PaySize: 3, Signer: si}},
		{"I-params", Desc{Interest: true, Name: two, PaySize: 3, Signer: si}},
		{"I-allopt", Desc{Interest: true, Name: two, CanBePrefix: true, MustBeFresh: true, Hint: [][]Comp{{{8, 1}}},
			Nonce: p64(0x01020304), Lifetime: ms(4000), HopLimit: pu(64), PaySize: 1, Signer: si}},
		// the first four are the "core" shapes (triples in the quick tier)
		{"D-3comp-253B-3buf", Desc{Name: three, PaySize: 253, PaySplit: "1|m|1", Signer: si}},
		{"D-1comp-empty-content", Desc{Name: one, Freshness: ms(0), PaySize: -2, Signer: si}},
		{"I-3comp-253B-2buf", Desc{Interest: true, Name: three, PaySize: 253, PaySplit: "h|h", Signer: si}},
		{"I-2hints-empty-params", Desc{Interest: true, Name: one, Hint: [][]Comp{{{8, 1}}, {{8, 2}, {0x36, 1}}}, PaySize: 0, Signer: si}},
		// no parameters: the API refuses it with every real signer (a refused call between two builds)
		{"I-noparams", Desc{Interest: true, Name: three, Lifetime: ms(1), PaySize: -1, Signer: si}},
	}
}

// HeldCore is the number of leading HeldShapes that form the core set.
const HeldCore = 4
