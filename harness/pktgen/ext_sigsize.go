package pktgen

// Signature SIZE as a dimension of the packet generator (shared by C03 and C12).
//
// The fixed catalog (signers.go) has a handful of signature lengths: 32 (digest, HMAC), the DER
// lengths of four curves, 128 and 256 (RSA-1024/2048). The packet encoder reserves
// EstimateSize() bytes, writes a SignatureValue length field for that estimate and patches the
// field (and the outer length) once the signer has answered: arithmetic over (estimate, actual)
// that the fixed sizes barely touch. Two universes add the missing values:
//
//   - SizedRSA: the shipped RSA signer with keys generated at check time (cached on disk) whose
//     modulus is 8*k bits for k = 250..256 (thorough: also 384 and 512), i.e. EstimateSize and
//     signature length on both sides of the 1-byte/3-byte length-field boundary. Keys around 65535
//     bytes (524 280-bit moduli) cannot be generated in any useful time; the arithmetic there is
//     covered by the grid below.
//   - SigSizeGrid: a harness-defined ndn.Signer that announces a SHIPPED signature type and whose
//     EstimateSize runs through every value 0..300 (and 65530..65540 for Data) with the actual
//     signature 0..3 bytes shorter, for Data and Interest base shapes.
//
// Oracle strength (SizeCase.Must): the property speaks about shipped signers. A pair
// (estimate, actual) is "must" when a shipped signer family behaves like it: actual == estimate
// for any size (RSA: both are the modulus length), actual < estimate when the estimate is below 253
// (ECDSA: DER signatures shorter than the estimate). actual < estimate with an estimate of 253+
// is produced by no shipped signer: those cases are built and their outcome is recorded in the
// coverage, never reported.

import (
	"crypto/rand"
	"crypto/rsa"
	"crypto/sha256"
	"crypto/x509"
	"encoding/binary"
	"fmt"
	"os"
	"path/filepath"
	"sync"

	enc "github.com/named-data/ndnd/std/encoding"
	"github.com/named-data/ndnd/std/ndn"
	"github.com/named-data/ndnd/std/security"
)

// SizedSigner is the harness-defined signer of the grid.
type SizedSigner struct {
	Typ      ndn.SigType
	Key      enc.Name // nil: no key locator
	Est, Act int
}

func (s *SizedSigner) SigInfo() (*ndn.SigConfig, error) {
	return &ndn.SigConfig{Type: s.Typ, KeyName: s.Key}, nil
}
func (s *SizedSigner) EstimateSize() uint { return uint(s.Est) }
func (s *SizedSigner) ComputeSigValue(w enc.Wire) ([]byte, error) {
	return SizedSigValue(w, s.Act), nil
}

// SizedSigValue is the n-byte "signature" of the grid signer: SHA-256 of the covered bytes,
// expanded in counter mode. Every byte depends on every covered byte.
func SizedSigValue(w enc.Wire, n int) []byte {
	h := sha256.New()
	for _, b := range w {
		h.Write(b)
	}
	seed := h.Sum(nil)
	out := make([]byte, 0, n+32)
	for ctr := uint32(0); len(out) < n; ctr++ {
		var c [4]byte
		binary.BigEndian.PutUint32(c[:], ctr)
		blk := sha256.Sum256(append(append([]byte(nil), seed...), c[:]...))
		out = append(out, blk[:]...)
	}
	return out[:n:n]
}

// SizeType is one shipped signature type a grid signer announces.
type SizeType struct {
	Word string
	Typ  ndn.SigType
	Key  bool
}

// SizeTypes: every signature type a shipped signer announces. The digest type carries no key
// locator (the encoder takes another branch for it), the others do.
var SizeTypes = []SizeType{
	{"rsa-type", ndn.SignatureSha256WithRsa, true},
	{"digest-type", ndn.SignatureDigestSha256, false},
	{"ecdsa-type", ndn.SignatureSha256WithEcdsa, true},
	{"hmac-type", ndn.SignatureHmacWithSha256, true},
}

// SizeCase is one case of a signature-size universe.
type SizeCase struct {
	Label string
	Desc  Desc
	Est   int
	Act   int
	// Must: a shipped signer family behaves like this (estimate, actual) pair, the clauses apply.
	// Otherwise the case is built and its outcome only recorded.
	Must bool
	// Boundary: estimate or actual within 250..257 or 65533..65537 (callers give these the full
	// segmentation treatment)
	Boundary bool
}

func sizedSpec(t SizeType, est, act int) *SignerSpec {
	var key enc.Name
	if t.Key {
		key = keyName("z")
	}
	return &SignerSpec{
		SizeClass: sizeClass(est, act),
		Name:      fmt.Sprintf("sized(%s,estimate=%d,actual=%d)", t.Word, est, act), Family: "sized", KeyVariant: true,
		New: func() ndn.Signer { return &SizedSigner{Typ: t.Typ, Key: key, Est: est, Act: act} },
		Validate: func(cov enc.Wire, sig ndn.Signature) bool {
			want := SizedSigValue(cov, act)
			got := sig.SigValue()
			if len(got) != len(want) {
				return false
			}
			for i := range got {
				if got[i] != want[i] {
					return false
				}
			}
			return true
		},
	}
}

// SizeShapes are the base shapes of the size universes (s = signer): minimal and all-fields Data,
// minimal and all-fields Interest with parameters.
func SizeShapes(s *SignerSpec) []Base {
	two := []Comp{{8, 1}, {8, 2}}
	return []Base{
		{"D0", Desc{Name: two, PaySize: -1, Signer: -1, Ext: s}},
		{"D1", Desc{Name: two, ContentType: p64(0), Freshness: pd(1000), FinalBlock: &Comp{0x32, 1}, PaySize: 3, Signer: -1, Ext: s}},
		{"I2", Desc{Interest: true, Name: two, PaySize: 3, Signer: -1, Ext: s}},
		{"I1", Desc{Interest: true, Name: two, CanBePrefix: true, MustBeFresh: true, Hint: [][]Comp{{{8, 1}}},
			Nonce: p64(0x01020304), Lifetime: pd(4000), HopLimit: pu(64), PaySize: 3, Signer: -1, Ext: s}},
	}
}

// SizeGridMax is the largest estimate of the contiguous part of the grid.
const SizeGridMax = 300

// SizeGridShort is the largest difference estimate - actual.
const SizeGridShort = 3

// sizeClass words the (estimate, actual) pair for violation keys: one root cause, one key.
func sizeClass(est, act int) string {
	form := "estimate below 253 (1-byte length form)"
	switch {
	case est == 0:
		form = "estimate 0"
	case est >= 65536:
		form = "estimate of 65536+ (5-byte length form)"
	case est >= 253:
		form = "estimate of 253..65535 (3-byte length form)"
	}
	if act == est {
		return "signature size: " + form + ", signature as long as the estimate"
	}
	return "signature size: " + form + ", signature shorter than the estimate"
}

// SizeWord returns " [signature size: ...]" for descriptions of the signature-size dimension, else "".
func (d *Desc) SizeWord() string {
	if d.Ext != nil && d.Ext.SizeClass != "" {
		return " [" + d.Ext.SizeClass + "]"
	}
	return ""
}

func sizeBoundary(v int) bool { return (v >= 250 && v <= 257) || (v >= 65533 && v <= 65537) }

// SigSizeGrid enumerates types x estimate 0..SizeGridMax (Data: also 65530..65540) x
// (estimate - actual) 0..SizeGridShort x SizeShapes. ntypes bounds the number of SizeTypes that get
// the whole grid; the remaining types get the estimates 0..2, 31..33 and 248..258.
func SigSizeGrid(ntypes int) []SizeCase {
	var out []SizeCase
	for ti, t := range SizeTypes {
		var ests []int
		if ti < ntypes {
			for e := 0; e <= SizeGridMax; e++ {
				ests = append(ests, e)
			}
		} else {
			ests = []int{0, 1, 2, 31, 32, 33}
			for e := 248; e <= 258; e++ {
				ests = append(ests, e)
			}
		}
		for e := 65530; e <= 65540; e++ {
			ests = append(ests, e)
		}
		for _, est := range ests {
			for short := 0; short <= SizeGridShort && short <= est; short++ {
				act := est - short
				sp := sizedSpec(t, est, act)
				for _, sh := range SizeShapes(sp) {
					if est > SizeGridMax && sh.Desc.Interest {
						continue
					}
					out = append(out, SizeCase{
						Label: fmt.Sprintf("%s + signature size: %s announcing EstimateSize %d and returning %d bytes", sh.Name, t.Word, est, act),
						Desc:  sh.Desc, Est: est, Act: act, Must: short == 0 || est < 253,
						Boundary: sizeBoundary(est) || sizeBoundary(act)})
				}
			}
		}
	}
	return out
}

// ---------------------------------------------------------------------------------------------
// RSA keys by modulus length

// SizedRSABytes are the modulus lengths (bytes) of the generated RSA keys.
func SizedRSABytes(thorough bool) []int {
	l := []int{250, 251, 252, 253, 254, 255, 256}
	if thorough {
		l = append(l, 257, 384, 512)
	}
	return l
}

func sizedKeyDir() string {
	if b := os.Getenv("VERIF_BUILD_DIR"); b != "" {
		return filepath.Join(filepath.Dir(b), "sigsize-keys")
	}
	if r := os.Getenv("VERIF_ROOT"); r != "" {
		return filepath.Join(r, ".build", "sigsize-keys")
	}
	return filepath.Join(os.TempDir(), "verif-sigsize-keys")
}

// sizedKey returns the cached RSA key of the given modulus length, generating it when absent.
// Creation is atomic (link of a finished temporary file; the first writer wins) so that checks
// running side by side end up with the same key.
func sizedKey(nbytes int) (*rsa.PrivateKey, error) {
	dir := sizedKeyDir()
	file := filepath.Join(dir, fmt.Sprintf("rsa-%d.pk8", nbytes*8))
	load := func() (*rsa.PrivateKey, error) {
		der, err := os.ReadFile(file)
		if err != nil {
			return nil, err
		}
		k, err := x509.ParsePKCS8PrivateKey(der)
		if err != nil {
			return nil, err
		}
		rk, ok := k.(*rsa.PrivateKey)
		if !ok || rk.Size() != nbytes {
			return nil, fmt.Errorf("%s: not an RSA key of %d bytes", file, nbytes)
		}
		return rk, nil
	}
	if k, err := load(); err == nil {
		return k, nil
	}
	k, err := rsa.GenerateKey(rand.Reader, nbytes*8)
	if err != nil {
		return nil, err
	}
	if k.Size() != nbytes {
		return nil, fmt.Errorf("generated key has %d bytes, want %d", k.Size(), nbytes)
	}
	der, err := x509.MarshalPKCS8PrivateKey(k)
	if err != nil {
		return nil, err
	}
	if err := os.MkdirAll(dir, 0o755); err != nil {
		return nil, err
	}
	tmp, err := os.CreateTemp(dir, "tmp-*")
	if err != nil {
		return nil, err
	}
	tmp.Write(der)
	tmp.Close()
	if _, lerr := load(); lerr != nil {
		os.Remove(file) // absent or unreadable
	}
	os.Link(tmp.Name(), file) // fails when another process was first: its key is used
	os.Remove(tmp.Name())
	return load()
}

var (
	sizedOnce  sync.Mutex
	sizedCache = map[int]*rsa.PrivateKey{}
)

// SizedRSA returns, for every modulus length of SizedRSABytes, the shipped RSA signer in its
// plain (Data) and interest mode with a key of that length. The first call of a check generates
// the missing keys (in parallel) and stores them under <build dir>/../sigsize-keys.
func SizedRSA(thorough bool) ([]SignerSpec, error) {
	sizedOnce.Lock()
	defer sizedOnce.Unlock()
	sizes := SizedRSABytes(thorough)
	var wg sync.WaitGroup
	errs := make([]error, len(sizes))
	keys := make([]*rsa.PrivateKey, len(sizes))
	for i, n := range sizes {
		if k := sizedCache[n]; k != nil {
			keys[i] = k
			continue
		}
		wg.Add(1)
		go func(i, n int) {
			defer wg.Done()
			keys[i], errs[i] = sizedKey(n)
		}(i, n)
	}
	wg.Wait()
	var out []SignerSpec
	for i, n := range sizes {
		if errs[i] != nil {
			return nil, fmt.Errorf("RSA key of %d bytes: %v", n, errs[i])
		}
		k := keys[i]
		k.Precompute()
		sizedCache[n] = k
		val := func(c enc.Wire, s ndn.Signature) bool { return security.RsaValidate(c, s, &k.PublicKey) }
		kn := keyName(fmt.Sprintf("r%d", n))
		out = append(out,
			SignerSpec{Name: fmt.Sprintf("rsa-%dbit(%dB)", n*8, n), Family: "rsa", KeyVariant: true, Validate: val, SizeClass: sizeClass(n, n),
				New: func() ndn.Signer { return security.NewRsaSigner(false, false, 0, k, kn) }},
			SignerSpec{Name: fmt.Sprintf("rsa-%dbit(%dB)-int", n*8, n), Family: "rsa", KeyVariant: true, Validate: val, SizeClass: sizeClass(n, n),
				New: func() ndn.Signer { return security.NewRsaSigner(false, true, 0, k, kn) }})
	}
	return out, nil
}

// SizedRSACases: the SizeShapes for every SizedRSA signer (Data shapes with the plain mode,
// Interest shapes with the interest mode).
func SizedRSACases(thorough bool) ([]SizeCase, error) {
	sps, err := SizedRSA(thorough)
	if err != nil {
		return nil, err
	}
	var out []SizeCase
	for i := range sps {
		sp := &sps[i]
		n := int(sp.New().EstimateSize())
		for _, sh := range SizeShapes(sp) {
			if sh.Desc.Interest != (i%2 == 1) {
				continue
			}
			out = append(out, SizeCase{Label: sh.Name + " + signature size: shipped RSA signer, generated key " + sp.Name,
				Desc: sh.Desc, Est: n, Act: n, Must: true, Boundary: true})
		}
	}
	return out, nil
}
