// Package pktgen is the shared input generator of the C03 and C12 checks: a handful of base
// Interest/Data descriptions plus ALL combinations of <=k deviations from them, every deviation
// drawn from a finite boundary domain (component counts/types/value lengths across the 1/3/5-byte
// number boundaries, optional fields absent/min/max, payload sizes and buffer splits, forwarding
// hints, MetaInfo, FinalBlockId, signer choice). Enumeration is deterministic (index order), no
// randomness anywhere.
package pktgen

import (
	"fmt"
	"runtime"
	"strings"
	"time"

	enc "github.com/named-data/ndnd/std/encoding"
	"github.com/named-data/ndnd/std/ndn"
	spec "github.com/named-data/ndnd/std/ndn/spec_2022"
)

// Comp describes a name component: type number and value length (value bytes are a fixed pattern).
type Comp struct {
	Typ uint64
	Len int
}

// Desc describes one packet to build through the packet API.
type Desc struct {
	Interest bool
	Name     []Comp

	CanBePrefix, MustBeFresh bool
	Hint                     [][]Comp // nil = absent (a non-nil empty list is a present, empty hint)
	Nonce                    *uint64
	Lifetime                 *time.Duration
	HopLimit                 *uint

	ContentType *uint64
	Freshness   *time.Duration
	FinalBlock  *Comp

	PaySize  int    // -1: nil wire, -2: non-nil wire with zero buffers, >=0: that many bytes
	PaySplit string // "" one buffer; otherwise a split class, see Buffers
	Signer   int    // -1 none, else index into Signers()
	// Ext: a signer outside the fixed Signers() catalog (signature-size dimension, ext_sigsize.go:
	// RSA keys generated at check time, harness-defined signers of a shipped signature type with a
	// chosen estimated and actual signature length). Takes precedence over Signer.
	Ext *SignerSpec
}

func p64(v uint64) *uint64        { return &v }
func pu(v uint) *uint             { return &v }
func pd(ms uint64) *time.Duration { d := time.Duration(ms) * time.Millisecond; return &d }
func cloneComps(c []Comp) []Comp  { return append([]Comp(nil), c...) }
func compsStr(cs []Comp) string {
	var sb strings.Builder
	for _, c := range cs {
		fmt.Fprintf(&sb, "/%d:%d", c.Typ, c.Len)
	}
	if len(cs) == 0 {
		return "/"
	}
	return sb.String()
}

// String is a canonical, replayable rendering of the description.
func (d *Desc) String() string {
	var sb strings.Builder
	if d.Interest {
		sb.WriteString("Interest ")
	} else {
		sb.WriteString("Data ")
	}
	sb.WriteString("name=" + compsStr(d.Name))
	if d.CanBePrefix {
		sb.WriteString(" cbp")
	}
	if d.MustBeFresh {
		sb.WriteString(" mbf")
	}
	if d.Hint != nil {
		sb.WriteString(" hint=[")
		for i, h := range d.Hint {
			if i > 0 {
				sb.WriteString(",")
			}
			sb.WriteString(compsStr(h))
		}
		sb.WriteString("]")
	}
	if d.Nonce != nil {
		fmt.Fprintf(&sb, " nonce=%d", *d.Nonce)
	}
	if d.Lifetime != nil {
		fmt.Fprintf(&sb, " life=%dms", d.Lifetime.Milliseconds())
	}
	if d.HopLimit != nil {
		fmt.Fprintf(&sb, " hop=%d", *d.HopLimit)
	}
	if d.ContentType != nil {
		fmt.Fprintf(&sb, " ctype=%d", *d.ContentType)
	}
	if d.Freshness != nil {
		fmt.Fprintf(&sb, " fresh=%dms", d.Freshness.Milliseconds())
	}
	if d.FinalBlock != nil {
		fmt.Fprintf(&sb, " final=%d:%d", d.FinalBlock.Typ, d.FinalBlock.Len)
	}
	switch {
	case d.PaySize == -1:
		sb.WriteString(" pay=nil")
	case d.PaySize == -2:
		sb.WriteString(" pay=wire{}")
	default:
		fmt.Fprintf(&sb, " pay=%d", d.PaySize)
		if d.PaySplit != "" {
			sb.WriteString("(" + d.PaySplit + ")")
		}
	}
	if d.Ext != nil {
		sb.WriteString(" signer=" + d.Ext.Name)
	} else if d.Signer >= 0 {
		sb.WriteString(" signer=" + Signers()[d.Signer].Name)
	}
	return sb.String()
}

// BigComp tells whether any component anywhere in the description has a value of 253+ bytes
// (the feature most length-encoding problems depend on; used to group violation keys).
func (d *Desc) BigComp() bool {
	big := func(cs []Comp) bool {
		for _, c := range cs {
			if c.Len >= 253 {
				return true
			}
		}
		return false
	}
	if big(d.Name) || (d.FinalBlock != nil && d.FinalBlock.Len >= 253) {
		return true
	}
	for _, h := range d.Hint {
		if big(h) {
			return true
		}
	}
	return false
}

// ManyEmpty tells whether some name of the description (packet name, forwarding hint, key locator)
// holds four or more zero-length components (used to qualify violation keys).
func (d *Desc) ManyEmpty() bool {
	cnt := func(cs []Comp) int {
		n := 0
		for _, c := range cs {
			if c.Len == 0 {
				n++
			}
		}
		return n
	}
	if cnt(d.Name) >= 4 {
		return true
	}
	for _, h := range d.Hint {
		if cnt(h) >= 4 {
			return true
		}
	}
	return d.Signer >= 0 && Signers()[d.Signer].Name == "hmac-klempty"
}

// SplitClasses are the buffer-split classes of a payload of n bytes.
var SplitClasses = []string{"", "0|n", "1|r", "h|h", "r|1", "n|0", "1|m|1", "t|t|t", "0|n|0"}

// splitSizes returns the buffer sizes for a split class, nil if the class needs more bytes.
func splitSizes(n int, class string) []int {
	switch class {
	case "":
		return []int{n}
	case "0|n":
		return []int{0, n}
	case "n|0":
		return []int{n, 0}
	case "0|n|0":
		return []int{0, n, 0}
	case "1|r":
		if n >= 2 {
			return []int{1, n - 1}
		}
	case "r|1":
		if n >= 3 { // n==2 would repeat 1|r
			return []int{n - 1, 1}
		}
	case "h|h":
		if n >= 4 {
			return []int{n / 2, n - n/2}
		}
	case "1|m|1":
		if n >= 3 {
			return []int{1, n - 2, 1}
		}
	case "t|t|t":
		if n >= 6 {
			return []int{n / 3, n / 3, n - 2*(n/3)}
		}
	}
	return nil
}

// Valid tells whether the description denotes a constructible input.
func (d *Desc) Valid() bool {
	if d.PaySize < 0 {
		return d.PaySplit == ""
	}
	return splitSizes(d.PaySize, d.PaySplit) != nil
}

func fill(n, salt int) []byte {
	b := make([]byte, n)
	if n < 8 {
		for i := range b {
			b[i] = byte(0x41 + salt + i)
		}
		return b
	}
	// long values start with two zero bytes so that a mis-framed length never asks a decoder
	// for gigabytes; the rest is a position dependent pattern.
	for i := 2; i < n; i++ {
		b[i] = byte((i*7 + 13*salt + 5) % 251)
	}
	return b
}

// MkName materialises a component list (fresh backing array, exact capacity).
func MkName(cs []Comp, salt int) enc.Name {
	n := make(enc.Name, len(cs))
	for i, c := range cs {
		n[i] = enc.Component{Typ: enc.TLNum(c.Typ), Val: fill(c.Len, salt+i)}
	}
	return n
}

// Payload materialises the content / application parameters wire.
func (d *Desc) Payload() enc.Wire {
	switch {
	case d.PaySize == -1:
		return nil
	case d.PaySize == -2:
		return enc.Wire{}
	}
	all := make([]byte, d.PaySize)
	for i := range all {
		all[i] = byte((i*31 + 7) % 253)
	}
	var w enc.Wire
	p := 0
	for _, s := range splitSizes(d.PaySize, d.PaySplit) {
		w = append(w, all[p:p+s:p+s])
		p += s
	}
	return w
}

// PayloadBytes is the concatenation of Payload (nil if no payload element is expected).
func (d *Desc) PayloadBytes() []byte {
	if d.PaySize == -1 {
		return nil
	}
	return d.Payload().Join()
}

// Built is the outcome of one call of the packet API.
type Built struct {
	Desc     *Desc
	Name     enc.Name   // the name handed to the API (private copy, never aliased by the encoder)
	Hint     []enc.Name // forwarding hint handed to the API (private copy)
	Final    *enc.Component
	Err      error  // API refused to build
	Panic    string // API panicked: "<msg> @ <function>"
	Wire     enc.Wire
	Bytes    []byte // Wire joined (always a private copy)
	SigCov   enc.Wire
	FinalNm  enc.Name // EncodedInterest.FinalName
	Rec      *RecSigner
	SignerSp *SignerSpec
}

// SigTooLong tells that the packet API refused the packet although the input was fine: the shipped
// signer was asked to sign and returned a signature LONGER than the size it had announced itself
// (EstimateSize). With signers whose signature length varies from call to call (ECDSA) the same
// description may build on the next attempt.
func (b *Built) SigTooLong() bool {
	return b.Err != nil && b.Rec != nil && b.Rec.Asked && len(b.Rec.SigVal) > int(b.Rec.Inner.EstimateSize())
}

// BuildRetry is Build repeated (at most tries times) while the outcome is SigTooLong, so that
// whether a description is constructible does not depend on one random signature.
func BuildRetry(d *Desc, tries int) *Built {
	b := Build(d)
	for i := 1; i < tries && b.SigTooLong(); i++ {
		b = Build(d)
	}
	return b
}

// PanicSite returns "<panic value> @ <innermost repository function on the stack>".
func PanicSite(r any) string {
	pcs := make([]uintptr, 64)
	n := runtime.Callers(3, pcs)
	fr := runtime.CallersFrames(pcs[:n])
	site := "?"
	for {
		f, more := fr.Next()
		if strings.Contains(f.Function, "github.com/named-data/ndnd/") {
			site = strings.TrimPrefix(f.Function, "github.com/named-data/ndnd/")
			break
		}
		if !more {
			break
		}
	}
	msg := fmt.Sprint(r)
	return normPanic(msg) + " @ " + site
}

// NormPanic is the exported form of normPanic.
func NormPanic(s string) string { return normPanic(s) }

// normPanic removes the concrete indices from runtime error texts so that they can be keys.
func normPanic(s string) string {
	out := make([]byte, 0, len(s))
	for i := 0; i < len(s); i++ {
		c := s[i]
		if c >= '0' && c <= '9' {
			if len(out) == 0 || out[len(out)-1] != 'N' {
				out = append(out, 'N')
			}
			continue
		}
		out = append(out, c)
	}
	return string(out)
}

// Build runs spec.Spec{}.MakeInterest / MakeData on the description with a fresh signer object.
func Build(d *Desc) *Built { return BuildWith(d, nil) }

// BuildWith is Build with the signer objects taken from pool (nil: fresh object).
func BuildWith(d *Desc, pool *SignerPool) (b *Built) {
	b = &Built{Desc: d}
	name := MkName(d.Name, 0)
	b.Name = MkName(d.Name, 0)
	var signer ndn.Signer
	if d.Ext != nil {
		sp := *d.Ext
		b.SignerSp = &sp
		b.Rec = &RecSigner{Inner: sp.New()}
		signer = b.Rec
	} else if d.Signer >= 0 {
		sp := Signers()[d.Signer]
		b.SignerSp = &sp
		if pool != nil {
			b.Rec = &RecSigner{Inner: pool.Get(d.Signer)}
		} else {
			b.Rec = &RecSigner{Inner: sp.New()}
		}
		signer = b.Rec
	}
	defer func() {
		if r := recover(); r != nil {
			b.Panic = PanicSite(r)
		}
	}()
	if d.Interest {
		cfg := &ndn.InterestConfig{CanBePrefix: d.CanBePrefix, MustBeFresh: d.MustBeFresh,
			Nonce: d.Nonce, Lifetime: d.Lifetime, HopLimit: d.HopLimit}
		if d.Hint != nil {
			cfg.ForwardingHint = make([]enc.Name, len(d.Hint))
			b.Hint = make([]enc.Name, len(d.Hint))
			for i, h := range d.Hint {
				cfg.ForwardingHint[i] = MkName(h, 20+10*i)
				b.Hint[i] = MkName(h, 20+10*i)
			}
		}
		e, err := spec.Spec{}.MakeInterest(name, cfg, d.Payload(), signer)
		if err != nil {
			b.Err = err
			return
		}
		b.Wire, b.SigCov, b.FinalNm = e.Wire, e.SigCovered, e.FinalName
	} else {
		cfg := &ndn.DataConfig{Freshness: d.Freshness}
		if d.ContentType != nil {
			ct := ndn.ContentType(*d.ContentType)
			cfg.ContentType = &ct
		}
		if d.FinalBlock != nil {
			c := MkName([]Comp{*d.FinalBlock}, 40)[0]
			cfg.FinalBlockID = &c
			c2 := MkName([]Comp{*d.FinalBlock}, 40)[0]
			b.Final = &c2
		}
		e, err := spec.Spec{}.MakeData(name, cfg, d.Payload(), signer)
		if err != nil {
			b.Err = err
			return
		}
		b.Wire, b.SigCov = e.Wire, e.SigCovered
	}
	b.Bytes = make([]byte, 0, b.Wire.Length())
	for _, s := range b.Wire {
		b.Bytes = append(b.Bytes, s...)
	}
	return
}

// ---------------------------------------------------------------------------------------------
// bases, deviations, enumeration

// Base is a named starting description.
type Base struct {
	Name string
	Desc Desc
}

// Dev is one deviation: it sets one dimension of the description to one value of its domain.
type Dev struct {
	Dim, Label string
	Set        func(*Desc)
}

func (d Desc) clone() Desc {
	c := d
	c.Name = cloneComps(d.Name)
	if d.Hint != nil {
		c.Hint = make([][]Comp, len(d.Hint))
		for i := range d.Hint {
			c.Hint[i] = cloneComps(d.Hint[i])
		}
	}
	if d.FinalBlock != nil {
		f := *d.FinalBlock
		c.FinalBlock = &f
	}
	return c
}

// Bases returns the base descriptions. sgI / sgD name the signers of the signed bases.
func Bases() []Base {
	two := []Comp{{8, 1}, {8, 2}}
	return []Base{
		{"I0-plain", Desc{Interest: true, Name: two, PaySize: -1, Signer: -1}},
		{"I1-allopt", Desc{Interest: true, Name: two, CanBePrefix: true, MustBeFresh: true,
			Hint: [][]Comp{{{8, 1}}}, Nonce: p64(0x01020304), Lifetime: pd(4000), HopLimit: pu(64),
			PaySize: 3, Signer: -1}},
		{"I2-signed", Desc{Interest: true, Name: two, PaySize: 3, Signer: SignerIndex("hmac-int")}},
		{"D0-plain", Desc{Name: two, PaySize: -1, Signer: -1}},
		{"D1-allmeta-signed", Desc{Name: two, ContentType: p64(0), Freshness: pd(1000),
			FinalBlock: &Comp{0x32, 1}, PaySize: 3, Signer: SignerIndex("sha256")}},
	}
}

var compTypes = []uint64{8, 1, 2, 0x20, 0x32, 0x36, 252, 253, 65535, 65536}
var compLens = []int{1, 0, 2, 31, 32, 252, 253, 254, 255, 256, 65535, 65536}
var paySizes = []int{-1, -2, 0, 1, 3, 252, 253, 65535, 65536}

// Devs returns every deviation applicable to Interests (interest=true) or Data. A deviation
// that does not change the description it is applied to is skipped by the enumerator.
func Devs(interest bool) []Dev {
	var out []Dev
	add := func(dim, label string, f func(*Desc)) { out = append(out, Dev{dim, label, f}) }
	for _, n := range []int{0, 1, 2, 3} {
		n := n
		add("ncomp", fmt.Sprint(n), func(d *Desc) {
			for len(d.Name) < n {
				d.Name = append(d.Name, Comp{8, len(d.Name) + 1})
			}
			d.Name = d.Name[:n]
		})
	}
	for _, which := range []string{"c0", "cL"} {
		which := which
		idx := func(d *Desc) int {
			if which == "c0" {
				if len(d.Name) >= 1 {
					return 0
				}
				return -1
			}
			if len(d.Name) >= 2 {
				return len(d.Name) - 1
			}
			return -1
		}
		for _, t := range compTypes {
			t := t
			add(which+".typ", fmt.Sprint(t), func(d *Desc) {
				if i := idx(d); i >= 0 {
					d.Name[i].Typ = t
				}
			})
		}
		for _, l := range compLens {
			l := l
			add(which+".len", fmt.Sprint(l), func(d *Desc) {
				if i := idx(d); i >= 0 {
					d.Name[i].Len = l
				}
			})
		}
	}
	e, a := Comp{8, 0}, Comp{8, 1}
	shapes := map[string][]Comp{
		"a+4e+b": {a, e, e, e, e, {8, 2}},
		"4e":     {e, e, e, e},
		"8e":     {e, e, e, e, e, e, e, e},
		"5e+a":   {e, e, e, e, e, a},
		"a+6e":   {a, e, e, e, e, e, e},
	}
	for _, k := range []string{"a+4e+b", "4e", "8e", "5e+a", "a+6e"} {
		sh := shapes[k]
		add("name.shape", k, func(d *Desc) { d.Name = cloneComps(sh) })
	}
	for _, s := range paySizes {
		s := s
		add("pay.size", fmt.Sprint(s), func(d *Desc) { d.PaySize = s })
	}
	for _, c := range SplitClasses {
		c := c
		add("pay.split", c, func(d *Desc) { d.PaySplit = c })
	}
	for i := -1; i < len(Signers()); i++ {
		i := i
		if i >= 0 && Signers()[i].KeyVariant {
			continue // key material variants are enumerated by C12 as modes of their own
		}
		lab := "none"
		if i >= 0 {
			lab = Signers()[i].Name
		}
		add("signer", lab, func(d *Desc) { d.Signer = i })
	}
	if interest {
		for _, v := range []bool{false, true} {
			v := v
			add("cbp", fmt.Sprint(v), func(d *Desc) { d.CanBePrefix = v })
			add("mbf", fmt.Sprint(v), func(d *Desc) { d.MustBeFresh = v })
		}
		hints := [][][]Comp{nil, {}, {{{8, 1}}}, {{{8, 1}}, {{8, 2}, {0x36, 1}}}, {{{8, 0}}}, {{{8, 1}, {8, 0}}},
			{{{8, 250}}}, {{{8, 252}}}, {{{8, 253}}}, {{{8, 65536}}}, {{}},
			{{{8, 1}, {8, 0}, {8, 0}, {8, 0}, {8, 0}, {8, 2}}}, {{{8, 0}, {8, 0}, {8, 0}, {8, 0}, {8, 0}, {8, 0}, {8, 0}, {8, 0}}}}
		for _, h := range hints {
			h := h
			lab := "absent"
			if h != nil {
				lab = "["
				for i, x := range h {
					if i > 0 {
						lab += ","
					}
					lab += compsStr(x)
				}
				lab += "]"
			}
			add("hint", lab, func(d *Desc) { d.Hint = (Desc{Hint: h}).clone().Hint })
		}
		add("nonce", "absent", func(d *Desc) { d.Nonce = nil })
		for _, v := range []uint64{0, 0x01020304, 0xffffffff} {
			v := v
			add("nonce", fmt.Sprint(v), func(d *Desc) { d.Nonce = p64(v) })
		}
		add("life", "absent", func(d *Desc) { d.Lifetime = nil })
		for _, v := range []uint64{0, 1, 255, 256, 4000, 65535, 65536, 0xffffffff, 0x100000000} {
			v := v
			add("life", fmt.Sprint(v), func(d *Desc) { d.Lifetime = pd(v) })
		}
		add("hop", "absent", func(d *Desc) { d.HopLimit = nil })
		for _, v := range []uint{0, 1, 64, 255} {
			v := v
			add("hop", fmt.Sprint(v), func(d *Desc) { d.HopLimit = pu(v) })
		}
	} else {
		add("ctype", "absent", func(d *Desc) { d.ContentType = nil })
		for _, v := range []uint64{0, 1, 255, 256, 65535, 65536, 0xffffffff, 0x100000000, ^uint64(0)} {
			v := v
			add("ctype", fmt.Sprint(v), func(d *Desc) { d.ContentType = p64(v) })
		}
		add("fresh", "absent", func(d *Desc) { d.Freshness = nil })
		for _, v := range []uint64{0, 1, 255, 256, 1000, 65535, 65536, 0xffffffff, 0x100000000} {
			v := v
			add("fresh", fmt.Sprint(v), func(d *Desc) { d.Freshness = pd(v) })
		}
		add("final", "absent", func(d *Desc) { d.FinalBlock = nil })
		for _, c := range []Comp{{8, 1}, {0x32, 1}, {8, 0}, {8, 252}, {8, 253}, {8, 256}, {253, 1}, {65536, 1}, {8, 65536}} {
			c := c
			add("final", fmt.Sprintf("%d:%d", c.Typ, c.Len), func(d *Desc) { cc := c; d.FinalBlock = &cc })
		}
	}
	return out
}

// Case is one enumerated input: a base and the indices (into Devs) of the deviations applied.
type Case struct {
	Base int
	Devs []int
}

// Space is an enumerated input space.
type Space struct {
	Bases []Base
	DevsI []Dev
	DevsD []Dev
	Cases []Case
	// Skipped counts combinations dropped because a deviation was a no-op on its base (it would
	// repeat a case with fewer deviations) or the combination is not constructible.
	Skipped int
}

func (s *Space) devs(b int) []Dev {
	if s.Bases[b].Desc.Interest {
		return s.DevsI
	}
	return s.DevsD
}

// Desc instantiates a case; ok=false if some deviation is a no-op or the result is invalid.
func (s *Space) Desc(c Case) (d Desc, ok bool) {
	d = s.Bases[c.Base].Desc.clone()
	dv := s.devs(c.Base)
	for _, i := range c.Devs {
		before := d.String()
		dv[i].Set(&d)
		if d.String() == before {
			return d, false
		}
	}
	return d, d.Valid()
}

// Label renders a case as "base + dim=value + dim=value".
func (s *Space) Label(c Case) string {
	l := s.Bases[c.Base].Name
	for _, i := range c.Devs {
		dv := s.devs(c.Base)[i]
		l += " + " + dv.Dim + "=" + dv.Label
	}
	return l
}

// Enumerate lists every case with at most k (0..2) deviations of pairwise different dimensions,
// excluding the dimensions in skipDims. Order: base-major, fewer deviations first.
func Enumerate(bases []Base, k int, skipDims ...string) *Space {
	s := &Space{Bases: bases, DevsI: Devs(true), DevsD: Devs(false)}
	skip := map[string]bool{}
	for _, d := range skipDims {
		skip[d] = true
	}
	seen := map[string]bool{}
	try := func(c Case) {
		d, ok := s.Desc(c)
		if !ok {
			s.Skipped++
			return
		}
		// two different deviation sets can denote the same packet (e.g. ncomp=1 then c0.len);
		// keep the first.
		key := fmt.Sprint(c.Base) + "|" + d.String()
		if seen[key] {
			s.Skipped++
			return
		}
		seen[key] = true
		s.Cases = append(s.Cases, c)
	}
	for b := range bases {
		dv := s.devs(b)
		try(Case{Base: b})
		if k >= 1 {
			for i := range dv {
				if !skip[dv[i].Dim] {
					try(Case{Base: b, Devs: []int{i}})
				}
			}
		}
		if k >= 2 {
			for i := range dv {
				for j := i + 1; j < len(dv); j++ {
					if dv[i].Dim != dv[j].Dim && !skip[dv[i].Dim] && !skip[dv[j].Dim] {
						try(Case{Base: b, Devs: []int{i, j}})
					}
				}
			}
		}
	}
	return s
}

// ---------------------------------------------------------------------------------------------
// outer length boundary sweep

func tlSize(v int) int {
	switch {
	case v < 253:
		return 1
	case v <= 0xffff:
		return 3
	}
	return 5
}

// OuterLengths derives, from the size of the built packet alone (not from its possibly wrong
// header), the outer length the packet must have (final), the length the encoder planned with
// the signer's estimate (est = final + shrink) and whether the outer length FIELD got shorter.
func (b *Built) OuterLengths() (final, est, shrink int, crosses bool) {
	n := len(b.Bytes)
	for _, hs := range []int{1, 3, 5} {
		if l := n - 1 - hs; l >= 0 && tlSize(l) == hs {
			final = l
		}
	}
	if b.Rec != nil && b.Rec.Asked {
		shrink = int(b.Rec.Inner.EstimateSize()) - len(b.Rec.SigVal)
	}
	est = final + shrink
	return final, est, shrink, tlSize(est) != tlSize(final)
}

// SweepTargets are the estimated outer lengths the sweep lands on.
func SweepTargets() []int {
	var t []int
	for v := 250; v <= 258; v++ {
		t = append(t, v)
	}
	for v := 65533; v <= 65540; v++ {
		t = append(t, v)
	}
	return t
}

// SweepCase is one packet of the outer-length boundary sweep.
type SweepCase struct {
	Label  string
	Desc   Desc
	Target int
}

// Sweep enumerates, for every given base signed by every variable-signature-length signer
// (ECDSA family), the payload sizes for which the ESTIMATED outer length equals each target.
func Sweep(bases []Base) []SweepCase {
	var out []SweepCase
	for _, base := range bases {
		for si, sg := range Signers() {
			if sg.Family != "ecdsa" || sg.KeyVariant {
				continue
			}
			d0 := base.Desc.clone()
			d0.Signer, d0.PaySize, d0.PaySplit = si, 8, ""
			b0 := BuildRetry(&d0, 64) // the list must not depend on one random signature length
			if b0.Err != nil || b0.Panic != "" {
				continue
			}
			_, est0, _, _ := b0.OuterLengths()
			k := est0 - 8 - tlSize(8) // estimated length without the payload value and its length field
			for _, t := range SweepTargets() {
				for p := t - k - 5; p <= t-k-1; p++ {
					if p >= 0 && k+p+tlSize(p) == t {
						d := d0.clone()
						d.PaySize = p
						out = append(out, SweepCase{fmt.Sprintf("%s + signer=%s + estimated outer length %d (payload %d)", base.Name, sg.Name, t, p), d, t})
					}
				}
			}
		}
	}
	return out
}
