package pktgen

// An independent NDN-TLV walker. It shares no code with std/encoding: it reads variable-size
// numbers itself, insists on the shortest number encoding (NDN packet format: "the shortest
// encoding MUST be used"), on every length being exact (children fill the parent completely,
// nothing overruns, the outermost TLV spans the whole input) and descends only into the element
// types that are containers in the Interest/Data grammar.

import (
	"fmt"
	"sort"
)

// Node is one TLV element: b[Start:VStart] is the T and L, b[VStart:End] the value.
type Node struct {
	Typ                uint64
	Start, VStart, End int
	Kids               []*Node
	Parent             *Node
}

// readVar reads one variable-size number at p (limit end).
func readVar(b []byte, p, end int) (v uint64, np int, err string) {
	if p >= end {
		return 0, p, "truncated number"
	}
	n := 0
	switch b[p] {
	case 0xfd:
		n = 2
	case 0xfe:
		n = 4
	case 0xff:
		n = 8
	default:
		return uint64(b[p]), p + 1, ""
	}
	if p+1+n > end {
		return 0, p, "truncated number"
	}
	for i := 0; i < n; i++ {
		v = v<<8 | uint64(b[p+1+i])
	}
	if (n == 2 && v < 253) || (n == 4 && v <= 0xffff) || (n == 8 && v <= 0xffffffff) {
		return v, p + 1 + n, "number not in shortest encoding"
	}
	return v, p + 1 + n, ""
}

// container tells whether element typ inside parent (0 = top level) has TLV children.
func container(parent, typ uint64, depth int) bool {
	switch {
	case depth == 0:
		return typ == 5 || typ == 6
	case parent == 5 && depth == 1:
		return typ == 7 || typ == 0x1e || typ == 0x2c
	case parent == 6 && depth == 1:
		return typ == 7 || typ == 0x14 || typ == 0x16
	case parent == 0x1e && depth == 2:
		return typ == 7
	case parent == 0x14 && depth == 2:
		return typ == 0x1a
	case (parent == 0x2c || parent == 0x16) && depth == 2:
		return typ == 0x1c || typ == 0xfd
	case parent == 0x1c && depth == 3:
		return typ == 7
	}
	return false
}

func pathOf(n *Node, typ uint64) string {
	s := fmt.Sprintf("%#x", typ)
	for ; n != nil; n = n.Parent {
		s = fmt.Sprintf("%#x/", n.Typ) + s
	}
	return s
}

func walkOne(b []byte, p, end int, parent *Node, depth int) (*Node, string) {
	typ, p1, e := readVar(b, p, end)
	if e != "" {
		return nil, pathOf(parent, 0) + ": type: " + e
	}
	if typ == 0 {
		return nil, pathOf(parent, 0) + ": element type 0"
	}
	l, p2, e := readVar(b, p1, end)
	if e != "" {
		return nil, pathOf(parent, typ) + ": length: " + e
	}
	if l > uint64(end-p2) {
		return nil, pathOf(parent, typ) + ": length overruns the enclosing element"
	}
	n := &Node{Typ: typ, Start: p, VStart: p2, End: p2 + int(l), Parent: parent}
	var pt uint64
	if parent != nil {
		pt = parent.Typ
	}
	if container(pt, typ, depth) {
		for q := n.VStart; q < n.End; {
			k, e := walkOne(b, q, n.End, n, depth+1)
			if e != "" {
				return nil, e
			}
			n.Kids = append(n.Kids, k)
			q = k.End
		}
	}
	return n, ""
}

// Walk parses b as exactly one Interest or Data TLV. The error string is "" on success; it names
// the element path (hex type numbers) and the problem, never offsets, so that it can be a key.
func Walk(b []byte) (*Node, string) {
	n, e := walkOne(b, 0, len(b), nil, 0)
	if e != "" {
		return nil, e
	}
	if n.End != len(b) {
		return nil, fmt.Sprintf("%#x: outer length is not (total size - header)", n.Typ)
	}
	if n.Typ != 5 && n.Typ != 6 {
		return nil, fmt.Sprintf("%#x: outer element is neither Interest nor Data", n.Typ)
	}
	return n, ""
}

// Kid returns the first child of type typ (nil if none).
func (n *Node) Kid(typ uint64) *Node {
	if n == nil {
		return nil
	}
	for _, k := range n.Kids {
		if k.Typ == typ {
			return k
		}
	}
	return nil
}

// All calls f for n and every descendant, pre-order.
func (n *Node) All(f func(*Node)) {
	f(n)
	for _, k := range n.Kids {
		k.All(f)
	}
}

// HeaderCuts returns the sorted distinct offsets in (0,total) that lie within +-w bytes of the
// start, value start or end of any element.
func (n *Node) HeaderCuts(total, w int) []int {
	mark := map[int]bool{}
	n.All(func(x *Node) {
		for _, c := range []int{x.Start, x.VStart, x.End} {
			for d := -w; d <= w; d++ {
				if c+d > 0 && c+d < total {
					mark[c+d] = true
				}
			}
		}
	})
	out := make([]int, 0, len(mark))
	for c := range mark {
		out = append(out, c)
	}
	sort.Ints(out)
	return out
}
