// C05: FIB lookup is longest-prefix match under every update history, in both FIB
// implementations. Explicit-state search over update histories on the REAL name-tree FIB and the
// REAL hash-table FIB (side by side, every m) against a reference map.
package main

import (
	"fmt"
	"sort"
	"strings"
	"time"

	"github.com/named-data/ndnd/fw/table"
	enc "github.com/named-data/ndnd/std/encoding"
	"verif/mc/explore"
	"verif/mc/report"
)

type refEntry struct {
	nh    map[uint64]uint64
	strat string
}

type inst struct {
	tree table.FibStrategy
	ht   table.FibStrategy
	ref  map[string]*refEntry
	// reuse universes: every name handed to the NAME-TREE FIB is decoded from this buffer, which the
	// caller re-uses: it is scribbled over as soon as the operation has returned. (The hash-table FIB
	// keeps the slices it is given - on the unchanged tree too - and all its callers hand it private
	// memory; it is driven with private memory here as well.)
	reuse   bool
	scratch []byte
	off     int
	// kind of the last operation relative to the reference state it was applied to (violation keys name the
	// kind - "Ins(cost update to 0)" - not the prefix/face/cost instance; the instance is in Detail/Replay)
	kind string
}

// arg returns the name to hand to a table for URI s.
func (in *inst) arg(s string) enc.Name {
	if !in.reuse {
		return nm(s)
	}
	if in.scratch == nil {
		in.scratch = make([]byte, 1024)
	}
	b := nm(s).Bytes()
	k := copy(in.scratch[in.off:], b)
	n, err := enc.NameFromBytes(in.scratch[in.off : in.off+k])
	if err != nil {
		panic("HARNESS-BUG: " + err.Error())
	}
	in.off += k
	return n
}

func (in *inst) scribble() {
	for i := range in.scratch {
		in.scratch[i] = 0xEE
	}
	in.off = 0
}

type universe struct {
	reuse    bool // see inst.reuse
	prefixes []string
	lookups  []string
	faces    []uint64
	costs    []uint64
	strats   []string
	// replaceAll: the Replace alphabet holds EVERY map faces -> (absent | one of costs), not only the
	// three representative sets (value universes: cost / face values are the dimension explored)
	replaceAll bool
}

var (
	brName = "/localhost/nfd/strategy/best-route/v=1"
	mcName = "/localhost/nfd/strategy/multicast/v=1"
)

var nmCache = map[string]enc.Name{}

func nm(s string) enc.Name {
	if n, ok := nmCache[s]; ok {
		return n
	}
	n, err := enc.NameFromStr(s)
	if err != nil {
		panic(err)
	}
	nmCache[s] = n
	return n
}

type sys struct {
	u   universe
	m   uint16
	ops []explore.Op
	do  map[string]func(in *inst)
}

func mkLookups(prefixes []string) []string {
	set := map[string]bool{}
	for _, p := range prefixes {
		set[p] = true
		base := p
		if base == "/" {
			base = ""
		}
		set[base+"/zz"] = true
		set[base+"/zz/yy"] = true
	}
	out := []string{}
	for k := range set {
		out = append(out, k)
	}
	sort.Strings(out)
	return out
}

func newSys(u universe, m uint16) *sys {
	s := &sys{u: u, m: m, do: map[string]func(in *inst){}}
	u.lookups = mkLookups(u.prefixes)
	s.u = u
	add := func(name string, f func(in *inst)) {
		s.ops = append(s.ops, explore.Op{Name: name})
		s.do[name] = func(in *inst) { f(in); in.scribble() }
	}
	ent := func(in *inst, p string) *refEntry {
		e := in.ref[p]
		if e == nil {
			e = &refEntry{nh: map[uint64]uint64{}}
			in.ref[p] = e
		}
		return e
	}
	gc := func(in *inst, p string) {
		if e := in.ref[p]; e != nil && len(e.nh) == 0 && e.strat == "" {
			delete(in.ref, p)
		}
	}
	for _, p := range u.prefixes {
		p := p
		for _, f := range u.faces {
			for _, c := range u.costs {
				f, c := f, c
				add(fmt.Sprintf("Ins(%s,f%d,c%d)", p, f, c), func(in *inst) {
					in.kind = "Ins(first next hop of the prefix)"
					if e := in.ref[p]; e != nil && len(e.nh) > 0 {
						old, ok := e.nh[f]
						switch {
						case !ok:
							in.kind = "Ins(further face)"
						case old == c:
							in.kind = "Ins(same cost again)"
						case c == 0:
							in.kind = "Ins(cost update to 0)"
						case old == 0:
							in.kind = "Ins(cost update from 0)"
						default:
							in.kind = "Ins(cost update)"
						}
					}
					in.tree.InsertNextHopEnc(in.arg(p), f, c)
					in.ht.InsertNextHopEnc(nm(p), f, c)
					ent(in, p).nh[f] = c
				})
			}
		}
	}
	for _, p := range u.prefixes {
		p := p
		for _, f := range u.faces {
			f := f
			add(fmt.Sprintf("Rem(%s,f%d)", p, f), func(in *inst) {
				in.kind = "Rem(absent)"
				if e := in.ref[p]; e != nil {
					if _, ok := e.nh[f]; ok && len(e.nh) == 1 {
						in.kind = "Rem(last next hop)"
					} else if ok {
						in.kind = "Rem(one of several)"
					}
				}
				in.tree.RemoveNextHopEnc(in.arg(p), f)
				in.ht.RemoveNextHopEnc(nm(p), f)
				if e := in.ref[p]; e != nil {
					delete(e.nh, f)
					gc(in, p)
				}
			})
		}
	}
	for _, p := range u.prefixes {
		p := p
		add(fmt.Sprintf("Clear(%s)", p), func(in *inst) {
			in.kind = "Clear"
			in.tree.ClearNextHopsEnc(in.arg(p))
			in.ht.ClearNextHopsEnc(nm(p))
			if e := in.ref[p]; e != nil {
				e.nh = map[uint64]uint64{}
				gc(in, p)
			}
		})
	}
	// ReplaceNextHopsEnc (used by the RIB): atomically set the whole next-hop set of a prefix;
	// an empty set behaves like Clear
	for _, p := range u.prefixes {
		p := p
		sets := []map[uint64]uint64{{}, {u.faces[0]: u.costs[len(u.costs)-1]}}
		if len(u.faces) > 1 {
			sets = append(sets, map[uint64]uint64{u.faces[0]: u.costs[0], u.faces[1]: u.costs[len(u.costs)-1]})
		}
		if u.replaceAll {
			sets = allSets(u.faces, u.costs)
		}
		for _, set := range sets {
			set := set
			keys := []string{}
			for f, c := range set {
				keys = append(keys, fmt.Sprintf("f%d:c%d", f, c))
			}
			sort.Strings(keys)
			add(fmt.Sprintf("Replace(%s,{%s})", p, strings.Join(keys, ",")), func(in *inst) {
				in.kind = "Replace"
				if len(set) == 0 {
					in.kind = "Replace(empty)"
				} else if e := in.ref[p]; e != nil && len(e.nh) > 0 {
					same := len(e.nh) == len(set)
					for f := range set {
						if _, ok := e.nh[f]; !ok {
							same = false
						}
					}
					if same {
						in.kind = "Replace(same faces, costs only)"
					} else {
						in.kind = "Replace(other face set)"
					}
				}
				cp := func() map[uint64]uint64 {
					m := map[uint64]uint64{}
					for f, c := range set {
						m[f] = c
					}
					return m
				}
				in.tree.ReplaceNextHopsEnc(in.arg(p), cp())
				in.ht.ReplaceNextHopsEnc(nm(p), cp())
				if len(set) == 0 {
					if e := in.ref[p]; e != nil {
						e.nh = map[uint64]uint64{}
						gc(in, p)
					}
					return
				}
				ent(in, p).nh = cp()
			})
		}
	}
	for _, p := range u.prefixes {
		p := p
		for _, st := range u.strats {
			st := st
			add(fmt.Sprintf("SetS(%s,%s)", p, st[len("/localhost/nfd/strategy/"):]), func(in *inst) {
				in.kind = "SetS"
				in.tree.SetStrategyEnc(in.arg(p), in.arg(st))
				in.ht.SetStrategyEnc(nm(p), nm(st))
				ent(in, p).strat = st
			})
		}
	}
	for _, p := range u.prefixes {
		p := p
		if len(u.strats) == 0 {
			// value universes without strategies: no strategy operations at all
			continue
		}
		if p == "/" {
			// "the root always has one: it can be replaced but not unset" is a precondition of the
			// table API (management refuses to unset the root, checked in C17; the repository's own
			// unit test TestFIB_HT_RealAndVirtualNodes relies on the table-level call emptying the
			// table), so Unset(/) is not part of this alphabet.
			continue
		}
		add(fmt.Sprintf("Unset(%s)", p), func(in *inst) {
			in.kind = "Unset"
			in.tree.UnSetStrategyEnc(in.arg(p))
			in.ht.UnSetStrategyEnc(nm(p))
			if e := in.ref[p]; e != nil {
				e.strat = ""
				gc(in, p)
			}
		})
	}
	return s
}

// allSets enumerates every map faces -> (absent | one of costs), the empty map first.
func allSets(faces, costs []uint64) []map[uint64]uint64 {
	out := []map[uint64]uint64{}
	n := 1
	for range faces {
		n *= len(costs) + 1
	}
	for i := 0; i < n; i++ {
		m := map[uint64]uint64{}
		x := i
		for _, f := range faces {
			d := x % (len(costs) + 1)
			x /= len(costs) + 1
			if d > 0 {
				m[f] = costs[d-1]
			}
		}
		out = append(out, m)
	}
	return out
}

func (s *sys) New() any {
	in := &inst{ref: map[string]*refEntry{"/": {nh: map[uint64]uint64{}, strat: brName}}, reuse: s.u.reuse}
	in.tree = table.VerifNewFibTree()
	in.ht = table.VerifNewFibHT(s.m)
	return in
}

func (s *sys) Ops(any) []explore.Op { return s.ops }

func nhStr(nh []*table.FibNextHopEntry) string {
	x := make([]string, 0, len(nh))
	for _, h := range nh {
		x = append(x, fmt.Sprintf("%d:%d", h.Nexthop, h.Cost))
	}
	sort.Strings(x)
	return strings.Join(x, ",")
}

func refNh(e *refEntry) string {
	x := make([]string, 0, len(e.nh))
	for f, c := range e.nh {
		x = append(x, fmt.Sprintf("%d:%d", f, c))
	}
	sort.Strings(x)
	return strings.Join(x, ",")
}

func prefixesOf(n enc.Name) []string {
	out := []string{}
	for l := len(n); l >= 0; l-- {
		p := n[:l].String()
		if l == 0 {
			p = "/"
		}
		out = append(out, p)
	}
	return out
}

func (s *sys) check(in *inst, last string) (v []report.Violation) {
	seen := map[string]bool{}
	bad := func(clause, key, detail string) {
		key = key + " after " + in.kind
		detail = "after " + last + ": " + detail
		if seen[clause+key] {
			return
		}
		seen[clause+key] = true
		v = append(v, report.Violation{Clause: clause, Key: key, Detail: detail})
	}
	impls := []struct {
		n string
		f table.FibStrategy
	}{{"tree", in.tree}, {fmt.Sprintf("ht(m=%d)", s.m), in.ht}}
	for _, ln := range s.u.lookups {
		name := nm(ln)
		wantNh, wantSt := "", ""
		for _, p := range prefixesOf(name) {
			if e := in.ref[p]; e != nil && len(e.nh) > 0 && wantNh == "" {
				wantNh = refNh(e)
			}
			if e := in.ref[p]; e != nil && e.strat != "" && wantSt == "" {
				wantSt = e.strat
			}
		}
		var got [2]string
		for i, im := range impls {
			g := nhStr(im.f.FindNextHopsEnc(name))
			got[i] = g
			if g != wantNh {
				bad("C05.lpm", im.n+" FindNextHopsEnc", fmt.Sprintf("%s FindNextHopsEnc(%s) = {%s}, longest-prefix match requires {%s}", im.n, ln, g, wantNh))
			}
			st := im.f.FindStrategyEnc(name)
			gs := ""
			if st != nil {
				gs = st.String()
			}
			if gs != wantSt {
				bad("C05.strat", im.n+" FindStrategyEnc", fmt.Sprintf("%s FindStrategyEnc(%s) = %q, want %q", im.n, ln, gs, wantSt))
			}
		}
		if got[0] != got[1] {
			bad("C05.diff", "FindNextHopsEnc", fmt.Sprintf("FindNextHopsEnc(%s): tree {%s} vs hashtable {%s}", ln, got[0], got[1]))
		}
	}
	wantFib, wantStr := []string{}, []string{}
	for p, e := range in.ref {
		if len(e.nh) > 0 {
			wantFib = append(wantFib, p+"->"+refNh(e))
		}
		if e.strat != "" {
			wantStr = append(wantStr, p+"->"+e.strat)
		}
	}
	sort.Strings(wantFib)
	sort.Strings(wantStr)
	for _, im := range impls {
		gf, gs := []string{}, []string{}
		for _, e := range im.f.GetAllFIBEntries() {
			n := e.Name().String()
			if len(e.Name()) == 0 {
				n = "/"
			}
			gf = append(gf, n+"->"+nhStr(e.GetNextHops()))
		}
		for _, e := range im.f.GetAllForwardingStrategies() {
			n := e.Name().String()
			if len(e.Name()) == 0 {
				n = "/"
			}
			gs = append(gs, n+"->"+e.GetStrategy().String())
		}
		sort.Strings(gf)
		sort.Strings(gs)
		if strings.Join(gf, ";") != strings.Join(wantFib, ";") {
			bad("C05.list", im.n+" GetAllFIBEntries", fmt.Sprintf("%s GetAllFIBEntries = %v, want %v", im.n, gf, wantFib))
		}
		if strings.Join(gs, ";") != strings.Join(wantStr, ";") {
			bad("C05.list", im.n+" GetAllForwardingStrategies", fmt.Sprintf("%s GetAllForwardingStrategies = %v, want %v", im.n, gs, wantStr))
		}
	}
	return
}

func (s *sys) Apply(i any, op explore.Op) []report.Violation {
	in := i.(*inst)
	s.do[op.Name](in)
	return s.check(in, op.Name)
}

func (s *sys) Do(i any, op explore.Op) { s.do[op.Name](i.(*inst)) }

func (s *sys) Canon(i any) string {
	in := i.(*inst)
	var b strings.Builder
	keys := []string{}
	for p := range in.ref {
		keys = append(keys, p)
	}
	sort.Strings(keys)
	for _, p := range keys {
		fmt.Fprintf(&b, "%s{%s|%s};", p, refNh(in.ref[p]), in.ref[p].strat)
	}
	for _, f := range []table.FibStrategy{in.tree, in.ht} {
		nodes, aux := table.VerifDumpFib(f)
		fmt.Fprintf(&b, "#%v%v", nodes, aux)
	}
	return b.String()
}

const (
	c32  = uint64(1) << 32 // first value that does not fit 32 bits
	c63  = uint64(1) << 63 // first value that is negative as int64
	cMax = ^uint64(0)
)

// Cost values per universe: every universe except deep holds cost 0 next to a non-zero cost, so that every
// kind of UPDATE of an existing next hop (x -> 0, 0 -> x, x -> x, 0 -> 0) is in its alphabet, through
// InsertNextHopEnc and through ReplaceNextHopsEnc; the value universes cost / costs / faces explore the
// value dimension itself (0, 1, 2^32, 2^63, 2^64-1 as cost; 0, 2^32, 2^64-1 as face id; every Replace map).
var universes = map[string]universe{
	// tiny alphabet for a deep history search without state de-duplication
	"tiny": {prefixes: []string{"/a", "/a/b"}, faces: []uint64{1, 2}, costs: []uint64{0, 1}, strats: []string{mcName}},
	// names whose components concatenate to the same bytes when the boundaries are forgotten: /a/b versus the
	// single component "a" + <8-byte type 8> + "b" (what Component.HashInto feeds per component is type
	// and value), and versus the 1-byte-type reading /a%08b
	"ambig": {prefixes: []string{"/a", "/a/b", "/a%00%00%00%00%00%00%00%08b", "/a%08b"}, faces: []uint64{1, 2}, costs: []uint64{0, 1}, strats: []string{mcName}},
	// sibling prefixes whose components differ in TYPE only (equal value bytes): generic x vs 32=x (keyword),
	// version 1 vs segment 1, at the first and at the second level
	"typed": {prefixes: []string{"/a/x", "/a/32=x", "/a/v=1", "/a/seg=1", "/x", "/32=x"}, faces: []uint64{1, 2}, costs: []uint64{0, 1}, strats: []string{mcName}},
	// the caller of the name-tree FIB decodes every name (prefixes and strategy names) from one buffer it re-uses after each call
	"reuse": {reuse: true, prefixes: []string{"/a", "/a/b", "/x/y", "/a/b/c"}, faces: []uint64{1, 2}, costs: []uint64{0, 1}, strats: []string{brName, mcName}},
	"small": {prefixes: []string{"/", "/a", "/a/b", "/a/b/c"}, faces: []uint64{1}, costs: []uint64{0, 1}, strats: []string{mcName}},
	"full":  {prefixes: []string{"/", "/a", "/a/b", "/a/b/c", "/a/b/c/d", "/a/x", "/e"}, faces: []uint64{1, 2}, costs: []uint64{0, 2}, strats: []string{brName, mcName}},
	"deep":  {prefixes: []string{"/", "/a", "/a/b", "/a/b/c", "/a/b/c/d", "/a/b/c/d/e", "/a/b/c/d/e/f", "/a/b/c/d/e/f/g", "/a/b/x", "/a/b/c/d/e/x"}, faces: []uint64{1}, costs: []uint64{1}, strats: []string{mcName}},
	// VALUE universes (no strategies; Replace alphabet = every map faces -> absent|cost), explored to a fixpoint:
	// cost: two nested prefixes (the shorter one answers for the longer one as soon as that is emptied), two
	// faces, costs 0 / 1 / 2^64-1: every update x -> y of an existing next hop including x == y, update then
	// remove, two faces swapping their costs (by two inserts or by one Replace), Replace to and from cost 0
	"cost": {prefixes: []string{"/a", "/a/b"}, faces: []uint64{1, 2}, costs: []uint64{0, 1, cMax}, replaceAll: true},
	// costs: one prefix, the boundary values of the cost type
	"costs": {prefixes: []string{"/a/b"}, faces: []uint64{1, 2}, costs: []uint64{0, 1, c32, c63, cMax}, replaceAll: true},
	// faces: one prefix, the boundary values of the face-id type (three faces: removal from the middle of the list)
	"faces": {prefixes: []string{"/a/b"}, faces: []uint64{0, c32, cMax}, costs: []uint64{0, 7}, replaceAll: true},
	// costS: cost updates on entries that also hold (or only hold) a strategy choice: an entry kept alive by
	// its strategy while its next hops come and go, cost updates of an entry whose strategy is then unset
	"costS": {prefixes: []string{"/a", "/a/b"}, faces: []uint64{1, 2}, costs: []uint64{0, cMax}, strats: []string{mcName}, replaceAll: true},
	// thorough tier: cost with the 2^63 boundary as well
	"cost4": {prefixes: []string{"/a", "/a/b"}, faces: []uint64{1, 2}, costs: []uint64{0, 1, c63, cMax}, replaceAll: true},
}

func build(cfg string) explore.System {
	var un string
	var m int
	fmt.Sscanf(cfg, "%s m=%d", &un, &m)
	return newSys(universes[un], uint16(m))
}

func main() {
	explore.Main(explore.Spec{
		ID: "C05", PanicClause: "C05.panic", Build: build,
		Configs: func(th bool) []explore.Config {
			var c []explore.Config
			// value universes first, the cheapest first (small, explored to a fixpoint; what they leave of their
			// share of the budget goes to the later ones)
			for m := 1; m <= 3; m++ {
				c = append(c, explore.Config{Name: fmt.Sprintf("costs m=%d", m), MaxDepth: 64, MaxDev: -1})
				c = append(c, explore.Config{Name: fmt.Sprintf("faces m=%d", m), MaxDepth: 64, MaxDev: -1})
			}
			c = append(c, explore.Config{Name: "audit(no dedup) costs m=2", BuildName: "costs m=2", MaxDepth: 2, MaxDev: -1, NoDedup: true})
			for m := 1; m <= 3; m++ {
				// m=1: /a lies at the virtual depth, m=2: /a/b does, m=3: both are shorter (thorough only: the
				// next-hop update code does not depend on m)
				if th || m <= 2 {
					c = append(c, explore.Config{Name: fmt.Sprintf("cost m=%d", m), MaxDepth: 64, MaxDev: -1})
				}
				if th || m == 2 {
					c = append(c, explore.Config{Name: fmt.Sprintf("costS m=%d", m), MaxDepth: 64, MaxDev: -1})
				}
				if th {
					c = append(c, explore.Config{Name: fmt.Sprintf("cost4 m=%d", m), MaxDepth: 64, MaxDev: -1})
				}
			}
			for m := 1; m <= 6; m++ {
				if m <= 4 {
					c = append(c, explore.Config{Name: fmt.Sprintf("small m=%d", m), MaxDepth: 64, MaxDev: -1})
				}
				d := 3
				if th {
					d = 4
				}
				c = append(c, explore.Config{Name: fmt.Sprintf("full m=%d", m), MaxDepth: d, MaxDev: -1})
				dd := 4
				if th {
					dd = 6
				}
				c = append(c, explore.Config{Name: fmt.Sprintf("deep m=%d", m), MaxDepth: dd, MaxDev: -1})
				if m <= 2 {
					c = append(c, explore.Config{Name: fmt.Sprintf("ambig m=%d", m), MaxDepth: d, MaxDev: -1})
					c = append(c, explore.Config{Name: fmt.Sprintf("typed m=%d", m), MaxDepth: d, MaxDev: -1})
					c = append(c, explore.Config{Name: fmt.Sprintf("reuse m=%d", m), MaxDepth: d, MaxDev: -1})
				}
			}
			ad := 3
			if th {
				ad = 4
			}
			c = append(c, explore.Config{Name: "audit(no dedup) small m=2", BuildName: "small m=2", MaxDepth: ad + 1, MaxDev: -1, NoDedup: true})
			c = append(c, explore.Config{Name: "audit(no dedup) full m=2", BuildName: "full m=2", MaxDepth: ad - 1, MaxDev: -1, NoDedup: true})
			c = append(c, explore.Config{Name: "history search (no dedup) tiny m=1", BuildName: "tiny m=1", MaxDepth: ad + 1, MaxDev: -1, NoDedup: true})
			return c
		},
		Budget: func(th bool) time.Duration {
			if th {
				return 20 * time.Minute
			}
			return 100 * time.Second
		},
		Rule: "BFS over histories of InsertNextHop/RemoveNextHop/ClearNextHops/ReplaceNextHops/SetStrategy/UnSetStrategy on the real tree FIB and the real hash-table FIB (m=1..6) side by side; after every transition every lookup name (each prefix, one and two unknown components below it) and both listings are compared with a reference map; states de-duplicated on reference map + private shape of both tables; value universes (cost, costs, faces, costS; m=1..3) are explored to a fixpoint with cost values 0/1/2^32/2^63/2^64-1, face ids 0/2^32/2^64-1 and every ReplaceNextHops map over them, so every update x->y of an existing next hop (x==y, to and from 0, two faces swapping costs, update then remove) is executed",
		Assumptions: []string{
			"equal canonical state (reference map + tree node dump + hash-table real/virtual table dump) implies equal futures",
			"reuse configurations: the name-tree FIB owns what it keeps (a caller may re-use the memory of a prefix or strategy name once the call has returned), as it does on the unchanged tree; the hash-table FIB keeps the slices it is given and is driven with private memory",
			"value universes are finite: cost values {0, 1, 2^32, 2^63, 2^64-1}, face ids {0, 1, 2, 2^32, 2^64-1}; every universe except deep has cost 0 next to a non-zero cost",
			"name universes are finite: small (4 nested prefixes, fixpoint), full (7 prefixes incl. siblings, 2 faces, costs 0 and 2), deep (chain to depth 7 crossing every m), ambig (names whose components concatenate to the same bytes), typed (sibling components that differ in type only)",
		},
	})
}
