// C06: the FIB always equals the flattening of the currently registered routes.
// Explicit-state search over register/unregister/face-cleanup histories executed on the REAL
// table.Rib on top of the REAL FIB (name tree and hash table), compared after every transition
// with a from-scratch flattening of the harness's own route multiset.
package main

import (
	"fmt"
	"sort"
	"strings"
	"time"

	"github.com/named-data/ndnd/fw/core"
	"github.com/named-data/ndnd/fw/face"
	fwmgmt "github.com/named-data/ndnd/fw/mgmt"
	"github.com/named-data/ndnd/fw/table"
	enc "github.com/named-data/ndnd/std/encoding"
	mgmtdef "github.com/named-data/ndnd/std/ndn/mgmt_2022"
	"github.com/named-data/ndnd/std/utils"
	"verif/mc/explore"
	"verif/mc/report"
)

type route struct{ face, origin, cost, flags uint64 }

type inst struct {
	routes  map[string][]*route // reference: prefix -> routes (insertion order irrelevant)
	cmdErr  string              // a management command of this step was not answered with 200
	scratch []byte              // reuse universes: the caller's decode buffer, shared by all calls
	gone    map[uint64]bool     // faceforms universes: faces torn down through face.Table.Remove
}

type universe struct {
	prefixes []string
	faces    []uint64
	origins  []uint64
	costs    []uint64
	flags    []uint64
	// mgmt: routes are registered / unregistered by rib/register and rib/unregister commands handed
	// to the real management module (fw/mgmt/rib.go) as received from the face itself
	mgmt bool
	// reuse: every name handed to the RIB is decoded (NameFromBytes) from ONE buffer the caller
	// re-uses for its next call and scribbles over as soon as the call has returned - the way a
	// caller decoding commands from a receive buffer behaves. The RIB must own its keys.
	reuse bool
	// faceforms (with mgmt): every command names its face in each of the three ways the protocol
	// offers - FaceId absent (the requesting face), FaceId=0 explicitly (the requesting face),
	// FaceId=<id> explicitly in a command that arrives on ANOTHER face
	faceforms bool
}

// faceForm is one way of naming face f in a command: the ControlParameters FaceId (nil = absent)
// and the face the command arrives on.
type faceForm struct {
	tag    string
	faceID *uint64
	from   uint64
}

func (u universe) faceFormsOf(f uint64) []faceForm {
	forms := []faceForm{{"", nil, f}}
	if !u.faceforms {
		return forms
	}
	forms = append(forms, faceForm{",FaceId=0", utils.IdPtr(uint64(0)), f})
	for _, g := range u.faces {
		if g != f {
			forms = append(forms, faceForm{fmt.Sprintf(",FaceId=%d-from-f%d", f, g), utils.IdPtr(f), g})
			break
		}
	}
	return forms
}

type sys struct {
	u       universe
	fib     string
	ops     []explore.Op
	do      map[string]func(in *inst)
	lookups []string
}

var nmCache = map[string]enc.Name{}

func nm(s string) enc.Name {
	if n, ok := nmCache[s]; ok {
		return n
	}
	n, err := enc.NameFromStr(s)
	if err != nil {
		panic(err)
	}
	nmCache[s] = n
	return n
}

func flagStr(f uint64) string {
	return [...]string{"-", "CI", "CAP", "CI+CAP"}[f&3]
}

// arg returns the name to pass to the RIB for prefix p, and a function to call after the RIB call.
func (u universe) arg(in *inst, p string) (enc.Name, func()) {
	if !u.reuse {
		return nm(p), func() {}
	}
	if in.scratch == nil {
		in.scratch = make([]byte, 256)
	}
	b := nm(p).Bytes()
	k := copy(in.scratch, b)
	n, err := enc.NameFromBytes(in.scratch[:k])
	if err != nil {
		panic("HARNESS-BUG: " + err.Error())
	}
	return n, func() {
		for i := range in.scratch {
			in.scratch[i] = 0xEE
		}
	}
}

func newSys(u universe, fib string) *sys {
	s := &sys{u: u, fib: fib, do: map[string]func(in *inst){}}
	set := map[string]bool{"/": true, "/zz": true}
	for _, p := range u.prefixes {
		base := p
		if base == "/" {
			base = ""
		}
		set[p] = true
		set[base+"/zz"] = true
		// every proper prefix too (gaps such as /a/b between /a and /a/b/c)
		n := nm(p)
		for l := 1; l < len(n); l++ {
			set[n[:l].String()] = true
			set[n[:l].String()+"/zz"] = true
		}
	}
	for k := range set {
		s.lookups = append(s.lookups, k)
	}
	sort.Strings(s.lookups)
	add := func(name string, f func(in *inst)) {
		s.ops = append(s.ops, explore.Op{Name: name})
		s.do[name] = f
	}
	for _, p := range u.prefixes {
		for _, f := range u.faces {
			for _, o := range u.origins {
				for _, c := range u.costs {
					for _, fl := range u.flags {
						p, f, o, c, fl := p, f, o, c, fl
						ref := func(in *inst) {
							for _, r := range in.routes[p] {
								if r.face == f && r.origin == o {
									r.cost, r.flags = c, fl
									return
								}
							}
							in.routes[p] = append(in.routes[p], &route{f, o, c, fl})
						}
						if u.mgmt {
							// every field explicit; and, where a value equals the documented default
							// (application origin, cost 0, child-inherit), the field left out
							for _, explicit := range []bool{true, false} {
								if !explicit && !(o == 0 || c == 0 || fl == ci) {
									continue
								}
								for _, ff := range u.faceFormsOf(f) {
									explicit, ff := explicit, ff
									tag := ff.tag
									if !explicit {
										tag += ",defaults-absent"
									}
									add(fmt.Sprintf("Reg(%s,f%d,o%d,c%d,%s%s)", p, f, o, c, flagStr(fl), tag), func(in *inst) {
										a := &mgmtdef.ControlArgs{Name: nm(p), FaceId: ff.faceID}
										if explicit || o != 0 {
											a.Origin = utils.IdPtr(o)
										}
										if explicit || c != 0 {
											a.Cost = utils.IdPtr(c)
										}
										if explicit || fl != ci {
											a.Flags = utils.IdPtr(fl)
										}
										st, _ := fwmgmt.VerifCommand("rib", "register", a, ff.from)
										if ff.faceID != nil && *ff.faceID != 0 && in.gone[*ff.faceID] {
											// the command names a face that no longer exists: refused, nothing changes
											if st != 410 {
												in.cmdErr = fmt.Sprintf("rib/register naming the removed face %d answered %d, not 410", *ff.faceID, st)
											}
											return
										}
										if st != 200 {
											in.cmdErr = fmt.Sprintf("rib/register answered %d", st)
										}
										ref(in)
									})
								}
							}
							continue
						}
						add(fmt.Sprintf("Reg(%s,f%d,o%d,c%d,%s)", p, f, o, c, flagStr(fl)), func(in *inst) {
							name, done := u.arg(in, p)
							table.Rib.AddEncRoute(name, &table.Route{FaceID: f, Origin: o, Cost: c, Flags: fl})
							done()
							for _, r := range in.routes[p] {
								if r.face == f && r.origin == o {
									r.cost, r.flags = c, fl
									return
								}
							}
							in.routes[p] = append(in.routes[p], &route{f, o, c, fl})
						})
					}
				}
			}
		}
	}
	for _, p := range u.prefixes {
		for _, f := range u.faces {
			for _, o := range u.origins {
				for _, ff := range u.faceFormsOf(f) {
					p, f, o, ff := p, f, o, ff
					add(fmt.Sprintf("Unreg(%s,f%d,o%d%s)", p, f, o, ff.tag), func(in *inst) {
						if u.mgmt {
							a := &mgmtdef.ControlArgs{Name: nm(p), FaceId: ff.faceID}
							if o != 0 {
								a.Origin = utils.IdPtr(o)
							}
							if st, _ := fwmgmt.VerifCommand("rib", "unregister", a, ff.from); st != 200 {
								in.cmdErr = fmt.Sprintf("rib/unregister answered %d", st)
							}
						} else {
							name, done := u.arg(in, p)
							table.Rib.RemoveRouteEnc(name, f, o)
							done()
						}
						rs := in.routes[p]
						for i, r := range rs {
							if r.face == f && r.origin == o {
								in.routes[p] = append(append([]*route{}, rs[:i]...), rs[i+1:]...)
								break
							}
						}
						if len(in.routes[p]) == 0 {
							delete(in.routes, p)
						}
					})
				}
			}
		}
	}
	for _, f := range u.faces {
		f := f
		if u.faceforms {
			// the real teardown entry point: what faces/destroy and a stopping link service call. It
			// may run more than once for one face (destroy, then the link service's own exit), and
			// the application behind the face may get a command in between.
			add(fmt.Sprintf("Teardown(f%d)", f), func(in *inst) {
				face.FaceTable.Remove(f)
				in.gone[f] = true
				for p, rs := range in.routes {
					var keep []*route
					for _, r := range rs {
						if r.face != f {
							keep = append(keep, r)
						}
					}
					if len(keep) == 0 {
						delete(in.routes, p)
					} else {
						in.routes[p] = keep
					}
				}
			})
		}
		add(fmt.Sprintf("FaceDown(f%d)", f), func(in *inst) {
			table.Rib.CleanUpFace(f)
			for p, rs := range in.routes {
				var keep []*route
				for _, r := range rs {
					if r.face != f {
						keep = append(keep, r)
					}
				}
				if len(keep) == 0 {
					delete(in.routes, p)
				} else {
					in.routes[p] = keep
				}
			}
		})
	}
	return s
}

var cfgDone bool

func (s *sys) New() any {
	if !cfgDone {
		cfgDone = true
		c := core.DefaultConfig()
		c.Core.LogLevel = "FATAL"
		core.LoadConfig(c, "")
		core.InitializeLogger("")
	}
	if s.fib == "tree" {
		table.VerifNewFibTree()
	} else {
		var m int
		fmt.Sscanf(s.fib, "ht%d", &m)
		table.VerifNewFibHT(uint16(m))
	}
	table.VerifResetRib()
	if s.u.faceforms {
		face.VerifC06SetFaces(s.u.faces)
	}
	return &inst{routes: map[string][]*route{}, gone: map[uint64]bool{}}
}

func (s *sys) Ops(any) []explore.Op { return s.ops }

func hasCapture(rs []*route) bool {
	for _, r := range rs {
		if r.flags&table.RouteFlagCapture != 0 {
			return true
		}
	}
	return false
}

// flatten computes, exactly as the property words it, the next hops of a prefix that has routes.
func (in *inst) flatten(p string) map[uint64]uint64 {
	out := map[uint64]uint64{}
	put := func(r *route) {
		if c, ok := out[r.face]; !ok || r.cost < c {
			out[r.face] = r.cost
		}
	}
	own := in.routes[p]
	for _, r := range own {
		put(r)
	}
	if hasCapture(own) {
		return out
	}
	n := nm(p)
	for l := len(n) - 1; l >= 0; l-- {
		q := n[:l].String()
		if l == 0 {
			q = "/"
		}
		rs := in.routes[q]
		for _, r := range rs {
			if r.flags&table.RouteFlagChildInherit != 0 {
				put(r)
			}
		}
		if hasCapture(rs) {
			break
		}
	}
	return out
}

func mapStr(m map[uint64]uint64) string {
	x := make([]string, 0, len(m))
	for f, c := range m {
		x = append(x, fmt.Sprintf("%d:%d", f, c))
	}
	sort.Strings(x)
	return strings.Join(x, ",")
}

func nhStr(nh []*table.FibNextHopEntry) string {
	x := make([]string, 0, len(nh))
	for _, h := range nh {
		x = append(x, fmt.Sprintf("%d:%d", h.Nexthop, h.Cost))
	}
	sort.Strings(x)
	return strings.Join(x, ",")
}

// expected lookup result for a name: the flattening of its longest routed prefix.
func (in *inst) expect(name string) (string, string) {
	n := nm(name)
	for l := len(n); l >= 0; l-- {
		q := n[:l].String()
		if l == 0 {
			q = "/"
		}
		if len(in.routes[q]) > 0 {
			return mapStr(in.flatten(q)), q
		}
	}
	return "", "(none)"
}

func opKind(op string) string { return op[:strings.Index(op, "(")] }

func (s *sys) check(in *inst, last string) (v []report.Violation) {
	seen := map[string]bool{}
	bad := func(clause, key, detail string) {
		key = s.fibKind() + " " + key + " after " + opKind(last)
		if seen[clause+key] {
			return
		}
		seen[clause+key] = true
		v = append(v, report.Violation{Clause: clause, Key: key, Detail: detail})
	}
	for _, ln := range s.lookups {
		want, from := in.expect(ln)
		got := nhStr(table.FibStrategyTable.FindNextHopsEnc(nm(ln)))
		if got != want {
			kind := "routed prefix"
			if from != ln {
				kind = "name below/without routed prefix"
			}
			if ln == "/" || from == "(none)" {
				kind = "root/unrouted name"
			}
			bad("C06.lookup", "lookup of "+kind, fmt.Sprintf("FindNextHopsEnc(%s) = {%s}, flattening of longest routed prefix %s requires {%s}", ln, got, from, want))
		}
	}
	// listing: every listed entry must agree with the flattening for its own name
	listed := map[string]bool{}
	for _, e := range table.FibStrategyTable.GetAllFIBEntries() {
		n := "/"
		if len(e.Name()) > 0 {
			n = e.Name().String()
		}
		listed[n] = true
		want, from := in.expect(n)
		if got := nhStr(e.GetNextHops()); got != want {
			bad("C06.entry", "listed entry differs", fmt.Sprintf("FIB entry %s = {%s}, flattening (longest routed prefix %s) requires {%s}", n, got, from, want))
		}
	}
	for p := range in.routes {
		if !listed[p] {
			bad("C06.entry", "routed prefix not listed", fmt.Sprintf("prefix %s has routes but no FIB entry", p))
		}
	}
	// RIB listing
	wantRib := []string{}
	for p, rs := range in.routes {
		for _, r := range rs {
			wantRib = append(wantRib, fmt.Sprintf("%s f%d o%d c%d fl%d", p, r.face, r.origin, r.cost, r.flags))
		}
	}
	gotRib := []string{}
	for _, e := range table.Rib.GetAllEntries() {
		n := "/"
		if len(e.Name) > 0 {
			n = e.Name.String()
		}
		for _, r := range e.GetRoutes() {
			gotRib = append(gotRib, fmt.Sprintf("%s f%d o%d c%d fl%d", n, r.FaceID, r.Origin, r.Cost, r.Flags))
		}
	}
	sort.Strings(wantRib)
	sort.Strings(gotRib)
	if strings.Join(wantRib, ";") != strings.Join(gotRib, ";") {
		bad("C06.rib", "GetAllEntries", fmt.Sprintf("Rib.GetAllEntries = %v, want %v", gotRib, wantRib))
	}
	return
}

func (s *sys) fibKind() string {
	if s.fib == "tree" {
		return "tree"
	}
	return "hashtable"
}

func (s *sys) Apply(i any, op explore.Op) []report.Violation {
	in := i.(*inst)
	in.cmdErr = ""
	s.do[op.Name](in)
	v := s.check(in, op.Name)
	if in.cmdErr != "" {
		v = append(v, report.Violation{Clause: "C06.rib", Key: "management command refused: " + opKindOf(op.Name), Detail: op.Name + ": " + in.cmdErr})
	}
	return v
}

func opKindOf(n string) string {
	if i := strings.Index(n, "("); i > 0 {
		return n[:i]
	}
	return n
}
func (s *sys) Do(i any, op explore.Op) { s.do[op.Name](i.(*inst)) }

func (s *sys) Canon(i any) string {
	in := i.(*inst)
	var b strings.Builder
	keys := []string{}
	for p := range in.routes {
		keys = append(keys, p)
	}
	sort.Strings(keys)
	for _, p := range keys {
		rs := []string{}
		for _, r := range in.routes[p] {
			rs = append(rs, fmt.Sprintf("%d/%d/%d/%d", r.face, r.origin, r.cost, r.flags))
		}
		sort.Strings(rs)
		fmt.Fprintf(&b, "%s%v;", p, rs)
	}
	if len(in.gone) > 0 {
		g := []int{}
		for f := range in.gone {
			g = append(g, int(f))
		}
		sort.Ints(g)
		fmt.Fprintf(&b, "gone%v;", g)
	}
	nodes, aux := table.VerifDumpFib(table.FibStrategyTable)
	fmt.Fprintf(&b, "#%v%v#%v", nodes, aux, table.VerifDumpRib())
	return b.String()
}

const (
	ci   = table.RouteFlagChildInherit
	cap_ = table.RouteFlagCapture
)

var universes = map[string]universe{
	// tiny alphabet for a deep history search without state de-duplication
	"tiny": {prefixes: []string{"/a", "/a/b"}, faces: []uint64{1}, origins: []uint64{0, 128}, costs: []uint64{1}, flags: []uint64{ci, cap_}},
	// two nested prefixes with a gap, all flag combinations, two faces: explored to a fixpoint
	"gap": {prefixes: []string{"/a", "/a/b/c"}, faces: []uint64{1, 2}, origins: []uint64{0}, costs: []uint64{1}, flags: []uint64{0, ci, cap_, ci | cap_}},
	// root + chain, one face, two origins and costs (min-cost, per-origin removal)
	"chain": {prefixes: []string{"/", "/a", "/a/b", "/a/b/c"}, faces: []uint64{1}, origins: []uint64{0, 128}, costs: []uint64{0, 5}, flags: []uint64{ci, 0, ci | cap_}},
	// three levels, two faces, capture in the middle
	"mid": {prefixes: []string{"/a", "/a/b", "/a/b/c"}, faces: []uint64{1, 2}, origins: []uint64{0}, costs: []uint64{1, 5}, flags: []uint64{ci, cap_, 0}},
	// three faces on two nested prefixes: one update can swap a member of a next-hop set without changing its size
	// (a capture route displacing an inherited face); distinct costs per flag set so that a stale cost shows
	"swap": {prefixes: []string{"/a", "/a/b"}, faces: []uint64{1, 2, 3}, origins: []uint64{0}, costs: []uint64{1}, flags: []uint64{ci, cap_, 0}},
	// the same operations issued as rib/register / rib/unregister commands through the real management module
	// the caller decodes every name from one re-used buffer (see universe.reuse); siblings and a nested pair
	"reuse": {prefixes: []string{"/a", "/a/b", "/x/y"}, faces: []uint64{1, 2}, origins: []uint64{0}, costs: []uint64{1}, flags: []uint64{ci, cap_}, reuse: true},
	// sibling prefixes whose components differ in type only (generic x vs keyword 32=x) under a routed parent
	"typed": {prefixes: []string{"/a", "/a/x", "/a/32=x"}, faces: []uint64{1, 2}, origins: []uint64{0}, costs: []uint64{1}, flags: []uint64{ci, 0}},
	"mgmt":  {prefixes: []string{"/a", "/a/b"}, faces: []uint64{1, 2}, origins: []uint64{0, 128}, costs: []uint64{0, 5}, flags: []uint64{0, ci, cap_, ci | cap_}, mgmt: true},
	// every way of naming the face in a command (absent / explicit 0 / explicit id from another face)
	"mgmtface": {prefixes: []string{"/a", "/a/b"}, faces: []uint64{1, 2}, origins: []uint64{0, 128}, costs: []uint64{1}, flags: []uint64{ci, cap_}, mgmt: true, faceforms: true},
	// one entry (plus one child) that can hold up to three routes of each of two faces (three origins): every
	// order in which the routes can sit next to each other in the entry's route list is a distinct state (the
	// canonical state includes the list order), explored to a fixpoint, so every removal (Unreg, FaceDown) meets
	// every adjacency pattern of the routes it removes: first/middle/last, adjacent or separated by the other face
	"adj": {prefixes: []string{"/a"}, faces: []uint64{1, 2}, origins: []uint64{0, 65, 128}, costs: []uint64{1}, flags: []uint64{ci}},
	// the same with a child entry (clean-up walks several entries) and distinct costs (a survivor shows in the FIB cost)
	"adj2": {prefixes: []string{"/a", "/a/b"}, faces: []uint64{1, 2}, origins: []uint64{0, 65, 128}, costs: []uint64{1, 5}, flags: []uint64{ci}},
	// the full alphabet of the design
	"full": {prefixes: []string{"/", "/a", "/a/b", "/a/b/c", "/a/x"}, faces: []uint64{1, 2}, origins: []uint64{0, 128}, costs: []uint64{1, 5}, flags: []uint64{0, ci, cap_, ci | cap_}},
}

func build(cfg string) explore.System {
	var un, fib string
	fmt.Sscanf(cfg, "%s %s", &un, &fib)
	return newSys(universes[un], fib)
}

func main() {
	explore.Main(explore.Spec{
		ID: "C06", PanicClause: "C06.panic", Build: build,
		Configs: func(th bool) []explore.Config {
			var c []explore.Config
			fibs := []string{"tree", "ht2"}
			if th {
				fibs = []string{"tree", "ht1", "ht2", "ht3"}
			}
			for _, f := range fibs {
				c = append(c, explore.Config{Name: "gap " + f, MaxDepth: 64, MaxDev: -1})
				c = append(c, explore.Config{Name: "adj " + f, MaxDepth: 64, MaxDev: -1})
				if th {
					c = append(c, explore.Config{Name: "adj2 " + f, MaxDepth: 5, MaxDev: -1})
				}
				sd := 4
				if th {
					sd = 64
				}
				c = append(c, explore.Config{Name: "swap " + f, MaxDepth: sd, MaxDev: -1})
				d1, d2, d3 := 3, 3, 2
				if th {
					d1, d2, d3 = 4, 4, 3
				}
				c = append(c, explore.Config{Name: "chain " + f, MaxDepth: d1, MaxDev: -1})
				c = append(c, explore.Config{Name: "mid " + f, MaxDepth: d2, MaxDev: -1})
				c = append(c, explore.Config{Name: "full " + f, MaxDepth: d3, MaxDev: -1})
				c = append(c, explore.Config{Name: "mgmt " + f, MaxDepth: d3, MaxDev: -1})
				c = append(c, explore.Config{Name: "mgmtface " + f, MaxDepth: d2, MaxDev: -1})
				c = append(c, explore.Config{Name: "reuse " + f, MaxDepth: d2, MaxDev: -1})
				c = append(c, explore.Config{Name: "typed " + f, MaxDepth: d2, MaxDev: -1})
			}
			ad := 3
			if th {
				ad = 4
			}
			c = append(c, explore.Config{Name: "audit(no dedup) gap tree", BuildName: "gap tree", MaxDepth: ad + 1, MaxDev: -1, NoDedup: true})
			c = append(c, explore.Config{Name: "audit(no dedup) chain ht2", BuildName: "chain ht2", MaxDepth: ad, MaxDev: -1, NoDedup: true})
			c = append(c, explore.Config{Name: "history search (no dedup) tiny tree", BuildName: "tiny tree", MaxDepth: ad + 2, MaxDev: -1, NoDedup: true})
			c = append(c, explore.Config{Name: "history search (no dedup) tiny ht1", BuildName: "tiny ht1", MaxDepth: ad + 2, MaxDev: -1, NoDedup: true})
			return c
		},
		Budget: func(th bool) time.Duration {
			if th {
				return 20 * time.Minute
			}
			return 90 * time.Second
		},
		Rule: "BFS over histories of Rib.AddEncRoute / RemoveRouteEnc / CleanUpFace on the real RIB over the real FIB (tree and hash table); after every transition FindNextHopsEnc for every name of the universe (every prefix, every gap prefix, one unknown component below each, the root, an unrelated name), the FIB listing and the RIB listing are compared with a from-scratch flattening of the harness's route multiset; states de-duplicated on route multiset + RIB tree shape + FIB private shape",
		Assumptions: []string{
			"reuse configurations: a caller may re-use the memory of a name it passed to the RIB once the call has returned (the tables own their keys, as the repository's table code does by cloning at insertion)",
			"FIB entries at route-less prefixes are tolerated as long as they are invisible to every lookup (equal to the flattening of the longest routed prefix); structural leaks are C08's business",
			"equal canonical state (route multiset + RIB node dump + FIB dump) implies equal futures",
		},
	})
}
