//go:build verif

// White-box access for /verif/harness/c06: puts in-memory faces with chosen ids into the global
// face table, so that management commands naming a face explicitly (FaceId=<id>, issued from
// another face) pass the "face exists" test of rib/register. Never part of a normal build.
package face

import defn "github.com/named-data/ndnd/fw/defn"

// VerifC06SetFaces empties the face table and stores one in-memory local face per id (not
// registered with dispatch: the RIB/FIB code under test never sends).
func VerifC06SetFaces(ids []uint64) {
	FaceTable.faces.Range(func(k, _ any) bool { FaceTable.faces.Delete(k); return true })
	max := uint64(0)
	for _, id := range ids {
		l, _ := VerifNewMemLinkService(id, defn.Local, defn.PointToPoint, defn.MaxNDNPacketSize, MakeNDNLPLinkServiceOptions())
		FaceTable.faces.Store(id, l)
		if id > max {
			max = id
		}
	}
	FaceTable.nextFaceID.Store(max + 1)
}
