// C12: signed packets verify iff untampered; signer and parser cover the same bytes.
//
// Bounded exhaustive enumeration on the real packet API, signers and validators: for every signer
// constructor shipped in std/security (each mode) and every <=k-deviation packet shape of the
// shared generator (verif/harness/pktgen, the C03 shapes), the packet is built with a recording
// wrapper around the shipped signer and checked by four clauses:
//
//	C12.cover  EncodedX.SigCovered = bytes handed to the signer = SigCovered returned by
//	           ReadData/ReadInterest, contiguous and for every enumerated segmentation;
//	C12.accept the matching shipped validator accepts the decoded packet; a packet the API refuses to
//	           build because the shipped signer returned a signature longer than its own
//	           EstimateSize is a violation (ECDSA: every curve signs until the longest DER length
//	           class of the curve was seen, see evalSweep);
//	C12.digest an Interest with parameters ends in the SHA-256 (computed by the harness over the
//	           independently located ApplicationParameters..end bytes) and every single-bit
//	           corruption of that digest component is rejected on decode;
//	C12.tamper every single-bit flip inside the signed portion, the SignatureValue element or the
//	           ApplicationParameters element makes decoding fail or the validator / digest check
//	           reject.
//
// "Decoding" means every decode entry point the repository offers (entry.go): the typed
// Spec.ReadInterest/ReadData, the generic spec.ReadPacket used by the engine and the forwarder, and
// the receive path of a real std/engine/basic.Engine fed the bare packet or an NDNLPv2 frame.
//
// All decoding of corrupted bytes happens in child processes under `ulimit -v` (a flipped length
// byte can make the decoder size an allocation by attacker data); a child that dies is restarted
// after the offending bit, which is recorded in the coverage (it is a C04 matter, not a C12
// violation: decoding did not succeed).
package main

import (
	"bufio"
	"bytes"
	"crypto/sha256"
	"encoding/hex"
	"encoding/json"
	"fmt"
	"os"
	"os/exec"
	"runtime/debug"
	"runtime/pprof"
	"sort"
	"strconv"
	"strings"
	"sync"
	"syscall"
	"time"

	enc "github.com/named-data/ndnd/std/encoding"
	"github.com/named-data/ndnd/std/ndn"
	spec "github.com/named-data/ndnd/std/ndn/spec_2022"
	"verif/harness/pktgen"
	"verif/mc/enum"
	"verif/mc/report"
)

// ---------------------------------------------------------------------------------------------
// case space (identical in parent and children: deterministic)

// item is one enumerated packet shape.
type item struct {
	label string
	d     pktgen.Desc
	depth int  // number of deviations
	sweep bool // outer-length boundary sweep case: built repeatedly, no tampering
	// lenClass: ECDSA length-class case: built (signed) until the longest and the two next DER length
	// classes of the key's curve were seen or lenClassTries builds were made
	lenClass bool
	// signature-size dimension (sigsize.go): sizeGrid = grid case (light treatment: every clause that
	// does not tamper, cuts at element offsets only); observeOnly = an (estimate, actual) pair no
	// shipped signer family produces: built, outcome counted, nothing reported
	sizeGrid, observeOnly bool
}

type space struct {
	cases   []item
	refused map[string]string // base -> API error (whole base dropped)
	primary []string
}

// primaryModes get every deviation in the quick tier; the other signer modes differ from them only
// in SignatureInfo fields or key size and get the base shapes plus the payload-size deviations
// (all deviations in the thorough tier).
var primaryModes = map[string]bool{
	"D+sha256": true, "D+hmac": true, "D+ecdsa-p256": true, "D+rsa2048": true,
	"I+sha256-int": true, "I+hmac-int": true, "I+ecdsa-p256-int": true, "I+rsa1024-int": true,
}

var allDims = []string{"ncomp", "c0.typ", "c0.len", "cL.typ", "cL.len", "name.shape", "pay.size", "pay.split", "signer",
	"cbp", "mbf", "hint", "nonce", "life", "hop", "ctype", "fresh", "final"}

func buildSpace(thorough bool) *space {
	two := []pktgen.Comp{{Typ: 8, Len: 1}, {Typ: 8, Len: 2}}
	std := pktgen.Bases()
	var i1, d1 pktgen.Desc
	for _, b := range std {
		switch b.Name {
		case "I1-allopt":
			i1 = b.Desc
		case "D1-allmeta-signed":
			d1 = b.Desc
		}
	}
	var prim, sec, keyv []pktgen.Base
	refused := map[string]string{}
	try := func(name string, d pktgen.Desc, primary bool) {
		// Whether a base is in the space must not depend on one random signature: a refusal caused by
		// a signature longer than the signer's own estimate (ECDSA lengths vary from call to call) is
		// not a refusal of the base; the cases built from it report that as a violation.
		b := pktgen.BuildRetry(&d, 64)
		if b.Err != nil && !b.SigTooLong() {
			refused[name] = b.Err.Error()
			return
		}
		if d.Signer >= 0 && pktgen.Signers()[d.Signer].KeyVariant {
			keyv = append(keyv, pktgen.Base{Name: name, Desc: d}) // key material variants: base shapes only, both tiers
		} else if primary || thorough {
			prim = append(prim, pktgen.Base{Name: name, Desc: d})
		} else {
			sec = append(sec, pktgen.Base{Name: name, Desc: d})
		}
	}
	// unsigned Interests with parameters (digest only)
	try("I1-unsigned-params", i1, true)
	try("I3-unsigned-params-min", pktgen.Desc{Interest: true, Name: two, PaySize: 3, Signer: -1}, true)
	for si, s := range pktgen.Signers() {
		if s.FailsToSign {
			continue // only used as predecessors in the signer-history pass
		}
		di := i1
		di.Signer = si
		try("I1+"+s.Name, di, primaryModes["I+"+s.Name])
		try("I2+"+s.Name, pktgen.Desc{Interest: true, Name: two, PaySize: 3, Signer: si}, primaryModes["I+"+s.Name])
		try("D0+"+s.Name, pktgen.Desc{Name: two, PaySize: -1, Signer: si}, primaryModes["D+"+s.Name])
		dd := d1
		dd.Signer = si
		try("D1+"+s.Name, dd, primaryModes["D+"+s.Name])
	}
	k := 1
	if thorough {
		k = 2
	}
	sp := &space{refused: refused}
	for m := range primaryModes {
		sp.primary = append(sp.primary, m)
	}
	sort.Strings(sp.primary)
	add := func(ps *pktgen.Space, maxPay int) {
		for _, c := range ps.Cases {
			if d, ok := ps.Desc(c); ok && d.PaySize <= maxPay {
				sp.cases = append(sp.cases, item{label: ps.Label(c), d: d, depth: len(c.Devs)})
			}
		}
	}
	add(pktgen.Enumerate(prim, k, "signer"), 1<<30)
	add(pktgen.Enumerate(keyv, 0), 1<<30)
	if len(sec) > 0 {
		var skip []string
		for _, dm := range allDims {
			if dm != "pay.size" {
				skip = append(skip, dm)
			}
		}
		add(pktgen.Enumerate(sec, 1, skip...), 60000) // secondary modes: payload sizes up to 253 bytes
	}
	sort.SliceStable(sp.cases, func(i, j int) bool { return sp.cases[i].depth < sp.cases[j].depth })
	// outer-length boundary sweep: the four signed base shapes x every ECDSA mode x payload sizes
	// that put the estimated outer length on 250..258 and 65533..65540; first in the list
	sw := pktgen.Sweep([]pktgen.Base{
		{Name: "I1", Desc: i1}, {Name: "I2", Desc: pktgen.Desc{Interest: true, Name: two, PaySize: 3, Signer: -1}},
		{Name: "D0", Desc: pktgen.Desc{Name: two, PaySize: -1, Signer: -1}}, {Name: "D1", Desc: d1}})
	var sweep []item
	for _, c := range sw {
		sweep = append(sweep, item{label: c.Label, d: c.Desc, depth: 1, sweep: true})
	}
	// ECDSA length classes: every ECDSA signer mode (all curves, incl. the key variants) x the four
	// signed base shapes the API builds for that mode
	var lc []item
	for si, sg := range pktgen.Signers() {
		if sg.Family != "ecdsa" || sg.FailsToSign {
			continue
		}
		di, dd := i1, d1
		di.Signer, dd.Signer = si, si
		for _, b := range []pktgen.Base{{Name: "I1", Desc: di}, {Name: "I2", Desc: pktgen.Desc{Interest: true, Name: two, PaySize: 3, Signer: si}},
			{Name: "D0", Desc: pktgen.Desc{Name: two, PaySize: -1, Signer: si}}, {Name: "D1", Desc: dd}} {
			if _, no := refused[b.Name+"+"+sg.Name]; no {
				continue
			}
			lc = append(lc, item{label: fmt.Sprintf("%s + signer=%s + every signature length class of the curve (P-%d: %d, %d, %d bytes)", b.Name, sg.Name, sg.CurveBits,
				pktgen.EcdsaMaxDER(sg.CurveBits), pktgen.EcdsaMaxDER(sg.CurveBits)-1, pktgen.EcdsaMaxDER(sg.CurveBits)-2), d: b.Desc, depth: 0, lenClass: true})
		}
	}
	sp.cases = append(append(append(sigSizeItems(thorough), lc...), sweep...), sp.cases...)
	return sp
}

// ---------------------------------------------------------------------------------------------
// child <-> parent protocol

type msg struct {
	T      string              `json:"t"`
	I      int                 `json:"i,omitempty"`
	B      int                 `json:"b,omitempty"`
	Clause string              `json:"clause,omitempty"`
	Key    string              `json:"key,omitempty"`
	Detail string              `json:"detail,omitempty"`
	Replay map[string]any      `json:"replay,omitempty"`
	Stat   map[string]int64    `json:"stat,omitempty"`
	Sets   map[string][]string `json:"sets,omitempty"`
	S      string              `json:"s,omitempty"`
	Capped bool                `json:"capped,omitempty"`
}

var out *bufio.Writer

var selfKill = os.Getenv("C12_SELFTEST_KILL")

func emit(m msg) {
	b, _ := json.Marshal(m)
	out.Write(b)
	out.WriteByte('\n')
	if m.T == "bit" || m.T == "case" || m.T == "done" {
		out.Flush()
	}
}

// ---------------------------------------------------------------------------------------------
// child: evaluation of one case

type caseCtx struct {
	idx    int
	label  string
	d      *pktgen.Desc
	b      *pktgen.Built
	root   *pktgen.Node
	stat   map[string]int64
	sets   map[string]map[string]bool
	replay map[string]any
	// the independent walker rejected the packet inside a name component
	malformedName bool
	held          *heldPacket
}

// otherEntries: the decode entry points besides the typed Spec.ReadInterest/ReadData.
var otherEntries = []int{epPacket, epEngine, epEngineLp, epEngineLp0}

var collapsedKey = "signed packet with a name component value of 253+ bytes does not decode (see C03)"

func (c *caseCtx) viol(clause, key, detail string, extra map[string]any) {
	// one root cause, one key: contiguous-decode / well-formedness failures of packets that
	// contain a component value of 253+ bytes are the C03 length-encoding finding (segmented-decode
	// failures are never collapsed: they only run after the contiguous decode succeeded)
	if c.malformedName && c.d.BigComp() && clause == "C12.cover" && (strings.Contains(key, "does not decode") || strings.Contains(key, "not a well-formed")) {
		detail = key + " :: " + detail
		key = collapsedKey
	}
	key += c.d.SizeWord()
	rp := map[string]any{}
	for k, v := range c.replay {
		rp[k] = v
	}
	for k, v := range extra {
		rp[k] = v
	}
	emit(msg{T: "viol", I: c.idx, Clause: clause, Key: key, Detail: c.d.String() + ": " + detail, Replay: rp})
}

// violRaw reports a violation about ANOTHER packet than the current case (delayed verification).
func (c *caseCtx) violRaw(clause, key, detail string, replay map[string]any) {
	replay["case_index"] = c.idx
	emit(msg{T: "viol", I: c.idx, Clause: clause, Key: key, Detail: detail, Replay: replay})
}

func (c *caseCtx) note(set, v string) {
	if c.sets[set] == nil {
		c.sets[set] = map[string]bool{}
	}
	c.sets[set][v] = true
}

// signerWord names the signer in a key: the family, or the exact mode for key-material variants
// (there the key is the point: e.g. "hmac-key64").
func signerWord(sp *pktgen.SignerSpec) string {
	if sp.SizeClass != "" {
		return sp.Family // signature-size dimension: the size class is appended to the key by viol
	}
	if sp.KeyVariant {
		return sp.Name
	}
	return sp.Family
}

func kind(d *pktgen.Desc) string {
	if d.Interest {
		return "Interest"
	}
	return "Data"
}

func errClass(err error) string {
	s := err.Error()
	o := make([]byte, 0, len(s))
	for i := 0; i < len(s); i++ {
		ch := s[i]
		if ch >= '0' && ch <= '9' {
			if len(o) == 0 || o[len(o)-1] != 'N' {
				o = append(o, 'N')
			}
			continue
		}
		o = append(o, ch)
	}
	if len(o) > 120 {
		o = o[:120]
	}
	return string(o)
}

// dec is the outcome of one decode.
type dec struct {
	ok     bool
	msg    string // error / panic class when !ok
	sig    ndn.Signature
	cov    enc.Wire
	hasSig bool
	name   enc.Name // typed entry point only
	err    error    // decode error when !ok (rendered on demand: why())
}

// why renders the reason of a failed decode.
func (o dec) why() string {
	if o.msg == "" && o.err != nil {
		return "error: " + errClass(o.err)
	}
	return o.msg
}

func decode(interest bool, r enc.ParseReader) (o dec) {
	defer func() {
		if rc := recover(); rc != nil {
			o = dec{msg: "panic " + pktgen.PanicSite(rc)}
		}
	}()
	if interest {
		i, cov, err := spec.Spec{}.ReadInterest(r)
		if err != nil {
			return dec{err: err}
		}
		return dec{ok: true, sig: i.Signature(), cov: cov, name: i.Name()}
	}
	d, cov, err := spec.Spec{}.ReadData(r)
	if err != nil {
		return dec{err: err}
	}
	return dec{ok: true, sig: d.Signature(), cov: cov, name: d.Name()}
}

func validate(sp *pktgen.SignerSpec, o dec) (ok bool) {
	defer func() {
		if rc := recover(); rc != nil {
			ok = false
		}
	}()
	return sp.Validate(o.cov, o.sig)
}

func hexCap(b []byte) string {
	if len(b) > 600 {
		return hex.EncodeToString(b[:300]) + "..." + hex.EncodeToString(b[len(b)-100:]) + fmt.Sprintf(" (%d bytes)", len(b))
	}
	return hex.EncodeToString(b)
}

func segs(B []byte, cuts ...int) enc.Wire {
	w := make(enc.Wire, 0, len(cuts)+1)
	p := 0
	for _, c := range cuts {
		w = append(w, B[p:c])
		p = c
	}
	return append(w, B[p:])
}

type region struct {
	lo, hi int
	what   string // signed portion | signature value | parameters | digest component
}

// layout locates, with the independent walker only, the elements the clauses talk about.
type layout struct {
	name, digest, param, sigInfo, sigVal *pktgen.Node
	signed                               []region // the signed portion per the NDN packet format
}

func locate(root *pktgen.Node, interest bool) layout {
	var l layout
	l.name = root.Kid(7)
	if interest {
		l.param, l.sigInfo, l.sigVal = root.Kid(0x24), root.Kid(0x2c), root.Kid(0x2e)
		if l.param != nil && l.name != nil && len(l.name.Kids) > 0 {
			if k := l.name.Kids[len(l.name.Kids)-1]; k.Typ == 2 {
				l.digest = k
			}
		}
		if l.sigVal != nil && l.param != nil && l.name != nil {
			end := l.name.End
			if l.digest != nil {
				end = l.digest.Start
			}
			l.signed = []region{{l.name.VStart, end, "signed portion"}, {l.param.Start, l.sigVal.Start, "signed portion"}}
		}
	} else {
		l.sigInfo, l.sigVal = root.Kid(0x16), root.Kid(0x17)
		if l.sigVal != nil {
			l.signed = []region{{root.VStart, l.sigVal.Start, "signed portion"}}
		}
	}
	return l
}

// where names the innermost element containing offset p and whether p is in its header.
func where(root *pktgen.Node, p int) string {
	n := root
	path := fmt.Sprintf("%#x", n.Typ)
	for {
		var next *pktgen.Node
		for _, k := range n.Kids {
			if p >= k.Start && p < k.End {
				next = k
				break
			}
		}
		if next == nil {
			break
		}
		n = next
		if n.Parent != nil && n.Parent.Typ == 7 {
			path += "/component"
		} else {
			path += fmt.Sprintf("/%#x", n.Typ)
		}
	}
	if p < n.VStart {
		if p == n.Start {
			return path + " type byte"
		}
		return path + " length bytes"
	}
	return path + " value"
}

// pool: one signer object per mode for the life of this worker, like an application that keeps its
// signer. prevBuilt: the last packet each signer object signed, kept as the un-joined Wire the API
// returned; it is joined, decoded and validated only after the same object signed the next packet.
var (
	pool       = pktgen.NewSignerPool()
	prevBuilt  = map[int]*heldPacket{}
	olderBuilt = map[int]*heldPacket{} // the packet each signer object signed before prevBuilt's
)

type heldPacket struct {
	b       *pktgen.Built
	label   string
	validOK bool // the validator accepted it right after it was built
	covOK   bool // Encoded*.SigCovered held the bytes the signer was handed right after it was built
	damaged bool // another check already found (and reported) that its wire was modified
}

func delayedVerify(cc *caseCtx, cur *pktgen.Built) {
	if cur.Err != nil || cur.Rec == nil || !cur.Rec.Asked {
		return
	}
	si := cur.Desc.Signer
	prev := prevBuilt[si]
	older := olderBuilt[si]
	cc.held = &heldPacket{b: cur, label: cc.label}
	cc.held.covOK = cur.Err == nil && bytes.Equal(cur.SigCov.Join(), cur.Rec.Covered) // else: reported by its own case
	prevBuilt[si] = cc.held
	olderBuilt[si] = prev
	if older != nil && !older.damaged && (prev == nil || !prev.damaged) {
		// the packet before the previous one: two later packets were signed by the same object since
		// (a signer that alternates between two scratch buffers only shows here)
		cc.stat["delayed_verifications_two_packets_later"]++
		ob := older.b
		if late := ob.Wire.Join(); !bytes.Equal(late, ob.Bytes) {
			older.damaged = true
			cc.violRaw("C12.cover", "bytes of an earlier Encoded"+kind(ob.Desc)+".Wire change when the same signer object signs the second packet after it ("+ob.SignerSp.Family+")",
				fmt.Sprintf("%s signed by one %s signer object, then %s and %s by the same object: the first packet's un-joined Wire now joins to different bytes", older.label, ob.SignerSp.Name, prev.label, cc.label),
				map[string]any{"case": older.label, "desc": ob.Desc.String(), "next_case": cc.label, "bytes": hexCap(ob.Bytes)})
		} else if ob.Err == nil && !bytes.Equal(ob.SigCov.Join(), ob.Rec.Covered) {
			older.damaged = true
			cc.violRaw("C12.cover", "an earlier Encoded"+kind(ob.Desc)+".SigCovered no longer holds the bytes its signer was handed once the same signer object signed two more packets ("+ob.SignerSp.Family+")",
				older.label+" then "+prev.label+" then "+cc.label, map[string]any{"case": older.label, "desc": ob.Desc.String(), "next_case": cc.label, "bytes": hexCap(ob.Bytes)})
		}
	}
	if prev == nil || prev.damaged {
		return
	}
	cc.stat["delayed_verifications"]++
	pb := prev.b
	late := append([]byte(nil), pb.Wire.Join()...)
	extra := map[string]any{"case": prev.label, "desc": pb.Desc.String(), "next_case": cc.label, "bytes": hexCap(pb.Bytes)}
	mode := pb.SignerSp.Name
	if !bytes.Equal(late, pb.Bytes) {
		cc.violRaw("C12.cover", "bytes of an earlier Encoded"+kind(pb.Desc)+".Wire change when the same signer object signs the next packet ("+pb.SignerSp.Family+")",
			fmt.Sprintf("%s signed by one %s signer object, then %s signed by the same object: the first packet's un-joined Wire now joins to different bytes", prev.label, mode, cc.label), extra)
	}
	if pb.Err == nil && prev.covOK && !bytes.Equal(pb.SigCov.Join(), pb.Rec.Covered) {
		cc.violRaw("C12.cover", "an earlier Encoded"+kind(pb.Desc)+".SigCovered no longer holds the bytes its signer was handed once the same signer object signed the next packet ("+pb.SignerSp.Family+")",
			fmt.Sprintf("%s signed by one %s signer object, then %s by the same object: the SigCovered wire returned with the first packet (kept by reference) now joins to other bytes", prev.label, mode, cc.label), extra)
	}
	if !prev.validOK {
		return // it did not decode/verify even before the next packet was signed: reported by its own case
	}
	o := decode(pb.Desc.Interest, enc.NewBufferReader(late))
	cc.stat["decodes"]++
	switch {
	case !o.ok:
		cc.violRaw("C12.cover", "an earlier packet no longer decodes after the same signer object signed the next packet ("+pb.SignerSp.Family+")", prev.label+" then "+cc.label+": "+o.why(), extra)
	case !bytes.Equal(o.cov.Join(), pb.Rec.Covered):
		cc.violRaw("C12.cover", "an earlier packet's signed portion differs from what its signer was handed once the same signer object signed the next packet ("+pb.SignerSp.Family+")", prev.label+" then "+cc.label, extra)
	case pb.SignerSp.Validate != nil && !validate(pb.SignerSp, o):
		cc.violRaw("C12.accept", "an earlier packet no longer verifies after the same signer object signed the next packet ("+pb.SignerSp.Family+" signer, "+pb.SignerSp.Family+" validator)",
			fmt.Sprintf("%s signed by one %s signer object, then %s by the same object: the validator now rejects the first, untampered packet", prev.label, mode, cc.label), extra)
	}
}

// contextReuse: spec.ReadPacket hands its *PacketParsingContext to the caller and the generated
// contexts have an exported Init() for re-use. One context per worker parses every signed packet
// (Init; Parse); the covered wire it returned for the PREVIOUS packet is kept un-joined and must
// still be the bytes that packet's signer was handed - and verify - after the context has been
// re-initialised and has parsed the current packet.
var (
	sharedCtx  spec.PacketParsingContext
	ctxPrev    *ctxHeld
	ctxPrevLbl string
)

type ctxHeld struct {
	cov   enc.Wire // as returned by the context, not copied
	want  []byte
	sig   ndn.Signature
	sp    *pktgen.SignerSpec
	valid bool // verified right after parsing
}

func contextReuse(cc *caseCtx, b *pktgen.Built, hasValidator bool) {
	var cur *ctxHeld
	func() {
		defer func() {
			if r := recover(); r != nil {
				cc.viol("C12.cover", "re-used parsing context panics: "+pktgen.PanicSite(r), "", nil)
			}
		}()
		sharedCtx.Init()
		pkt, err := sharedCtx.Parse(enc.NewBufferReader(b.Bytes), false)
		cc.stat["decodes"]++
		cc.stat["context_reuse_parses"]++
		if err != nil || pkt == nil {
			cc.viol("C12.cover", "a re-initialised parsing context fails to parse a packet that a fresh one parses", fmt.Sprint(err), nil)
			return
		}
		cur = &ctxHeld{want: b.Rec.Covered, sp: b.SignerSp}
		switch {
		case pkt.Data != nil:
			cur.cov, cur.sig = sharedCtx.Data_context.SigCovered(), pkt.Data.Signature()
		case pkt.Interest != nil:
			cur.cov, cur.sig = sharedCtx.Interest_context.SigCovered(), pkt.Interest.Signature()
		default:
			cur = nil
			return
		}
		if !bytes.Equal(cur.cov.Join(), cur.want) {
			cc.viol("C12.cover", "SigCovered returned by a re-initialised parsing context differs from the bytes handed to the signer", b.SignerSp.Name, nil)
			cur = nil
			return
		}
		if hasValidator {
			cur.valid = validate(cur.sp, dec{ok: true, sig: cur.sig, cov: cur.cov})
		}
	}()
	prev, prevLbl := ctxPrev, ctxPrevLbl
	ctxPrev, ctxPrevLbl = cur, cc.label
	if prev == nil || cur == nil {
		return
	}
	cc.stat["context_reuse_delayed_checks"]++
	extra := map[string]any{"case": prevLbl, "next_case": cc.label}
	switch {
	case !bytes.Equal(prev.cov.Join(), prev.want):
		cc.violRaw("C12.cover", "the signed portion a parsing context returned for one packet changes when the context is re-initialised and parses the next packet",
			fmt.Sprintf("%s parsed, its SigCovered() kept; context.Init(); %s parsed: the kept wire no longer holds the bytes the first packet's signer was handed", prevLbl, cc.label), extra)
	case prev.valid && !validate(prev.sp, dec{ok: true, sig: prev.sig, cov: prev.cov}):
		cc.violRaw("C12.accept", "a packet parsed by a re-used parsing context no longer verifies after the context parsed the next packet ("+prev.sp.Family+")", prevLbl+" then "+cc.label, extra)
	}
}

// rebuildFromName: Interest A (with parameters) was built and decodes. Two more Interests are
// built with MakeInterest from (1) A's EncodedInterest.FinalName and (2) the name decoded from A's
// own un-joined Wire - both end in a digest component whose bytes live inside A's wire - and
// different parameters. Afterwards A's wire must still join to the same bytes and decode.
func rebuildFromName(cc *caseCtx, a *pktgen.Built) {
	check := func(src string, name enc.Name) {
		if len(name) == 0 {
			return
		}
		cc.stat["interests_rebuilt_from_an_earlier_name"]++
		func() {
			defer func() { recover() }()
			// cap-limited slice header: the components (and their Val buffers) are shared, the
			// slice A.FinalName itself is not appended into
			spec.Spec{}.MakeInterest(name[:len(name):len(name)], &ndn.InterestConfig{}, enc.Wire{[]byte{0xa5, 0x5a}}, nil)
		}()
		late := append([]byte(nil), a.Wire.Join()...)
		extra := map[string]any{"then": "MakeInterest(name = " + src + " of this Interest, parameters a55a)"}
		if !bytes.Equal(late, a.Bytes) {
			if cc.held != nil {
				cc.held.damaged = true // reported here: keep it out of the delayed verification
			}
			cc.viol("C12.digest", "an earlier Interest's wire changes when a second Interest is built from its "+src,
				"the un-joined Wire of the first Interest joins to different bytes after MakeInterest was called with its "+src, extra)
			return
		}
		if o := decode(true, enc.NewBufferReader(late)); !o.ok {
			cc.viol("C12.digest", "an earlier Interest no longer decodes after a second Interest was built from its "+src, o.why(), extra)
		}
		cc.stat["decodes"]++
	}
	check("FinalName", a.FinalNm)
	var w enc.Wire
	for _, s := range a.Wire {
		if len(s) > 0 {
			w = append(w, s)
		}
	}
	func() {
		defer func() { recover() }()
		if i, _, err := (spec.Spec{}).ReadInterest(enc.NewWireReader(w)); err == nil {
			check("decoded name", i.Name())
		}
	}()
}

func evalCase(s *space, idx int, startBit int, careful bool, thorough bool, deadline time.Time) {
	it := s.cases[idx]
	if it.sweep || it.lenClass {
		evalSweep(s, idx)
		return
	}
	if it.observeOnly {
		observeSize(idx, it)
		return
	}
	d := it.d
	light := it.sizeGrid
	c := struct{ Devs []int }{make([]int, it.depth)}
	cc := &caseCtx{idx: idx, label: it.label, d: &d, stat: map[string]int64{}, sets: map[string]map[string]bool{}}
	cc.replay = map[string]any{"case": cc.label, "desc": d.String(), "case_index": idx}
	defer func() {
		sets := map[string][]string{}
		for k, m := range cc.sets {
			for v := range m {
				sets[k] = append(sets[k], v)
			}
		}
		emit(msg{T: "stat", I: idx, Stat: cc.stat, Sets: sets})
	}()
	cc.stat["cases"]++
	cc.stat[fmt.Sprintf("cases_%ddev", len(c.Devs))]++
	b := pktgen.BuildWith(&d, pool)
	cc.b = b
	if b.Panic != "" {
		cc.viol("C12.cover", "packet API panics: "+b.Panic, "build panicked", nil)
		return
	}
	if d.Ext == nil {
		delayedVerify(cc, b)
	} else {
		cc.stat["signature_size_cases"]++
		cc.note("signature_size_estimates", fmt.Sprintf("%s %s", kind(&d), sizeBucket(int(b.Rec.Inner.EstimateSize()))))
	}
	if tooLong(cc, b) {
		return
	}
	if b.Err != nil {
		cc.stat["api_refused"]++
		cc.note("api_refused", kind(&d)+": "+errClass(b.Err))
		return
	}
	cc.stat["built"]++
	cc.replay["bytes"] = hexCap(b.Bytes)
	B := b.Bytes
	n := len(B)
	fam := "unsigned"
	if b.SignerSp != nil {
		fam = b.SignerSp.Name
	}
	root, werr := pktgen.Walk(B)
	cc.malformedName = werr != "" && (strings.Contains(werr, "0x7/") || strings.Contains(werr, "0x1a/"))
	if werr != "" {
		cc.viol("C12.cover", "packet is not a well-formed TLV: "+werr, "independent walker: "+werr, nil)
		root = nil
	}
	ref := decode(d.Interest, enc.NewBufferReader(B))
	cc.stat["decodes"]++
	if !ref.ok {
		famKey := fam
		if b.SignerSp != nil && b.SignerSp.SizeClass != "" {
			famKey = b.SignerSp.Family
		}
		cc.viol("C12.cover", kind(&d)+" ("+famKey+") does not decode: "+ref.why(), "contiguous decode of the packet just built: "+ref.why(), nil)
		return
	}
	signed := b.Rec != nil && b.Rec.Asked
	if signed || (d.Interest && d.PaySize != -1) {
		cc.stat["nontrivial_cases"]++
	}
	// the engine of this case (its root Interest handler / a pending CanBePrefix Interest for the
	// first component of the Data name record what the application is handed)
	rig = newRig(d.Interest, ref.name)
	if !rig.usable {
		cc.stat["cases_engine_entry_points_not_applicable"]++
	}
	hasValidator := signed && b.SignerSp.Validate != nil
	var lay layout
	if root != nil {
		lay = locate(root, d.Interest)
	}

	// ---- C12.accept
	if hasValidator {
		cc.stat["validations"]++
		if !validate(b.SignerSp, ref) {
			cc.viol("C12.accept", "matching validator rejects an untampered packet ("+signerWord(b.SignerSp)+" signer, "+b.SignerSp.Family+" validator)",
				fmt.Sprintf("%s: announced signature type %d, %d-byte signature value", fam, ref.sig.SigType(), len(ref.sig.SigValue())), nil)
			hasValidator = false // tampering cannot be judged against a validator that rejects everything
			cc.stat["tamper_skipped_validator_rejects_original"]++
		} else {
			cc.stat["accepted_untampered"]++
			if cc.held != nil {
				cc.held.validOK = true
			}
		}
	}

	// A run resumed after a worker death (startBit > 0) has already evaluated the clauses below
	// for this case in the run that died; only the bit flips are continued.
	resumed := startBit > 0

	// ---- C12.cover
	if signed {
		cc.stat["signed_packets"]++
	}
	if signed && !resumed {
		want := b.Rec.Covered
		if !bytes.Equal(b.SigCov.Join(), want) {
			cc.viol("C12.cover", kind(&d)+": Encoded"+kind(&d)+".SigCovered differs from the bytes handed to the signer", fam, nil)
		}
		if !bytes.Equal(ref.cov.Join(), want) {
			cc.viol("C12.cover", kind(&d)+": decoded SigCovered differs from the bytes handed to the signer", fam+fmt.Sprintf(": signer saw %d bytes, parser covers %d", len(want), len(ref.cov.Join())), nil)
		}
		if root != nil && lay.signed != nil {
			var sp []byte
			for _, r := range lay.signed {
				sp = append(sp, B[r.lo:r.hi]...)
			}
			if bytes.Equal(sp, want) {
				cc.stat["signed_portion_matches_packet_format"]++
			} else {
				cc.stat["signed_portion_differs_from_packet_format"]++
			}
		}
		// segmentations
		var cuts1 []int
		for p := 1; p < n; p++ {
			cuts1 = append(cuts1, p)
		}
		if n > 1200 && root != nil {
			cuts1 = root.HeaderCuts(n, 2)
		}
		if light && root != nil {
			cuts1 = root.HeaderCuts(n, 0)
		}
		trySegVia := func(ep int, cuts ...int) {
			o := decodeVia(ep, d.Interest, B, cuts)
			cc.stat["decodes"]++
			cc.stat["segmentations"]++
			on, extra := "", map[string]any{"cuts": cuts}
			if ep != epTyped {
				on = " on " + entryWord[ep]
				extra["entry_point"] = entryNames[ep]
				cc.stat["segmentations_other_entry_points"]++
			}
			if !o.ok {
				cc.viol("C12.cover", "segmented decode of a signed packet fails"+on+": "+o.why(), fmt.Sprintf("%s, %d bytes cut at %v", fam, n, cuts), extra)
				return
			}
			if !bytes.Equal(o.cov.Join(), want) {
				cc.viol("C12.cover", "SigCovered from a segmented decode"+on+" differs from the bytes handed to the signer",
					fmt.Sprintf("%s, %d bytes cut at %v: signer saw %d bytes, parser covers %d", fam, n, cuts, len(want), len(o.cov.Join())), extra)
				return
			}
			if len(cuts) == 1 && hasValidator && !b.SignerSp.Slow && (b.SignerSp.Family == "sha256" || b.SignerSp.Family == "hmac" || cuts[0]%8 == 0) {
				cc.stat["validations"]++
				if !validate(b.SignerSp, o) {
					cc.viol("C12.accept", "validator rejects an untampered packet decoded from segments"+on+" ("+b.SignerSp.Family+")", fmt.Sprintf("%s cut at %v", fam, cuts), extra)
				}
			}
		}
		trySeg := func(cuts ...int) { trySegVia(epTyped, cuts...) }
		fullEntries := len(c.Devs) == 0 || (thorough && len(c.Devs) <= 1)
		// the other entry points: contiguous, every 1-cut, and (base shapes; thorough: <=1-deviation shapes) every pair of element offsets
		for _, ep := range otherEntries {
			if ep >= epEngine && !rig.usable {
				continue
			}
			o := decodeVia(ep, d.Interest, B, nil)
			cc.stat["decodes"]++
			cc.stat["entry_point_decodes_untampered"]++
			extra := map[string]any{"entry_point": entryNames[ep]}
			switch {
			case !o.ok:
				cc.viol("C12.cover", kind(&d)+" ("+signerWord(b.SignerSp)+") decodes through Spec.Read"+kind(&d)+" but not through "+entryWord[ep]+": "+o.why(), fam+": contiguous bytes: "+o.why(), extra)
				continue
			case !bytes.Equal(o.cov.Join(), want):
				cc.viol("C12.cover", kind(&d)+": SigCovered from "+entryWord[ep]+" differs from the bytes handed to the signer",
					fmt.Sprintf("%s: signer saw %d bytes, %s covers %d", fam, len(want), entryNames[ep], len(o.cov.Join())), extra)
				continue
			case hasValidator:
				cc.stat["validations"]++
				if !validate(b.SignerSp, o) {
					cc.viol("C12.accept", "matching validator rejects an untampered packet decoded through "+entryWord[ep]+" ("+signerWord(b.SignerSp)+" signer, "+b.SignerSp.Family+" validator)", fam, extra)
					continue
				}
			}
			if ep == epEngineLp0 || (light && ep != epPacket) {
				continue // differs from the full LpPacket only in the header fields: contiguous decode only
			}
			cutsE := cuts1
			if ep >= epEngine && !fullEntries && root != nil {
				cutsE = root.HeaderCuts(n, 1) // engine, other shapes: cuts within 1 byte of an element offset
			}
			for _, p := range cutsE {
				trySegVia(ep, p)
			}
			if root != nil && fullEntries {
				hp := root.HeaderCuts(n, 0)
				if len(hp) <= 60 {
					for i := 0; i < len(hp); i++ {
						for j := i + 1; j < len(hp); j++ {
							trySegVia(ep, hp[i], hp[j])
						}
					}
				}
			}
		}
		for _, p := range cuts1 {
			trySeg(p)
		}
		lim2 := 100
		if thorough && len(c.Devs) <= 1 {
			lim2 = 400
		}
		pos2 := cuts1
		if n > lim2 && root != nil {
			pos2 = root.HeaderCuts(n, 0)
		}
		if light {
			pos2 = nil
		}
		if len(pos2) <= 400 {
			for i := 0; i < len(pos2); i++ {
				for j := i + 1; j < len(pos2); j++ {
					trySeg(pos2[i], pos2[j])
				}
			}
		}
		// 3 cuts: all for small packets; otherwise outer header end + every pair of element offsets
		if light {
			// grid case: no 3-cuts
		} else if n <= 56 || (thorough && len(c.Devs) <= 1 && n <= 112) {
			for i := 0; i < len(cuts1); i++ {
				for j := i + 1; j < len(cuts1); j++ {
					for k := j + 1; k < len(cuts1); k++ {
						trySeg(cuts1[i], cuts1[j], cuts1[k])
					}
				}
			}
		} else if root != nil {
			hp := root.HeaderCuts(n, 0)
			if len(hp) <= 200 {
				for i := 0; i < len(hp); i++ {
					for j := i + 1; j < len(hp); j++ {
						// quick tier, deviated shapes: the second and third cut are at most
						// 3 element offsets apart (all pairs for the base shapes and in thorough)
						if !thorough && len(c.Devs) > 0 && j > i+3 {
							break
						}
						if hp[i] > root.VStart {
							trySeg(root.VStart, hp[i], hp[j])
						}
					}
				}
			}
		}
	}

	// ---- C12.digest (static part)
	if d.Interest && d.PaySize != -1 && root != nil {
		cc.stat["interests_with_parameters"]++
	}
	if d.Interest && d.PaySize != -1 && root != nil && !resumed {
		switch {
		case lay.param == nil:
			cc.viol("C12.digest", "Interest built with parameters has no ApplicationParameters element", "", nil)
		case lay.digest == nil || lay.digest.End-lay.digest.VStart != 32:
			cc.viol("C12.digest", "Interest with parameters does not end in a 32-byte ParametersSha256Digest component", "", nil)
		default:
			h := sha256.Sum256(B[lay.param.Start:root.End])
			if !bytes.Equal(h[:], B[lay.digest.VStart:lay.digest.End]) {
				cc.viol("C12.digest", "Interest with parameters carries a wrong parameters digest", "SHA-256 over ApplicationParameters..end of Interest differs from the last name component", nil)
			}
			if len(b.FinalNm) == 0 || !bytes.Equal(b.FinalNm[len(b.FinalNm)-1].Val, h[:]) {
				cc.viol("C12.digest", "EncodedInterest.FinalName does not end in the parameters digest", "", nil)
			}
		}
	}

	// ---- C12.cover / C12.accept with a re-used parsing context
	if signed && !resumed {
		contextReuse(cc, b, hasValidator)
	}

	// ---- C12.digest (aliasing part): FinalName and decoded names point into the packet's wire.
	// Build a second Interest from them and make sure the first one is left intact.
	if d.Interest && d.PaySize != -1 && !resumed {
		rebuildFromName(cc, b)
	}

	// ---- C12.tamper / C12.digest (dynamic part)
	if root == nil || light {
		return
	}
	var regs []region
	if hasValidator {
		regs = append(regs, lay.signed...)
		regs = append(regs, region{lay.sigVal.Start, lay.sigVal.End, "signature value element"})
	} else if signed {
		cc.stat["tamper_not_applicable_no_validator"]++
	}
	if d.Interest && lay.param != nil {
		if !signed || hasValidator {
			regs = append(regs, region{lay.param.Start, lay.param.End, "parameters element"})
		}
		if lay.digest != nil {
			regs = append(regs, region{lay.digest.Start, lay.digest.End, "digest component"})
		}
	}
	if len(regs) == 0 {
		return
	}
	if b.SignerSp != nil && b.SignerSp.Slow && ((!thorough && len(c.Devs) > 0) || len(c.Devs) > 1) {
		cc.stat["tamper_skipped_slow_signer"]++
		return
	}
	// byte set, first region wins the label
	labelOf := map[int]string{}
	var offs []int
	for _, r := range regs {
		for p := r.lo; p < r.hi; p++ {
			if _, ok := labelOf[p]; !ok {
				labelOf[p] = r.what
				offs = append(offs, p)
			}
		}
	}
	sort.Ints(offs)
	// bound for bulk values: all bits of bytes within 4 of an element boundary, one bit of every
	// `stride`-th byte elsewhere
	full := map[int]bool{}
	stride := 1
	if len(offs) > 700 {
		for _, p := range root.HeaderCuts(n+1, 4) {
			full[p] = true
		}
		full[0] = true
		stride = 251
		if thorough && b.SignerSp != nil && (b.SignerSp.Family == "sha256" || b.SignerSp.Family == "hmac") || thorough && b.SignerSp == nil {
			stride = 7
		}
		cc.stat["packets_with_bounded_bulk_tamper"]++
	} else {
		cc.stat["packets_with_every_bit_tampered"]++
	}
	slow := b.SignerSp != nil && b.SignerSp.Slow
	buf := append([]byte(nil), B...)
	tamperCuts := []int{n / 2}
	if d.Interest && lay.param != nil {
		tamperCuts = append(tamperCuts, lay.param.Start)
	} else if lay.sigInfo != nil {
		tamperCuts = append(tamperCuts, lay.sigInfo.Start)
	}
	// full plan (every entry point x every reader form) for the base shapes (thorough tier: <=1-deviation shapes)
	fullPlan := len(c.Devs) == 0 || (thorough && len(c.Devs) <= 1)
	plan := tamperPlan(fullPlan, len(tamperCuts))
	if fullPlan {
		cc.stat["packets_tampered_through_every_entry_point_and_reader_form"]++
	} else {
		cc.stat["packets_tampered_through_reduced_probe_plan"]++
	}
	if !signed && !resumed {
		// unsigned Interests with parameters: which entry points decode the untampered packet is
		// recorded (the property does not say they must; the tamper verdicts do not depend on it)
		for _, ep := range otherEntries {
			if ep >= epEngine && !rig.usable {
				continue
			}
			cc.stat["decodes"]++
			if o := decodeVia(ep, d.Interest, B, nil); o.ok {
				cc.stat["entry_point_decodes_untampered"]++
			} else {
				cc.note("untampered_unsigned_interests_rejected_by_an_entry_point", entryNames[ep]+": "+o.why())
			}
		}
	}
	segOnly := ""
	bitNo := -1
	for oi, p := range offs {
		bits := []int{0, 1, 2, 3, 4, 5, 6, 7}
		if stride > 1 && !full[p] {
			if oi%stride != 0 {
				continue
			}
			bits = []int{(oi / stride) % 8}
		}
		if slow && stride == 1 && !thorough {
			// expensive verification (P-521): quick tier flips bits 0 and 7 of every byte
			bits = []int{0, 7}
		}
		for _, bit := range bits {
			bitNo++
			segOnly = ""
			if bitNo < startBit {
				continue
			}
			if careful {
				emit(msg{T: "bit", I: idx, B: bitNo})
			}
			if selfKill == fmt.Sprintf("%d:%d", idx, bitNo) {
				out.Flush()
				syscall.Kill(os.Getpid(), syscall.SIGKILL) // C12_SELFTEST_KILL: exercises the restart logic
			}
			buf[p] ^= 1 << bit
			// every flipped packet goes through the probes of the plan (entry point x reader form:
			// contiguous, or a WireReader cut in the middle of the packet / right before the
			// ApplicationParameters / SignatureInfo element). Accepted by ANY probe = accepted.
			cc.stat["bit_flips"]++
			verdict, rejectedBy := "", ""
			var first dec
			firstVerdict, haveFirst := false, false
			acceptedVia := epTyped
			for _, pr := range plan {
				if verdict != "" {
					break
				}
				if pr.ep >= epEngine && !rig.usable {
					continue
				}
				var cuts []int
				if pr.cut >= 0 {
					cuts = tamperCuts[pr.cut : pr.cut+1]
				}
				o := decodeVia(pr.ep, d.Interest, buf, cuts)
				pathOf := func() string { // only needed for an accepted flip
					if pr.ep != epTyped {
						return pr.String(tamperCuts) + " through " + entryNames[pr.ep]
					}
					return pr.String(tamperCuts)
				}
				pi := pr.cut
				cc.stat["decodes"]++
				switch {
				case !o.ok && strings.HasPrefix(o.msg, "panic"):
					if rejectedBy == "" {
						rejectedBy = "panic"
					}
					cc.note("decoder_panics_on_flipped_packets", o.why())
				case !o.ok:
					if rejectedBy == "" {
						rejectedBy = "decoder"
					}
				case hasValidator:
					// the shipped validators are functions of (covered bytes, signature type,
					// signature value): an identical triple is not verified twice
					var ok bool
					if haveFirst && o.sig.SigType() == first.sig.SigType() && bytes.Equal(o.sig.SigValue(), first.sig.SigValue()) && bytes.Equal(o.cov.Join(), first.cov.Join()) {
						ok = firstVerdict
					} else {
						cc.stat["validations"]++
						ok = validate(b.SignerSp, o)
						first, firstVerdict, haveFirst = o, ok, true
					}
					if ok {
						verdict = "decodes from " + pathOf() + " and the " + b.SignerSp.Family + " validator accepts"
					} else if rejectedBy == "" || (pi < 0 && pr.ep == epTyped) {
						rejectedBy = "validator"
					}
				default:
					verdict = "decodes from " + pathOf() + " (parameters digest check passes)"
				}
				if verdict != "" {
					acceptedVia = pr.ep
					if pi >= 0 {
						segOnly = " when decoded from segments"
					}
				}
			}
			switch {
			case verdict != "":
			case rejectedBy == "panic":
				cc.stat["flips_rejected_by_decoder_panic"]++
			case rejectedBy == "decoder":
				cc.stat["flips_rejected_by_decoder"]++
			default:
				cc.stat["flips_rejected_by_validator"]++
			}
			buf[p] ^= 1 << bit
			if verdict != "" {
				clause := "C12.tamper"
				if labelOf[p] == "digest component" {
					clause = "C12.digest"
				}
				sg := "unsigned"
				if hasValidator {
					sg = b.SignerSp.Family + "-signed"
				}
				if clause == "C12.digest" {
					sg = "any" // the digest check does not depend on the signer
				}
				extra := map[string]any{"byte": p, "bit": bit}
				if acceptedVia != epTyped {
					// rejected by Spec.ReadInterest/ReadData, accepted by another entry point
					segOnly += " by " + entryWord[acceptedVia] + " (Spec.Read" + kind(&d) + " rejects it)"
					extra["entry_point"] = entryNames[acceptedVia]
				}
				cc.viol(clause, fmt.Sprintf("%s %s: single-bit flip in %s (%s) is accepted%s", sg, kind(&d), labelOf[p], where(root, p), segOnly),
					fmt.Sprintf("%s: flipping bit %d of byte %d (%#02x -> %#02x): %s", fam, bit, p, B[p], B[p]^(1<<bit), verdict),
					extra)
			}
		}
	}
	// ---- C12.digest, structural part: Interests whose digest component does not match their
	// parameters in other ways than by one flipped bit. "One whose digest does not match is rejected
	// on decode": by every entry point, signed or not (the digest component is outside the signed
	// portion, no validator can notice it).
	if d.Interest && lay.param != nil && lay.digest != nil && root.Start == 0 && root.End == n && lay.digest.End-lay.digest.VStart == 32 {
		dig := B[lay.digest.VStart:lay.digest.End]
		pval := B[lay.param.VStart:lay.param.End]
		type mm struct {
			what string
			pkt  []byte
		}
		var mms []mm
		withDigest := func(what string, v []byte) {
			mms = append(mms, mm{"the digest component holds " + what, replaceElem(B, lay.digest, tlv(lay.digest.Typ, v))})
		}
		h1 := sha256.Sum256(pval)
		h2 := sha256.Sum256(B[lay.param.Start:lay.param.End])
		h3 := sha256.Sum256(nil)
		withDigest("32 zero bytes", make([]byte, 32))
		withDigest("the SHA-256 of the parameters value only", h1[:])
		withDigest("the SHA-256 of the ApplicationParameters element only", h2[:])
		withDigest("the SHA-256 of the empty string", h3[:])
		withDigest("the correct digest rotated by one byte", append(append([]byte(nil), dig[1:]...), dig[0]))
		withDigest("the first 31 bytes of the correct digest", dig[:31])
		withDigest("the correct digest followed by a zero byte", append(append([]byte(nil), dig...), 0))
		withDigest("the first 16 bytes of the correct digest", dig[:16])
		mms = append(mms, mm{"the parameters value has one more (zero) byte than the digest covers",
			replaceElem(B, lay.param, tlv(lay.param.Typ, append(append([]byte(nil), pval...), 0)))})
		if len(pval) > 0 {
			mms = append(mms, mm{"the parameters value lacks the last byte the digest covers",
				replaceElem(B, lay.param, tlv(lay.param.Typ, pval[:len(pval)-1]))})
			mms = append(mms, mm{"the parameters value lacks the first byte the digest covers",
				replaceElem(B, lay.param, tlv(lay.param.Typ, pval[1:]))})
		}
		for _, m := range mms {
			if bytes.Equal(m.pkt, B) {
				continue // e.g. unsigned Interest: the element-only digest IS the correct one
			}
			cc.stat["digest_mismatch_variants"]++
			for ep := 0; ep < nEntry; ep++ {
				if ep >= epEngine && !rig.usable {
					continue
				}
				for _, cuts := range [][]int{nil, {len(m.pkt) / 2}} {
					o := decodeVia(ep, true, m.pkt, cuts)
					cc.stat["decodes"]++
					if !o.ok {
						cc.stat["digest_mismatches_rejected_on_decode"]++
						continue
					}
					by := ""
					if ep != epTyped {
						by = " by " + entryWord[ep]
					}
					class := "a wrong 32-byte digest value"
					switch {
					case strings.HasPrefix(m.what, "the parameters value"):
						class = "parameters value longer or shorter than the digest covers"
					case len(m.pkt) != n:
						class = "a digest component that is not 32 bytes long"
					}
					cc.viol("C12.digest", "Interest whose parameters digest does not match ("+class+") is accepted on decode"+by,
						fmt.Sprintf("%s: %s, lengths adjusted: decodes through %s", fam, m.what, entryNames[ep]),
						map[string]any{"mismatch": m.what, "entry_point": entryNames[ep], "tampered_bytes": hexCap(m.pkt)})
					break
				}
			}
		}
	}
	// ---- C12.tamper, structural part: the signature value made longer or shorter with every
	// enclosing length field adjusted (so that the packet stays a well-formed TLV). No validator may
	// accept a signature value that is not the one the signer produced, whatever its length.
	if hasValidator && lay.sigVal != nil && lay.sigVal.Parent == root && root.Start == 0 && root.End == n {
		val := B[lay.sigVal.VStart:lay.sigVal.End]
		type rz struct {
			what string
			val  []byte
		}
		var rzs []rz
		rzs = append(rzs, rz{"one zero byte appended", append(append([]byte(nil), val...), 0)})
		if len(val) > 0 {
			rzs = append(rzs, rz{"its first byte appended", append(append([]byte(nil), val...), val[0])})
			rzs = append(rzs, rz{"the value appended to itself", append(append([]byte(nil), val...), val...)})
			rzs = append(rzs, rz{"last byte removed", append([]byte(nil), val[:len(val)-1]...)})
			rzs = append(rzs, rz{"first byte removed", append([]byte(nil), val[1:]...)})
		}
		for _, r := range rzs {
			inner := append([]byte(nil), B[root.VStart:lay.sigVal.Start]...)
			inner = append(inner, varNum(lay.sigVal.Typ)...)
			inner = append(inner, varNum(uint64(len(r.val)))...)
			inner = append(inner, r.val...)
			inner = append(inner, B[lay.sigVal.End:root.End]...)
			t := append(varNum(root.Typ), varNum(uint64(len(inner)))...)
			t = append(t, inner...)
			cc.stat["signature_resizes"]++
			for ep := 0; ep < nEntry; ep++ {
				if ep >= epEngine && !rig.usable {
					continue
				}
				o := decodeVia(ep, d.Interest, t, nil)
				cc.stat["decodes"]++
				if !o.ok {
					cc.stat["resizes_rejected_by_decoder"]++
					continue
				}
				cc.stat["validations"]++
				if !validate(b.SignerSp, o) {
					cc.stat["resizes_rejected_by_validator"]++
					continue
				}
				by := ""
				if ep != epTyped {
					by = " by " + entryWord[ep]
				}
				cc.viol("C12.tamper", fmt.Sprintf("%s-signed %s: signature value with %s (lengths adjusted) is accepted%s", b.SignerSp.Family, kind(&d), r.what, by),
					fmt.Sprintf("%s: SignatureValue of %d bytes replaced by %d bytes (%s), enclosing lengths adjusted: decodes through %s and the %s validator accepts", fam, len(val), len(r.val), r.what, entryNames[ep], b.SignerSp.Family),
					map[string]any{"resize": r.what, "entry_point": entryNames[ep]})
				break
			}
		}
	}
	emit(msg{T: "sample", S: fmt.Sprintf("%s => %d bytes, %s; covered bytes agree (encoder, signer, parser, segmentations); %d single-bit flips all rejected=%v",
		cc.label, n, fam, cc.stat["bit_flips"], cc.stat["bit_flips"] == cc.stat["flips_rejected_by_decoder"]+cc.stat["flips_rejected_by_validator"]+cc.stat["flips_rejected_by_decoder_panic"])})
}

// varNum encodes an NDN variable-size number (shortest form).
func varNum(v uint64) []byte {
	switch {
	case v < 253:
		return []byte{byte(v)}
	case v <= 0xffff:
		return []byte{0xfd, byte(v >> 8), byte(v)}
	case v <= 0xffffffff:
		return []byte{0xfe, byte(v >> 24), byte(v >> 16), byte(v >> 8), byte(v)}
	}
	return []byte{0xff, byte(v >> 56), byte(v >> 48), byte(v >> 40), byte(v >> 32), byte(v >> 24), byte(v >> 16), byte(v >> 8), byte(v)}
}

// tooLong reports (and returns true) when the packet API refused the packet because the shipped
// signer returned a signature longer than the size it announced itself: the input is valid, the
// signer is shipped, and no packet that could verify exists.
func tooLong(cc *caseCtx, b *pktgen.Built) bool {
	if !b.SigTooLong() {
		return false
	}
	cc.stat["builds_refused_signature_longer_than_estimate"]++
	who := b.SignerSp.Name
	if b.SignerSp.CurveBits > 0 {
		who = fmt.Sprintf("ecdsa signer, P-%d key", b.SignerSp.CurveBits)
	}
	cc.viol("C12.accept", "a shipped signer's signature is longer than its own EstimateSize: the packet API refuses to build the signed packet ("+who+")",
		fmt.Sprintf("EstimateSize()=%d, ComputeSigValue returned %d bytes: %v", b.Rec.Inner.EstimateSize(), len(b.Rec.SigVal), b.Err), nil)
	return true
}

// evalSweep: one case of the outer-length boundary sweep or of the ECDSA length-class pass. The
// packet is built and signed repeatedly (ECDSA signature lengths vary run to run): a sweep case
// until three different signature lengths were seen or sweepTries builds were made; a length-class
// case until the longest DER signature of the key's curve and the two next shorter lengths were
// seen or lenClassTries builds were made (the longest class has probability >= 1/4 per signature,
// so missing it in 256 builds has probability < 1e-31; if it happens the case is recorded as
// capped). Every build must succeed, decode, cover the signed bytes and verify.
const (
	sweepTries    = 24
	lenClassTries = 256
)

func evalSweep(s *space, idx int) {
	it := s.cases[idx]
	d := it.d
	cc := &caseCtx{idx: idx, label: it.label, d: &d, stat: map[string]int64{}, sets: map[string]map[string]bool{}}
	defer func() {
		sets := map[string][]string{}
		for k, m := range cc.sets {
			for v := range m {
				sets[k] = append(sets[k], v)
			}
		}
		emit(msg{T: "stat", I: idx, Stat: cc.stat, Sets: sets})
	}()
	tries, maxDER := sweepTries, 0
	if it.lenClass {
		cc.stat["ecdsa_length_class_cases"]++
		tries = lenClassTries
		maxDER = pktgen.EcdsaMaxDER(pktgen.Signers()[d.Signer].CurveBits)
	} else {
		cc.stat["sweep_cases"]++
	}
	seen := map[int]bool{}
	sigLens := map[int]bool{}
	crossed := false
	stop := func() bool {
		if it.lenClass {
			return sigLens[maxDER] && sigLens[maxDER-1] && sigLens[maxDER-2]
		}
		return len(seen) >= 3
	}
	defer func() {
		if it.lenClass && !sigLens[maxDER] && cc.stat["ecdsa_length_class_builds"] >= lenClassTries {
			cc.stat["ecdsa_length_class_cases_capped_longest_class_not_seen"]++
		}
	}()
	for try := 0; try < tries && !stop(); try++ {
		b := pktgen.BuildWith(&d, pool)
		cc.b = b
		cc.replay = map[string]any{"case": cc.label, "desc": d.String(), "case_index": idx}
		if tooLong(cc, b) {
			return
		}
		if b.Err != nil || b.Panic != "" {
			return
		}
		sigLens[len(b.Rec.SigVal)] = true
		if it.lenClass {
			cc.stat["ecdsa_length_class_builds"]++
			if len(b.Rec.SigVal) > maxDER {
				cc.note("ecdsa_signature_longer_than_the_DER_maximum_of_its_curve", fmt.Sprintf("%s: %d bytes", b.SignerSp.Name, len(b.Rec.SigVal)))
			}
		}
		delayedVerify(cc, b)
		cc.replay["bytes"] = hexCap(b.Bytes)
		if !it.lenClass {
			cc.stat["sweep_builds"]++
		}
		_, est, shrink, crosses := b.OuterLengths()
		seen[shrink] = true
		if crosses && !it.lenClass {
			crossed = true
			if est < 65536 {
				cc.stat["sweep_builds_length_field_shrank_3_to_1_bytes"]++
			} else {
				cc.stat["sweep_builds_length_field_shrank_5_to_3_bytes"]++
			}
		}
		pre := ""
		if crosses {
			pre = "signed packet whose outer length field gets shorter after signing (signature shorter than the signer's estimate) "
		}
		o := decode(d.Interest, enc.NewBufferReader(b.Bytes))
		cc.stat["decodes"]++
		switch {
		case !o.ok && crosses:
			cc.viol("C12.cover", pre+"does not decode", fmt.Sprintf("%s: estimate %d, actual signature %d bytes: %s", b.SignerSp.Name, b.Rec.Inner.EstimateSize(), len(b.Rec.SigVal), o.why()), nil)
		case !o.ok:
			cc.viol("C12.cover", kind(&d)+" ("+b.SignerSp.Name+") does not decode: "+o.why(), o.why(), nil)
		case !bytes.Equal(o.cov.Join(), b.Rec.Covered) || !bytes.Equal(b.SigCov.Join(), b.Rec.Covered):
			cc.viol("C12.cover", pre+kind(&d)+": SigCovered (encoder or parser) differs from the bytes handed to the signer", b.SignerSp.Name, nil)
		default:
			cc.stat["validations"]++
			if validate(b.SignerSp, o) {
				if cc.held != nil {
					cc.held.validOK = true
				}
				if it.lenClass {
					cc.note("ecdsa_signature_lengths_built_and_verified", fmt.Sprintf("%s: %d bytes", b.SignerSp.Name, len(b.Rec.SigVal)))
				}
				// the same packet through the other entry points
				rig = newRig(d.Interest, o.name)
				for _, ep := range otherEntries {
					if ep >= epEngine && !rig.usable {
						continue
					}
					oe := decodeVia(ep, d.Interest, b.Bytes, nil)
					cc.stat["decodes"]++
					cc.stat["entry_point_decodes_untampered"]++
					extra := map[string]any{"entry_point": entryNames[ep]}
					switch {
					case !oe.ok:
						cc.viol("C12.cover", pre+kind(&d)+" ("+signerWord(b.SignerSp)+") decodes through Spec.Read"+kind(&d)+" but not through "+entryWord[ep]+": "+oe.why(), b.SignerSp.Name+": "+oe.why(), extra)
					case !bytes.Equal(oe.cov.Join(), b.Rec.Covered):
						cc.viol("C12.cover", pre+kind(&d)+": SigCovered from "+entryWord[ep]+" differs from the bytes handed to the signer", b.SignerSp.Name, extra)
					default:
						cc.stat["validations"]++
						if !validate(b.SignerSp, oe) {
							cc.viol("C12.accept", pre+"matching validator rejects an untampered packet decoded through "+entryWord[ep]+" ("+signerWord(b.SignerSp)+" signer, "+b.SignerSp.Family+" validator)", b.SignerSp.Name, extra)
						}
					}
				}
			} else {
				key := "matching validator rejects an untampered packet (" + b.SignerSp.Family + " signer, " + b.SignerSp.Family + " validator)"
				if crosses {
					key = pre + "is rejected by the matching validator (" + b.SignerSp.Family + ")"
				}
				cc.viol("C12.accept", key, b.SignerSp.Name, nil)
			}
		}
	}
	if crossed {
		cc.stat["sweep_cases_with_a_shrinking_length_field"]++
	}
}

// ---------------------------------------------------------------------------------------------
// signer histories: hidden state across signing calls in one process

type hsym struct {
	mode     int
	interest bool
}

func (h hsym) String() string {
	k := "Data"
	if h.interest {
		k = "Interest"
	}
	return pktgen.Signers()[h.mode].Name + "/" + k
}

// historyMain enumerates, per signer family, every ordered pair of signing calls (mode x packet
// kind, over ALL modes of the family incl. the key variants and the unusable-key signers), once
// with one signer object per mode shared by the calls and once with a fresh object per call, and
// every triple that contains one failing call (unusable key) before or between two other calls.
// Every packet that gets built must decode, cover what its signer was handed and verify - right
// away and again after the whole sequence. It runs single-threaded with the collector switched
// off inside a sequence, so that pooled per-process state (sync.Pool) is handed from one call to
// the next on every run.
func historyMain() {
	two := []pktgen.Comp{{Typ: 8, Len: 1}, {Typ: 8, Len: 2}}
	stat := map[string]int64{}
	defer func() {
		emit(msg{T: "stat", Stat: stat})
		emit(msg{T: "done"})
	}()
	type built struct {
		b    *pktgen.Built
		sym  hsym
		pred string
	}
	// lastCall / failedSince describe the calls made so far in this process (they carry over from one
	// sequence to the next: hidden state does too)
	lastCall, failedSince := "nothing", false
	var recent []string // the last calls made in this process, oldest first
	check := func(fam, seq string, x built, when string) bool {
		b := x.b
		late := append([]byte(nil), b.Wire.Join()...)
		o := decode(b.Desc.Interest, enc.NewBufferReader(late))
		stat["decodes"]++
		stat["history_packet_checks"]++
		problem := ""
		switch {
		case !bytes.Equal(late, b.Bytes):
			problem = "has different bytes " + when
		case !o.ok:
			problem = "does not decode " + when
		case !bytes.Equal(o.cov.Join(), b.Rec.Covered) || !bytes.Equal(b.SigCov.Join(), b.Rec.Covered):
			problem = "covers other bytes than its signer was handed " + when
		case b.SignerSp.Validate != nil && !validate(b.SignerSp, o):
			problem = "is rejected by the matching validator " + when
		}
		if problem == "" {
			return true
		}
		clause := "C12.cover"
		if strings.Contains(problem, "validator") {
			clause = "C12.accept"
		}
		emit(msg{T: "viol", Clause: clause, Key: fmt.Sprintf("signer history (%s): a packet signed after %s %s", fam, x.pred, problem),
			Detail: fmt.Sprintf("earlier calls in this process: %s; current sequence: %s; the packet of call %s", strings.Join(recent, " -> "), seq, x.sym),
			Replay: map[string]any{"history": seq, "case_index": 0, "bytes": hexCap(b.Bytes)}})
		return false
	}
	runSeq := func(fam string, syms []hsym, shared bool) {
		stat["history_sequences"]++
		var pool *pktgen.SignerPool
		pol := "a fresh signer object per call"
		if shared {
			pool = pktgen.NewSignerPool()
			pol = "one signer object per mode"
		}
		var names []string
		for _, y := range syms {
			names = append(names, y.String())
		}
		seq := pol + ": " + strings.Join(names, " -> ")
		old := debug.SetGCPercent(-1)
		defer debug.SetGCPercent(old)
		var done []built
		for i, y := range syms {
			pred := lastCall
			if failedSince {
				pred = "a FAILED signing call of a " + fam + " signer (no successful signing call since)"
			}
			// the packets of one sequence differ (call i has i extra name components): two calls of the
			// same deterministic signer mode sign different bytes
			nm := append([]pktgen.Comp{}, two...)
			for k := 0; k < i; k++ {
				nm = append(nm, pktgen.Comp{Typ: 8, Len: 3 + k})
			}
			d := pktgen.Desc{Interest: y.interest, Name: nm, PaySize: 3, Signer: y.mode}
			b := pktgen.BuildWith(&d, pool)
			stat["history_calls"]++
			// every earlier packet of the sequence, held as the API returned it, re-read after THIS call
			// (successful, failed or refused)
			if i < len(syms)-1 {
				kept := done[:0]
				for _, x := range done {
					if check(fam, seq, x, "once the next call was made") {
						kept = append(kept, x)
					}
				}
				done = kept
			}
			this := ""
			switch {
			case b.Panic != "":
				this = "a panicking call"
			case b.Err != nil && b.Rec != nil && b.Rec.Asked:
				stat["history_failed_signing_calls"]++
				this = "a FAILED signing call of a " + fam + " signer"
				failedSince = true
			case b.Err != nil:
				stat["history_api_refused_calls"]++
				this = "a build the API refused"
			default:
				if b.Rec != nil && b.Rec.Asked {
					x := built{b, y, pred}
					if check(fam, seq, x, "right after signing") {
						done = append(done, x)
					}
					failedSince = false
				}
				switch {
				case shared:
					this = "a successful call (one signer object per mode)"
				default:
					this = "a successful call (fresh signer objects)"
				}
			}
			_ = i
			recent = append(recent, y.String()+" ["+strings.SplitN(this, " (", 2)[0]+"]")
			if len(recent) > 4 {
				recent = recent[1:]
			}
			lastCall = this
		}
		for _, x := range done {
			check(fam, seq, x, "after the whole sequence")
		}
	}
	for _, fam := range []string{"sha256", "hmac", "ecdsa", "rsa"} {
		var all, failing, good []hsym
		for mi, sp := range pktgen.Signers() {
			if sp.Family != fam {
				continue
			}
			for _, in := range []bool{false, true} {
				y := hsym{mi, in}
				all = append(all, y)
				if sp.FailsToSign {
					failing = append(failing, y)
				} else {
					good = append(good, y)
				}
			}
		}
		for _, shared := range []bool{true, false} {
			for _, a := range all {
				for _, b := range all {
					runSeq(fam, []hsym{a, b}, shared)
				}
			}
		}
		for _, f := range failing {
			for _, a := range good {
				for _, b := range good {
					runSeq(fam, []hsym{f, a, b}, true)
					runSeq(fam, []hsym{a, f, b}, true)
				}
			}
		}
	}
}

func childMain() {
	out = bufio.NewWriterSize(os.Stdout, 1<<16)
	defer out.Flush()
	if strings.HasPrefix(os.Getenv("C12_WORKER"), "history") {
		historyMain()
		return
	}
	if pf := os.Getenv("C12_CPUPROFILE"); pf != "" {
		f, _ := os.Create(pf)
		pprof.StartCPUProfile(f)
		defer pprof.StopCPUProfile()
	}
	parts := strings.Split(os.Getenv("C12_WORKER"), "/")
	shard, _ := strconv.Atoi(parts[0])
	nshard, _ := strconv.Atoi(parts[1])
	thorough := os.Getenv("VERIF_TIER") == "thorough"
	dl, _ := strconv.ParseInt(os.Getenv("C12_DEADLINE"), 10, 64)
	deadline := time.Unix(dl, 0)
	resumeIdx, resumeBit, carefulIdx := -1, 0, -1
	if r := os.Getenv("C12_RESUME"); r != "" {
		p := strings.Split(r, ":")
		resumeIdx, _ = strconv.Atoi(p[0])
		resumeBit, _ = strconv.Atoi(p[1])
	}
	if c := os.Getenv("C12_CAREFUL"); c != "" {
		carefulIdx, _ = strconv.Atoi(c)
	}
	s := buildSpace(thorough)
	capped := false
	if os.Getenv("C12_LABELS") != "" { // development aid: list the case space
		for idx, c := range s.cases {
			fmt.Fprintf(os.Stderr, "%d\t%s\n", idx, c.label)
		}
		return
	}
	if only := os.Getenv("C12_ONLY"); only != "" { // --replay: one case, named by its label
		for _, want := range []string{only, os.Getenv("C12_ONLY_NEXT")} {
			for idx, c := range s.cases {
				if want != "" && c.label == want {
					emit(msg{T: "case", I: idx})
					evalCase(s, idx, 0, false, thorough, deadline)
				}
			}
		}
		emit(msg{T: "done"})
		return
	}
	for idx := shard; idx < len(s.cases); idx += nshard {
		if idx < resumeIdx {
			continue
		}
		if time.Now().After(deadline) {
			capped = true
			break
		}
		emit(msg{T: "case", I: idx})
		sb := 0
		if idx == resumeIdx {
			sb = resumeBit
		}
		evalCase(s, idx, sb, idx == carefulIdx, thorough, deadline)
	}
	emit(msg{T: "done", Capped: capped})
}

// replayMain re-executes the single case named in a replay file in one ulimit-ed worker and
// prints the violations it reports. Exit 1 if the recorded (clause,key) shows up again.
func replayMain(file string) {
	raw, err := os.ReadFile(file)
	if err != nil {
		report.Fatal("cannot read replay %s: %v", file, err)
	}
	var r struct {
		Clause, Key string
		Replay      struct {
			Case string `json:"case"`
			Next string `json:"next_case"`
		} `json:"replay"`
	}
	if json.Unmarshal(raw, &r) != nil || (r.Replay.Case == "" && !strings.Contains(string(raw), `"history"`)) {
		report.Fatal("replay %s: no case label", file)
	}
	os.Setenv("C12_ONLY_NEXT", r.Replay.Next)
	if strings.Contains(string(raw), `"history"`) {
		os.Setenv("C12_WORKER_MODE", "history")
	}
	cmd := exec.Command("bash", "-c", `ulimit -v 3000000; exec "$0"`, os.Args[0])
	cmd.Env = append(os.Environ(), "C12_WORKER=0/1", "C12_ONLY="+r.Replay.Case, "C12_DEADLINE=9999999999")
	if os.Getenv("C12_WORKER_MODE") == "history" {
		cmd.Env = append(os.Environ(), "C12_WORKER=history/1", "GOMAXPROCS=1")
	}
	outb, _ := cmd.Output()
	again, seen := false, map[string]bool{}
	for _, line := range strings.Split(string(outb), "\n") {
		var m msg
		if json.Unmarshal([]byte(line), &m) != nil || m.T != "viol" || seen[m.Clause+m.Key] {
			continue
		}
		seen[m.Clause+m.Key] = true
		fmt.Printf("REPLAY clause=%s key=%q :: %s\n", m.Clause, m.Key, m.Detail)
		if m.Clause == r.Clause && m.Key == r.Key {
			again = true
		}
	}
	if again {
		fmt.Printf("REPLAY-RESULT reproduced clause=%s key=%q\n", r.Clause, r.Key)
		os.Exit(1)
	}
	fmt.Printf("REPLAY-RESULT not reproduced (clause=%s key=%q)\n", r.Clause, r.Key)
	os.Exit(0)
}

// ---------------------------------------------------------------------------------------------
// parent

type pend struct {
	idx int
	v   report.Violation
}

func main() {
	if os.Getenv("C12_WORKER") != "" {
		childMain()
		return
	}
	for i, a := range os.Args {
		if a == "--replay" && i+1 < len(os.Args) {
			replayMain(os.Args[i+1])
		}
	}
	rep := report.New("C12", "exploration")
	thorough := rep.Thorough()
	budget := 80 * time.Second
	if thorough {
		budget = 25 * time.Minute
	}
	if v, err := strconv.Atoi(os.Getenv("VERIF_BUDGET_S")); err == nil && v > 0 {
		budget = time.Duration(v) * time.Second // development aid: shorter/longer cap
	}
	deadline := time.Now().Add(budget)
	s := buildSpace(thorough)
	W := enum.Workers()
	if W > len(s.cases) {
		W = len(s.cases)
	}

	var mu sync.Mutex
	pending := map[string]*pend{}
	stat := map[string]int64{}
	sets := map[string]map[string]bool{}
	var samples report.Samples
	samples.N = 10
	type death struct {
		Case string `json:"case"`
		Bit  int    `json:"bit_number"`
		Why  string `json:"how"`
	}
	var deaths []death
	nDeaths := 0
	capped := false
	var broken []string

	runShard := func(shard int) {
		resume, careful := "", ""
		restarts := 0
		for {
			cmd := exec.Command("bash", "-c", `ulimit -v 3000000; exec "$0"`, os.Args[0])
			worker := fmt.Sprintf("%d/%d", shard, W)
			if shard < 0 {
				worker = "history/1"
			}
			cmd.Env = append(os.Environ(), "C12_WORKER="+worker, "C12_RESUME="+resume, "C12_CAREFUL="+careful,
				fmt.Sprintf("C12_DEADLINE=%d", deadline.Unix()), "GOMAXPROCS=1", "GOGC=300", "GOMEMLIMIT=600MiB") // single-threaded workers; decoding allocates a lot of short-lived garbage
			var stderr bytes.Buffer
			cmd.Stderr = &stderr
			pipe, err := cmd.StdoutPipe()
			if err != nil || cmd.Start() != nil {
				mu.Lock()
				broken = append(broken, fmt.Sprintf("shard %d: cannot start worker", shard))
				mu.Unlock()
				return
			}
			cur, lastBit, done := -1, -1, false
			sc := bufio.NewScanner(pipe)
			sc.Buffer(make([]byte, 1<<20), 1<<26)
			for sc.Scan() {
				var m msg
				if json.Unmarshal(sc.Bytes(), &m) != nil {
					continue
				}
				switch m.T {
				case "case":
					cur, lastBit = m.I, -1
				case "bit":
					lastBit = m.B
				case "done":
					done = true
					if m.Capped {
						mu.Lock()
						capped = true
						mu.Unlock()
					}
				case "sample":
					samples.Offer(m.S)
				case "viol":
					mu.Lock()
					k := m.Clause + "|" + m.Key
					if p, ok := pending[k]; !ok || m.I < p.idx {
						pending[k] = &pend{m.I, report.Violation{Clause: m.Clause, Key: m.Key, Detail: m.Detail, Replay: m.Replay}}
					}
					stat["violating_observations"]++
					mu.Unlock()
				case "stat":
					mu.Lock()
					for k, v := range m.Stat {
						stat[k] += v
					}
					for k, l := range m.Sets {
						if sets[k] == nil {
							sets[k] = map[string]bool{}
						}
						for _, v := range l {
							sets[k][v] = true
						}
					}
					mu.Unlock()
				}
			}
			cmd.Wait()
			if done {
				return
			}
			// the worker died
			restarts++
			how := "killed"
			es := stderr.String()
			for _, l := range strings.Split(es, "\n") {
				if strings.HasPrefix(l, "fatal error:") || strings.HasPrefix(l, "runtime:") || strings.HasPrefix(l, "panic:") {
					how = l
					break
				}
			}
			if cur < 0 || restarts > 2000 {
				mu.Lock()
				broken = append(broken, fmt.Sprintf("shard %d: worker died before its first case or too many restarts: %s", shard, how))
				mu.Unlock()
				return
			}
			if careful != strconv.Itoa(cur) {
				resume, careful = fmt.Sprintf("%d:0", cur), strconv.Itoa(cur)
				continue
			}
			mu.Lock()
			nDeaths++
			if len(deaths) < 12 {
				deaths = append(deaths, death{s.cases[cur].label, lastBit, how})
			}
			mu.Unlock()
			resume = fmt.Sprintf("%d:%d", cur, lastBit+1)
		}
	}
	var wg sync.WaitGroup
	for sh := -1; sh < W; sh++ { // -1: the signer-history pass
		wg.Add(1)
		go func(sh int) { defer wg.Done(); runShard(sh) }(sh)
	}
	wg.Wait()
	if len(broken) > 0 {
		report.Fatal("C12 worker failure: %s", strings.Join(broken, "; "))
	}
	keys := make([]string, 0, len(pending))
	for k := range pending {
		keys = append(keys, k)
	}
	sort.Strings(keys)
	for _, k := range keys {
		rep.Add(pending[k].v)
	}
	setsOut := map[string][]string{}
	for k, m := range sets {
		for v := range m {
			setsOut[k] = append(setsOut[k], v)
		}
		sort.Strings(setsOut[k])
	}
	var signerNames []string
	for _, sg := range pktgen.Signers() {
		signerNames = append(signerNames, sg.Name)
	}
	cov := report.Coverage{
		"evaluations":         stat["decodes"],
		"distinct_nontrivial": stat["nontrivial_cases"],
		"rule":                "enumerated cases (pairwise different descriptions) for which the real API built a packet that carries a signature computed by a shipped signer and/or application parameters with a digest, whose contiguous decode succeeded and whose covered bytes / digest were then compared, segmented and tampered with",
		"samples":             samples.List(),
		"exhaustive":          !capped && stat["ecdsa_length_class_cases_capped_longest_class_not_seen"] == 0,
		"cases_enumerated":    len(s.cases),
		"counters":            stat,
		"observed":            setsOut,
		"signers":             signerNames,
		"signer_modes_refused_by_the_api_for_a_whole_base": s.refused,
		"tamper_worker_deaths":                             nDeaths,
		"tamper_worker_death_examples":                     deaths,
		"bounds": map[string]any{
			"shapes":               "bases {Interest all-optional-fields, Interest minimal+parameters, Data plain, Data all-MetaInfo+content} x every signer mode, plus two unsigned Interests with parameters; quick tier: every <=1 deviation of the C03 generator (signer dimension excluded; name shapes with 4-8 zero-length components, present-but-empty parameters included) for the primary modes and the unsigned Interests, base shape + payload-size deviations (up to 253 bytes) for the other modes, base shapes for the key-material variants; thorough tier: every <=2 deviations for every mode",
			"primary_modes":        s.primary,
			"key_material":         fmt.Sprintf("besides the default keys: HMAC keys of %v bytes (around the SHA-256 digest and block sizes) for the Data and the Interest HMAC signer, a second ECDSA P-256 key and a second RSA-2048 key, each on the four base shapes (all clauses incl. every-bit tampering)", pktgen.HmacKeyLens),
			"ecdsa_length_classes": fmt.Sprintf("every ECDSA signer mode (P-224, P-256 x2 keys incl. cert/int modes, P-384, P-521) x the signed base shapes the API builds for it: built and signed until the longest DER signature of the curve (computed by the harness from X.690: 64/72/104/139 bytes) and the two next shorter lengths were seen, or %d builds; every build must succeed (a signature longer than the signer's own EstimateSize is a C12.accept violation), decode, cover and verify; crypto/rand-driven repetition (the signers hard-wire rand.Reader), not an enumeration; lengths under observed.ecdsa_signature_lengths_built_and_verified, a case that never saw the longest class is counted in ecdsa_length_class_cases_capped_longest_class_not_seen and makes the run non-exhaustive", lenClassTries),
			"outer_length_sweep":   "4 base shapes x every ECDSA mode x payload sizes putting the ESTIMATED outer length on 250..258 and 65533..65540; each case built until 3 different signature lengths were seen or 24 builds; cover+accept on every build (counters sweep_*)",
			"signer_histories":     "per signer family (sha256, hmac, ecdsa, rsa): every ordered pair of signing calls over all modes of the family (incl. key variants and the RSA-384 signers whose every signing call fails) x {Data, Interest}, with one signer object per mode and with a fresh object per call, plus every triple with one failing call first or in the middle; the packets of a sequence differ (call i has i extra name components); each built packet is kept as returned (Wire and SigCovered by reference) and checked (bytes, decode, cover, validator) right after signing, after every later call of the sequence and after the sequence; single-threaded, GC off inside a sequence",
			"context_reuse":        "one spec.PacketParsingContext per worker parses every signed packet (Init; Parse): its SigCovered must equal the signer's input, and the wire it returned for the previous packet must be unchanged and still verify after Init + Parse of the current packet",
			"delayed_verification": "each worker keeps ONE signer object per mode; the un-joined Wire of the previous packet a signer object signed is joined, decoded, compared with what the signer was handed and validated only after the same object signed the next packet; its Encoded*.SigCovered (kept by reference) must still hold the bytes the signer was handed; the packet before that one is re-read (bytes, SigCovered) after the second later packet",
			"segmentation":         "C12.cover: every 1-cut (packets >1200 B: cuts within 2 bytes of element offsets), every 2-cut for packets <=100 B (thorough, <=1 deviation: <=400 B) else all pairs of element offsets, every 3-cut for packets <=56 B (thorough, <=1 deviation: <=112 B) else outer-header-end + every pair of element offsets (quick tier, deviated shapes: pairs at most 3 offsets apart)",
			"entry_points":         "every decode goes through " + strings.Join(entryNames[:], "; ") + ". The engine is a real std/engine/basic.Engine on a harness face driven synchronously (root Interest handler; for Data a pending CanBePrefix Interest for the shortest name prefix not ending in an implicit-digest component, re-expressed when consumed); engine entry points are not applicable to Data without such a prefix and to names with a component over " + strconv.Itoa(engineMaxComp) + " bytes (counter cases_engine_entry_points_not_applicable). C12.cover/accept: every entry point from contiguous bytes and from every 1-cut (engine entry points on shapes other than the following: cuts within 1 byte of an element offset; base shapes, thorough: <=1-deviation shapes: also every pair of element offsets); sweep / length-class builds: every entry point from contiguous bytes",
			"tamper_decode_paths":  "reader forms: contiguous bytes, 2 segments cut (a) in the middle and (b) right before the ApplicationParameters (Interest) / SignatureInfo (Data) element. Every flipped packet of a base shape (thorough: of every <=1-deviation shape) goes through every entry point x every reader form (LpPacket with Fragment only: contiguous); flipped packets of the other shapes go through Spec.ReadInterest/ReadData x every reader form and spec.ReadPacket from contiguous bytes; accepted by any probe counts as accepted",
			"tamper_resize":        "for every packet with a validator: the signature value with one zero byte / its first byte / itself appended, and with its last / first byte removed, all enclosing TLV lengths adjusted (the title's 'verify iff untampered' beyond single-bit flips); must be rejected by the decoder or the validator, through every entry point",
			"digest_mismatch":      "every Interest with parameters that gets tampered: digest component replaced by 32 zero bytes / SHA-256 of the parameters value only / of the ApplicationParameters element only / of the empty string / the correct digest rotated / truncated to 31 and 16 bytes / extended to 33 bytes, and the parameters value extended by a zero byte / shortened at either end (all enclosing lengths adjusted): every entry point, from contiguous bytes and from 2 segments, must reject on decode",
			"tamper":               "every bit of the signed portion, SignatureValue element, ApplicationParameters element and digest component when these total <=700 bytes; above: every bit of the bytes within 4 of an element boundary and one bit of every 251st (thorough, sha256/hmac/unsigned: 7th) other byte; P-521 (verification ~1 ms): quick tier base shapes only with bits 0 and 7 of every byte, thorough tier <=1-deviation shapes with every bit",
		},
	}
	if n := stat["ecdsa_length_class_cases_capped_longest_class_not_seen"]; n > 0 {
		cov["cap_ecdsa_length_classes"] = fmt.Sprintf("%d ECDSA length-class cases never produced the longest signature of their curve in %d signings", n, lenClassTries)
	}
	if capped {
		cov["cap"] = fmt.Sprintf("time budget %s reached; cases are ordered by number of deviations", budget)
	}
	rep.Finish(cov, []string{
		"fixed test keys (ECDSA P-256/P-521, RSA-1024/2048, one HMAC key) embedded in harness/pktgen/keys_data.go",
		"ECDSA and the std/engine/basic Timer draw randomness/wall-clock the harness does not own; no verdict depends on it",
		"the independent walker locates the signed portion, SignatureValue, ApplicationParameters and digest component",
		"a decoder crash or worker death on a corrupted packet counts as 'decoding failed' for this property (C04 owns crashes)",
		"empty-test signer has no shipped validator: cover is checked, accept/tamper are not applicable",
	})
}
