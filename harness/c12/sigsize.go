package main

// Signature SIZE as a dimension (universes defined in harness/pktgen/ext_sigsize.go):
//
//   - the shipped RSA signer with keys generated at check time (cached under .build/sigsize-keys)
//     whose modulus, hence EstimateSize and signature, is 250..256 bytes (thorough: also 257, 384,
//     512): ordinary cases, every clause incl. every-bit tampering;
//   - a harness-defined signer that announces a shipped signature type, with EstimateSize 0..300
//     (Data: also 65530..65540) and a signature 0..3 bytes shorter, on the four base shapes: the
//     packet must be a well-formed TLV, decode through every entry point, the decoded signed portion
//     (contiguous, and from every cut at an element offset) must equal what the signer was asked to
//     sign, and the decoded signature value must be the one the signer returned (the "validator" of
//     these signers recomputes it from the decoded covered bytes). No tampering.
//
// (estimate, actual) pairs that no shipped signer family produces - a signature shorter than an
// estimate of 253+ - are built and their outcome is counted, never reported.

import (
	"fmt"

	enc "github.com/named-data/ndnd/std/encoding"
	"verif/harness/pktgen"
	"verif/mc/report"
)

func sizeBucket(est int) string {
	switch {
	case est == 0:
		return "estimate 0"
	case est < 250:
		return "estimate 1..249"
	case est <= 258:
		return fmt.Sprintf("estimate %d", est)
	case est <= pktgen.SizeGridMax:
		return "estimate 259..300"
	case est < 65530:
		return fmt.Sprintf("estimate %d", est)
	}
	return "estimate 65530..65540"
}

func sigSizeItems(thorough bool) []item {
	rsa, err := pktgen.SizedRSACases(thorough)
	if err != nil {
		report.Fatal("C12 signature-size universe: %v", err)
	}
	var out []item
	for _, c := range rsa {
		out = append(out, item{label: c.Label, d: c.Desc, depth: 0})
	}
	ntypes := 2
	if thorough {
		ntypes = len(pktgen.SizeTypes)
	}
	for _, c := range pktgen.SigSizeGrid(ntypes) {
		out = append(out, item{label: c.Label, d: c.Desc, depth: 0, sizeGrid: true, observeOnly: !c.Must})
	}
	return out
}

// observeSize builds a case whose (estimate, actual) pair no shipped signer produces and counts
// what the API does with it.
func observeSize(idx int, it item) {
	d := it.d
	b := pktgen.Build(&d)
	out := "built, well-formed, decodes"
	switch {
	case b.Panic != "":
		out = "packet API panics"
	case b.Err != nil:
		out = "refused: " + errClass(b.Err)
	default:
		if _, werr := pktgen.Walk(b.Bytes); werr != "" {
			out = "built, not a well-formed TLV"
		} else if o := decode(d.Interest, enc.NewBufferReader(b.Bytes)); !o.ok {
			out = "built, well-formed, does not decode"
		}
	}
	emit(msg{T: "stat", I: idx, Stat: map[string]int64{"signature_size_cases_only_observed": 1},
		Sets: map[string][]string{"signature_shorter_than_an_estimate_of_253+_(no_shipped_signer):outcomes": {kind(&d) + ": " + out}}})
}
