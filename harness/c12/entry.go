// Decode entry points. The property speaks of "decoding" a packet; the repository offers several
// ways in, each with its own post-parse checks, and applications / the forwarder use the generic
// ones, not the typed ones:
//
//	typed    Spec.ReadInterest / Spec.ReadData
//	packet   spec.ReadPacket (engine, forwarder link service, management thread, PIT-CS)
//	engine   the receive path of a real std/engine/basic.Engine (its face callback), fed the bare
//	         packet: the Interest handler / the Express callback receive the decoded packet and the
//	         covered wire
//	engine-lp the same receive path fed an NDNLPv2 frame (LpPacket{PitToken, IncomingFaceId,
//	         Fragment}) as a forwarder delivers packets to an application: outer ReadPacket, then
//	         ReadPacket of the fragment (one buffer or, for a segmented reader, several)
//	engine-lp0 an LpPacket that carries nothing but the Fragment
//
// Every clause that decodes (cover, accept, digest, tamper, resize) is evaluated through every
// entry point; "accepted by any entry point" is accepted.
package main

import (
	"fmt"
	"time"

	enc "github.com/named-data/ndnd/std/encoding"
	basic "github.com/named-data/ndnd/std/engine/basic"
	ndnlog "github.com/named-data/ndnd/std/log"
	"github.com/named-data/ndnd/std/ndn"
	spec "github.com/named-data/ndnd/std/ndn/spec_2022"
	"github.com/named-data/ndnd/std/security"
	"verif/harness/pktgen"
)

const (
	epTyped = iota
	epPacket
	epEngine
	epEngineLp
	epEngineLp0
	nEntry
)

var entryNames = [nEntry]string{
	"Spec.ReadInterest/ReadData",
	"spec.ReadPacket",
	"engine receive path (bare packet)",
	"engine receive path (LpPacket with PitToken, IncomingFaceId and Fragment)",
	"engine receive path (LpPacket with Fragment only)",
}

// entryWord is the short name used in violation keys.
var entryWord = [nEntry]string{"Spec.ReadInterest/ReadData", "spec.ReadPacket", "the engine receive path", "the engine receive path (LpPacket)", "the engine receive path (LpPacket)"}

// decodePacket: spec.ReadPacket, the packet must come out as the kind it was built as.
func decodePacket(interest bool, r enc.ParseReader) (o dec) {
	defer func() {
		if rc := recover(); rc != nil {
			o = dec{msg: "panic " + pktgen.PanicSite(rc)}
		}
	}()
	pkt, ctx, err := spec.ReadPacket(r)
	if err != nil {
		return dec{err: err}
	}
	switch {
	case pkt == nil || ctx == nil:
		return dec{msg: "error: no packet"}
	case interest && pkt.Interest != nil:
		return dec{ok: true, sig: pkt.Interest.Signature(), cov: ctx.Interest_context.SigCovered()}
	case !interest && pkt.Data != nil:
		return dec{ok: true, sig: pkt.Data.Signature(), cov: ctx.Data_context.SigCovered()}
	}
	return dec{msg: "error: decoded as another packet type"}
}

// ---------------------------------------------------------------------------------------------
// engine rig: one real basic.Engine per case on a face the harness drives synchronously

type rigFace struct {
	running bool
	onPkt   func(r enc.ParseReader) error
}

func (f *rigFace) Open() error             { f.running = true; return nil }
func (f *rigFace) Close() error            { f.running = false; return nil }
func (f *rigFace) Send(pkt enc.Wire) error { return nil }
func (f *rigFace) IsRunning() bool         { return f.running }
func (f *rigFace) IsLocal() bool           { return true }
func (f *rigFace) SetCallback(onPkt func(r enc.ParseReader) error, onError func(err error) error) {
	f.onPkt = onPkt
}

type engineRig struct {
	eng     *basic.Engine
	face    *rigFace
	prefix  enc.Name // Data: name prefix of the pending Interest (shortest usable prefix of the untampered name)
	pending bool     // a PIT entry for prefix is waiting
	usable  bool
	got     dec
	seen    bool
}

var rig *engineRig

// engineMaxComp: the engine's name tries render every name component as text with a loop that is
// quadratic in the component length (65535 bytes: seconds per packet); packets whose name has a
// longer component go through the typed and the ReadPacket entry points only.
const engineMaxComp = 1024

func init() { ndnlog.SetLevel(ndnlog.FatalLevel) }

// newRig starts an engine whose root handler records every Interest delivered; for Data cases a
// CanBePrefix Interest for the first name component is kept pending (re-expressed whenever a Data
// packet consumed it), so that every Data packet whose first component is intact is delivered.
func newRig(interest bool, name enc.Name) *engineRig {
	r := &engineRig{face: &rigFace{}}
	for _, c := range name {
		if len(c.Val) > engineMaxComp {
			return r
		}
	}
	defer func() {
		if rc := recover(); rc != nil {
			r.usable = false
		}
	}()
	r.eng = basic.NewEngine(r.face, pktgen.FixedTimer{}, security.NewSha256Signer(),
		func(enc.Name, enc.Wire, ndn.Signature) bool { return true })
	if r.eng == nil || r.eng.Start() != nil {
		return r
	}
	if interest {
		if r.eng.AttachHandler(enc.Name{}, func(a ndn.InterestHandlerArgs) {
			r.seen = true
			r.got = dec{ok: true, sig: a.Interest.Signature(), cov: a.SigCovered}
		}) != nil {
			return r
		}
		r.usable = true
		return r
	}
	if len(name) == 0 {
		return r // Express refuses an empty name: a Data packet with no name component cannot be solicited
	}
	// shortest prefix that does not end in an ImplicitSha256Digest component (Express would take
	// that component for the implicit digest of the Data and match on the hash of the packet)
	k := 1
	for k <= len(name) && name[k-1].Typ == enc.TypeImplicitSha256DigestComponent {
		k++
	}
	if k > len(name) {
		return r
	}
	r.prefix = append(enc.Name(nil), name[:k]...)
	r.usable = r.express()
	return r
}

func (r *engineRig) express() (ok bool) {
	defer func() {
		if rc := recover(); rc != nil {
			ok = false
		}
	}()
	life := 4 * time.Second
	err := r.eng.Express(&ndn.EncodedInterest{FinalName: r.prefix, Config: &ndn.InterestConfig{CanBePrefix: true, Lifetime: &life}},
		func(a ndn.ExpressCallbackArgs) {
			r.pending = false
			if a.Result == ndn.InterestResultData && a.Data != nil {
				r.seen = true
				r.got = dec{ok: true, sig: a.Data.Signature(), cov: a.SigCovered}
			}
		})
	r.pending = err == nil
	return err == nil
}

// feed hands one frame to the engine's face callback and returns what the application saw.
func (r *engineRig) feed(interest bool, rd enc.ParseReader) (o dec) {
	if !r.usable {
		return dec{msg: "engine: not usable for this packet"}
	}
	if !interest && !r.pending && !r.express() {
		return dec{msg: "engine: cannot express"}
	}
	r.seen, r.got = false, dec{}
	defer func() {
		if rc := recover(); rc != nil {
			o = dec{msg: "panic " + pktgen.PanicSite(rc)}
		}
	}()
	if err := r.face.onPkt(rd); err != nil {
		return dec{err: err}
	}
	if !r.seen {
		return dec{msg: "engine: packet not delivered to the application"}
	}
	return r.got
}

// lpHeader returns the bytes that precede the packet in an LpPacket frame carrying it as Fragment.
func lpHeader(n int, full bool) []byte {
	var fields []byte
	if full {
		fields = append(fields, 0x62, 4, 0xca, 0xfe, 0xf0, 0x0d) // PitToken
		fields = append(fields, 0xfd, 0x03, 0x2c, 2, 0x01, 0x07) // IncomingFaceId 263
	}
	frag := append(varNum(0x50), varNum(uint64(n))...)
	h := append(varNum(0x64), varNum(uint64(len(fields)+len(frag)+n))...)
	h = append(h, fields...)
	return append(h, frag...)
}

// reader builds the reader for bytes B cut at the given offsets (none: contiguous buffer).
func reader(B []byte, cuts []int) enc.ParseReader {
	if len(cuts) == 0 {
		return enc.NewBufferReader(B)
	}
	return enc.NewWireReader(segs(B, cuts...))
}

// decodeVia decodes packet bytes B through entry point ep; cuts are offsets inside B (for the
// LpPacket entry points they are shifted by the frame header, so that the cut falls at the same
// place of the packet and the Fragment the engine re-reads has several buffers).
func decodeVia(ep int, interest bool, B []byte, cuts []int) dec {
	switch ep {
	case epTyped:
		return decode(interest, reader(B, cuts))
	case epPacket:
		return decodePacket(interest, reader(B, cuts))
	case epEngine:
		return rig.feed(interest, reader(B, cuts))
	}
	h := lpHeader(len(B), ep == epEngineLp)
	frame := make([]byte, 0, len(h)+len(B))
	frame = append(append(frame, h...), B...)
	sh := make([]int, len(cuts))
	for i, c := range cuts {
		sh[i] = c + len(h)
	}
	return rig.feed(interest, reader(frame, sh))
}

// probe is one (entry point, reader form) pair; cut < 0: contiguous, else index into the case's
// tamper cuts.
type probe struct{ ep, cut int }

func (p probe) String(cuts []int) string {
	if p.cut < 0 {
		return "contiguous bytes"
	}
	return fmt.Sprintf("2 segments cut at %d", cuts[p.cut])
}

// tamperPlan lists the probes every flipped packet goes through, in order. full: every entry
// point x every reader form. Otherwise (deviated shapes; thorough: 2-deviation shapes): the typed entry point x
// every reader form and spec.ReadPacket from contiguous bytes.
func tamperPlan(full bool, ncuts int) []probe {
	var pl []probe
	for c := -1; c < ncuts; c++ {
		pl = append(pl, probe{epTyped, c})
	}
	if !full {
		return append(pl, probe{epPacket, -1})
	}
	for _, ep := range []int{epPacket, epEngineLp, epEngine} {
		for c := -1; c < ncuts; c++ {
			pl = append(pl, probe{ep, c})
		}
	}
	return append(pl, probe{epEngineLp0, -1})
}

// replaceElem returns packet bytes B with element t replaced by the full element bytes elem and the
// length fields of every enclosing element re-encoded (shortest form), so that the result is a
// well-formed TLV again.
func replaceElem(B []byte, t *pktgen.Node, elem []byte) []byte {
	cur, curBytes := t, elem
	for cur.Parent != nil {
		p := cur.Parent
		val := append([]byte(nil), B[p.VStart:cur.Start]...)
		val = append(val, curBytes...)
		val = append(val, B[cur.End:p.End]...)
		curBytes = append(append(varNum(p.Typ), varNum(uint64(len(val)))...), val...)
		cur = p
	}
	out := append([]byte(nil), B[:cur.Start]...)
	out = append(out, curBytes...)
	return append(out, B[cur.End:]...)
}

func tlv(typ uint64, val []byte) []byte {
	return append(append(varNum(typ), varNum(uint64(len(val)))...), val...)
}
