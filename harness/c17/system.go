package main

// explore.System for the management seam: one transition = one command Interest handed to the
// real management thread through the real internal face, then every status dataset requested and
// compared with the tables, then one Interest sent through every face.

import (
	"fmt"
	"runtime/debug"
	"sort"
	"strings"

	"github.com/named-data/ndnd/fw/defn"
	"github.com/named-data/ndnd/fw/dispatch"
	"github.com/named-data/ndnd/fw/face"
	"github.com/named-data/ndnd/fw/table"
	enc "github.com/named-data/ndnd/std/encoding"
	"github.com/named-data/ndnd/std/ndn"
	mgmt "github.com/named-data/ndnd/std/ndn/mgmt_2022"
	spec "github.com/named-data/ndnd/std/ndn/spec_2022"
	sec "github.com/named-data/ndnd/std/security"
	"github.com/named-data/ndnd/std/utils"
	"verif/mc/explore"
	"verif/mc/report"
	"verif/shim/vtime"
)

type inst struct {
	cfg   worldCfg
	w     *world
	model *model
	depth int
}

type sys struct {
	cfg   worldCfg
	alpha *alphabet
	ops   []explore.Op
	// pairsOnlyAtRoot: two-field deviations are offered only from the initial state (quick tier)
	pairsOnlyAtRoot bool
	opsNoPairs      []explore.Op
}

func newSys(cfg worldCfg, pairs, pairsOnlyAtRoot bool) *sys {
	s := &sys{cfg: cfg, alpha: buildAlphabet(cfg.allowLocalhop, pairs), pairsOnlyAtRoot: pairsOnlyAtRoot}
	single := buildAlphabet(cfg.allowLocalhop, false)
	for _, c := range s.alpha.list {
		op := explore.Op{Name: c.label, Dev: c.dev}
		s.ops = append(s.ops, op)
		if _, ok := single.byName[c.label]; ok {
			s.opsNoPairs = append(s.opsNoPairs, op)
		}
	}
	return s
}

func (s *sys) New() any {
	in := &inst{cfg: s.cfg, w: newWorld(s.cfg), model: newModel(s.cfg)}
	if t, d := diff(in.model.snapshot(), takeSnapshot()); len(t) > 0 {
		panic("HARNESS-BUG: initial model differs from the initial tables: " + d)
	}
	return in
}

func (s *sys) Ops(i any) []explore.Op {
	if s.pairsOnlyAtRoot && i.(*inst).depth > 0 {
		return s.opsNoPairs
	}
	return s.ops
}

func (s *sys) Apply(i any, op explore.Op) []report.Violation {
	in := i.(*inst)
	c, ok := s.alpha.byName[op.Name]
	if !ok {
		panic("HARNESS-BUG: unknown op " + op.Name)
	}
	in.depth++
	return in.step(c, false)
}

// Do replays a transition that was checked when it was first explored: same command, same model
// update, without the dataset sweep and the face probes (they only move counters).
func (s *sys) Do(i any, op explore.Op) {
	in := i.(*inst)
	in.depth++
	in.step(s.alpha.byName[op.Name], true)
}

// Canon: reference model + white-box shape of RIB and FIB + next face id. Counters (face
// counters, dataset versions, LP sequence numbers, nonces) are left out: they only ever flow into
// dataset fields that the oracle compares with the live counter, never into a decision.
func (s *sys) Canon(i any) string {
	in := i.(*inst)
	nodes, aux := table.VerifDumpFib(table.FibStrategyTable)
	return fmt.Sprintf("%s|%d|%v%v|%v|%d", in.model.snapshot().String(), in.model.nextFace, nodes, aux, table.VerifDumpRib(), face.VerifC17NextFaceID())
}

// ---- helpers ----

// repoFrame names where a panic happened: the innermost repository frame and, when that is a
// helper, the management module / face function it was called from.
func repoFrame() string {
	var frames []string
	for _, l := range strings.Split(string(debug.Stack()), "\n") {
		if strings.HasPrefix(l, "github.com/named-data/ndnd/") && !strings.Contains(l, "verifC17") && !strings.Contains(l, "VerifC17") {
			if i := strings.LastIndex(l, "("); i > 0 {
				l = l[:i]
			}
			frames = append(frames, strings.TrimPrefix(l, "github.com/named-data/ndnd/"))
		}
	}
	if len(frames) == 0 {
		return "?"
	}
	for _, f := range frames[1:] {
		if strings.Contains(f, "Module).") && !strings.HasSuffix(f, ".handleIncomingInterest") {
			if f != frames[0] {
				return frames[0] + " in " + f
			}
			break
		}
	}
	return frames[0]
}

// guard runs f and converts a panic into (message, innermost repository frame).
func guard(f func()) (msg, frame string) {
	defer func() {
		if r := recover(); r != nil {
			msg, frame = fmt.Sprint(r), repoFrame()
			if strings.HasPrefix(msg, "HARNESS-BUG") {
				panic(r)
			}
		}
	}()
	f()
	return
}

type outcome struct {
	kind   string // "200", "4xx", "other", "silent"
	code   uint64
	text   string
	params *mgmt.ControlArgs
	nData  int
}

func (o outcome) String() string {
	if o.kind == "silent" {
		return "no answer"
	}
	return fmt.Sprintf("status %d %q", o.code, o.text)
}

func readOutcome(replies []reply, name enc.Name) (outcome, string) {
	o := outcome{kind: "silent"}
	for _, r := range replies {
		if !r.isData {
			continue
		}
		o.nData++
		if !r.name.Equal(name) {
			return o, fmt.Sprintf("answer named %s does not carry the command name %s", r.name, name)
		}
		cr, err := mgmt.ParseControlResponse(enc.NewBufferReader(r.content), true)
		if err != nil || cr.Val == nil {
			return o, fmt.Sprintf("answer does not decode as a ControlResponse: %v", err)
		}
		if o.nData > 1 {
			continue
		}
		o.code, o.text, o.params = cr.Val.StatusCode, cr.Val.StatusText, cr.Val.Params
		switch {
		case o.code == 200:
			o.kind = "200"
		case o.code >= 400 && o.code <= 499:
			o.kind = "4xx"
		default:
			o.kind = "other"
		}
	}
	return o, ""
}

func (in *inst) adoptCreated() {
	for _, l := range face.FaceTable.GetAll() {
		ls, ok := l.(*face.NDNLPLinkService)
		if !ok || l.FaceID() == fInternal {
			continue
		}
		if _, mem := face.VerifC17IsMem(l); !mem {
			t := face.VerifC17Adopt(ls, mustURI(createdLocalURI))
			_ = t
		}
	}
}

func (in *inst) step(c *cmd, light bool) (v []report.Violation) {
	seen := map[string]bool{}
	bad := func(clause, key, detail string) {
		if seen[clause+key] {
			return
		}
		seen[clause+key] = true
		v = append(v, report.Violation{Clause: clause, Key: key, Detail: detail})
	}
	what := c.module + "/" + c.verb
	if c.rawName != "" {
		what = c.rawName
	}
	if c.prefix != "" && c.prefix != "/localhost/nfd" {
		what = c.prefix + " " + what
	}
	e := in.expect(c)
	name := c.name()
	wire := in.w.interest(name)

	var replies []reply
	var derr error
	if msg, frame := guard(func() { replies, derr = in.w.deliver(wire, c.inFace) }); msg != "" {
		bad("C17.alive", fmt.Sprintf("panic %s @ %s", msg, frame),
			fmt.Sprintf("the management thread panics (daemon crash) while handling %s [%s]: %s at %s", c.label, e.reasonOr(classNames[e.cl]), msg, frame))
		return
	}
	if derr != nil {
		panic("HARNESS-BUG: " + derr.Error())
	}
	if msg, frame := guard(in.adoptCreated); msg != "" {
		panic("HARNESS-BUG: adopt: " + msg + " @ " + frame)
	}
	after := takeSnapshot()

	unchanged := func(clause, key string) {
		if t, d := diff(in.model.snapshot(), after); len(t) > 0 {
			bad(clause, key+": "+strings.Join(t, ", ")+" changed", fmt.Sprintf("%s must not change anything, but: %s", c.label, d))
		}
	}

	switch e.cl {
	case clDataset:
		in.checkDataset(e.dataset, e.dsPrefix, e.filter, replies, after, bad, "", true)
		unchanged("C17.dataset", e.dataset+" request")
	case clIgnored:
		if e.dataset != "" && len(replies) > 0 {
			in.checkDataset(e.dataset, e.dsPrefix, nil, replies, after, bad, " (under "+e.dsPrefix+")", true)
		}
		unchanged("C17.reject", e.reason)
	default:
		o, perr := readOutcome(replies, name)
		if perr != "" {
			bad("C17.effect", what+": malformed answer", c.label+": "+perr)
		}
		accepted := o.kind == "200"
		switch e.cl {
		case clUnauth:
			unchanged("C17.auth", e.reason)
		case clUnsupported:
			if accepted {
				bad("C17.reject", e.reason+" answered 200", fmt.Sprintf("%s (%s) is answered %s", c.label, e.reason, o))
			}
			unchanged("C17.reject", e.reason)
		case clReject:
			if accepted {
				bad("C17.reject", what+": "+e.reason+": answered 200", fmt.Sprintf("%s must be refused with a 4xx status (%s) but is answered %s; tables now: %s", c.label, e.reason, o, after))
			} else {
				if o.kind != "4xx" {
					bad("C17.reject", what+": "+e.reason+": not answered with a 4xx status", fmt.Sprintf("%s must be refused with a 4xx status (%s) but gets %s", c.label, e.reason, o))
				}
				unchanged("C17.reject", what+": "+e.reason)
			}
		case clAccept, clMay:
			if e.cl == clAccept && !accepted {
				bad("C17.effect", what+": valid command not answered 200", fmt.Sprintf("%s is valid and must be carried out and answered 200, but gets %s", c.label, o))
			}
			if !accepted {
				unchanged("C17.reject", what+": refused command")
				break
			}
			affected := e.effect(in.model)
			in.model.syncFib(affected, after)
			if t, d := diff(in.model.snapshot(), after); len(t) > 0 {
				bad("C17.effect", what+": "+strings.Join(t, ", ")+" not as the parameters describe", fmt.Sprintf("%s answered 200 but the tables differ from what its parameters (with the documented defaults) describe: %s", c.label, d))
			}
			in.checkEcho(c, e, o, what, bad)
		}
	}
	if len(v) > 0 || light {
		return // a violating state is not expanded; datasets of a wrong state add nothing
	}

	in.sweep(c, after, bad)
	return
}

// sweep is what follows every transition that left the tables as the model says: all six status
// datasets are requested and compared with the tables, and every face is exercised.
func (in *inst) sweep(c *cmd, after snapshot, bad func(string, string, string)) {
	var derr error
	// every status dataset lists exactly the current table contents
	for _, ds := range datasetNames {
		n := append(append(enc.Name{}, nm("/localhost/nfd")...), nm("/"+ds)...)
		var rs []reply
		if msg, frame := guard(func() { rs, derr = in.w.deliver(in.w.interest(n), fApp2) }); msg != "" {
			bad("C17.alive", fmt.Sprintf("panic %s @ %s", msg, frame), fmt.Sprintf("the management thread panics while producing %s after %s: %s at %s", ds, c.label, msg, frame))
			return
		}
		if derr != nil {
			panic("HARNESS-BUG: " + derr.Error())
		}
		in.checkDataset(ds, "/localhost/nfd", nil, rs, after, bad, "", false)
	}
	if t, d := diff(after, takeSnapshot()); len(t) > 0 {
		bad("C17.dataset", "dataset requests change "+strings.Join(t, ", "), d)
	}

	// no face is left unusable: one Interest through every face (sendPacket, what runSend executes)
	in.exercise(c, bad)
}

func (e expectation) reasonOr(s string) string {
	if e.reason != "" {
		return e.reason
	}
	return s
}

func (in *inst) checkEcho(c *cmd, e expectation, o outcome, what string, bad func(string, string, string)) {
	if o.params == nil {
		return
	}
	p := o.params
	chk := func(f fieldID, got any, present bool) {
		want, ok := e.echo[f]
		if !ok || !present {
			return
		}
		if fmt.Sprint(want) != fmt.Sprint(got) {
			bad("C17.effect", what+": echoed "+fieldNames[f]+" differs from the effective value", fmt.Sprintf("%s answered 200 echoing %s=%v, the effective value is %v", c.label, fieldNames[f], got, want))
		}
	}
	deref := func(x *uint64) (uint64, bool) {
		if x == nil {
			return 0, false
		}
		return *x, true
	}
	if p.Name != nil {
		chk(fName, nameStr(p.Name), true)
	}
	x, ok := deref(p.FaceId)
	chk(fFaceId, x, ok)
	x, ok = deref(p.Origin)
	chk(fOrigin, x, ok)
	x, ok = deref(p.Cost)
	chk(fCost, x, ok)
	if c.module == "rib" {
		x, ok = deref(p.Flags)
		chk(fFlags, x, ok)
	}
	x, ok = deref(p.Capacity)
	chk(fCapacity, x, ok)
	x, ok = deref(p.ExpirationPeriod)
	chk(fExpiration, x, ok)
	x, ok = deref(p.Mtu)
	chk(fMtu, x, ok)
	if p.Strategy != nil {
		chk(fStrategy, nameStr(p.Strategy.Name), true)
	}
}

// ---- datasets ----

func segNo(c enc.Component) (uint64, bool) {
	if c.Typ != enc.TypeSegmentNameComponent {
		return 0, false
	}
	return c.NumberVal(), true
}

// reassemble concatenates the segments of one dataset version.
func reassemble(replies []reply, prefix enc.Name) ([]byte, string) {
	type seg struct {
		no uint64
		r  reply
	}
	var segs []seg
	var version *enc.Component
	for _, r := range replies {
		if !r.isData {
			continue
		}
		if !prefix.IsPrefix(r.name) || len(r.name) != len(prefix)+2 {
			return nil, fmt.Sprintf("Data named %s is not <request name>/<version>/<segment>", r.name)
		}
		ver, sg := r.name[len(prefix)], r.name[len(prefix)+1]
		no, ok := segNo(sg)
		if ver.Typ != enc.TypeVersionNameComponent || !ok {
			return nil, fmt.Sprintf("Data named %s is not <request name>/<version>/<segment>", r.name)
		}
		if version != nil && !version.Equal(ver) {
			return nil, "segments of different versions"
		}
		version = &ver
		segs = append(segs, seg{no, r})
	}
	if len(segs) == 0 {
		return nil, "no Data"
	}
	sort.Slice(segs, func(i, j int) bool { return segs[i].no < segs[j].no })
	var out []byte
	for i, s := range segs {
		if s.no != uint64(i) {
			return nil, fmt.Sprintf("segment %d missing", i)
		}
		out = append(out, s.r.content...)
	}
	last := segs[len(segs)-1]
	if last.r.final == nil {
		return nil, "last segment carries no FinalBlockId"
	}
	fb, err := enc.ReadComponent(enc.NewBufferReader(last.r.final))
	if err != nil {
		// FinalBlockID may hold the bare component value
		if n, ok := segNo(enc.Component{Typ: enc.TypeSegmentNameComponent, Val: last.r.final}); !ok || n != last.no {
			return nil, "FinalBlockId does not name the last segment"
		}
	} else if n, ok := segNo(fb); !ok || n != last.no {
		return nil, "FinalBlockId does not name the last segment"
	}
	return out, ""
}

func (in *inst) checkDataset(ds, prefix string, filter *queryFilter, replies []reply, snap snapshot, bad func(string, string, string), note string, counters bool) {
	fail := func(what, detail string) {
		bad("C17.dataset", ds+note+": "+what, fmt.Sprintf("dataset %s%s: %s", ds, note, detail))
	}
	req := append(append(enc.Name{}, nm(prefix)...), nm("/"+ds)...)
	if filter != nil {
		req = append(req, enc.NewBytesComponent(enc.TypeGenericNameComponent, filter.bytes))
	}
	body, problem := reassemble(replies, req)
	if problem != "" {
		fail("no well-formed dataset answer", problem)
		return
	}
	rd := enc.NewBufferReader(body)
	switch ds {
	case "rib/list":
		msg, err := mgmt.ParseRibStatus(rd, true)
		if err != nil {
			fail("does not decode", err.Error())
			return
		}
		got := map[string][]string{}
		for _, e := range msg.Entries {
			var rs []string
			for _, r := range e.Routes {
				rs = append(rs, ribRoute{face: r.FaceId, origin: r.Origin, cost: r.Cost, flags: r.Flags, exp: r.ExpirationPeriod}.String())
			}
			sort.Strings(rs)
			if _, dup := got[nameStr(e.Name)]; dup {
				fail("prefix listed twice", nameStr(e.Name))
			}
			got[nameStr(e.Name)] = rs
		}
		if fmt.Sprint(got) != fmt.Sprint(snap.rib) {
			fail("differs from the RIB", fmt.Sprintf("lists %v, the RIB holds %v", got, snap.rib))
		}
	case "fib/list":
		msg, err := mgmt.ParseFibStatus(rd, true)
		if err != nil {
			fail("does not decode", err.Error())
			return
		}
		got := map[string]string{}
		for _, e := range msg.Entries {
			h := map[uint64]uint64{}
			for _, r := range e.NextHopRecords {
				if _, dup := h[r.FaceId]; dup {
					fail("next hop listed twice", nameStr(e.Name))
				}
				h[r.FaceId] = r.Cost
			}
			if _, dup := got[nameStr(e.Name)]; dup {
				fail("prefix listed twice", nameStr(e.Name))
			}
			got[nameStr(e.Name)] = fibStr(h)
		}
		want := map[string]string{}
		for p, h := range snap.fib {
			want[p] = fibStr(h)
		}
		if fmt.Sprint(got) != fmt.Sprint(want) {
			fail("differs from the FIB", fmt.Sprintf("lists %v, the FIB holds %v", got, want))
		}
	case "strategy-choice/list":
		msg, err := mgmt.ParseStrategyChoiceMsg(rd, true)
		if err != nil {
			fail("does not decode", err.Error())
			return
		}
		got := map[string]string{}
		for _, e := range msg.StrategyChoices {
			s := "(none)"
			if e.Strategy != nil {
				s = e.Strategy.Name.String()
			}
			if _, dup := got[nameStr(e.Name)]; dup {
				fail("prefix listed twice", nameStr(e.Name))
			}
			got[nameStr(e.Name)] = s
		}
		if fmt.Sprint(got) != fmt.Sprint(snap.strat) {
			fail("differs from the strategy table", fmt.Sprintf("lists %v, the table holds %v", got, snap.strat))
		}
	case "cs/info":
		msg, err := mgmt.ParseCsInfoMsg(rd, true)
		if err != nil || msg.CsInfo == nil {
			fail("does not decode", fmt.Sprint(err))
			return
		}
		if msg.CsInfo.Capacity != uint64(snap.csCap) {
			fail("capacity differs", fmt.Sprintf("reports capacity %d, the configured capacity is %d", msg.CsInfo.Capacity, snap.csCap))
		}
		// the true number of cached packets is counted on the white-box dump of the store, not read
		// from the counter the dataset itself is built from
		if trueCs := len(table.VerifDumpPitCs(in.w.thread.VerifPitCs(), vtime.Now()).Cs); msg.CsInfo.NCsEntries != uint64(trueCs) {
			fail("entry count differs", fmt.Sprintf("reports %d entries, the store holds %d", msg.CsInfo.NCsEntries, trueCs))
		}
	case "status/general":
		msg, err := mgmt.ParseGeneralStatus(rd, true)
		if err != nil {
			fail("does not decode", err.Error())
			return
		}
		t := in.w.thread
		pcs := table.VerifDumpPitCs(t.VerifPitCs(), vtime.Now())
		want := fmt.Sprintf("version=%s start=%d now=%d fib=%d pit=%d cs=%d in=%d/%d out=%d/%d sat=%d/%d", nfdVersion,
			vtime.Epoch.UnixNano()/1e6, vtime.Now().UnixNano()/1e6, len(snap.fib), len(pcs.Pit), len(pcs.Cs),
			t.NInInterests, t.NInData, t.NOutInterests, t.NOutData, t.NSatisfiedInterests, t.NUnsatisfiedInterests)
		got := fmt.Sprintf("version=%s start=%d now=%d fib=%d pit=%d cs=%d in=%d/%d out=%d/%d sat=%d/%d", msg.NfdVersion,
			msg.StartTimestamp, msg.CurrentTimestamp, msg.NFibEntries, msg.NPitEntries, msg.NCsEntries,
			msg.NInInterests, msg.NInData, msg.NOutInterests, msg.NOutData, msg.NSatisfiedInterests, msg.NUnsatisfiedInterests)
		if got != want {
			fail("differs from the forwarder state", fmt.Sprintf("reports %s, the forwarder holds %s", got, want))
		}
	case "faces/list", "faces/query":
		msg, err := mgmt.ParseFaceStatusMsg(rd, true)
		if err != nil {
			fail("does not decode", err.Error())
			return
		}
		listed := map[uint64]bool{}
		for _, fs := range msg.Vals {
			if listed[fs.FaceId] {
				fail("face listed twice", fmt.Sprint(fs.FaceId))
			}
			listed[fs.FaceId] = true
			a, ok := snap.faces[fs.FaceId]
			if !ok {
				fail("lists a face that is not in the face table", fmt.Sprint(fs.FaceId))
				continue
			}
			flags := uint64(0)
			if a.localFields {
				flags |= 1
			}
			if a.congestion {
				flags |= 4
			}
			want := fmt.Sprintf("%s %s scope=%d pers=%d link=%d mtu=%d flags=%d", a.uri, a.local, a.scope, a.persist, a.link, a.mtu, flags)
			mtu := int64(-1)
			if fs.Mtu != nil {
				mtu = int64(*fs.Mtu)
			}
			got := fmt.Sprintf("%s %s scope=%d pers=%d link=%d mtu=%d flags=%d", fs.Uri, fs.LocalUri, fs.FaceScope, fs.FacePersistency, fs.LinkType, mtu, fs.Flags)
			if got != want {
				fail("face attributes differ from the face table", fmt.Sprintf("face %d listed as %s, the face table holds %s", fs.FaceId, got, want))
			}
			// the traffic counters are compared when the dataset is requested as an operation of its
			// own, not in the sweep after every command (a wrong counter would otherwise mark every
			// state as violating and stop the search at depth 1)
			l := face.FaceTable.Get(fs.FaceId)
			if l == nil || !counters {
				continue
			}
			for _, ctr := range []struct {
				n         string
				got, want uint64
			}{
				{"NInInterests", fs.NInInterests, l.NInInterests()}, {"NInData", fs.NInData, l.NInData()},
				{"NOutInterests", fs.NOutInterests, l.NOutInterests()}, {"NOutData", fs.NOutData, l.NOutData()},
				{"NInBytes", fs.NInBytes, l.NInBytes()}, {"NOutBytes", fs.NOutBytes, l.NOutBytes()},
			} {
				if ctr.got != ctr.want {
					fail("counter "+ctr.n+" differs from the face's counter", fmt.Sprintf("face %d: %s listed as %d, the face counts %d", fs.FaceId, ctr.n, ctr.got, ctr.want))
				}
			}
		}
		for id, a := range snap.faces {
			should := filter == nil || filter.match(a)
			if should && !listed[id] {
				fail("omits a face", fmt.Sprintf("face %d (%s) is in the face table%s but not listed", id, a.uri, map[bool]string{true: " and matches the filter", false: ""}[filter != nil]))
			}
			if !should && listed[id] {
				fail("lists a face that does not match the filter", fmt.Sprintf("face %d (%s) does not match %s", id, a.uri, filter.label))
			}
		}
	}
}

// ---- liveness of the forwarding pipeline under the configured strategy choices ----

// strategyProbe passes one fresh Interest under every prefix that currently has a strategy choice
// through the real forwarding thread's Interest pipeline, the way a packet from the second
// application face gets there: whatever strategy name management accepted and stored, forwarding a
// packet under that prefix must not crash the daemon (the forwarding threads have no recover).
// What the pipeline sends is dropped; the PIT entry it leaves is visible only through the entry
// counts, which the dataset oracle reads from the thread itself.
func (in *inst) strategyProbe(c *cmd, bad func(string, string, string)) {
	type sc struct{ name, strategy enc.Name }
	var all []sc
	for _, e := range table.FibStrategyTable.GetAllForwardingStrategies() {
		all = append(all, sc{e.Name(), e.GetStrategy()})
	}
	sort.Slice(all, func(i, j int) bool { return all[i].name.Compare(all[j].name) < 0 })
	for _, e := range all {
		in.w.seq++
		name := append(e.name.Clone(), enc.NewStringComponent(enc.TypeGenericNameComponent, fmt.Sprintf("c17-strategy-probe-%d", in.w.seq)))
		ei, err := spec.Spec{}.MakeInterest(name, &ndn.InterestConfig{Nonce: utils.IdPtr(uint64(0x51000000 + in.w.seq)), Lifetime: utils.IdPtr(4 * vtime.Second)}, nil, nil)
		if err != nil {
			panic("HARNESS-BUG: strategy probe: " + err.Error())
		}
		wire := ei.Wire.Join()
		l3, _, err := spec.ReadPacket(enc.NewBufferReader(wire))
		if err != nil || l3.Interest == nil {
			panic("HARNESS-BUG: strategy probe does not decode")
		}
		p := &defn.Pkt{Name: l3.Interest.NameV, L3: l3, Raw: wire, IncomingFaceID: utils.IdPtr(fApp2)}
		msg, frame := guard(func() { in.w.thread.VerifInterest(p) })
		for _, l := range face.FaceTable.GetAll() {
			if ls, ok := l.(*face.NDNLPLinkService); ok {
				face.VerifC17DropQueued(ls)
			}
		}
		if msg != "" {
			bad("C17.alive", fmt.Sprintf("daemon crash: forwarding under a prefix with an accepted strategy choice panics @ %s", frame),
				fmt.Sprintf("after %s, the strategy choice table holds %s -> %s; one Interest for %s arriving on face %d panics in the forwarding thread (no recover: the daemon dies): %s at %s", c.label, e.name, e.strategy, name, fApp2, msg, frame))
		}
	}
}

// ---- liveness of the faces ----

func (in *inst) exercise(c *cmd, bad func(string, string, string)) {
	in.strategyProbe(c, bad)
	// probe 1: a minimal Interest with a forwarder PIT token and a congestion mark: must be emitted
	probe := in.w.interest(nm("/p"))
	// probe 2: a Data packet whose outgoing LP header is as large as NDNLP allows (32-byte PIT
	// token, which a downstream chooses, plus a congestion mark): must not crash the send path
	// (whether a face with a tiny MTU can carry it is the face's business)
	d, err := spec.Spec{}.MakeData(nm("/c17/probe/data"), &ndn.DataConfig{ContentType: utils.IdPtr(ndn.ContentTypeBlob), Freshness: utils.IdPtr(vtime.Second)},
		enc.Wire{[]byte("forty bytes of content for the probe data")}, sec.NewSha256Signer())
	if err != nil {
		panic("HARNESS-BUG: probe data: " + err.Error())
	}
	dataWire := d.Wire.Join()
	longTok := make([]byte, 32)
	for i := range longTok {
		longTok[i] = byte(0xa0 + i)
	}
	ids := []uint64{}
	for _, l := range face.FaceTable.GetAll() {
		ids = append(ids, l.FaceID())
	}
	sort.Slice(ids, func(i, j int) bool { return ids[i] < ids[j] })
	for _, id := range ids {
		l := face.FaceTable.Get(id)
		ls, ok := l.(*face.NDNLPLinkService)
		t, mem := face.VerifC17IsMem(l)
		if !ok || !mem {
			continue
		}
		frag := map[bool]string{true: "on", false: "off"}[ls.Options().IsFragmentationEnabled]
		t.VerifTake()
		pkt, _, err := spec.ReadPacket(enc.NewBufferReader(probe))
		if err != nil {
			panic("HARNESS-BUG: probe")
		}
		tok := []byte{0, 0, 0, 0, 0, 1}
		p := &defn.Pkt{Name: pkt.Interest.NameV, L3: pkt, Raw: probe, PitToken: tok, CongestionMark: utils.IdPtr(uint64(1)), IncomingFaceID: utils.IdPtr(fApp2)}
		if msg, frame := guard(func() { face.VerifC17Send(ls, dispatch.OutPkt{Pkt: p, PitToken: tok, InFace: utils.IdPtr(fApp2)}) }); msg != "" {
			bad("C17.alive", fmt.Sprintf("face unusable: panic @ %s", frame),
				fmt.Sprintf("after %s, sending one %d-byte Interest through face %d (MTU %d, fragmentation %s) panics in the face's send path: %s at %s", c.label, len(probe), id, l.MTU(), frag, msg, frame))
			continue
		}
		frames := t.VerifTake()
		for _, fr := range frames {
			if len(fr) > l.MTU() {
				bad("C17.alive", "face unusable: frame over the MTU", fmt.Sprintf("after %s, face %d (MTU %d, fragmentation %s) emits a %d-byte frame for a %d-byte Interest; a transport drops it", c.label, id, l.MTU(), frag, len(fr), len(probe)))
			}
		}
		if len(frames) == 0 {
			bad("C17.alive", "face unusable: nothing sent", fmt.Sprintf("after %s, face %d (MTU %d, fragmentation %s) emits no frame for a %d-byte Interest", c.label, id, l.MTU(), frag, len(probe)))
			continue
		}
		dp, _, err := spec.ReadPacket(enc.NewBufferReader(dataWire))
		if err != nil || dp.Data == nil {
			panic("HARNESS-BUG: probe data")
		}
		q := &defn.Pkt{Name: dp.Data.NameV, L3: dp, Raw: dataWire, PitToken: tok, CongestionMark: utils.IdPtr(uint64(1)), IncomingFaceID: utils.IdPtr(fApp2)}
		if msg, frame := guard(func() { face.VerifC17Send(ls, dispatch.OutPkt{Pkt: q, PitToken: longTok, InFace: utils.IdPtr(fApp2)}) }); msg != "" {
			bad("C17.alive", fmt.Sprintf("daemon crash on a packet with the largest LP header: panic @ %s", frame),
				fmt.Sprintf("after %s (answered 200), sending one %d-byte Data with a 32-byte PIT token and a congestion mark through face %d (MTU %d, fragmentation %s) panics in the face's send path (the face's send goroutine has no recover: the daemon dies; the token is chosen by the downstream): %s at %s", c.label, len(dataWire), id, l.MTU(), frag, msg, frame))
		}
		t.VerifTake()

		// probe 3: packets that need fragmentation at the face's current MTU (MTU+200 and 3*MTU
		// bytes, capped at the maximum packet size), sent the way the forwarder sends to this face
		// (incoming face id supplied: the link service attaches it when local fields are on). Every
		// emitted frame must fit the MTU (a transport drops larger ones) and the fragments must
		// reassemble to exactly the packet.
		for _, target := range []int{l.MTU() + 200, 3 * l.MTU()} {
			big := probeData(target)
			if len(big.wire) <= l.MTU() {
				continue
			}
			// header fields at their widest encoding (8-byte face id and congestion mark): small
			// numbers encode shorter than the reserve and would hide a reserve that is too small
			wide := uint64(1) << 40
			bp := &defn.Pkt{Name: big.l3.Data.NameV, L3: big.l3, Raw: big.wire, PitToken: tok, CongestionMark: utils.IdPtr(wide), IncomingFaceID: utils.IdPtr(wide)}
			if msg, frame := guard(func() { face.VerifC17Send(ls, dispatch.OutPkt{Pkt: bp, PitToken: tok, InFace: utils.IdPtr(wide)}) }); msg != "" {
				bad("C17.alive", fmt.Sprintf("face unusable: panic @ %s", frame),
					fmt.Sprintf("after %s, sending one %d-byte Data through face %d (MTU %d, fragmentation %s) panics in the face's send path: %s at %s", c.label, len(big.wire), id, l.MTU(), frag, msg, frame))
				break
			}
			frames := t.VerifTake()
			if len(frames) == 0 && !ls.Options().IsFragmentationEnabled {
				continue // over the MTU of a link without fragmentation: dropping is the specified behaviour
			}
			if kind, problem := checkFragments(frames, big.wire, l.MTU()); problem != "" {
				bad("C17.alive", "face unusable for packets that need fragmentation: "+kind,
					fmt.Sprintf("after %s, a %d-byte Data sent through face %d (MTU %d, fragmentation %s, local fields %v): %s", c.label, len(big.wire), id, l.MTU(), frag, ls.Options().IsIncomingFaceIndicationEnabled, problem))
				break
			}
		}
	}
}

type probePkt struct {
	wire []byte
	l3   *spec.Packet
}

var probeCache = map[int]probePkt{}

// probeData returns a Data packet of roughly `target` bytes (never above the maximum packet size).
func probeData(target int) probePkt {
	if target > defn.MaxNDNPacketSize {
		target = defn.MaxNDNPacketSize
	}
	n := target - 150
	if n < 1 {
		n = 1
	}
	if p, ok := probeCache[n]; ok {
		return p
	}
	content := make([]byte, n)
	for i := range content {
		content[i] = byte(i*7 + i>>8)
	}
	d, err := spec.Spec{}.MakeData(nm("/c17/probe/big"), &ndn.DataConfig{ContentType: utils.IdPtr(ndn.ContentTypeBlob), Freshness: utils.IdPtr(vtime.Second)},
		enc.Wire{content}, sec.NewSha256Signer())
	if err != nil {
		panic("HARNESS-BUG: big probe: " + err.Error())
	}
	w := d.Wire.Join()
	l3, _, err := spec.ReadPacket(enc.NewBufferReader(w))
	if err != nil || l3.Data == nil || len(w) > defn.MaxNDNPacketSize {
		panic("HARNESS-BUG: big probe does not decode or is too large")
	}
	p := probePkt{wire: w, l3: l3}
	probeCache[n] = p
	return p
}

// checkFragments decodes the emitted LP frames with the harness's own reassembly (order of
// emission, FragIndex/FragCount/Sequence consistency) and compares the result with the packet.
func checkFragments(frames [][]byte, want []byte, mtu int) (kind, detail string) {
	if len(frames) == 0 {
		return "nothing sent", "nothing sent"
	}
	var got []byte
	var base uint64
	for i, fr := range frames {
		if len(fr) > mtu {
			return "frame over the MTU", fmt.Sprintf("frame over the MTU (a transport drops it): frame %d of %d is %d bytes, the MTU is %d", i+1, len(frames), len(fr), mtu)
		}
		p, _, err := spec.ReadPacket(enc.NewBufferReader(fr))
		if err != nil || p.LpPacket == nil {
			return "undecodable frame", fmt.Sprintf("frame %d does not decode as an LpPacket: %v", i+1, err)
		}
		lp := p.LpPacket
		if len(frames) > 1 {
			if lp.Sequence == nil || lp.FragIndex == nil || lp.FragCount == nil {
				return "fragment fields missing", fmt.Sprintf("fragment %d lacks Sequence/FragIndex/FragCount", i+1)
			}
			if i == 0 {
				base = *lp.Sequence
			}
			if *lp.FragIndex != uint64(i) || *lp.FragCount != uint64(len(frames)) || *lp.Sequence != base+uint64(i) {
				return "fragment fields inconsistent", fmt.Sprintf("fragment %d carries index %d count %d sequence %d (expected %d, %d, %d)", i+1, *lp.FragIndex, *lp.FragCount, *lp.Sequence, i, len(frames), base+uint64(i))
			}
		}
		got = append(got, lp.Fragment.Join()...)
	}
	if string(got) != string(want) {
		return "fragments do not reassemble to the packet", fmt.Sprintf("fragments reassemble to %d bytes that differ from the %d-byte packet", len(got), len(want))
	}
	return "", ""
}
