//go:build verif

// White-box access for the C17 check (management commands). Added to package mgmt through the
// build overlay of the C17 harness only; never part of a normal build.
//
// The management thread is driven synchronously, with NO copy of its code in this file: the C17
// harness generates a second file for this package (verif_c17_gen.go) from the CURRENT source of
// Thread.Run() by splitting its body at the receive loop:
//
//	verifC17GenPrologue = the statements of Run() before the `for` loop, verbatim
//	verifC17GenLoop     = the `for` loop (and whatever follows it), verbatim
//
// VerifC17Step makes the loop terminate after the frames that are already queued: it closes the
// internal transport's receive queue first, so that the real InternalTransport.Receive() returns
// "face quit" once the queue is drained and the real loop takes its own `break`; then a fresh
// receive queue is installed for the next step. No goroutine is involved.
package mgmt

import (
	"github.com/named-data/ndnd/fw/face"
)

var (
	verifC17Prologue func(m *Thread)
	verifC17Loop     func(m *Thread)
)

// VerifC17Generated reports whether the generated half of the hook is linked in.
func VerifC17Generated() bool { return verifC17Prologue != nil && verifC17Loop != nil }

// VerifC17NewThread is `mgmt.Configure(); m := MakeMgmtThread()` followed by the part of Run()
// that precedes the receive loop (internal face registration, FIB entries for the management
// prefixes). allowLocalhop is what Configure() would read from the configuration file.
func VerifC17NewThread(allowLocalhop bool) *Thread {
	enableLocalhopManagement = allowLocalhop
	m := MakeMgmtThread()
	verifC17Prologue(m)
	return m
}

// VerifC17Transport returns the internal transport Run() registered.
func (m *Thread) VerifC17Transport() *face.InternalTransport { return m.transport }

// VerifC17Face returns the internal face Run() registered.
func (m *Thread) VerifC17Face() face.LinkService { return m.face }

// VerifC17Step runs the receive loop of Run() over the frames currently queued on the internal
// transport and returns when the loop has taken its "face quit" exit.
func (m *Thread) VerifC17Step() {
	t := m.transport
	t.VerifC17EndOfInput()
	defer t.VerifC17ReopenInput()
	verifC17Loop(m)
}
