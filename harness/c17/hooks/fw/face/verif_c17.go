//go:build verif

// White-box access for the C17 check (management commands). Added to package face through the
// build overlay of the C17 harness only; never part of a normal build. The C17 harness also lists
// fw/face under `-gostmt`, so every `go` statement of this package (link-service send/receive
// loops, the face-table expiration handler) becomes a queued task that the harness never runs:
// no goroutine of package face exists while the check runs.
package face

import (
	"strconv"

	defn "github.com/named-data/ndnd/fw/defn"
	"github.com/named-data/ndnd/fw/dispatch"
)

// VerifC17Reset empties the face table and the dispatch face map, rewinds the face-id counter and
// sets the package configuration Configure() would read from core.GetConfig().
func VerifC17Reset(queueSize int) {
	FaceTable.faces.Range(func(k, _ any) bool { FaceTable.faces.Delete(k); return true })
	FaceTable.nextFaceID.Store(1)
	dispatch.FaceDispatch.Range(func(k, _ any) bool { dispatch.FaceDispatch.Delete(k); return true })
	faceQueueSize = queueSize
	congestionMarking = false
	lockThreadsToCores = false
	UDPUnicastPort = 0 // faces/create picks an ephemeral local port (many workers run side by side)
	TCPUnicastPort = 0
}

// VerifC17NextFaceID is the id the next registered face will get.
func VerifC17NextFaceID() uint64 { return FaceTable.nextFaceID.Load() }

// VerifC17Transport is an in-memory implementation of the unexported transport interface: it
// records the frames handed to sendFrame and counts the bytes like the socket transports do.
type VerifC17Transport struct {
	transportBase
	frames [][]byte
}

// VerifC17MakeTransport makes an in-memory transport.
func VerifC17MakeTransport(remote, local *defn.URI, p Persistency, scope defn.Scope, lt defn.LinkType, mtu int) *VerifC17Transport {
	t := &VerifC17Transport{}
	t.makeTransportBase(remote, local, p, scope, lt, mtu)
	t.running.Store(true)
	return t
}

func (t *VerifC17Transport) String() string {
	return "VerifC17Transport, FaceID=" + strconv.FormatUint(t.faceID, 10)
}
func (t *VerifC17Transport) SetPersistency(p Persistency) bool { t.persistency = p; return true }
func (t *VerifC17Transport) GetSendQueueSize() uint64          { return 0 }
func (t *VerifC17Transport) sendFrame(frame []byte) {
	t.frames = append(t.frames, append([]byte{}, frame...))
	t.nOutBytes += uint64(len(frame))
}
func (t *VerifC17Transport) runReceive() {}
func (t *VerifC17Transport) Close()      { t.running.Store(false) }

// VerifTake returns and forgets the frames recorded so far.
func (t *VerifC17Transport) VerifTake() [][]byte {
	f := t.frames
	t.frames = nil
	return f
}

// VerifC17AddFace makes an NDNLP link service on the transport and registers it exactly as
// NDNLPLinkService.Run does (the two `go` statements of Run are inert under -gostmt).
func VerifC17AddFace(t *VerifC17Transport, options NDNLPLinkServiceOptions) *NDNLPLinkService {
	l := MakeNDNLPLinkService(t, options)
	l.Run(nil)
	return l
}

// VerifC17AddNullFace is what yanfd.go does at start-up.
func VerifC17AddNullFace() { MakeNullLinkService(MakeNullTransport()).Run(nil) }

// VerifC17Send is sendPacket (what runSend executes for every queued packet), synchronously.
func VerifC17Send(l *NDNLPLinkService, out dispatch.OutPkt) { sendPacket(l, out) }

// VerifC17Recv is handleIncomingFrame (what the transport's receive loop calls), synchronously.
func VerifC17Recv(l LinkService, frame []byte) { l.handleIncomingFrame(frame) }

// VerifC17Pump executes the body of runSend for every packet queued on the link service's send
// queue (by dispatch.Face.SendPacket) and returns how many there were.
func VerifC17Pump(l *NDNLPLinkService) (n int) {
	for {
		select {
		case pkt := <-l.sendQueue:
			sendPacket(l, pkt)
			n++
		default:
			return
		}
	}
}

// VerifC17Adopt replaces the transport of a face created by faces/create (a real socket) with an
// in-memory transport that has the same remote URI, scope, persistency, link type and MTU, and
// closes the socket. The local URI (an ephemeral port the kernel picked) is replaced by a fixed
// one. The link service, its options and its place in the face table stay as created.
func VerifC17Adopt(l *NDNLPLinkService, local *defn.URI) *VerifC17Transport {
	old := l.transport
	t := VerifC17MakeTransport(old.RemoteURI(), local, old.Persistency(), old.Scope(), old.LinkType(), old.MTU())
	t.faceID = old.FaceID()
	t.linkService = l
	old.Close()
	l.transport = t
	return t
}

// VerifC17IsMem reports whether the face runs on an in-memory transport.
func VerifC17IsMem(l LinkService) (*VerifC17Transport, bool) {
	t, ok := l.Transport().(*VerifC17Transport)
	return t, ok
}

// ---- internal transport ----

// VerifC17RecvLen is the number of frames waiting for the internal component (management).
func (t *InternalTransport) VerifC17RecvLen() int { return len(t.recvQueue) }

// VerifC17EndOfInput closes the queue read by Receive(): after the frames already queued,
// Receive() reports "face quit" instead of blocking.
func (t *InternalTransport) VerifC17EndOfInput() { close(t.recvQueue) }

// VerifC17ReopenInput installs a fresh, empty receive queue (nobody is reading the old one).
func (t *InternalTransport) VerifC17ReopenInput() { t.recvQueue = make(chan []byte, faceQueueSize) }

// VerifC17TakeSent removes and returns the LP frames the internal component has sent so far.
func (t *InternalTransport) VerifC17TakeSent() (out [][]byte) {
	for {
		select {
		case f := <-t.sendQueue:
			out = append(out, f)
		default:
			return
		}
	}
}

// VerifC17Inject is the body of InternalTransport.runReceive for one frame sent by the internal
// component: hand it to the internal face's link service.
func (t *InternalTransport) VerifC17Inject(frame []byte) {
	if len(frame) > defn.MaxNDNPacketSize {
		return
	}
	t.nInBytes += uint64(len(frame))
	t.linkService.handleIncomingFrame(frame)
}

// VerifC17DropQueued empties the send queue of a link service without sending anything (used after
// a forwarding-pipeline probe whose output is not part of the check).
func VerifC17DropQueued(l *NDNLPLinkService) (n int) {
	for {
		select {
		case <-l.sendQueue:
			n++
		default:
			return
		}
	}
}

// VerifC17RunReceive / VerifC17RunSend are the two loops NDNLPLinkService.Run starts with `go`
// (inert under -gostmt), unmodified. With a transport whose runReceive returns (the socket is
// closed) runReceive signals `stopped`, and runSend answers that by removing the face from the
// face table: the link-down teardown path of a face. The harness runs the first in a goroutine of
// its own and the second synchronously; the unbuffered `stopped` channel is the only coupling.
func VerifC17RunReceive(l *NDNLPLinkService) { l.runReceive() }
func VerifC17RunSend(l *NDNLPLinkService)    { l.runSend() }
