// C17: management commands are authorised, act as specified; bad ones are refused safely.
// Explicit-state search over command histories executed on the REAL management thread (all
// modules, dispatched by the real receive loop of Thread.Run()), real internal face, real face
// table with real NDNLP link services, real RIB / FIB / strategy table, compared after every
// command with the harness's own tables.
package main

import (
	"fmt"
	"os"
	"runtime/pprof"
	"strings"
	"time"

	fwmgmt "github.com/named-data/ndnd/fw/mgmt"
	"verif/mc/explore"
	"verif/mc/report"
)

// config names: "<seam> <fib> <localhop> <pairs>", e.g. "mgmt nametree localhop=off pairs=root"
func build(cfg string) explore.System {
	f := strings.Fields(cfg)
	if len(f) < 4 { // an optional fifth word only tells configurations with different bounds apart
		panic("bad config " + cfg)
	}
	wc := worldCfg{fibAlgo: f[1], allowLocalhop: f[2] == "localhop=on"}
	switch f[0] {
	case "mgmt":
		return newSys(wc, f[3] != "pairs=none", f[3] == "pairs=root")
	case "path":
		return newPathSys(wc)
	case "bulk":
		return newBulkSys(wc)
	case "multi":
		return newRoutesSys(wc, f[3])
	}
	panic("bad config " + cfg)
}

func main() {
	bootstrapStage2()
	if !fwmgmt.VerifC17Generated() {
		report.Fatal("the management step generated from Thread.Run() is not linked in")
	}
	if len(os.Args) > 1 && os.Args[1] == "--alphabet" {
		a := buildAlphabet(true, true)
		for _, c := range a.list {
			fmt.Println(c.label)
		}
		fmt.Println(len(a.list), "commands")
		return
	}
	if len(os.Args) > 1 && os.Args[1] == "--bench" {
		bench()
		return
	}
	explore.Main(explore.Spec{
		ID: "C17", PanicClause: "C17.alive", Build: build,
		Configs: func(th bool) []explore.Config {
			return only(allConfigs(th))
		},
		Budget: func(th bool) time.Duration {
			if th {
				return 24 * time.Minute
			}
			return 100 * time.Second
		},
		Rule:        "BFS over histories of management command Interests delivered through the real internal face to the real management thread (receive loop of Thread.Run() generated verbatim from the current source, all six modules); alphabet = odometer over module/verb x ControlParameters fields (every single-field departure over twelve fields, every two-field departure over the fields the verb reads), damaged parameter components, arrival prefixes, unknown modules/verbs, dataset requests; 'multi' configurations: macro-initial states that fill one RIB entry / FIB entry / the strategy table with k items in every order (odometer over words of faces and origins), then every removal path (unregister, faces/destroy, link down through the real link-service loops, remove-nexthop, unset) and in-place update; after every transition: answer status vs three-valued expectation, tables vs reference model, all six datasets vs tables, one Interest sent through every face",
		Assumptions: assumptions,
		Extra: func(rep *report.Reporter, cov report.Coverage) {
			a := buildAlphabet(true, true)
			cov["alphabet"] = map[string]any{
				"commands": len(a.list), "routine_commands": a.nRoutine, "one_field_departures": a.nSingles, "two_field_departures": a.nPairs,
				"damaged_parameter_components": a.nMalformed, "arrival_prefix_and_requester_variants": a.nPrefix,
				"unknown_or_odd_module_verb_names": a.nNames, "dataset_requests": a.nDatasets,
				"verbs": len(verbs), "fields": int(nFields),
				"mtu_domain": []string{"0", "1", "21", "22", "30", "63", "64", "72", "73", "84", "85", "127", "128", "1500", "8800", "8801", "2^63"},
			}
			mu := map[string]any{}
			for _, k := range []string{"rib2", "rib3", "rib4", "fib", "strategy"} {
				r := newRoutesSys(worldCfg{fibAlgo: "nametree"}, k)
				mu[k] = map[string]int{"macro_initial_states": len(r.setups), "operations_from_each": len(r.acts)}
			}
			cov["multiplicity_universes"] = mu
			cov["loopback_udp_available"] = loopbackOK()
			cov["management_step"] = "prologue and receive loop generated verbatim from the current Thread.Run() at check time (stage-2 build)"
		},
	})
}

// only narrows the configuration list to the names containing $VERIF_C17_ONLY (development aid;
// unset in every regular run).
func only(c []explore.Config) []explore.Config {
	f := os.Getenv("VERIF_C17_ONLY")
	if f == "" {
		return c
	}
	var out []explore.Config
	for _, x := range c {
		if strings.Contains(x.Name, f) {
			out = append(out, x)
		}
	}
	return out
}

func allConfigs(th bool) []explore.Config {
	{
		if !th {
			return []explore.Config{
				{Name: "mgmt hashtable localhop=on pairs=none", MaxDepth: 2, MaxDev: 1},
				{Name: "path nametree localhop=off -", MaxDepth: 2, MaxDev: -1},
				// large tables: the datasets must still list exactly the tables
				{Name: "bulk nametree localhop=off -", MaxDepth: 1, MaxDev: -1},
				{Name: "path nametree localhop=on -", MaxDepth: 2, MaxDev: -1},
				// entries holding several items, built in every order, then every removal path
				{Name: "multi nametree localhop=off rib3", MaxDepth: 2, MaxDev: -1},
				{Name: "multi hashtable localhop=off rib2", MaxDepth: 3, MaxDev: -1},
				{Name: "multi hashtable localhop=off fib", MaxDepth: 3, MaxDev: -1},
				{Name: "multi nametree localhop=off strategy", MaxDepth: 3, MaxDev: -1},
				// every history of routine commands, NOT de-duplicated on the canonical state: state a
				// defect adds behind the tables (an aliased slice, a cached value) is in no canonical
				// form, so the history that exposes it must not be pruned
				{Name: "history search (no dedup) routine commands, hashtable", BuildName: "mgmt hashtable localhop=on pairs=none", MaxDepth: 4, MaxDev: 0, NoDedup: true},
				{Name: "history search (no dedup) routine commands, nametree", BuildName: "mgmt nametree localhop=on pairs=none", MaxDepth: 4, MaxDev: 0, NoDedup: true},
				// the two largest configurations last: they get whatever the cheaper ones left of the budget
				{Name: "mgmt nametree localhop=off pairs=all", MaxDepth: 2, MaxDev: 1},
				{Name: "mgmt nametree localhop=on pairs=all", MaxDepth: 2, MaxDev: 1},
			}
		}
		var c []explore.Config
		fibs, lhs := []string{"nametree", "hashtable"}, []string{"localhop=off", "localhop=on"}
		each := func(f func(fib, lh string)) {
			for _, fib := range fibs {
				for _, lh := range lhs {
					f(fib, lh)
				}
			}
		}
		c = append(c, explore.Config{Name: "bulk nametree localhop=off -", MaxDepth: 1, MaxDev: -1})
		c = append(c, explore.Config{Name: "bulk hashtable localhop=off -", MaxDepth: 1, MaxDev: -1})
		// entries holding several items, built in every order, then every removal path
		for _, fib := range fibs {
			c = append(c, explore.Config{Name: "multi " + fib + " localhop=off rib4", MaxDepth: 3, MaxDev: -1})
			c = append(c, explore.Config{Name: "multi " + fib + " localhop=off rib2", MaxDepth: 4, MaxDev: -1})
			c = append(c, explore.Config{Name: "multi " + fib + " localhop=off fib", MaxDepth: 4, MaxDev: -1})
			c = append(c, explore.Config{Name: "multi " + fib + " localhop=off strategy", MaxDepth: 4, MaxDev: -1})
		}
		// cheap configurations first: the budget left over goes to the expensive ones
		each(func(fib, lh string) {
			c = append(c, explore.Config{Name: "path " + fib + " " + lh + " -", MaxDepth: 4, MaxDev: -1})
			// routine commands only, to depth 6
			c = append(c, explore.Config{Name: "mgmt " + fib + " " + lh + " pairs=none routine", MaxDepth: 6, MaxDev: 0})
		})
		each(func(fib, lh string) {
			// one unusual command (one- or two-field departure at the start, one-field later) anywhere in a three-command history
			c = append(c, explore.Config{Name: "mgmt " + fib + " " + lh + " pairs=root three-commands", MaxDepth: 3, MaxDev: 1})
		})
		each(func(fib, lh string) {
			// every two-command history over the whole alphabet
			c = append(c, explore.Config{Name: "mgmt " + fib + " " + lh + " pairs=all two-commands", MaxDepth: 2, MaxDev: 2})
		})
		// routine histories without de-duplication (hidden state behind the tables)
		c = append(c, explore.Config{Name: "history search (no dedup) routine commands, hashtable", BuildName: "mgmt hashtable localhop=on pairs=none", MaxDepth: 5, MaxDev: 0, NoDedup: true})
		c = append(c, explore.Config{Name: "history search (no dedup) routine commands, nametree", BuildName: "mgmt nametree localhop=on pairs=none", MaxDepth: 4, MaxDev: 0, NoDedup: true})
		// three-command histories with up to two one-field departures
		c = append(c, explore.Config{Name: "mgmt nametree localhop=on pairs=none three-commands-two-deviations", MaxDepth: 3, MaxDev: 2})
		return c
	}
}

func bench() {
	f, _ := os.Create("/tmp/c17-cpu.prof")
	pprof.StartCPUProfile(f)
	defer pprof.StopCPUProfile()
	s := newSys(worldCfg{fibAlgo: "nametree"}, false, false)
	t0 := time.Now()
	n := 0
	for k := 0; k < 3000; k++ {
		op := s.ops[k%300]
		in := s.New()
		s.Apply(in, op)
		n++
	}
	fmt.Printf("%d transitions, %v each\n", n, time.Since(t0)/time.Duration(n))
}

var assumptions = []string{
	"seam: frames reach management exactly as the forwarding thread's output does (dispatch.OutPkt -> NDNLPLinkService.sendPacket on the internal face -> InternalTransport queue -> Thread.Run()'s loop); the loop body and the statements before it are generated verbatim from the current fw/mgmt/thread.go (check stops with CHECK-ERROR if Run() changes shape)",
	"that only local faces can use /localhost is enforced in fw.Thread.processIncomingInterest (property C09); here the 'path' configurations additionally drive command Interests from local and non-local faces through one real forwarding thread and the real FIB to the internal face and check that only authorised arrivals change state",
	"with link-local management disabled Run() installs no FIB entry for /localhop/nfd; what the management thread does with a /localhop/nfd RIB command handed to it anyway is not asserted at the management seam (may), the entry-path configurations assert that no such command reaches it",
	"FIB entries below the prefix of a RIB command: a prefix with routes must hold the flattening of its routes; what a recomputation leaves at a prefix without routes is property C06's business",
	"decoding of answers and datasets uses the repository's generated decoders (properties C03/C13)",
	"faces/create is exercised with IP-literal URIs only; a created UDP face's socket is replaced by an in-memory transport (same MTU, scope, persistency) before it is probed; TCP face creation, DNS names and non-loopback remotes are not exercised",
	"out of the stated text and therefore three-valued (accept with the exact effect, or refuse without change): fields a verb does not define, route flags above 3, origins above 255, expiration periods beyond the duration range, capacities above 2^62, MTU 23..127 and above the maximum packet size, persistencies a transport may not support, commands naming the null or internal face, commands from a requester destroyed earlier in the history",
	"gigantic TLV lengths inside the parameter component are property C04's business (only truncations and off-by-one lengths are used here)",
	"equal canonical state (reference model + RIB tree shape + FIB private shape + next face id) implies equal futures; counters only flow into dataset fields compared with the live counters",
}
