// C17.dataset at scale: "each status dataset lists exactly the current table contents" also when the
// tables are large. One transition registers N routes under distinct names (each rib/register goes
// through the ordinary step: answered 200, model updated), then the ordinary dataset sweep compares
// all six datasets with the tables. N is chosen around the sizes at which a dataset stops fitting
// one packet: 100 routes (~3 kB), 258 (~8.2 kB, still one 8800-byte packet), 700 (~22 kB).
package main

import (
	"fmt"

	"verif/mc/explore"
	"verif/mc/report"
)

var bulkSizes = []int{100, 258, 700}

type bulkSys struct {
	*sys
	ops []explore.Op
}

func newBulkSys(cfg worldCfg) *bulkSys {
	b := &bulkSys{sys: newSys(cfg, false, false)}
	for _, n := range bulkSizes {
		b.ops = append(b.ops, explore.Op{Name: fmt.Sprintf("Bulk(%d x rib/register{Name=/bulk/<i>})", n)})
	}
	return b
}

func (b *bulkSys) Ops(any) []explore.Op { return b.ops }

func (b *bulkSys) bulk(in *inst, op explore.Op, light bool) (v []report.Violation) {
	var n int
	fmt.Sscanf(op.Name, "Bulk(%d", &n)
	vb := map[string]verbSpec{}
	for _, vs := range verbs {
		vb[vs.module+"/"+vs.verb] = vs
	}
	for i := 0; i < n; i++ {
		c := with(vb["rib/register"].baseCmd(), fName, strv(fmt.Sprintf("/bulk/%d", i)))
		c.dev = false
		c.label = c.mkLabel()
		last := i == n-1
		// every registration is checked (status, effect); the dataset sweep and the face probes run
		// once, after the last one
		vs := in.step(c, light || !last)
		for k := range vs {
			vs[k].Key = fmt.Sprintf("large tables, %d routes: %s", n, vs[k].Key)
			vs[k].Detail = fmt.Sprintf("[%d routes registered] %s", i+1, vs[k].Detail)
		}
		v = append(v, vs...)
		if len(vs) > 0 {
			return
		}
	}
	return
}

func (b *bulkSys) Apply(i any, op explore.Op) []report.Violation {
	in := i.(*inst)
	in.depth++
	return b.bulk(in, op, false)
}

func (b *bulkSys) Do(i any, op explore.Op) {
	in := i.(*inst)
	in.depth++
	b.bulk(in, op, true)
}
