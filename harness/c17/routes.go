// Multiplicity configurations: table entries that hold SEVERAL items, built in every order, then
// every way an item can leave the entry.
//
// The command alphabet of the other configurations reaches an entry with two routes of one face
// only through two departures from the routine commands plus a removal (three commands, two
// deviations): outside the quick bounds. Here the first transition of a history is a macro-initial
// state: a sequence of ordinary, accepted commands (each one checked: answered 200, tables as the
// model says) that fills ONE entry with k items in one particular order. The set of macro-initial
// states is an odometer over
//
//	rib:      every word of length 1..L over {T, O} with at least one T (T = the face that will go
//	          away, O = another face): the i-th route of a face is registered under the i-th origin
//	          of (0, 128, 255, 65), every route with a cost of its own (so the FIB cost tells which
//	          routes are left), x T in {requesting face (FaceId absent), face 4 (FaceId named)}
//	          x the child entry /a/b holding no route / one / two routes of T
//	fib:      every ordered selection of 1..3 of the faces {3, 4, 5} as next hops of /a
//	strategy: every ordered selection of 1..3 of the prefixes {/a, /a/b, /c}
//
// and from each of them every history of `depth` further operations over every removal path the
// forwarder has - rib/unregister of every (prefix, face, origin), present or not; faces/destroy
// of either face; the link of either face going down (transport closed: the link service's own
// receive and send loops run to their end, which removes the face from the face table);
// fib/remove-nexthop; strategy-choice/unset - plus the in-place updates (re-registration with
// another cost, add-nexthop with another cost, another strategy). Routes do not expire in this
// forwarder (ExpirationPeriod is stored and listed only), so expiry is not a removal path.
// After every transition: the ordinary oracle of step() (status, tables against the model, all
// six datasets against the tables, every face exercised).
package main

import (
	"fmt"
	"os"
	"strings"

	"github.com/named-data/ndnd/fw/face"
	"verif/mc/explore"
	"verif/mc/report"
)

type routesSys struct {
	*sys
	setups []explore.Op
	acts   []explore.Op
	seqs   map[string][]*cmd
	cmds   map[string]*cmd
	down   map[string]uint64
}

var ribOrigins = []uint64{0, 128, 255, 65}

// words returns every word of length 1..max over the letters, in odometer order.
func words(letters string, max int) []string {
	var out []string
	level := []string{""}
	for l := 1; l <= max; l++ {
		var next []string
		for _, w := range level {
			for _, c := range letters {
				next = append(next, w+string(c))
			}
		}
		out = append(out, next...)
		level = next
	}
	return out
}

// selections returns every ordered selection of 1..len(items) distinct items.
func selections(items []string) [][]string {
	var out [][]string
	var rec func(cur []string, used int)
	rec = func(cur []string, used int) {
		if len(cur) > 0 {
			out = append(out, append([]string{}, cur...))
		}
		for i, it := range items {
			if used&(1<<i) == 0 {
				rec(append(cur, it), used|1<<i)
			}
		}
	}
	rec(nil, 0)
	return out
}

func newRoutesSys(cfg worldCfg, kind string) *routesSys {
	r := &routesSys{sys: newSys(cfg, false, false), seqs: map[string][]*cmd{}, cmds: map[string]*cmd{}, down: map[string]uint64{}}
	vb := map[string]verbSpec{}
	for _, vs := range verbs {
		vb[vs.module+"/"+vs.verb] = vs
	}
	mk := func(key string, kv ...any) *cmd {
		c := with(vb[key].baseCmd(), kv...)
		c.dev = false
		c.label = c.mkLabel()
		return c
	}
	// naming a face: the requesting face is named by leaving FaceId out
	faceKV := func(f uint64) any {
		if f == fApp {
			return nil
		}
		return natv(f)
	}
	addSetup := func(name string, seq []*cmd) {
		if _, dup := r.seqs[name]; dup {
			return
		}
		r.seqs[name] = seq
		r.setups = append(r.setups, explore.Op{Name: name})
	}
	addAct := func(c *cmd) {
		if _, dup := r.cmds[c.label]; dup {
			return
		}
		r.cmds[c.label] = c
		r.acts = append(r.acts, explore.Op{Name: c.label})
	}
	addDown := func(f uint64) {
		n := fmt.Sprintf("LinkDown(face %d: transport closed, link service loops run to their end)", f)
		r.down[n] = f
		r.acts = append(r.acts, explore.Op{Name: n})
	}
	thorough := os.Getenv("VERIF_TIER") == "thorough"

	switch {
	case strings.HasPrefix(kind, "rib"):
		// "rib<L>": words up to length L
		maxWord := 3
		fmt.Sscanf(kind, "rib%d", &maxWord)
		other := fApp2
		for _, target := range []uint64{fApp, fUDP} {
			for _, w := range words("TO", maxWord) {
				if !strings.Contains(w, "T") {
					continue
				}
				// the child entry holds two routes of T only in the universes with longer words
				maxChild := 2
				if maxWord <= 2 {
					maxChild = 1
				}
				for child := 0; child <= maxChild; child++ {
					var seq []*cmd
					var desc []string
					nth := map[uint64]int{}
					for i, l := range w {
						f := target
						if l == 'O' {
							f = other
						}
						o := ribOrigins[nth[f]]
						nth[f]++
						kv := []any{fName, "/a", fFaceId, faceKV(f), fCost, natv(uint64(i + 1))}
						if o != 0 {
							kv = append(kv, fOrigin, natv(o))
						}
						seq = append(seq, mk("rib/register", kv...))
						desc = append(desc, fmt.Sprintf("f%d/o%d", f, o))
					}
					cdesc := ""
					for k := 0; k < child; k++ {
						kv := []any{fName, "/a/b", fFaceId, faceKV(target), fCost, natv(uint64(7 + k))}
						if k > 0 {
							kv = append(kv, fOrigin, natv(ribOrigins[k]))
						}
						seq = append(seq, mk("rib/register", kv...))
						cdesc += fmt.Sprintf(" /a/b<-f%d/o%d", target, ribOrigins[k])
					}
					addSetup(fmt.Sprintf("Setup(rib entry /a <- %s in this order;%s)", strings.Join(desc, ", "), cdesc), seq)
				}
			}
		}
		// unregistration is offered for every origin a macro-initial state can hold, and one it cannot
		origins := ribOrigins[:maxWord]
		if thorough || maxWord >= 4 {
			origins = ribOrigins
		}
		for _, p := range []string{"/a", "/a/b"} {
			for _, f := range []uint64{fApp, fUDP, other} {
				for _, o := range origins {
					kv := []any{fName, p, fFaceId, faceKV(f)}
					if o != 0 {
						kv = append(kv, fOrigin, natv(o))
					}
					addAct(mk("rib/unregister", kv...))
				}
			}
		}
		for _, f := range []uint64{fApp, fUDP, other} {
			addAct(mk("faces/destroy", fFaceId, natv(f)))
			addDown(f)
			// in-place updates of the first and of the second route of a face
			addAct(mk("rib/register", fName, "/a", fFaceId, faceKV(f), fCost, natv(9)))
			addAct(mk("rib/register", fName, "/a", fFaceId, faceKV(f), fOrigin, natv(128), fCost, natv(0), fFlags, natv(2)))
		}
	case kind == "fib":
		for _, sel := range selections([]string{"3", "4", "5"}) {
			var seq []*cmd
			for i, s := range sel {
				var f uint64
				fmt.Sscan(s, &f)
				seq = append(seq, mk("fib/add-nexthop", fName, "/a", fFaceId, faceKV(f), fCost, natv(uint64(i+1))))
			}
			addSetup(fmt.Sprintf("Setup(fib entry /a <- next hops %s in this order)", strings.Join(sel, ", ")), seq)
		}
		for _, f := range []uint64{fApp, fUDP, fApp2} {
			addAct(mk("fib/remove-nexthop", fName, "/a", fFaceId, faceKV(f)))
			addAct(mk("fib/add-nexthop", fName, "/a", fFaceId, faceKV(f), fCost, natv(9)))
		}
		addAct(mk("fib/remove-nexthop", fName, "/a/b", fFaceId, natv(fUDP)))
	case kind == "strategy":
		strategies := []string{strategyPrefix + "/multicast", strategyPrefix + "/best-route"}
		for _, sel := range selections([]string{"/a", "/a/b", "/c"}) {
			var seq []*cmd
			for i, p := range sel {
				seq = append(seq, mk("strategy-choice/set", fName, p, fStrategy, strategies[i%2]))
			}
			addSetup(fmt.Sprintf("Setup(strategy choices for %s in this order)", strings.Join(sel, ", ")), seq)
		}
		for _, p := range []string{"/a", "/a/b", "/c"} {
			addAct(mk("strategy-choice/unset", fName, p))
			addAct(mk("strategy-choice/set", fName, p, fStrategy, strategies[1]))
		}
	default:
		panic("bad multiplicity universe " + kind)
	}
	return r
}

func (r *routesSys) Ops(i any) []explore.Op {
	if i.(*inst).depth == 0 {
		return r.setups
	}
	return r.acts
}

func (r *routesSys) run(in *inst, op explore.Op, light bool) (v []report.Violation) {
	if seq, ok := r.seqs[op.Name]; ok {
		for i, c := range seq {
			last := i == len(seq)-1
			vs := in.step(c, light || !last)
			for k := range vs {
				vs[k].Detail = fmt.Sprintf("[command %d of %s] %s", i+1, op.Name, vs[k].Detail)
			}
			if len(vs) > 0 {
				return vs
			}
		}
		return nil
	}
	if c, ok := r.cmds[op.Name]; ok {
		return in.step(c, light)
	}
	if f, ok := r.down[op.Name]; ok {
		return in.linkDown(f, op.Name, light)
	}
	panic("HARNESS-BUG: unknown op " + op.Name)
}

func (r *routesSys) Apply(i any, op explore.Op) []report.Violation {
	in := i.(*inst)
	in.depth++
	return r.run(in, op, false)
}

func (r *routesSys) Do(i any, op explore.Op) {
	in := i.(*inst)
	in.depth++
	r.run(in, op, true)
}

// dropFace is what the disappearance of a face means for the reference tables: the face is gone
// and so is every route over it (property C06: "once a route or a face is removed no next hop
// derived from it remains anywhere").
func (m *model) dropFace(id uint64) {
	delete(m.faces, id)
	for p, rs := range m.rib {
		var keep []*mroute
		for _, r := range rs {
			if r.face != id {
				keep = append(keep, r)
			}
		}
		if len(keep) == 0 {
			delete(m.rib, p)
		} else {
			m.rib[p] = keep
		}
	}
}

// linkDown is the other way a face leaves the forwarder: its transport is closed, the link
// service's receive loop returns and its send loop removes the face (the real runReceive and
// runSend, see the hook). No command, hence no answer; the tables and every dataset afterwards
// must be those of a forwarder without the face and without its routes.
func (in *inst) linkDown(id uint64, label string, light bool) (v []report.Violation) {
	seen := map[string]bool{}
	bad := func(clause, key, detail string) {
		if seen[clause+key] {
			return
		}
		seen[clause+key] = true
		v = append(v, report.Violation{Clause: clause, Key: key, Detail: detail})
	}
	pseudo := &cmd{label: label, inFace: fApp}
	l := face.FaceTable.Get(id)
	if _, known := in.model.faces[id]; known != (l != nil) {
		panic("HARNESS-BUG: face table and model disagree about face " + fmt.Sprint(id))
	}
	if l != nil {
		ls, ok := l.(*face.NDNLPLinkService)
		t, mem := face.VerifC17IsMem(l)
		if !ok || !mem {
			panic("HARNESS-BUG: LinkDown of a face that is not an in-memory NDNLP face")
		}
		face.VerifC17DropQueued(ls)
		t.Close()
		go face.VerifC17RunReceive(ls)
		if msg, frame := guard(func() { face.VerifC17RunSend(ls) }); msg != "" {
			bad("C17.alive", fmt.Sprintf("panic %s @ %s", msg, frame), fmt.Sprintf("the face's send loop panics (daemon crash) while tearing the face down in %s: %s at %s", label, msg, frame))
			return
		}
		in.model.dropFace(id)
	}
	after := takeSnapshot()
	in.model.syncFib("/", after)
	if t, d := diff(in.model.snapshot(), after); len(t) > 0 {
		bad("C17.dataset", "link of a face went down: "+strings.Join(t, ", ")+" not those of a forwarder without the face and its routes",
			fmt.Sprintf("%s: the tables the datasets are produced from differ from the registered routes of the remaining faces: %s", label, d))
	}
	if len(v) > 0 || light {
		return
	}
	in.sweep(pseudo, after, bad)
	return
}
