package main

// The world: one real management thread (all six modules, registered by the real
// MakeMgmtThread), the real internal face, real NDNLP link services on in-memory transports in
// the real face table, the real RIB / FIB / strategy table / CS capacity, one real (not running)
// forwarding thread in the dispatch table. Everything process-global is reset by newWorld().

import (
	"fmt"
	"sort"
	"strings"
	"sync"

	"github.com/named-data/ndnd/fw/core"
	"github.com/named-data/ndnd/fw/defn"
	"github.com/named-data/ndnd/fw/dispatch"
	"github.com/named-data/ndnd/fw/face"
	"github.com/named-data/ndnd/fw/fw"
	fwmgmt "github.com/named-data/ndnd/fw/mgmt"
	"github.com/named-data/ndnd/fw/table"
	enc "github.com/named-data/ndnd/std/encoding"
	"github.com/named-data/ndnd/std/ndn"
	mgmt "github.com/named-data/ndnd/std/ndn/mgmt_2022"
	spec "github.com/named-data/ndnd/std/ndn/spec_2022"
	"github.com/named-data/ndnd/std/utils"
	"verif/shim/vrand"
	"verif/shim/vsched"
	"verif/shim/vtime"
)

// Face ids of a fresh world (the daemon's start-up order: null face, internal face, then faces).
const (
	fNull     uint64 = 1
	fInternal uint64 = 2
	fApp      uint64 = 3 // local application face (unix stream): the usual requester
	fUDP      uint64 = 4 // non-local unicast UDP face
	fApp2     uint64 = 5 // second local application face
	fGone     uint64 = 9 // never exists
)

const (
	appRemote  = "fd://7"
	appLocal   = "unix:///run/nfd/nfd.sock"
	udpRemote  = "udp4://192.0.2.1:6363"
	udpLocal   = "udp4://192.0.2.9:6363"
	app2Remote = "fd://8"
	nfdVersion = "verif-c17"
)

type worldCfg struct {
	fibAlgo       string // nametree | hashtable
	allowLocalhop bool
}

type world struct {
	cfg             worldCfg
	m               *fwmgmt.Thread
	thread          *fw.Thread
	itr             *face.InternalTransport
	ils             *face.NDNLPLinkService
	seq             uint32 // nonce / pit token counter
	oversizeDropped int    // frames of the management component beyond the maximum packet size
}

var logOnce sync.Once

var uriCache = map[string]*defn.URI{}

// mustURI parses a canonical face URI (cached: DecodeURIString compiles a regular expression per
// call; URI objects are not modified after canonisation).
func mustURI(s string) *defn.URI {
	if u, ok := uriCache[s]; ok {
		return u
	}
	defer func() { uriCache[s] = defn.DecodeURIString(s) }()
	u := defn.DecodeURIString(s)
	if u == nil || !u.IsCanonical() {
		panic("harness URI not canonical: " + s)
	}
	return u
}

func newWorld(cfg worldCfg) *world {
	vtime.Reset(false)
	vrand.Reset()
	vsched.Reset() // drops the inert tasks the `go` statements of package face queued
	core.ShouldQuit = false

	c := core.DefaultConfig()
	c.Core.LogLevel = "FATAL"
	c.Fw.Threads = 1
	c.Fw.QueueSize = 64
	c.Faces.QueueSize = 64
	c.Tables.QueueSize = 64
	c.Tables.Fib.Algorithm = cfg.fibAlgo
	c.Tables.Rib.ReadvertiseNlsr = false // the NLSR readvertiser is outside the property
	c.Mgmt.AllowLocalhop = cfg.allowLocalhop
	core.LoadConfig(c, "")
	logOnce.Do(func() { core.InitializeLogger("") })
	core.Version = nfdVersion
	core.StartTimestamp = vtime.Epoch

	table.VerifConfigure(1024, true, true, 6*vtime.Second)
	table.VerifSetProducerRegions(nil)
	table.VerifResetRib()
	table.CreateFIBTable(cfg.fibAlgo)

	face.VerifC17Reset(64)
	fw.VerifConfigure(64, 1)

	w := &world{cfg: cfg}
	// start-up order of yanfd.go: null face, management, forwarding threads, listeners/faces
	face.VerifC17AddNullFace()
	w.m = fwmgmt.VerifC17NewThread(cfg.allowLocalhop)
	w.itr = w.m.VerifC17Transport()
	w.ils = w.m.VerifC17Face().(*face.NDNLPLinkService)
	w.thread = fw.NewThread(0)
	fw.Threads = []*fw.Thread{w.thread}
	dispatch.InitializeFWThreads([]dispatch.FWThread{w.thread})

	add := func(remote, local string, p face.Persistency, scope defn.Scope, fragmentation bool) {
		t := face.VerifC17MakeTransport(mustURI(remote), mustURI(local), p, scope, defn.PointToPoint, defn.MaxNDNPacketSize)
		o := face.MakeNDNLPLinkServiceOptions()
		o.IsFragmentationEnabled = fragmentation
		face.VerifC17AddFace(t, o)
	}
	add(appRemote, appLocal, face.PersistencyPersistent, defn.Local, true)
	add(udpRemote, udpLocal, face.PersistencyPersistent, defn.NonLocal, true)
	// the second application face is configured like the unix stream listener configures its
	// faces: fragmentation off (reliable stream)
	add(app2Remote, appLocal, face.PersistencyPersistent, defn.Local, false)
	if w.ils.FaceID() != fInternal || face.FaceTable.Get(fApp2) == nil || face.VerifC17NextFaceID() != fApp2+1 {
		panic("harness: unexpected face numbering")
	}
	return w
}

// ---- delivery: what the forwarding thread does with an Interest whose next hop is the
// internal face (dispatch.Face.SendPacket -> runSend -> sendPacket -> InternalTransport) ----

type reply struct {
	name     enc.Name
	content  []byte
	pitToken []byte
	nextHop  *uint64
	final    []byte
	isData   bool
}

// deliver hands one Interest (wire) that arrived on inFace to the management thread and returns
// everything the thread sent while processing it.
func (w *world) deliver(wire []byte, inFace uint64) ([]reply, error) {
	w.seq++
	pkt, _, err := spec.ReadPacket(enc.NewBufferReader(wire))
	if err != nil || pkt.Interest == nil {
		return nil, fmt.Errorf("harness built an undecodable Interest: %v", err)
	}
	tok := []byte{0, 0, 0, 0, byte(w.seq >> 8), byte(w.seq)}
	p := &defn.Pkt{Name: pkt.Interest.NameV, L3: pkt, Raw: wire, PitToken: tok, IncomingFaceID: utils.IdPtr(inFace)}
	face.VerifC17Send(w.ils, dispatch.OutPkt{Pkt: p, PitToken: tok, InFace: utils.IdPtr(inFace)})
	if w.itr.VerifC17RecvLen() != 1 {
		return nil, fmt.Errorf("internal face did not queue the Interest for management (%d frames queued)", w.itr.VerifC17RecvLen())
	}
	w.m.VerifC17Step()
	var out []reply
	for _, fr := range w.itr.VerifC17TakeSent() {
		if len(fr) > defn.MaxNDNPacketSize {
			// InternalTransport.runReceive drops what the component sends beyond the maximum packet
			// size ("Component trying to send too much data - DROP"): the requester never sees it
			w.oversizeDropped++
			continue
		}
		lp, _, err := spec.ReadPacket(enc.NewBufferReader(fr))
		if err != nil || lp.LpPacket == nil {
			return nil, fmt.Errorf("management sent an undecodable frame: %v", err)
		}
		inner, _, err := spec.ReadPacket(enc.NewWireReader(lp.LpPacket.Fragment))
		if err != nil {
			return nil, fmt.Errorf("management sent an undecodable packet: %v", err)
		}
		r := reply{pitToken: lp.LpPacket.PitToken, nextHop: lp.LpPacket.NextHopFaceId}
		if inner.Data != nil {
			r.isData = true
			r.name = inner.Data.NameV
			r.content = inner.Data.ContentV.Join()
			if inner.Data.MetaInfo != nil {
				r.final = inner.Data.MetaInfo.FinalBlockID
			}
		} else if inner.Interest != nil {
			r.name = inner.Interest.NameV
		}
		out = append(out, r)
	}
	return out, nil
}

func (w *world) interest(name enc.Name) []byte {
	w.seq++
	e, err := spec.Spec{}.MakeInterest(name, &ndn.InterestConfig{
		CanBePrefix: true, MustBeFresh: true, Nonce: utils.IdPtr(uint64(0x1000 + w.seq)),
	}, nil, nil)
	if err != nil {
		panic(fmt.Sprintf("harness cannot encode Interest %s: %v", name, err))
	}
	return e.Wire.Join()
}

// ---- snapshots of the real tables (through the public accessors the modules use) ----

type ribRoute struct {
	face, origin, cost, flags uint64
	exp                       *uint64 // milliseconds
}

func (r ribRoute) String() string {
	e := "-"
	if r.exp != nil {
		e = fmt.Sprint(*r.exp)
	}
	return fmt.Sprintf("f%d/o%d/c%d/fl%d/e%s", r.face, r.origin, r.cost, r.flags, e)
}

func nameStr(n enc.Name) string {
	if len(n) == 0 {
		return "/"
	}
	return n.String()
}

type faceAttr struct {
	id                      uint64
	uri, local              string
	scope, persist, link    uint64
	mtu                     int
	localFields, congestion bool
	baseInterval            uint64 // ns
	threshold               uint64
}

func (f faceAttr) String() string {
	return fmt.Sprintf("%d{%s %s sc%d p%d l%d mtu%d lf%v cm%v bi%d th%d}", f.id, f.uri, f.local, f.scope, f.persist, f.link, f.mtu, f.localFields, f.congestion, f.baseInterval, f.threshold)
}

type snapshot struct {
	rib   map[string][]string          // prefix -> sorted route strings
	fib   map[string]map[uint64]uint64 // prefix -> face -> cost
	strat map[string]string
	csCap int
	faces map[uint64]faceAttr
}

func takeSnapshot() snapshot {
	s := snapshot{rib: map[string][]string{}, fib: map[string]map[uint64]uint64{}, strat: map[string]string{}, faces: map[uint64]faceAttr{}}
	for _, e := range table.Rib.GetAllEntries() {
		var rs []string
		for _, r := range e.GetRoutes() {
			rr := ribRoute{face: r.FaceID, origin: r.Origin, cost: r.Cost, flags: r.Flags}
			if r.ExpirationPeriod != nil {
				rr.exp = utils.IdPtr(uint64(*r.ExpirationPeriod / vtime.Millisecond))
			}
			rs = append(rs, rr.String())
		}
		sort.Strings(rs)
		s.rib[nameStr(e.Name)] = append(s.rib[nameStr(e.Name)], rs...)
	}
	for _, e := range table.FibStrategyTable.GetAllFIBEntries() {
		m := map[uint64]uint64{}
		for _, h := range e.GetNextHops() {
			m[h.Nexthop] = h.Cost
		}
		s.fib[nameStr(e.Name())] = m
	}
	for _, e := range table.FibStrategyTable.GetAllForwardingStrategies() {
		s.strat[nameStr(e.Name())] = e.GetStrategy().String()
	}
	s.csCap = table.CsCapacity()
	for _, l := range face.FaceTable.GetAll() {
		a := faceAttr{id: l.FaceID(), uri: l.RemoteURI().String(), local: l.LocalURI().String(), scope: uint64(l.Scope()),
			persist: uint64(l.Persistency()), link: uint64(l.LinkType()), mtu: l.MTU()}
		if ls, ok := l.(*face.NDNLPLinkService); ok {
			o := ls.Options()
			a.localFields = o.IsConsumerControlledForwardingEnabled
			a.congestion = o.IsCongestionMarkingEnabled
			a.baseInterval = uint64(o.BaseCongestionMarkingInterval.Nanoseconds())
			a.threshold = o.DefaultCongestionThresholdBytes
		}
		s.faces[a.id] = a
	}
	return s
}

func fibStr(m map[uint64]uint64) string {
	x := make([]string, 0, len(m))
	for f, c := range m {
		x = append(x, fmt.Sprintf("%d:%d", f, c))
	}
	sort.Strings(x)
	return "{" + strings.Join(x, ",") + "}"
}

func (s snapshot) String() string {
	var b strings.Builder
	keys := func(n int, each func(func(string))) []string {
		k := make([]string, 0, n)
		each(func(s string) { k = append(k, s) })
		sort.Strings(k)
		return k
	}
	b.WriteString("rib[")
	for _, k := range keys(len(s.rib), func(f func(string)) {
		for k := range s.rib {
			f(k)
		}
	}) {
		fmt.Fprintf(&b, "%s=%v ", k, s.rib[k])
	}
	b.WriteString("] fib[")
	for _, k := range keys(len(s.fib), func(f func(string)) {
		for k := range s.fib {
			f(k)
		}
	}) {
		fmt.Fprintf(&b, "%s=%s ", k, fibStr(s.fib[k]))
	}
	b.WriteString("] strategy[")
	for _, k := range keys(len(s.strat), func(f func(string)) {
		for k := range s.strat {
			f(k)
		}
	}) {
		fmt.Fprintf(&b, "%s=%s ", k, s.strat[k])
	}
	fmt.Fprintf(&b, "] cs=%d faces[", s.csCap)
	ids := make([]uint64, 0, len(s.faces))
	for id := range s.faces {
		ids = append(ids, id)
	}
	sort.Slice(ids, func(i, j int) bool { return ids[i] < ids[j] })
	for _, id := range ids {
		b.WriteString(s.faces[id].String() + " ")
	}
	b.WriteString("]")
	return b.String()
}

var _ = mgmt.FaceScopeLocal
