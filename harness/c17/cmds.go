package main

// The command alphabet. Commands are described symbolically (module, verb, one symbolic value per
// ControlParameters field, how the parameter component is damaged, arrival prefix and face) and
// encoded with the harness's own TLV writer, so that malformed encodings can be produced and so
// that the oracle knows what a command means without asking the decoder under test.

import (
	"encoding/binary"
	"fmt"
	"math/big"
	"sort"
	"strings"

	enc "github.com/named-data/ndnd/std/encoding"
)

// ---- TLV writer (independent of the repository's encoder) ----

func tlnum(v uint64) []byte {
	switch {
	case v < 253:
		return []byte{byte(v)}
	case v <= 0xffff:
		return []byte{0xfd, byte(v >> 8), byte(v)}
	case v <= 0xffffffff:
		b := []byte{0xfe, 0, 0, 0, 0}
		binary.BigEndian.PutUint32(b[1:], uint32(v))
		return b
	}
	b := make([]byte, 9)
	b[0] = 0xff
	binary.BigEndian.PutUint64(b[1:], v)
	return b
}

func tlv(typ uint64, val []byte) []byte {
	out := append(tlnum(typ), tlnum(uint64(len(val)))...)
	return append(out, val...)
}

func natBytes(v uint64) []byte {
	switch {
	case v <= 0xff:
		return []byte{byte(v)}
	case v <= 0xffff:
		return []byte{byte(v >> 8), byte(v)}
	case v <= 0xffffffff:
		b := make([]byte, 4)
		binary.BigEndian.PutUint32(b, uint32(v))
		return b
	}
	b := make([]byte, 8)
	binary.BigEndian.PutUint64(b, v)
	return b
}

var nmCache = map[string]enc.Name{}

// nm parses a name URI ("/" is the empty name).
func nm(s string) enc.Name {
	if n, ok := nmCache[s]; ok {
		return n
	}
	n, err := enc.NameFromStr(s)
	if err != nil {
		panic(err)
	}
	if n == nil {
		n = enc.Name{}
	}
	nmCache[s] = n
	return n
}

// nameTLV encodes a Name TLV from a URI using the harness writer for the outer structure.
func nameTLV(uri string) []byte {
	var inner []byte
	for _, c := range nm(uri) {
		inner = append(inner, tlv(uint64(c.Typ), c.Val)...)
	}
	return tlv(7, inner)
}

// ---- fields ----

type fieldID int

const (
	fName fieldID = iota
	fFaceId
	fUri
	fOrigin
	fCost
	fCapacity
	fFlags
	fMask
	fStrategy
	fExpiration
	fPersistency
	fMtu
	nFields
)

var fieldNames = [...]string{"Name", "FaceId", "Uri", "Origin", "Cost", "Capacity", "Flags", "Mask", "Strategy", "ExpirationPeriod", "FacePersistency", "Mtu"}
var fieldTLV = [...]uint64{0x07, 0x69, 0x72, 0x6f, 0x6a, 0x83, 0x6c, 0x70, 0x6b, 0x6d, 0x85, 0x89}

const maxU64 = ^uint64(0)

const strategyPrefix = "/localhost/nfd/strategy"

// fval is one symbolic value of a field.
type fval struct {
	label     string
	nat       uint64
	str       string // Name URI / Uri string / strategy name URI
	malformed bool   // the field's encoding is damaged
	lenient   bool   // unusual encoding a lenient decoder may read as the value `nat`
	only      string // "module/verb": offered for that verb only, as a one-field departure (boundary families)
	raw       []byte // complete TLV of the field when malformed or special
	noName    bool   // Strategy TLV without a Name inside
}

func natv(v uint64) fval {
	l := fmt.Sprint(v)
	switch v {
	case maxU64:
		l = "2^64-1"
	case 1 << 63:
		l = "2^63"
	}
	return fval{label: l, nat: v}
}
func strv(s string) fval { return fval{label: s, str: s} }

// domains: first element is only a convenient default; every verb names its own base values.
var domains = map[fieldID][]fval{
	fName: {strv("/a"), strv("/"), strv("/a/b"), strv("/c"),
		{label: "<truncated-component>", malformed: true, raw: []byte{0x07, 0x03, 0x08, 0x05, 0x61}}},
	fFaceId: {natv(0), natv(fApp), natv(fUDP), natv(fApp2), natv(fGone), natv(maxU64),
		{label: "<zero-length>", lenient: true, raw: []byte{0x69, 0x00}}},
	fUri: {strv("udp4://127.0.0.1:7001"), strv("udp4://224.0.0.1:6363"), strv("bogus"), strv(""), strv(appRemote), strv("fd://99"),
		strv("ether://[08:00:27:01:01:01]"), strv("udp4://127.0.0.1:0")},
	fOrigin:      {natv(0), natv(65), natv(128), natv(255), natv(maxU64)},
	fCost:        {natv(0), natv(5), natv(maxU64)},
	fCapacity:    {natv(0), natv(7), natv(65536), natv(1 << 63), natv(maxU64)},
	fFlags:       {natv(0), natv(1), natv(2), natv(3), natv(4), natv(maxU64)},
	fMask:        {natv(0), natv(1), natv(4), natv(7)},
	fExpiration:  append([]fval{natv(0), natv(1000), natv(1 << 63)}, expirationBoundaries()...),
	fPersistency: {natv(0), natv(1), natv(2), natv(7)},
	// 64 = defn.MinMTU; 72 / 84 = the NDNLP header of a fragmenting face (26, 38 with incoming face
	// indication) + a 32-byte PIT token (34) + a congestion mark (12): no payload byte left
	fMtu: {natv(0), natv(1), natv(21), natv(22), natv(30), natv(63), natv(64), natv(72), natv(73), natv(84), natv(85), natv(127), natv(128), natv(1500), natv(8800), natv(8801), natv(1 << 63)},
	fStrategy: {
		strv(strategyPrefix + "/multicast"),
		strv(strategyPrefix + "/best-route"),
		strv(strategyPrefix + "/multicast/v=1"),
		strv(strategyPrefix + "/multicast/v=9"),
		strv(strategyPrefix + "/multicast/v1"),
		strv(strategyPrefix + "/multicast/v=1/extra"),
		strv(strategyPrefix + "/multicast/54=%00%01"), // version 1, not in shortest form
		strv(strategyPrefix + "/nonexistent"),
		strv(strategyPrefix),
		strv("/localhost/nfd"),
		strv("/x/strategy/multicast"),
		strv("/"),
		{label: "<no-name>", noName: true},
	},
}

func dv(f fieldID, label string) fval {
	for _, v := range domains[f] {
		if v.label == label {
			return v
		}
	}
	panic(fmt.Sprintf("no value %q in domain of %s", label, fieldNames[f]))
}

func (v fval) encode(f fieldID) []byte {
	if v.raw != nil {
		return v.raw
	}
	switch f {
	case fName:
		return nameTLV(v.str)
	case fUri:
		return tlv(fieldTLV[f], []byte(v.str))
	case fStrategy:
		if v.noName {
			return tlv(fieldTLV[f], nil)
		}
		return tlv(fieldTLV[f], nameTLV(v.str))
	}
	return tlv(fieldTLV[f], natBytes(v.nat))
}

// ---- commands ----

type paramMode int

const (
	pmNormal       paramMode = iota
	pmMissing                // no parameter component at all
	pmEmpty                  // zero-length generic component
	pmTrunc1                 // first byte only
	pmTruncHalf              // first half
	pmTruncLast              // all but the last byte
	pmLenOverrun             // outer length one more than available
	pmOuterType              // outer TLV type 0x69 instead of 0x68
	pmGarbage                // bytes that are not TLV
	pmWrongCompTyp           // well-formed ControlParameters in a component of type 0x20
)

var pmLabels = [...]string{"", "params-missing", "params-empty", "params-trunc1", "params-trunc-half", "params-trunc-last", "params-len-overrun", "params-outer-type", "params-garbage", "params-comp-type"}

type cmd struct {
	prefix   string // arrival prefix, e.g. /localhost/nfd
	module   string
	verb     string
	fields   map[fieldID]fval
	pm       paramMode
	trailing int    // extra components after the parameter component (signed-Interest style)
	modTyp   bool   // module component of a non-generic type
	rawName  string // complete Interest name (datasets / odd names); overrides everything else
	query    []byte // faces/query filter component value (nil: none)
	inFace   uint64
	dev      bool
	label    string
}

func (c *cmd) paramBytes() []byte {
	var inner []byte
	for f := fieldID(0); f < nFields; f++ {
		if v, ok := c.fields[f]; ok {
			inner = append(inner, v.encode(f)...)
		}
	}
	return tlv(0x68, inner)
}

func (c *cmd) isMalformed() bool {
	if c.pm != pmNormal && c.pm != pmWrongCompTyp {
		return true
	}
	for _, v := range c.fields {
		if v.malformed {
			return true
		}
	}
	return false
}

// name builds the Interest name.
func (c *cmd) name() enc.Name {
	if c.rawName != "" {
		n := append(enc.Name{}, nm(c.rawName)...)
		if c.query != nil {
			n = append(n, enc.NewBytesComponent(enc.TypeGenericNameComponent, c.query))
		}
		return n
	}
	n := append(enc.Name{}, nm(c.prefix)...)
	mt := enc.TypeGenericNameComponent
	if c.modTyp {
		mt = enc.TLNum(0x20)
	}
	n = append(n, enc.NewBytesComponent(mt, []byte(c.module)), enc.NewBytesComponent(enc.TypeGenericNameComponent, []byte(c.verb)))
	p := c.paramBytes()
	ct := enc.TypeGenericNameComponent
	switch c.pm {
	case pmMissing:
		p = nil
	case pmEmpty:
		p = []byte{}
	case pmTrunc1:
		p = p[:1]
	case pmTruncHalf:
		p = p[:len(p)/2]
	case pmTruncLast:
		p = p[:len(p)-1]
	case pmLenOverrun:
		p = append(append([]byte{0x68}, tlnum(uint64(len(p)-2+1))...), p[2:]...) // base parameters are < 253 bytes
	case pmOuterType:
		p = append([]byte{0x69}, p[1:]...)
	case pmGarbage:
		p = []byte{0xff, 0xff, 0xff, 0xff, 0xff}
	case pmWrongCompTyp:
		ct = enc.TLNum(0x20)
	}
	if p != nil {
		n = append(n, enc.NewBytesComponent(ct, p))
	}
	for i := 0; i < c.trailing; i++ {
		n = append(n, enc.NewBytesComponent(enc.TypeGenericNameComponent, []byte{byte(i), 0x55, 0xaa, 0x01}))
	}
	return n
}

func (c *cmd) mkLabel() string {
	if c.label != "" {
		return c.label
	}
	var b strings.Builder
	if c.rawName != "" {
		b.WriteString(c.rawName)
		if c.query != nil {
			fmt.Fprintf(&b, "/<filter %x>", c.query)
		}
	} else {
		if c.prefix != "/localhost/nfd" {
			b.WriteString(c.prefix + " ")
		}
		b.WriteString(c.module + "/" + c.verb)
		if c.modTyp {
			b.WriteString("[module-comp-type]")
		}
		b.WriteString("{")
		first := true
		for f := fieldID(0); f < nFields; f++ {
			if v, ok := c.fields[f]; ok {
				if !first {
					b.WriteString(",")
				}
				first = false
				b.WriteString(fieldNames[f] + "=" + v.label)
			}
		}
		b.WriteString("}")
		if c.pm != pmNormal {
			b.WriteString("[" + pmLabels[c.pm] + "]")
		}
		if c.trailing > 0 {
			fmt.Fprintf(&b, "[+%d comps]", c.trailing)
		}
	}
	if c.inFace != fApp {
		fmt.Fprintf(&b, "@f%d", c.inFace)
	}
	return b.String()
}

// ---- per-verb bases and the odometer ----

type verbSpec struct {
	module, verb string
	base         map[fieldID]string // field -> label of base value
	relevant     []fieldID          // fields the verb is specified to read (pairs are drawn from these)
}

var verbs = []verbSpec{
	{"rib", "register", map[fieldID]string{fName: "/a"}, []fieldID{fName, fFaceId, fOrigin, fCost, fFlags, fExpiration}},
	{"rib", "unregister", map[fieldID]string{fName: "/a"}, []fieldID{fName, fFaceId, fOrigin}},
	{"fib", "add-nexthop", map[fieldID]string{fName: "/a"}, []fieldID{fName, fFaceId, fCost}},
	{"fib", "remove-nexthop", map[fieldID]string{fName: "/a"}, []fieldID{fName, fFaceId}},
	{"strategy-choice", "set", map[fieldID]string{fName: "/a", fStrategy: strategyPrefix + "/multicast"}, []fieldID{fName, fStrategy}},
	{"strategy-choice", "unset", map[fieldID]string{fName: "/a"}, []fieldID{fName}},
	{"cs", "config", map[fieldID]string{fCapacity: "7"}, []fieldID{fCapacity, fFlags, fMask}},
	{"faces", "update", map[fieldID]string{fFaceId: "4"}, []fieldID{fFaceId, fPersistency, fFlags, fMask, fMtu}},
	{"faces", "destroy", map[fieldID]string{fFaceId: "4"}, []fieldID{fFaceId}},
	{"faces", "create", map[fieldID]string{fUri: "udp4://127.0.0.1:7001"}, []fieldID{fUri, fPersistency, fFlags, fMask, fMtu}},
}

func (vs verbSpec) baseCmd() *cmd {
	c := &cmd{prefix: "/localhost/nfd", module: vs.module, verb: vs.verb, fields: map[fieldID]fval{}, inFace: fApp, dev: true}
	for f, l := range vs.base {
		c.fields[f] = dv(f, l)
	}
	return c
}

func (c *cmd) clone() *cmd {
	d := *c
	d.fields = map[fieldID]fval{}
	for f, v := range c.fields {
		d.fields[f] = v
	}
	d.label = ""
	return &d
}

func with(c *cmd, kv ...any) *cmd {
	d := c.clone()
	for i := 0; i+1 < len(kv); i += 2 {
		f := kv[i].(fieldID)
		switch x := kv[i+1].(type) {
		case nil:
			delete(d.fields, f)
		case string:
			d.fields[f] = dv(f, x)
		case fval:
			d.fields[f] = x
		}
	}
	return d
}

// alternatives of a field for a verb: every domain value other than the base one, plus "absent"
// when the base has the field.
func alternatives(vs verbSpec, f fieldID) []*fval {
	var out []*fval
	baseLabel, has := vs.base[f]
	if has {
		out = append(out, nil) // absent
	}
	for i := range domains[f] {
		v := domains[f][i]
		if has && v.label == baseLabel {
			continue
		}
		if v.only != "" && v.only != vs.module+"/"+vs.verb {
			continue
		}
		out = append(out, &v)
	}
	return out
}

// pairAlternatives: what a two-field departure draws from (boundary families stay one-field).
func pairAlternatives(vs verbSpec, f fieldID) []*fval {
	var out []*fval
	for _, v := range alternatives(vs, f) {
		if v == nil || v.only == "" {
			out = append(out, v)
		}
	}
	return out
}

// expirationBoundaries: ExpirationPeriod is milliseconds and becomes a time.Duration (int64
// nanoseconds) by a multiplication with 10^6 that wraps modulo 2^64. The value classes are
// therefore: around the largest representable period (MaxInt64/10^6), around the largest uint64
// quotient (MaxUint64/10^6), and for each of the first wrap points w_k = floor(k*2^64/10^6),
// k = 1..3, the values just around it and those whose wrapped product lands in each further
// quarter of the 64-bit range (w_k + q*2^62/10^6, q = 1..3).
func expirationBoundaries() []fval {
	const million = 1_000_000
	var out []fval
	seen := map[uint64]bool{0: true, 1000: true, 1 << 63: true}
	add := func(v uint64, label string) {
		if seen[v] {
			return
		}
		seen[v] = true
		out = append(out, fval{label: label, nat: v, only: "rib/register"})
	}
	maxI := uint64(1<<63-1) / million
	add(maxI-1, "MaxInt64/1e6-1")
	add(maxI, "MaxInt64/1e6")
	add(maxI+1, "MaxInt64/1e6+1")
	maxU := maxU64 / million
	add(maxU-1, "MaxUint64/1e6-1")
	add(maxU, "MaxUint64/1e6")
	add(maxU+1, "MaxUint64/1e6+1")
	quarter := uint64(1<<62) / million
	two64 := new(big.Int).Lsh(big.NewInt(1), 64)
	for k := int64(1); k <= 3; k++ {
		w := new(big.Int).Div(new(big.Int).Mul(big.NewInt(k), two64), big.NewInt(million)).Uint64()
		add(w-1, fmt.Sprintf("floor(%d*2^64/1e6)-1", k))
		add(w, fmt.Sprintf("floor(%d*2^64/1e6)", k))
		add(w+1, fmt.Sprintf("floor(%d*2^64/1e6)+1", k))
		for q := uint64(1); q <= 3; q++ {
			add(w+1+q*quarter, fmt.Sprintf("floor(%d*2^64/1e6)+1+%d*2^62/1e6", k, q))
		}
	}
	add(maxU64, "2^64-1")
	return out
}

func setField(c *cmd, f fieldID, v *fval) {
	if v == nil {
		delete(c.fields, f)
	} else {
		c.fields[f] = *v
	}
}

// alphabet is the whole command alphabet of one configuration.
type alphabet struct {
	list   []*cmd
	byName map[string]*cmd
	// classes, for the coverage record
	nRoutine, nSingles, nPairs, nMalformed, nPrefix, nNames, nDatasets int
}

func (a *alphabet) add(c *cmd) bool {
	c.label = c.mkLabel()
	if _, dup := a.byName[c.label]; dup {
		return false
	}
	a.byName[c.label] = c
	a.list = append(a.list, c)
	return true
}

func buildAlphabet(localhopCfg bool, pairs bool) *alphabet {
	a := &alphabet{byName: map[string]*cmd{}}
	vb := map[string]verbSpec{}
	for _, v := range verbs {
		vb[v.module+"/"+v.verb] = v
	}
	base := func(k string) *cmd { return vb[k].baseCmd() }

	// 1. routine commands (not deviations): the setup subset
	routine := []*cmd{
		base("rib/register"),
		with(base("rib/register"), fName, "/a/b", fFaceId, "4", fOrigin, "128", fCost, "5", fFlags, "2"),
		with(base("rib/register"), fName, "/", fFaceId, "5", fFlags, "3"),
		base("rib/unregister"),
		with(base("fib/add-nexthop"), fFaceId, "4", fCost, "5"),
		with(base("fib/remove-nexthop"), fFaceId, "4"),
		base("strategy-choice/set"),
		// a second version-less choice, another prefix and another strategy: two stored strategy
		// names must stay independent (the hash-table FIB stores the name it is given)
		with(base("strategy-choice/set"), fName, "/c", fStrategy, strategyPrefix+"/best-route"),
		base("strategy-choice/unset"),
		base("cs/config"),
		with(base("faces/update"), fMtu, "1500"),
		with(base("faces/update"), fFaceId, nil, fFlags, "1", fMask, "1"),
		base("faces/destroy"),
		base("faces/create"),
	}
	if localhopCfg {
		c := base("rib/register")
		c.prefix, c.inFace = "/localhop/nfd", fUDP
		routine = append(routine, c)
	}
	for _, c := range routine {
		c.dev = false
		if a.add(c) {
			a.nRoutine++
		}
	}

	// 2. every verb: the base command, one field changed (all twelve fields), two relevant fields changed
	for _, vs := range verbs {
		a.add(vs.baseCmd())
		for f := fieldID(0); f < nFields; f++ {
			for _, v := range alternatives(vs, f) {
				c := vs.baseCmd()
				setField(c, f, v)
				if a.add(c) {
					a.nSingles++
				}
			}
		}
		if !pairs {
			continue
		}
		for i := 0; i < len(vs.relevant); i++ {
			for j := i + 1; j < len(vs.relevant); j++ {
				f1, f2 := vs.relevant[i], vs.relevant[j]
				for _, v1 := range pairAlternatives(vs, f1) {
					for _, v2 := range pairAlternatives(vs, f2) {
						c := vs.baseCmd()
						setField(c, f1, v1)
						setField(c, f2, v2)
						if a.add(c) {
							a.nPairs++
						}
					}
				}
			}
		}
	}

	// 3. damaged parameter components, trailing components
	for _, vs := range verbs {
		for pm := pmMissing; pm <= pmWrongCompTyp; pm++ {
			c := vs.baseCmd()
			c.pm = pm
			if a.add(c) {
				a.nMalformed++
			}
		}
		c := vs.baseCmd()
		c.trailing = 4
		if a.add(c) {
			a.nMalformed++
		}
	}

	// 4. arrival prefixes and requesting faces
	prefixes := []struct {
		p    string
		face uint64
	}{{"/localhop/nfd", fUDP}, {"/localhop/nfd", fApp}, {"/other/nfd", fApp}, {"/localhost/xnfd", fApp}, {"/localhostx/nfd", fApp}, {"/localhop/xnfd", fUDP}}
	for _, k := range []string{"rib/register", "rib/unregister", "fib/add-nexthop", "strategy-choice/set", "cs/config", "faces/update", "faces/destroy", "faces/create"} {
		for _, p := range prefixes {
			c := base(k)
			c.prefix, c.inFace = p.p, p.face
			if a.add(c) {
				a.nPrefix++
			}
		}
	}
	for _, k := range []string{"rib/register", "rib/unregister", "fib/add-nexthop", "fib/remove-nexthop", "faces/update"} {
		c := base(k)
		c.inFace = fApp2
		if k == "faces/update" {
			c = with(c, fFaceId, nil, fMtu, "1500")
		}
		if a.add(c) {
			a.nPrefix++
		}
	}

	// 5. unknown modules / verbs, unimplemented verbs, short and odd names
	odd := []*cmd{
		{module: "bogus", verb: "verb"}, {module: "", verb: "list"}, {module: "rib", verb: ""},
		{module: "rib", verb: "bogus"}, {module: "fib", verb: "bogus"}, {module: "strategy-choice", verb: "bogus"},
		{module: "cs", verb: "bogus"}, {module: "faces", verb: "bogus"}, {module: "status", verb: "bogus"},
		{module: "cs", verb: "erase"}, {module: "cs", verb: "query"}, {module: "rib", verb: "announce"},
		{module: "rib", verb: "register", modTyp: true},
	}
	for _, c := range odd {
		c.prefix, c.inFace, c.dev, c.fields = "/localhost/nfd", fApp, true, map[fieldID]fval{fName: dv(fName, "/a")}
		if a.add(c) {
			a.nNames++
		}
		d := c.clone()
		d.pm = pmMissing
		if a.add(d) {
			a.nNames++
		}
		if c.module == "bogus" {
			e := c.clone()
			e.prefix, e.inFace = "/localhop/nfd", fUDP
			if a.add(e) {
				a.nNames++
			}
		}
	}
	for _, rn := range []string{"/localhost/nfd", "/localhost/nfd/rib", "/localhost", "/localhop/nfd/rib"} {
		if a.add(&cmd{rawName: rn, inFace: fApp, dev: true}) {
			a.nNames++
		}
	}

	// 6. dataset requests (the six datasets are also requested after every transition)
	for _, ds := range datasetNames {
		a.add(&cmd{rawName: "/localhost/nfd/" + ds, inFace: fApp, dev: true})
		a.add(&cmd{rawName: "/localhost/nfd/" + ds + "/v=1/seg=0", inFace: fApp, dev: true})
		a.add(&cmd{rawName: "/localhop/nfd/" + ds, inFace: fUDP, dev: true})
		a.nDatasets += 3
	}
	for _, q := range queryFilters() {
		a.add(&cmd{rawName: "/localhost/nfd/faces/query", query: q.bytes, inFace: fApp, dev: true, label: "faces/query{" + q.label + "}"})
		a.nDatasets++
	}
	a.add(&cmd{rawName: "/localhost/nfd/faces/query", inFace: fApp, dev: true, label: "faces/query{<no filter component>}"})
	return a
}

var datasetNames = []string{"rib/list", "fib/list", "strategy-choice/list", "cs/info", "faces/list", "status/general"}

// ---- faces/query filters ----

type queryFilter struct {
	label string
	bytes []byte
	match func(f faceAttr) bool
	bad   bool // not a FaceQueryFilter
}

func queryFilters() []queryFilter {
	qf := func(inner ...[]byte) []byte {
		var b []byte
		for _, x := range inner {
			b = append(b, x...)
		}
		return tlv(0x96, b)
	}
	return []queryFilter{
		{label: "<empty filter>", bytes: qf(), match: func(faceAttr) bool { return true }},
		{label: "FaceId=3", bytes: qf(tlv(0x69, natBytes(3))), match: func(f faceAttr) bool { return f.id == 3 }},
		{label: "FaceId=9", bytes: qf(tlv(0x69, natBytes(9))), match: func(f faceAttr) bool { return f.id == 9 }},
		{label: "UriScheme=udp4", bytes: qf(tlv(0x83, []byte("udp4"))), match: func(f faceAttr) bool {
			return strings.HasPrefix(f.uri, "udp4://") || strings.HasPrefix(f.local, "udp4://")
		}},
		{label: "UriScheme=unix", bytes: qf(tlv(0x83, []byte("unix"))), match: func(f faceAttr) bool {
			return strings.HasPrefix(f.uri, "unix://") || strings.HasPrefix(f.local, "unix://")
		}},
		{label: "Uri=" + udpRemote, bytes: qf(tlv(0x72, []byte(udpRemote))), match: func(f faceAttr) bool { return f.uri == udpRemote }},
		{label: "LocalUri=" + appLocal, bytes: qf(tlv(0x81, []byte(appLocal))), match: func(f faceAttr) bool { return f.local == appLocal }},
		{label: "FaceScope=local", bytes: qf(tlv(0x84, natBytes(1))), match: func(f faceAttr) bool { return f.scope == 1 }},
		{label: "FaceScope=non-local,LinkType=p2p", bytes: qf(tlv(0x84, natBytes(0)), tlv(0x86, natBytes(0))), match: func(f faceAttr) bool { return f.scope == 0 && f.link == 0 }},
		{label: "FacePersistency=permanent", bytes: qf(tlv(0x85, natBytes(2))), match: func(f faceAttr) bool { return f.persist == 2 }},
		{label: "LinkType=multi-access", bytes: qf(tlv(0x86, natBytes(1))), match: func(f faceAttr) bool { return f.link == 1 }},
		{label: "<truncated filter>", bytes: qf(tlv(0x69, natBytes(3)))[:3], bad: true},
		{label: "<garbage>", bytes: []byte{0xff, 0xff, 0xff}, bad: true},
		{label: "<zero-length component>", bytes: []byte{}, bad: true},
	}
}

func sortedKeys[V any](m map[string]V) []string {
	k := make([]string, 0, len(m))
	for s := range m {
		k = append(k, s)
	}
	sort.Strings(k)
	return k
}
