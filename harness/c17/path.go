package main

// Entry-path configurations (authorisation): command Interests arrive as frames on a local or a
// non-local face, go through the face's real link service, ONE real forwarding thread (scope
// check, PIT, strategy, real FIB), the internal face and the real management thread; the answer
// travels back the same way. Everything is run to quiescence synchronously after every arrival.
// Clause: tables change only for commands that arrived under /localhost/nfd on a local face, or
// under /localhop/nfd for the RIB module when link-local management is enabled.

import (
	"fmt"
	"strings"

	"github.com/named-data/ndnd/fw/face"
	"github.com/named-data/ndnd/fw/table"
	enc "github.com/named-data/ndnd/std/encoding"
	"github.com/named-data/ndnd/std/ndn"
	mgmt "github.com/named-data/ndnd/std/ndn/mgmt_2022"
	spec "github.com/named-data/ndnd/std/ndn/spec_2022"
	"github.com/named-data/ndnd/std/utils"
	"verif/mc/explore"
	"verif/mc/report"
	"verif/shim/vtime"
)

type pathSys struct {
	cfg  worldCfg
	cmds map[string]*cmd
	ops  []explore.Op
}

func newPathSys(cfg worldCfg) *pathSys {
	s := &pathSys{cfg: cfg, cmds: map[string]*cmd{}}
	vb := map[string]verbSpec{}
	for _, v := range verbs {
		vb[v.module+"/"+v.verb] = v
	}
	var list []*cmd
	for _, p := range []string{"/localhost/nfd", "/localhop/nfd", "/other/nfd", "/localhop/other"} {
		for _, f := range []uint64{fApp, fUDP} {
			for _, k := range []string{"rib/register", "rib/unregister", "fib/add-nexthop", "strategy-choice/set", "cs/config", "faces/update", "faces/destroy"} {
				c := vb[k].baseCmd()
				switch k {
				case "faces/update":
					c = with(c, fFaceId, "5", fMtu, "1500")
				case "faces/destroy":
					c = with(c, fFaceId, "5")
				}
				c.prefix, c.inFace = p, f
				list = append(list, c)
			}
		}
	}
	// ordinary routes that cover the management names must not hand commands to management
	list = append(list,
		with(vb["rib/register"].baseCmd(), fName, "/", fFaceId, "5"),
		with(vb["fib/add-nexthop"].baseCmd(), fName, strv("/localhop"), fFaceId, "5"),
	)
	for _, c := range list {
		c.label = ""
		c.label = c.mkLabel() + fmt.Sprintf(" arriving on face %d", c.inFace)
		if _, dup := s.cmds[c.label]; dup {
			continue
		}
		s.cmds[c.label] = c
		s.ops = append(s.ops, explore.Op{Name: c.label})
	}
	return s
}

func (s *pathSys) New() any {
	in := &inst{cfg: s.cfg, w: newWorld(s.cfg), model: newModel(s.cfg)}
	if t, d := diff(in.model.snapshot(), takeSnapshot()); len(t) > 0 {
		panic("HARNESS-BUG: initial model differs from the initial tables: " + d)
	}
	return in
}

func (s *pathSys) Ops(any) []explore.Op { return s.ops }

func (s *pathSys) Canon(i any) string {
	in := i.(*inst)
	nodes, aux := table.VerifDumpFib(table.FibStrategyTable)
	return fmt.Sprintf("%s|%v%v|%v|pit%d", in.model.snapshot().String(), nodes, aux, table.VerifDumpRib(), in.w.thread.GetNumPitEntries())
}

func (s *pathSys) Apply(i any, op explore.Op) []report.Violation {
	return s.step(i.(*inst), s.cmds[op.Name])
}

// quiesce runs forwarding thread, face send loops, management and the internal transport's
// receive loop until nothing is queued anywhere.
func (in *inst) quiesce() {
	for round := 0; ; round++ {
		if round > 64 {
			panic("HARNESS-BUG: no quiescence after 64 rounds")
		}
		moved := in.w.thread.VerifTakeQueued()
		for _, l := range face.FaceTable.GetAll() {
			if ls, ok := l.(*face.NDNLPLinkService); ok {
				moved += face.VerifC17Pump(ls)
			}
		}
		if in.w.itr.VerifC17RecvLen() > 0 {
			in.w.m.VerifC17Step()
			moved++
		}
		for _, fr := range in.w.itr.VerifC17TakeSent() {
			in.w.itr.VerifC17Inject(fr)
			moved++
		}
		if moved == 0 {
			return
		}
	}
}

func (s *pathSys) step(in *inst, c *cmd) (v []report.Violation) {
	bad := func(clause, key, detail string) {
		v = append(v, report.Violation{Clause: clause, Key: key, Detail: detail})
	}
	in.depth++
	arrival, ok := face.FaceTable.Get(c.inFace).(*face.NDNLPLinkService)
	if !ok {
		panic("HARNESS-BUG: arrival face missing")
	}
	mem, _ := face.VerifC17IsMem(arrival)
	mem.VerifTake()
	scope := in.model.faces[c.inFace].scope
	authorised := (c.prefix == "/localhost/nfd" && scope == 1) || (c.prefix == "/localhop/nfd" && c.module == "rib" && s.cfg.allowLocalhop)

	// unique name per arrival (as signed command Interests are): no PIT aggregation, no CS hit
	d := c.clone()
	d.trailing = 0
	name := append(d.name(), enc.NewBytesComponent(enc.TypeGenericNameComponent, []byte(fmt.Sprintf("t%d", in.depth))))
	in.w.seq++
	ei, err := spec.Spec{}.MakeInterest(name, &ndn.InterestConfig{MustBeFresh: true, Nonce: utils.IdPtr(uint64(0x2000 + in.w.seq)), Lifetime: utils.IdPtr(4 * vtime.Second)}, nil, nil)
	if err != nil {
		panic("HARNESS-BUG: " + err.Error())
	}
	wire := ei.Wire.Join()
	if msg, frame := guard(func() {
		face.VerifC17Recv(arrival, wire)
		in.quiesce()
	}); msg != "" {
		bad("C17.alive", fmt.Sprintf("panic %s @ %s", msg, frame), fmt.Sprintf("panic while %s travels from its arrival face to management and back: %s at %s", c.label, msg, frame))
		return
	}
	after := takeSnapshot()

	// the answer, if any, as the requester sees it
	var o outcome
	o.kind = "silent"
	for _, fr := range mem.VerifTake() {
		lp, _, err := spec.ReadPacket(enc.NewBufferReader(fr))
		if err != nil {
			continue
		}
		inner := lp
		if lp.LpPacket != nil {
			inner, _, err = spec.ReadPacket(enc.NewWireReader(lp.LpPacket.Fragment))
			if err != nil {
				continue
			}
		}
		if inner.Data == nil || !inner.Data.NameV.Equal(name) {
			continue
		}
		if cr, err := mgmt.ParseControlResponse(enc.NewBufferReader(inner.Data.ContentV.Join()), true); err == nil && cr.Val != nil {
			o.code, o.text, o.kind = cr.Val.StatusCode, cr.Val.StatusText, "other"
			if o.code == 200 {
				o.kind = "200"
			}
		}
	}

	how := fmt.Sprintf("%s on a %s face", c.prefix, map[uint64]string{0: "non-local", 1: "local"}[scope])
	if !authorised {
		if t, dd := diff(in.model.snapshot(), after); len(t) > 0 {
			bad("C17.auth", fmt.Sprintf("%s command arriving under %s changes %s", c.module, how, strings.Join(t, ", ")),
				fmt.Sprintf("%s is not authorised (link-local management %v) but changed the tables: %s", c.label, s.cfg.allowLocalhop, dd))
		}
	} else {
		e := in.expectVerb(c, in.model)
		if e.cl == clAccept && o.kind != "200" {
			bad("C17.effect", fmt.Sprintf("%s/%s arriving under %s: requester does not get status 200", c.module, c.verb, how),
				fmt.Sprintf("%s is authorised and valid; the requester received %s", c.label, o))
		}
		if o.kind == "200" && e.effect != nil {
			in.model.syncFib(e.effect(in.model), after)
		}
		if t, dd := diff(in.model.snapshot(), after); len(t) > 0 {
			bad("C17.effect", fmt.Sprintf("%s/%s arriving under %s: %s not as the parameters describe", c.module, c.verb, how, strings.Join(t, ", ")), dd)
		}
	}
	// let the PIT entries and nonces of this arrival expire before the next one
	vtime.Advance(10 * vtime.Second)
	in.w.thread.VerifTick()
	return
}
