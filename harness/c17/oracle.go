package main

// Reference model (boring Go maps) and the expectation function: what the property text requires
// of a command given the current tables. Three-valued: accept / reject / may (the text leaves the
// choice to the implementation; whichever it takes must then be carried out exactly).

import (
	"fmt"
	"net"
	"sort"
	"strconv"
	"strings"

	enc "github.com/named-data/ndnd/std/encoding"
)

type mroute struct {
	face, origin, cost, flags uint64
	exp                       *uint64
}

type model struct {
	rib      map[string][]*mroute
	fib      map[string]map[uint64]uint64
	strat    map[string]string
	csCap    int
	faces    map[uint64]*faceAttr
	nextFace uint64
}

const (
	defaultStrategy = strategyPrefix + "/best-route/v=1"
	createdLocalURI = "udp4://127.0.0.1:6363" // what the harness gives an adopted created face
)

func newModel(cfg worldCfg) *model {
	m := &model{rib: map[string][]*mroute{}, fib: map[string]map[uint64]uint64{}, strat: map[string]string{}, faces: map[uint64]*faceAttr{}}
	m.fib["/localhost/nfd"] = map[uint64]uint64{fInternal: 0}
	if cfg.allowLocalhop {
		m.fib["/localhop/nfd"] = map[uint64]uint64{fInternal: 0}
	}
	m.strat["/"] = defaultStrategy
	m.csCap = 1024
	m.faces[fNull] = &faceAttr{id: fNull, uri: "null://", local: "null://", scope: 0, persist: 2, link: 0, mtu: 8800}
	m.faces[fInternal] = &faceAttr{id: fInternal, uri: "internal://", local: "internal://", scope: 1, persist: 0, mtu: 8800, localFields: true, baseInterval: 100_000_000, threshold: 65536}
	m.faces[fApp] = &faceAttr{id: fApp, uri: appRemote, local: appLocal, scope: 1, mtu: 8800, baseInterval: 100_000_000, threshold: 65536}
	m.faces[fUDP] = &faceAttr{id: fUDP, uri: udpRemote, local: udpLocal, scope: 0, mtu: 8800, baseInterval: 100_000_000, threshold: 65536}
	m.faces[fApp2] = &faceAttr{id: fApp2, uri: app2Remote, local: appLocal, scope: 1, mtu: 8800, baseInterval: 100_000_000, threshold: 65536}
	m.nextFace = fApp2 + 1
	return m
}

func (m *model) snapshot() snapshot {
	s := snapshot{rib: map[string][]string{}, fib: map[string]map[uint64]uint64{}, strat: map[string]string{}, faces: map[uint64]faceAttr{}}
	for p, rs := range m.rib {
		var x []string
		for _, r := range rs {
			x = append(x, ribRoute{face: r.face, origin: r.origin, cost: r.cost, flags: r.flags, exp: r.exp}.String())
		}
		sort.Strings(x)
		s.rib[p] = x
	}
	for p, h := range m.fib {
		c := map[uint64]uint64{}
		for f, v := range h {
			c[f] = v
		}
		s.fib[p] = c
	}
	for p, v := range m.strat {
		s.strat[p] = v
	}
	s.csCap = m.csCap
	for id, f := range m.faces {
		s.faces[id] = *f
	}
	return s
}

var loopbackState int // 0 unknown, 1 usable, 2 not usable

// loopbackOK reports whether a UDP socket towards the loopback address can be opened here (what a
// successful faces/create needs); probed once per process.
func loopbackOK() bool {
	if loopbackState == 0 {
		loopbackState = 2
		if c, err := net.Dial("udp4", "127.0.0.1:7001"); err == nil {
			c.Close()
			loopbackState = 1
		}
	}
	return loopbackState == 1
}

func isPrefixURI(p, q string) bool { return nm(p).IsPrefix(nm(q)) }

// flatten is the property C06 wording: the next hops of a prefix that has routes.
func (m *model) flatten(p string) map[uint64]uint64 {
	out := map[uint64]uint64{}
	put := func(r *mroute) {
		if c, ok := out[r.face]; !ok || r.cost < c {
			out[r.face] = r.cost
		}
	}
	capture := func(rs []*mroute) bool {
		for _, r := range rs {
			if r.flags&2 != 0 {
				return true
			}
		}
		return false
	}
	own := m.rib[p]
	for _, r := range own {
		put(r)
	}
	if capture(own) {
		return out
	}
	n := nm(p)
	for l := len(n) - 1; l >= 0; l-- {
		q := nameStr(n[:l])
		rs := m.rib[q]
		for _, r := range rs {
			if r.flags&1 != 0 {
				put(r)
			}
		}
		if capture(rs) {
			break
		}
	}
	return out
}

// ---- expectations ----

type class int

const (
	clAccept      class = iota // must be answered 200 and carried out
	clReject                   // must be answered 4xx, nothing may change
	clMay                      // 200 + exact effect, or a refusal without any change
	clUnsupported              // unknown / unimplemented module or verb: never 200, nothing may change
	clUnauth                   // not under a prefix that authorises the module: nothing may change
	clIgnored                  // not a command (short name, dataset name with version): nothing may change
	clDataset                  // dataset request
)

var classNames = [...]string{"accept", "reject", "may", "unsupported", "unauthorised", "ignored", "dataset"}

type expectation struct {
	cl       class
	reason   string
	effect   func(m *model) string // applies the command to the model, returns the RIB-affected subtree ("" none)
	echo     map[fieldID]any       // effective values (uint64 or string) a 200 answer may echo
	dataset  string
	dsPrefix string
	filter   *queryFilter
}

func (c *cmd) nat(f fieldID) *uint64 {
	if v, ok := c.fields[f]; ok && !v.malformed {
		x := v.nat
		return &x
	}
	return nil
}
func (c *cmd) str(f fieldID) *string {
	if v, ok := c.fields[f]; ok && !v.malformed && !v.noName {
		x := v.str
		return &x
	}
	return nil
}

func orDefault(p *uint64, d uint64) uint64 {
	if p != nil {
		return *p
	}
	return d
}

func mtuClass(v uint64) (class, string, int) {
	switch {
	case v <= 22:
		return clReject, "Mtu too small to carry a packet", 0
	case v < 128:
		return clMay, "", int(v)
	case v > 8800:
		return clMay, "", 8800
	}
	return clAccept, "", int(v)
}

func weaker(a class, b class) class {
	if a == clReject || b == clReject {
		return clReject
	}
	if a == clMay || b == clMay {
		return clMay
	}
	return clAccept
}

// strategyEval classifies a strategy name.
func strategyEval(uri string) (class, string, string) {
	n, pre := nm(uri), nm(strategyPrefix)
	if n.Equal(pre) || pre.IsPrefix(n) && len(n) == len(pre) {
		return clReject, "strategy name lacks a strategy component", ""
	}
	if !pre.IsPrefix(n) {
		return clReject, "strategy name outside the strategy prefix", ""
	}
	s := n[len(pre)].String()
	if s != "multicast" && s != "best-route" {
		return clReject, "unknown strategy", ""
	}
	resolved := strategyPrefix + "/" + s + "/v=1"
	if len(n) == len(pre)+1 {
		return clAccept, "", resolved
	}
	v := n[len(pre)+1]
	if v.Typ == enc.TypeVersionNameComponent && len(v.Val) > 1 && len(n) == len(pre)+2 {
		if x, _, err := enc.ParseNat(v.Val); err == nil && uint64(x) == 1 {
			// version 1 written with leading zero bytes: refuse it, or take it as version 1 (the
			// strategy then in force must be the one the forwarder knows under its canonical name)
			return clMay, "", resolved
		}
	}
	if v.Typ != enc.TypeVersionNameComponent || len(v.Val) != 1 || v.Val[0] != 1 {
		return clReject, "unknown strategy version", ""
	}
	if len(n) > len(pre)+2 {
		return clMay, "", uri
	}
	return clAccept, "", resolved
}

func (w *inst) expect(c *cmd) expectation {
	m := w.model
	localhost := "/localhost/nfd"
	if c.rawName != "" {
		n := nm(c.rawName)
		if c.rawName == localhost+"/faces/query" {
			if c.query == nil {
				return expectation{cl: clIgnored, reason: "faces/query without a filter"}
			}
			for _, q := range queryFilters() {
				if string(q.bytes) == string(c.query) {
					q := q
					if q.bad {
						return expectation{cl: clIgnored, reason: "faces/query with a malformed filter"}
					}
					return expectation{cl: clDataset, dataset: "faces/query", dsPrefix: localhost, filter: &q}
				}
			}
		}
		for _, ds := range datasetNames {
			if c.rawName == localhost+"/"+ds {
				return expectation{cl: clDataset, dataset: ds, dsPrefix: localhost}
			}
		}
		if c.rawName == "/localhop/nfd/rib/list" {
			return expectation{cl: clIgnored, reason: "rib/list under the link-local prefix", dataset: "rib/list", dsPrefix: "/localhop/nfd"}
		}
		_ = n
		return expectation{cl: clIgnored, reason: "not a command name"}
	}

	// authorisation by arrival prefix
	localhopOff := false
	switch c.prefix {
	case localhost:
	case "/localhop/nfd":
		if c.module != "rib" {
			if _, known := map[string]bool{"cs": true, "faces": true, "fib": true, "status": true, "strategy-choice": true}[c.module]; known {
				return expectation{cl: clUnauth, reason: c.module + " command under the link-local prefix"}
			}
			return expectation{cl: clUnsupported, reason: "unknown module"}
		}
		localhopOff = !w.cfg.allowLocalhop
	default:
		return expectation{cl: clUnauth, reason: "command outside the management prefixes"}
	}

	e := w.expectVerb(c, m)
	if localhopOff && e.cl == clAccept {
		// With link-local management disabled Run() installs no FIB entry for /localhop/nfd, so the
		// forwarder never hands such an Interest to management (checked by the entry-path
		// configuration); what the thread does if it gets one anyway is left open here.
		e.cl = clMay
	}
	return e
}

func (w *inst) expectVerb(c *cmd, m *model) expectation {
	key := c.module + "/" + c.verb
	if c.modTyp {
		return expectation{cl: clUnsupported, reason: "unknown module"}
	}
	var vs *verbSpec
	for i := range verbs {
		if verbs[i].module == c.module && verbs[i].verb == c.verb {
			vs = &verbs[i]
		}
	}
	if vs == nil {
		switch c.module {
		case "rib", "fib", "cs", "faces", "status", "strategy-choice":
			if key == "cs/erase" || key == "cs/query" || key == "rib/announce" {
				return expectation{cl: clUnsupported, reason: "unimplemented verb " + key}
			}
			return expectation{cl: clUnsupported, reason: "unknown verb"}
		}
		return expectation{cl: clUnsupported, reason: "unknown module"}
	}
	if c.pm == pmMissing {
		return expectation{cl: clReject, reason: "ControlParameters missing"}
	}
	if c.isMalformed() {
		return expectation{cl: clReject, reason: "ControlParameters malformed"}
	}
	cl := clAccept
	if c.pm == pmWrongCompTyp {
		cl = clMay
	}
	relevant := map[fieldID]bool{}
	for _, f := range vs.relevant {
		relevant[f] = true
	}
	for f, fv := range c.fields {
		if !relevant[f] {
			cl = clMay // a field the verb does not define: ignore it or refuse the command
		}
		if fv.lenient {
			cl = clMay // e.g. a zero-length integer: refuse it, or read it as 0
		}
	}
	_, requesterExists := m.faces[c.inFace]
	if !requesterExists {
		cl = clMay // the requesting face was destroyed earlier in this history: not covered by the text
	}
	name := c.str(fName)
	face := c.inFace
	if p := c.nat(fFaceId); p != nil && *p != 0 {
		face = *p
	}
	_, faceExists := m.faces[face]
	reject := func(r string) expectation { return expectation{cl: clReject, reason: r} }
	echo := map[fieldID]any{}

	switch key {
	case "rib/register":
		if name == nil {
			return reject("Name missing")
		}
		if c.nat(fFaceId) != nil && *c.nat(fFaceId) != 0 && !faceExists {
			return reject("face does not exist")
		}
		origin, cost, flags := orDefault(c.nat(fOrigin), 0), orDefault(c.nat(fCost), 0), orDefault(c.nat(fFlags), 1)
		exp := c.nat(fExpiration)
		if flags > 3 || origin > 255 || (exp != nil && *exp > (1<<63-1)/1_000_000) {
			cl = weaker(cl, clMay)
		}
		echo[fName], echo[fFaceId], echo[fOrigin], echo[fCost], echo[fFlags] = *name, face, origin, cost, flags
		if exp != nil {
			echo[fExpiration] = *exp
		}
		return expectation{cl: cl, echo: echo, effect: func(m *model) string {
			for _, r := range m.rib[*name] {
				if r.face == face && r.origin == origin {
					r.cost, r.flags, r.exp = cost, flags, exp
					return *name
				}
			}
			m.rib[*name] = append(m.rib[*name], &mroute{face, origin, cost, flags, exp})
			return *name
		}}
	case "rib/unregister":
		if name == nil {
			return reject("Name missing")
		}
		origin := orDefault(c.nat(fOrigin), 0)
		if !faceExists || origin > 255 {
			cl = weaker(cl, clMay)
		}
		echo[fName], echo[fFaceId], echo[fOrigin] = *name, face, origin
		return expectation{cl: cl, echo: echo, effect: func(m *model) string {
			rs := m.rib[*name]
			for i, r := range rs {
				if r.face == face && r.origin == origin {
					m.rib[*name] = append(append([]*mroute{}, rs[:i]...), rs[i+1:]...)
					break
				}
			}
			if len(m.rib[*name]) == 0 {
				delete(m.rib, *name)
			}
			return *name
		}}
	case "fib/add-nexthop":
		if name == nil {
			return reject("Name missing")
		}
		if c.nat(fFaceId) != nil && *c.nat(fFaceId) != 0 && !faceExists {
			return reject("face does not exist")
		}
		cost := orDefault(c.nat(fCost), 0)
		echo[fName], echo[fFaceId], echo[fCost] = *name, face, cost
		return expectation{cl: cl, echo: echo, effect: func(m *model) string {
			if m.fib[*name] == nil {
				m.fib[*name] = map[uint64]uint64{}
			}
			m.fib[*name][face] = cost
			return ""
		}}
	case "fib/remove-nexthop":
		if name == nil {
			return reject("Name missing")
		}
		if !faceExists {
			cl = weaker(cl, clMay)
		}
		echo[fName], echo[fFaceId] = *name, face
		return expectation{cl: cl, echo: echo, effect: func(m *model) string {
			delete(m.fib[*name], face)
			if len(m.fib[*name]) == 0 {
				delete(m.fib, *name)
			}
			return ""
		}}
	case "strategy-choice/set":
		if name == nil {
			return reject("Name missing")
		}
		if _, ok := c.fields[fStrategy]; !ok {
			return reject("Strategy missing")
		}
		st := c.str(fStrategy)
		if st == nil {
			return reject("Strategy without a name")
		}
		scl, reason, resolved := strategyEval(*st)
		if scl == clReject {
			return reject(reason)
		}
		cl = weaker(cl, scl)
		echo[fName] = *name
		if scl == clAccept {
			echo[fStrategy] = resolved
		}
		return expectation{cl: cl, echo: echo, effect: func(m *model) string { m.strat[*name] = resolved; return "" }}
	case "strategy-choice/unset":
		if name == nil {
			return reject("Name missing")
		}
		if *name == "/" {
			return reject("the root strategy cannot be unset")
		}
		echo[fName] = *name
		return expectation{cl: cl, echo: echo, effect: func(m *model) string { delete(m.strat, *name); return "" }}
	case "cs/config":
		if (c.nat(fFlags) == nil) != (c.nat(fMask) == nil) {
			return reject("Flags and Mask not both present")
		}
		capacity := c.nat(fCapacity)
		if capacity != nil {
			if *capacity > 1<<62 {
				cl = weaker(cl, clMay)
			}
			echo[fCapacity] = *capacity
		}
		return expectation{cl: cl, echo: echo, effect: func(m *model) string {
			if capacity != nil {
				m.csCap = int(*capacity)
			}
			return ""
		}}
	case "faces/update", "faces/create":
		var target *faceAttr
		if key == "faces/update" {
			if !faceExists {
				return reject("face does not exist")
			}
			target = m.faces[face]
			if target.uri == "null://" || target.uri == "internal://" {
				cl = weaker(cl, clMay)
			}
			echo[fFaceId] = face
		} else {
			uri := c.str(fUri)
			if uri == nil {
				return reject("Uri missing")
			}
			switch *uri {
			case "udp4://127.0.0.1:7001":
				if !loopbackOK() {
					cl = weaker(cl, clMay) // no loopback UDP in this environment: a transport error is legitimate
				}
				for _, f := range m.faces {
					if f.uri == *uri {
						return reject("Uri conflicts with an existing face")
					}
				}
			case appRemote:
				return reject("Uri of an unsupported scheme or conflicting with an existing face")
			case "udp4://224.0.0.1:6363":
				return reject("Uri is not unicast")
			case "udp4://127.0.0.1:0":
				return reject("Uri without a port")
			default:
				return reject("Uri cannot be canonized or has an unsupported scheme")
			}
		}
		if (c.nat(fFlags) == nil) != (c.nat(fMask) == nil) {
			return reject("Flags and Mask not both present")
		}
		pers := c.nat(fPersistency)
		if pers != nil {
			if *pers > 2 {
				return reject("FacePersistency out of range")
			}
			if key == "faces/create" && *pers == 1 {
				return reject("on-demand persistency requested for a created face")
			}
			if key == "faces/update" {
				// which persistencies a transport supports is the implementation's business
				udp := strings.HasPrefix(target.uri, "udp4://")
				unix := strings.HasPrefix(target.local, "unix://")
				if (udp && *pers == 1) || (unix && *pers != 0) {
					cl = weaker(cl, clMay)
				}
			}
		}
		mtu := -1
		if p := c.nat(fMtu); p != nil {
			mcl, reason, eff := mtuClass(*p)
			if mcl == clReject {
				return reject(reason)
			}
			cl = weaker(cl, mcl)
			mtu = eff
			echo[fMtu] = uint64(eff)
		}
		flags, mask := orDefault(c.nat(fFlags), 0), orDefault(c.nat(fMask), 0)
		if flags > 7 || mask > 7 {
			cl = weaker(cl, clMay)
		}
		apply := func(f *faceAttr) {
			if pers != nil {
				f.persist = *pers
			}
			if mtu >= 0 {
				f.mtu = mtu
			}
			if mask&1 != 0 {
				f.localFields = flags&1 != 0
			}
			if mask&4 != 0 {
				f.congestion = flags&4 != 0
			}
		}
		if key == "faces/update" {
			return expectation{cl: cl, echo: echo, effect: func(m *model) string { apply(m.faces[face]); return "" }}
		}
		uri := *c.str(fUri)
		return expectation{cl: cl, echo: echo, effect: func(m *model) string {
			f := &faceAttr{id: m.nextFace, uri: uri, local: createdLocalURI, scope: 1, mtu: 8800, baseInterval: 100_000_000, threshold: 65536}
			apply(f)
			m.faces[f.id] = f
			m.nextFace++
			return ""
		}}
	case "faces/destroy":
		id := c.nat(fFaceId)
		if id == nil {
			return reject("FaceId missing")
		}
		if _, ok := m.faces[*id]; !ok {
			cl = weaker(cl, clMay)
		}
		echo[fFaceId] = *id
		return expectation{cl: cl, echo: echo, effect: func(m *model) string {
			if _, ok := m.faces[*id]; !ok {
				return ""
			}
			delete(m.faces, *id)
			for p, rs := range m.rib {
				var keep []*mroute
				for _, r := range rs {
					if r.face != *id {
						keep = append(keep, r)
					}
				}
				if len(keep) == 0 {
					delete(m.rib, p)
				} else {
					m.rib[p] = keep
				}
			}
			return "/"
		}}
	}
	panic("harness: no expectation for " + key)
}

// syncFib settles the parts of the FIB model that a RIB recomputation below `affected` decides:
// a prefix that has routes must hold exactly the flattening of the routes (property C06, verified
// there in depth); what a recomputation leaves at a prefix without routes is not this property's
// business and is taken over from the real table.
func (m *model) syncFib(affected string, real snapshot) {
	if affected == "" {
		return
	}
	seen := map[string]bool{}
	for _, src := range []map[string]map[uint64]uint64{m.fib, real.fib} {
		for q := range src {
			seen[q] = true
		}
	}
	for q := range m.rib {
		seen[q] = true
	}
	for q := range seen {
		if !isPrefixURI(affected, q) {
			continue
		}
		if len(m.rib[q]) > 0 {
			m.fib[q] = m.flatten(q)
			if len(m.fib[q]) == 0 {
				delete(m.fib, q)
			}
		} else if h, ok := real.fib[q]; ok {
			c := map[uint64]uint64{}
			for f, v := range h {
				c[f] = v
			}
			m.fib[q] = c
		} else {
			delete(m.fib, q)
		}
	}
}

// diff lists the tables in which two snapshots differ.
func diff(want, got snapshot) (tables []string, detail string) {
	var d []string
	cmpKeys := func(table string, a, b []string, av, bv func(string) string) {
		set := map[string]bool{}
		for _, k := range a {
			set[k] = true
		}
		for _, k := range b {
			set[k] = true
		}
		bad := false
		for _, k := range sortedKeys(set) {
			x, y := av(k), bv(k)
			if x != y {
				bad = true
				d = append(d, fmt.Sprintf("%s[%s]: want %s, have %s", table, k, x, y))
			}
		}
		if bad {
			tables = append(tables, table)
		}
	}
	none := "(none)"
	cmpKeys("RIB", sortedKeys(want.rib), sortedKeys(got.rib),
		func(k string) string {
			if v, ok := want.rib[k]; ok {
				return fmt.Sprint(v)
			}
			return none
		}, func(k string) string {
			if v, ok := got.rib[k]; ok {
				return fmt.Sprint(v)
			}
			return none
		})
	cmpKeys("FIB", sortedKeys(want.fib), sortedKeys(got.fib),
		func(k string) string {
			if v, ok := want.fib[k]; ok {
				return fibStr(v)
			}
			return none
		}, func(k string) string {
			if v, ok := got.fib[k]; ok {
				return fibStr(v)
			}
			return none
		})
	cmpKeys("strategy table", sortedKeys(want.strat), sortedKeys(got.strat),
		func(k string) string {
			if v, ok := want.strat[k]; ok {
				return v
			}
			return none
		}, func(k string) string {
			if v, ok := got.strat[k]; ok {
				return v
			}
			return none
		})
	if want.csCap != got.csCap {
		tables = append(tables, "CS capacity")
		d = append(d, fmt.Sprintf("CS capacity: want %d, have %d", want.csCap, got.csCap))
	}
	fk := func(m map[uint64]faceAttr) []string {
		var k []string
		for id := range m {
			k = append(k, fmt.Sprintf("%020d", id))
		}
		return k
	}
	fv := func(m map[uint64]faceAttr) func(string) string {
		return func(k string) string {
			id, _ := strconv.ParseUint(k, 10, 64)
			if v, ok := m[id]; ok {
				return v.String()
			}
			return none
		}
	}
	cmpKeys("face table", fk(want.faces), fk(got.faces), fv(want.faces), fv(got.faces))
	return tables, strings.Join(d, "; ")
}
