package main

// Pair / single / triple laws on a name universe (C14.total, .canon, .eq, .hash, .prefix).

import (
	"bytes"
	"fmt"
	"sort"
	"strings"
	"sync/atomic"
	"time"

	enc "github.com/named-data/ndnd/std/encoding"
	"verif/mc/enum"
	"verif/mc/report"
)

type nameUniverse struct {
	label string
	phase int64
	o     []oname
	key   []string
	a, b  []enc.Name // two Go representations of the same names
	wire  [][]byte   // real Name.Bytes() of a[i]
	hashA []uint64   // real Hash of a[i]
	hashB []uint64
	phB   [][]uint64 // real PrefixHash of b[i]
	// already[i]: the name also belonged to an earlier, completed universe (pairs of two such
	// names are not counted as distinct cases again); nil = do not count this universe at all
	already []bool
	// matrices of real results (only when keepMatrix)
	keepMatrix bool
	cmp        []int8
	eq, pre    []bool
}

type pairStats struct {
	pairs, evals                   atomic.Int64
	cmpLt, cmpEq, cmpGt            atomic.Int64
	prefixTrue, equalTrue          atomic.Int64
	collisions, distinct           atomic.Int64
	byType, byLen, byVal, byPrefix atomic.Int64
}

func buildUniverse(label string, phase int64, names []oname, keepMatrix bool) *nameUniverse {
	u := &nameUniverse{label: label, phase: phase, o: names, keepMatrix: keepMatrix}
	n := len(names)
	u.key = make([]string, n)
	u.a = make([]enc.Name, n)
	u.b = make([]enc.Name, n)
	u.wire = make([][]byte, n)
	u.hashA = make([]uint64, n)
	u.hashB = make([]uint64, n)
	u.phB = make([][]uint64, n)
	enum.Range(int64(n), time.Time{}, func(i int64) {
		o := names[i]
		u.key[i] = oKey(o)
		u.a[i] = real(o, 0)
		u.b[i] = real(o, 1)
		if pi := guard(func() { u.wire[i] = u.a[i].Bytes() }); pi != nil {
			u.wire[i] = nil // reported by checkWire (run by singles / the long-value phase)
		}
		u.hashA[i] = u.a[i].Hash()
		u.hashB[i] = u.b[i].Hash()
		u.phB[i] = u.b[i].PrefixHash()
	})
	if keepMatrix {
		u.cmp = make([]int8, n*n)
		u.eq = make([]bool, n*n)
		u.pre = make([]bool, n*n)
	}
	return u
}

func (u *nameUniverse) replay(i, j int) any {
	return map[string]any{"kind": "pair", "a": u.o[i].JSON(), "b": u.o[j].JSON()}
}

// singles: per-name laws.
func (u *nameUniverse) singles(col *collector, st *pairStats, deadline time.Time) (int64, bool) {
	return enum.Range(int64(len(u.o)), deadline, func(ii int64) {
		i := int(ii)
		checkSingle(col, u.phase, ii, u.o[i])
		st.evals.Add(1)
	})
}

func checkSingle(col *collector, phase, idx int64, o oname) {
	w := phase<<60 | idx
	a, b := real(o, 0), real(o, 1)
	rp := func() any { return map[string]any{"kind": "single", "a": o.JSON()} }
	// representation independence / determinism of Hash and Bytes
	ha, hb := a.Hash(), b.Hash()
	if ha != hb || ha != a.Hash() {
		col.note("C14.hash", "equal names hash differently (nil vs empty representation / repeated call)"+countClass(o), w, func() (string, any) {
			return fmt.Sprintf("name %s: Hash()=%#x, Hash() of an equal copy=%#x, repeated=%#x", o.Short(), ha, hb, a.Hash()), rp()
		})
	}
	if !bytes.Equal(a.Bytes(), b.Bytes()) {
		col.note("C14.eq", "equal names have different Bytes()", w, func() (string, any) {
			return fmt.Sprintf("name %s: Bytes() differ between two equal copies", o.Short()), rp()
		})
	}
	checkWire(col, w, o)
	// prefix hashes
	ph := a.PrefixHash()
	if len(ph) != len(o)+1 {
		col.note("C14.hash", "PrefixHash has wrong length", w, func() (string, any) {
			return fmt.Sprintf("name %s: len(PrefixHash())=%d, want %d", o.Short(), len(ph), len(o)+1), rp()
		})
		return
	}
	for _, k := range prefixIdx(len(o)) {
		sub := a[:k].Hash()   // slice of the same name
		ind := real(o[:k], 1) // independently built k-component prefix
		if ph[k] != sub || ph[k] != ind.Hash() {
			kk := k
			col.note("C14.hash", "PrefixHash()[i] != Hash() of the i-component prefix"+countClass(o), w, func() (string, any) {
				return fmt.Sprintf("name %s: PrefixHash()[%d]=%#x, n[:%d].Hash()=%#x, independently built prefix Hash()=%#x",
					o.Short(), kk, ph[kk], kk, sub, ind.Hash()), rp()
			})
			break
		}
	}
	// purity: a hash is a function of the name alone, whatever was hashed just before it (the
	// hashers are pooled objects shared by Name.Hash, Name.PrefixHash and Component.Hash)
	if len(a) > 0 {
		before := []struct {
			what string
			f    func()
		}{
			{"Component.Hash()", func() { _ = a[len(a)-1].Hash() }},
			{"Name.PrefixHash()", func() { _ = b.PrefixHash() }},
			{"Name.Hash()", func() { _ = b.Hash() }},
		}
		for _, p := range before {
			p.f()
			h2 := a.Hash()
			p.f()
			ph2 := a.PrefixHash()
			same := h2 == ha && len(ph2) == len(ph)
			for k := 0; same && k < len(ph); k++ {
				same = ph2[k] == ph[k]
			}
			if !same {
				what := p.what
				col.note("C14.hash", "hash of a name depends on what was hashed just before it ("+what+")", w, func() (string, any) {
					return fmt.Sprintf("name %s: Hash()=%#x, right after a call of %s: Hash()=%#x, PrefixHash()=%#x (was %#x)", o.Short(), ha, what, h2, ph2, ph), rp()
				})
				break
			}
		}
	}
	// reflexivity
	if c := a.Compare(b); c != 0 {
		col.note("C14.total", "Compare(n,n) != 0", w, func() (string, any) {
			return fmt.Sprintf("name %s: Compare with an equal copy = %d", o.Short(), c), rp()
		})
	}
	if !a.Equal(b) || !b.Equal(a) {
		col.note("C14.eq", "Equal(n,n) false", w, func() (string, any) {
			return fmt.Sprintf("name %s: Equal with an equal copy is false", o.Short()), rp()
		})
	}
	if !a.IsPrefix(b) {
		col.note("C14.prefix", "IsPrefix(n,n) false", w, func() (string, any) {
			return fmt.Sprintf("name %s: IsPrefix of an equal copy is false", o.Short()), rp()
		})
	}
}

// pairRow evaluates all pairs (i, j≥i): a[i] against b[j] in both directions.
func (u *nameUniverse) pairRow(col *collector, st *pairStats, smp *report.Samples, i int, eqOnly bool) {
	n := len(u.o)
	var lt, eqc, gt, pt, et, coll, bt, bl, bv, bp, dist int64
	for j := i; j < n; j++ {
		checkPair(col, u, i, j, eqOnly, &lt, &eqc, &gt, &pt, &et, &coll, &bt, &bl, &bv, &bp)
		if u.already != nil && !(u.already[i] && u.already[j]) && u.key[i] != u.key[j] {
			dist++
		}
	}
	st.distinct.Add(dist)
	if smp != nil && i%97 == 3 && i+1 < n {
		j := i + 1
		oc, where := oCmp(u.o[i], u.o[j])
		smp.Offer(fmt.Sprintf("[%s] Compare(%s, %s)=%d (reference %d, decided by %s); Equal=%v IsPrefix=%v Hash=%#x/%#x",
			u.label, u.o[i], u.o[j], u.a[i].Compare(u.b[j]), oc, where, u.a[i].Equal(u.b[j]), u.a[i].IsPrefix(u.b[j]), u.hashA[i], u.hashB[j]))
	}
	st.pairs.Add(int64(n - i))
	st.evals.Add(int64(n-i) * 6)
	st.cmpLt.Add(lt)
	st.cmpEq.Add(eqc)
	st.cmpGt.Add(gt)
	st.prefixTrue.Add(pt)
	st.equalTrue.Add(et)
	st.collisions.Add(coll)
	st.byType.Add(bt)
	st.byLen.Add(bl)
	st.byVal.Add(bv)
	st.byPrefix.Add(bp)
}

func checkPair(col *collector, u *nameUniverse, i, j int, eqOnly bool, lt, eqc, gt, pt, et, coll, bt, bl, bv, bp *int64) {
	n := len(u.o)
	w := u.phase<<60 | int64(i)*int64(n) + int64(j)
	a, b := u.a[i], u.b[j]
	oa, ob := u.o[i], u.o[j]
	oc, where := oCmp(oa, ob)
	// harness self-check: the two references agree
	if sign(strings.Compare(u.key[i], u.key[j])) != oc {
		report.Fatal("C14 harness: reference orders disagree on %s vs %s", oa.Short(), ob.Short())
	}
	oeq := oc == 0
	desc := func() string { return fmt.Sprintf("a=%s b=%s", oa.Short(), ob.Short()) }
	rp := func() any { return u.replay(i, j) }

	e1, e2 := a.Equal(b), b.Equal(a)
	weq := bytes.Equal(u.wire[i], u.wire[j])
	if u.wire[i] == nil || u.wire[j] == nil { // Bytes() panicked: reported separately
		weq = e1
	}
	if e1 != e2 {
		col.note("C14.eq", "Equal is not symmetric", w, func() (string, any) {
			return fmt.Sprintf("%s: a.Equal(b)=%v b.Equal(a)=%v", desc(), e1, e2), rp()
		})
	}
	if e1 != weq {
		key := "distinct names have identical Bytes()"
		if e1 {
			key = "Equal names have different Bytes()"
		} else if maxValLen(oa) >= 253 || maxValLen(ob) >= 253 {
			key = "distinct names have identical Bytes() (a component value of >= 253 bytes)"
		}
		col.note("C14.eq", key, w, func() (string, any) {
			return fmt.Sprintf("%s: Equal=%v but Bytes() equal=%v (len %d / %d)", desc(), e1, weq, len(u.wire[i]), len(u.wire[j])), rp()
		})
	}
	if e1 != oeq {
		col.note("C14.eq", "Equal disagrees with component-wise identity (differs in "+where+")", w, func() (string, any) {
			return fmt.Sprintf("%s: Equal=%v, names identical=%v", desc(), e1, oeq), rp()
		})
	}
	if e1 {
		*et++
	}
	if eqOnly {
		return
	}

	c1, c2 := sign(a.Compare(b)), sign(b.Compare(a))
	switch c1 {
	case -1:
		*lt++
	case 0:
		*eqc++
	default:
		*gt++
	}
	switch where {
	case "type":
		*bt++
	case "length":
		*bl++
	case "value":
		*bv++
	case "prefix":
		*bp++
	}
	if c1 != -c2 {
		col.note("C14.total", "Compare is not antisymmetric (decided by "+where+")", w, func() (string, any) {
			return fmt.Sprintf("%s: Compare(a,b)=%d Compare(b,a)=%d", desc(), c1, c2), rp()
		})
	}
	if c1 != oc {
		col.note("C14.canon", "Compare disagrees with NDN canonical order (pair decided by "+where+")", w, func() (string, any) {
			return fmt.Sprintf("%s: Compare(a,b)=%d, canonical order says %d (first difference: %s)", desc(), c1, oc, where), rp()
		})
	}
	if e1 != (c1 == 0) {
		col.note("C14.eq", "Equal disagrees with Compare==0", w, func() (string, any) {
			return fmt.Sprintf("%s: Equal=%v Compare=%d", desc(), e1, c1), rp()
		})
	}

	p1, p2 := a.IsPrefix(b), b.IsPrefix(a)
	op1, op2 := oIsPrefix(oa, ob), oIsPrefix(ob, oa)
	if p1 != op1 || p2 != op2 {
		col.note("C14.prefix", "IsPrefix disagrees with the component-wise prefix relation", w, func() (string, any) {
			return fmt.Sprintf("%s: a.IsPrefix(b)=%v (reference %v), b.IsPrefix(a)=%v (reference %v)", desc(), p1, op1, p2, op2), rp()
		})
	}
	if p1 {
		*pt++
	}
	if p2 && i != j {
		*pt++
	}

	if oeq {
		if u.hashA[i] != u.hashB[j] {
			col.note("C14.hash", "equal names hash differently", w, func() (string, any) {
				return fmt.Sprintf("%s: Hash %#x vs %#x", desc(), u.hashA[i], u.hashB[j]), rp()
			})
		}
	} else if u.hashA[i] == u.hashB[j] {
		*coll++ // evidence only
	}
	if op1 && len(u.phB[j]) > len(oa) && u.phB[j][len(oa)] != u.hashA[i] {
		col.note("C14.hash", "PrefixHash()[i] != Hash() of the i-component prefix"+countClass(ob), w, func() (string, any) {
			return fmt.Sprintf("%s: b.PrefixHash()[%d]=%#x but a.Hash()=%#x and a is the %d-component prefix of b", desc(), len(oa), u.phB[j][len(oa)], u.hashA[i], len(oa)), rp()
		})
	}
	if op2 && len(u.phB[i]) > len(ob) && u.phB[i][len(ob)] != u.hashB[j] {
		col.note("C14.hash", "PrefixHash()[i] != Hash() of the i-component prefix"+countClass(oa), w, func() (string, any) {
			return fmt.Sprintf("%s: a.PrefixHash()[%d]=%#x but b.Hash()=%#x and b is the %d-component prefix of a", desc(), len(ob), u.phB[i][len(ob)], u.hashB[j], len(ob)), rp()
		})
	}
	if u.keepMatrix {
		u.cmp[i*n+j], u.cmp[j*n+i] = int8(c1), int8(c2)
		u.eq[i*n+j], u.eq[j*n+i] = e1, e2
		u.pre[i*n+j], u.pre[j*n+i] = p1, p2
	}
}

func maxValLen(n oname) int {
	m := 0
	for _, c := range n {
		if len(c.val) > m {
			m = len(c.val)
		}
	}
	return m
}

func (u *nameUniverse) pairs(col *collector, st *pairStats, smp *report.Samples, deadline time.Time, eqOnly bool) (int64, bool) {
	return enum.Range(int64(len(u.o)), deadline, func(i int64) { u.pairRow(col, st, smp, int(i), eqOnly) })
}

// triples: transitivity and congruence laws on the matrices of REAL results. The triple universe
// holds every name twice (the two Go representations), so Equal-related triples are non-trivial.
func triples(col *collector, u *nameUniverse, deadline time.Time) (int64, bool) {
	n := len(u.o)
	rp := func(a, b, c int) any {
		return map[string]any{"kind": "triple", "a": u.o[a].JSON(), "b": u.o[b].JSON(), "c": u.o[c].JSON()}
	}
	var cnt atomic.Int64
	_, complete := enum.Range(int64(n)*int64(n), deadline, func(ab int64) {
		a, b := int(ab)/n, int(ab)%n
		cab, eab, pab := u.cmp[a*n+b], u.eq[a*n+b], u.pre[a*n+b]
		for c := 0; c < n; c++ {
			cbc, cac := u.cmp[b*n+c], u.cmp[a*n+c]
			w := u.phase<<60 | (int64(a)*int64(n)+int64(b))*int64(n) + int64(c)
			if cab <= 0 && cbc <= 0 && (cac > 0 || ((cab < 0 || cbc < 0) && cac == 0)) {
				col.note("C14.total", "Compare is not transitive", w, func() (string, any) {
					return fmt.Sprintf("a=%s b=%s c=%s: Compare(a,b)=%d Compare(b,c)=%d Compare(a,c)=%d", u.o[a], u.o[b], u.o[c], cab, cbc, cac), rp(a, b, c)
				})
			}
			if eab && u.eq[b*n+c] && !u.eq[a*n+c] {
				col.note("C14.eq", "Equal is not transitive", w, func() (string, any) {
					return fmt.Sprintf("a=%s b=%s c=%s", u.o[a], u.o[b], u.o[c]), rp(a, b, c)
				})
			}
			if eab && (cac != cbc || u.pre[a*n+c] != u.pre[b*n+c] || u.pre[c*n+a] != u.pre[c*n+b]) {
				col.note("C14.eq", "Equal names are not interchangeable in Compare/IsPrefix", w, func() (string, any) {
					return fmt.Sprintf("a=%s b=%s c=%s", u.o[a], u.o[b], u.o[c]), rp(a, b, c)
				})
			}
			if pab && u.pre[b*n+c] && !u.pre[a*n+c] {
				col.note("C14.prefix", "IsPrefix is not transitive", w, func() (string, any) {
					return fmt.Sprintf("a=%s b=%s c=%s", u.o[a], u.o[b], u.o[c]), rp(a, b, c)
				})
			}
			if pab && cab > 0 {
				col.note("C14.prefix", "a prefix sorts after the name it is a prefix of", w, func() (string, any) {
					return fmt.Sprintf("a=%s b=%s", u.o[a], u.o[b]), rp(a, b, b)
				})
			}
		}
		cnt.Add(int64(n))
	})
	return cnt.Load(), complete
}

// hashCollisions counts distinct names of the universe sharing a Hash (evidence, not a violation).
func (u *nameUniverse) hashCollisions() (int, string) {
	seen := map[uint64]int{}
	c := 0
	ex := ""
	for i, h := range u.hashA {
		if j, ok := seen[h]; ok {
			c++
			if ex == "" {
				ex = fmt.Sprintf("%s and %s both hash to %#x", u.o[j].Short(), u.o[i].Short(), h)
			}
		} else {
			seen[h] = i
		}
	}
	return c, ex
}

// markSeen prepares distinct-case counting for this universe against the names of earlier ones.
func (u *nameUniverse) markSeen(seen map[string]bool) {
	u.already = make([]bool, len(u.o))
	for i, k := range u.key {
		u.already[i] = seen[k]
	}
}

func (u *nameUniverse) addSeen(seen map[string]bool) {
	for _, k := range u.key {
		seen[k] = true
	}
}

// checkWire: Bytes() must be an encoding OF the name: it decodes back (NameFromBytes) to an equal
// name, and every component's Bytes() decodes back (ComponentFromBytes) to an equal component.
// Without this "equality coincides with equality of encodings" would be vacuous for a Bytes()
// that drops or mangles part of the name. A panic in Bytes() is reported here as well.
func checkWire(col *collector, w int64, o oname) {
	rp := func() any { return map[string]any{"kind": "wire", "a": o.JSON()} }
	n := real(o, 0)
	var wire []byte
	var back enc.Name
	var err error
	if pi := guard(func() { wire = n.Bytes() }); pi != nil {
		col.note("C14.eq", "Name.Bytes(): "+pi.key()+lenClass(o), w, func() (string, any) {
			return fmt.Sprintf("name %s: Bytes() panics: %s", o.Short(), pi.raw), rp()
		})
		return
	}
	pi := guard(func() { back, err = enc.NameFromBytes(wire) })
	switch {
	case pi != nil:
		col.note("C14.eq", "NameFromBytes(n.Bytes()): "+pi.key()+lenClass(o), w, func() (string, any) {
			return fmt.Sprintf("name %s: NameFromBytes(Bytes()) panics: %s", o.Short(), pi.raw), rp()
		})
	case err != nil:
		col.note("C14.eq", "n.Bytes() does not decode (NameFromBytes error)"+lenClass(o), w, func() (string, any) {
			return fmt.Sprintf("name %s: len(Bytes())=%d, NameFromBytes error: %v", o.Short(), len(wire), err), rp()
		})
	case !sameName(back, o) || !back.Equal(n) || !n.Equal(back):
		col.note("C14.eq", "n.Bytes() decodes to a different name"+lenClass(o), w, func() (string, any) {
			return fmt.Sprintf("name %s: NameFromBytes(Bytes()) = %s", o.Short(), fromReal(back).Short()), rp()
		})
	}
	for _, c := range o {
		rc := realComp(c, 0)
		var cw []byte
		var cb enc.Component
		var cerr error
		cpi := guard(func() { cw = rc.Bytes(); cb, cerr = enc.ComponentFromBytes(cw) })
		if cpi != nil || cerr != nil || !sameComp(cb, c) || !cb.Equal(rc) {
			cc := c
			col.note("C14.eq", "ComponentFromBytes(c.Bytes()) != c"+lenClass(oname{c}), w, func() (string, any) {
				res := fmt.Sprintf("err=%v, decoded value length %d", cerr, len(cb.Val))
				if cpi != nil {
					res = "panic " + cpi.raw
				}
				return fmt.Sprintf("component %s (value length %d): len(Bytes())=%d, %s", oname{cc}.Short(), len(cc.val), len(cw), res), rp()
			})
			break
		}
	}
}

func lenClass(o oname) string {
	if maxValLen(o) >= 253 {
		return " (a component value of >= 253 bytes)"
	}
	return ""
}

// sizeThresholdCounts: component counts k at which some size of a k-component name crosses a
// power-of-two / TLV-width threshold, for per-component sizes u: 2,3,4,… bytes of TLV, 8,9,10,…
// bytes fed to the hash (8-byte type + value), 16/24/32 bytes of in-memory component header.
// Every k = floor(t/u) + {-1,0,1,2} for t in {128,253,256,512,1024,4096,65535,65536}.
func sizeThresholdCounts(maxK int) []int {
	set := map[int]bool{}
	for _, t := range []int{128, 253, 256, 512, 1024, 4096, 65535, 65536} {
		for _, u := range []int{2, 3, 4, 5, 6, 8, 9, 10, 11, 12, 16, 24, 32} {
			for d := -1; d <= 2; d++ {
				if k := t/u + d; k >= 0 && k <= maxK {
					set[k] = true
				}
			}
		}
	}
	r := make([]int, 0, len(set))
	for k := range set {
		r = append(r, k)
	}
	sort.Ints(r)
	return r
}

// prefixIdx: which prefixes of an n-component name are compared with PrefixHash: all of them up
// to 160 components, the threshold counts (and the ends) beyond.
func prefixIdx(n int) []int {
	if n <= 160 {
		r := make([]int, n+1)
		for i := range r {
			r[i] = i
		}
		return r
	}
	r := append(sizeThresholdCounts(n), n-1, n)
	sort.Ints(r)
	return r
}

func countClass(o oname) string {
	if len(o) >= 16 {
		return " (name of >= 16 components)"
	}
	return ""
}
