package main

// Value-LENGTH, numeric-MAGNITUDE and type-NUMBER dimensions of the URI clause and of the parsers.
//
// The other URI universes vary the value bytes (all 256 single bytes, the escape-relevant
// characters) but keep values at most a few bytes long. Here the length itself is the axis:
//
//	String -> parse: every component type family (hex conventions, decimal conventions, generic,
//	  other-typed at the type-number width boundaries) x every value length of a length set (all of
//	  0..72, then both sides of every power of two / TLV length boundary up to 4097; thorough: all of
//	  0..300 and boundaries up to 65537) x every fill pattern (bytes printed verbatim, bytes
//	  escaped, bytes that are URI-special, position-dependent bytes): component and name round trip;
//	parser input: every typed prefix the printer can produce (discovered from Component.String over
//	  ALL types 1..65535, plus numeric and unknown prefixes) x every repeat count of a unit string
//	  (hex digits, decimal digits, escapes, truncated escapes, separators, non-ASCII) x four
//	  wrappings (bare, "/x", "/a/x/b", "<x>"), fed to all four parsers;
//	decimal magnitudes: every power of two and of ten +-1 in shortest form under every decimal
//	  convention, and their decimal strings (incl. the ones past 2^64) as parser input;
//	type numbers: EVERY type 1..65535 x a few values (incl. a 33-byte one) through the round trip.
//
// Odometers only. The oracle is the one of uri.go: round trip for covered names, no panic ever.

import (
	"fmt"
	"math/big"
	"sort"
	"strings"
	"sync/atomic"
	"time"

	enc "github.com/named-data/ndnd/std/encoding"
	"verif/mc/enum"
	"verif/mc/report"
)

// lengthSet: every length 0..dense, then l-1,l,l+1 around every boundary up to max.
func lengthSet(dense, max int) []int {
	set := map[int]bool{}
	for l := 0; l <= dense; l++ {
		set[l] = true
	}
	bnd := []int{96, 100, 253, 255, 1000}
	for p := 64; p <= max; p *= 2 {
		bnd = append(bnd, p)
	}
	for _, b := range bnd {
		for d := -1; d <= 1; d++ {
			if b+d >= 0 && b+d <= max+1 {
				set[b+d] = true
			}
		}
	}
	// the one-byte -> three-byte TLV length boundary, completely
	for l := 250; l <= 258 && l <= max; l++ {
		set[l] = true
	}
	var r []int
	for l := range set {
		r = append(r, l)
	}
	sort.Ints(r)
	return r
}

// lengthTypes: one or more types of every URI value-format family, and the other-typed ones at the
// TLV-width boundaries of the type number (every type number is walked by allTypesPhase).
var lengthTypes = []uint64{1, 2, 8, 9, 0x20, 0x32, 0x34, 0x36, 0x38, 0x3a, 253, 255, 256, 65535}

type fill struct {
	name string
	at   func(i, l int) byte
}

// fills: how the value bytes of a long value look.
var fills = []fill{
	{"zeros", func(i, l int) byte { return 0 }},
	{"ones", func(i, l int) byte { return 0xff }},
	{"indexed", func(i, l int) byte { return byte(i*37 + 11) }},
	{"letters (printed verbatim)", func(i, l int) byte { return 'a' + byte(i%26) }},
	{"hex-digit letters", func(i, l int) byte { return "0f"[i%2] }},
	{"digits", func(i, l int) byte { return '0' + byte(9-i%10) }},
	{"percent signs", func(i, l int) byte { return '%' }},
	{"periods", func(i, l int) byte { return '.' }},
	{"equals signs", func(i, l int) byte { return '=' }},
	{"slashes", func(i, l int) byte { return '/' }},
	{"leading zero then ones", func(i, l int) byte {
		if i == 0 {
			return 0
		}
		return 0xff
	}},
	{"last byte differs", func(i, l int) byte {
		if i == l-1 {
			return 0x80
		}
		return 0x01
	}},
}

func filled(f fill, l int) []byte {
	v := make([]byte, l)
	for i := range v {
		v[i] = f.at(i, l)
	}
	return v
}

type lengthStats struct {
	lengths, types, fills     int
	comps, covered            atomic.Int64
	maxLen                    int
	prefixes                  []string
	units                     []string
	counts                    int
	maxCount                  int
	parserStrings             atomic.Int64
	magnitudes, magStrings    int
	allTypes                  atomic.Int64
	typeDigitStrings          int
	discoveredConventionNames []string
}

func (ls *lengthStats) JSON() map[string]any {
	return map[string]any{
		"value_lengths":               ls.lengths,
		"max_value_length":            ls.maxLen,
		"types":                       ls.types,
		"fill_patterns":               ls.fills,
		"components":                  ls.comps.Load(),
		"components_covered_by_uri":   ls.covered.Load(),
		"parser_prefixes":             ls.prefixes,
		"parser_units":                fmt.Sprintf("%q", ls.units),
		"parser_repeat_counts":        ls.counts,
		"parser_max_repeat":           ls.maxCount,
		"parser_strings":              ls.parserStrings.Load(),
		"decimal_magnitudes":          ls.magnitudes,
		"decimal_magnitude_strings":   ls.magStrings,
		"all_type_numbers_components": ls.allTypes.Load(),
		"type_digit_strings":          ls.typeDigitStrings,
		"convention_names_discovered": ls.discoveredConventionNames,
	}
}

// bigLengthTypes / bigLengthFills: the reduced grid for the lengths past 258 in the quick tier / 2049 in the
// thorough tier (Component.String is quadratic in the value length, so the full grid stops there).
var bigLengthTypes = []uint64{1, 2, 8, 0x32, 253}
var bigLengthFills = []int{2, 3, 6} // indexed, letters, percent signs

type lengthCase struct {
	l int
	t uint64
	f fill
}

// uriLengthPhase: String -> parse over types x lengths x fills.
func uriLengthPhase(col *collector, us *uriStats, ls *lengthStats, thorough bool, deadline time.Time) (int64, bool) {
	lens, big := lengthSet(72, 256), []int{511, 512, 513, 999, 1000, 1001, 1023, 1024, 1025, 2047, 2048, 2049, 4095, 4096, 4097}
	if thorough {
		lens, big = lengthSet(300, 2048), []int{4095, 4096, 4097, 8191, 8192, 8193, 16383, 16384, 16385, 65535, 65536, 65537}
	}
	var cases []lengthCase
	for _, l := range lens {
		for _, t := range lengthTypes {
			for i, f := range fills {
				if l == 0 && i > 0 {
					break // the empty value has one fill
				}
				cases = append(cases, lengthCase{l, t, f})
			}
		}
	}
	for _, l := range big {
		for _, t := range bigLengthTypes {
			for _, fi := range bigLengthFills {
				if l > 20000 && (fi != 3 || t != 1 && t != 8) {
					continue // the 64 KiB values: one hex-convention and the generic type, letters only
				}
				cases = append(cases, lengthCase{l, t, fills[fi]})
			}
		}
	}
	ls.lengths, ls.types, ls.fills, ls.maxLen = len(lens)+len(big), len(lengthTypes), len(fills), big[len(big)-1]
	ctxA := ocomp{8, []byte("a")}
	return enum.Range(int64(len(cases)), deadline, func(i int64) {
		k := cases[i]
		c := ocomp{k.t, filled(k.f, k.l)}
		w := 5<<60 | 4<<40 | i
		ls.comps.Add(1)
		if coveredComp(c) {
			ls.covered.Add(1)
			checkCompURI(col, us, w, c)
		}
		names := []oname{{ctxA, c}}
		if k.l <= 300 {
			names = append(names, oname{c}, oname{c, ctxA}, oname{c, c})
		}
		for _, o := range names {
			checkNameURI(col, us, w, o, "value-length family ("+k.f.name+")")
		}
	})
}

// conventionNames: the alphabetic typed prefixes the printer produces, discovered by printing an
// empty-valued component of EVERY type 1..65535 (so a convention added to the table later enters
// the parser universe by itself), united with the ones the naming conventions define.
func conventionNames() (all []string, discovered []string) {
	set := map[string]bool{"sha256digest": true, "params-sha256": true, "seg": true, "off": true, "v": true, "t": true, "seq": true}
	for t := 1; t <= 65535; t++ {
		s := enc.Component{Typ: enc.TLNum(t)}.String()
		if i := strings.IndexByte(s, '='); i > 0 && (s[0] < '0' || s[0] > '9') {
			set[s[:i]] = true
			discovered = append(discovered, s[:i])
		}
	}
	for k := range set {
		all = append(all, k)
	}
	sort.Strings(all)
	sort.Strings(discovered)
	return
}

var parseUnits = []string{"0", "9", "f", "F", "g", "ab", "0g", "%41", "%", "%4", "%zz", ".", "=", "/", "-", " ", "\\", "<", ">", "\x80", "\xc3\xa9", "\x00"}

// parseLengthPhase: parser input strings prefix + unit^n in four wrappings.
func parseLengthPhase(col *collector, ps *parseStats, us *uriStats, ls *lengthStats, thorough bool, deadline time.Time) (int64, bool) {
	names, disc := conventionNames()
	ls.discoveredConventionNames = disc
	prefixes := []string{""}
	for _, n := range names {
		prefixes = append(prefixes, n+"=")
	}
	prefixes = append(prefixes, "0=", "1=", "2=", "8=", "08=", "9=", "32=", "50=", "54=", "58=", "253=", "65535=", "65536=", "x=", "SEG=", "sha256=", "=")
	counts := lengthSet(80, 4096)
	followMax := 140
	if thorough {
		followMax = 300
		counts = lengthSet(700, 65536)
	}
	ls.prefixes, ls.units, ls.counts, ls.maxCount = prefixes, parseUnits, len(counts), counts[len(counts)-1]
	nP, nU := int64(len(prefixes)), int64(len(parseUnits))
	return enum.Range(int64(len(counts))*nP*nU, deadline, func(i int64) {
		n := counts[i/(nP*nU)]
		p := prefixes[(i/nU)%nP]
		u := parseUnits[i%nU]
		if n == 0 && i%nU != 0 {
			return
		}
		body := p + strings.Repeat(u, n)
		for _, s := range []string{body, "/" + body, "/a/" + body + "/b", "<" + body + ">"} {
			ls.parserStrings.Add(1)
			// what the parser accepts goes through the round trip while that is affordable (String is
			// quadratic); the long values are covered from the other side by uriLengthPhase
			checkParse(col, ps, us, 7, s, len(body) <= followMax)
		}
	})
}

// magnitudes: 2^k-1, 2^k, 2^k+1 (k<=64) and 10^k-1, 10^k, 10^k+1 (k<=20) as big integers.
func magnitudes() []*big.Int {
	seen := map[string]bool{}
	var r []*big.Int
	add := func(x *big.Int) {
		if x.Sign() < 0 || seen[x.String()] {
			return
		}
		seen[x.String()] = true
		r = append(r, new(big.Int).Set(x))
	}
	one := big.NewInt(1)
	for _, base := range []int64{2, 10} {
		max := 64
		if base == 10 {
			max = 21
		}
		for k := 0; k <= max; k++ {
			x := new(big.Int).Exp(big.NewInt(base), big.NewInt(int64(k)), nil)
			add(new(big.Int).Sub(x, one))
			add(x)
			add(new(big.Int).Add(x, one))
		}
	}
	sort.Slice(r, func(i, j int) bool { return r[i].Cmp(r[j]) < 0 })
	return r
}

// natShortest: the 1/2/4/8-byte NonNegativeInteger encoding of x (independent of enc.Nat).
func natShortest(x uint64) []byte {
	n := 8
	switch {
	case x <= 0xff:
		n = 1
	case x <= 0xffff:
		n = 2
	case x <= 0xffffffff:
		n = 4
	}
	v := make([]byte, n)
	for i := n - 1; i >= 0; i-- {
		v[i] = byte(x)
		x >>= 8
	}
	return v
}

var decTypes = []uint64{0x32, 0x34, 0x36, 0x38, 0x3a}

// magnitudePhase: decimal conventions at every binary / decimal digit-count boundary, both
// directions. The text fixes the result only for the String -> parse direction; a decimal string
// fed to the parser must merely not panic (what it accepts is then pushed through the round trip).
func magnitudePhase(col *collector, ps *parseStats, us *uriStats, ls *lengthStats, deadline time.Time) (int64, bool) {
	mags := magnitudes()
	ls.magnitudes = len(mags)
	names, _ := conventionNames()
	var strs []string
	for _, m := range mags {
		d := m.String()
		for _, n := range names {
			strs = append(strs, n+"="+d, n+"=0"+d, n+"=-"+d, n+"=+"+d, n+"="+d+".0", n+"=0x"+m.Text(16))
		}
		strs = append(strs, d, d+"="+d, d+"=", "54="+d)
	}
	ls.magStrings = len(strs)
	ctxA := ocomp{8, []byte("a")}
	n1, ok1 := enum.Range(int64(len(mags))*int64(len(decTypes)), deadline, func(i int64) {
		m := mags[i/int64(len(decTypes))]
		if !m.IsUint64() {
			return
		}
		c := ocomp{decTypes[i%int64(len(decTypes))], natShortest(m.Uint64())}
		w := 5<<60 | 6<<40 | i
		if !coveredComp(c) {
			report.Fatal("C14 harness: natShortest produced a non-shortest value %s", c)
		}
		checkCompURI(col, us, w, c)
		for _, o := range []oname{{c}, {ctxA, c}, {c, ctxA}, {c, c}} {
			checkNameURI(col, us, w, o, "decimal magnitudes")
		}
	})
	n2, ok2 := enum.Range(int64(len(strs)), deadline, func(i int64) {
		checkParse(col, ps, us, 7, strs[i], true)
		checkParse(col, ps, us, 7, "/"+strs[i]+"/a", true)
	})
	return n1 + 2*n2, ok1 && ok2
}

// allTypesPhase: every type number the URI clause covers x a few values.
func allTypesPhase(col *collector, us *uriStats, ls *lengthStats, deadline time.Time) (int64, bool) {
	long := filled(fills[2], 33)
	vals := [][]byte{nil, []byte("a"), {0x01, 0x00}, long}
	ctxA := ocomp{8, []byte("a")}
	nV := int64(len(vals))
	return enum.Range(65535*nV, deadline, func(i int64) {
		c := ocomp{uint64(i/nV) + 1, vals[i%nV]}
		w := 5<<60 | 5<<40 | i
		ls.allTypes.Add(1)
		if coveredComp(c) {
			checkCompURI(col, us, w, c)
		}
		checkNameURI(col, us, w, oname{ctxA, c}, "all type numbers")
	})
}

// typeDigitsPhase: the type-number part of a typed component as a digit string of every length
// (leading zeros, past 65535, past 2^64), and convention names repeated / truncated.
func typeDigitsPhase(col *collector, ps *parseStats, us *uriStats, ls *lengthStats, deadline time.Time) (int64, bool) {
	var strs []string
	for n := 0; n <= 44; n++ {
		for _, u := range []string{"0", "1", "6", "9"} {
			for _, tail := range []string{"", "8", "1", "54", "65535", "65536"} {
				for _, val := range []string{"", "a", "00", "%41"} {
					strs = append(strs, strings.Repeat(u, n)+tail+"="+val)
				}
			}
		}
	}
	names, _ := conventionNames()
	for _, nm := range names {
		for cut := 0; cut <= len(nm); cut++ {
			strs = append(strs, nm[:cut]+"=00", nm[cut:]+"=00", nm+nm[:cut]+"=00")
		}
	}
	ls.typeDigitStrings = len(strs)
	return enum.Range(int64(len(strs)), deadline, func(i int64) {
		s := strs[i]
		checkParse(col, ps, us, 7, s, true)
		checkParse(col, ps, us, 7, "/a/"+s, true)
		checkParse(col, ps, us, 7, "<"+s+">", true)
	})
}
