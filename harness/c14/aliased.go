package main

// Aliased operands: the same laws as in pairs.go, evaluated on operands that SHARE STORAGE —
// sub-slices n[i:j] of one backing array of Components (and of a shallow copy of it, which shares
// only the value arrays), a name against itself as the very same slice, and components whose Val
// are sub-slices of one byte array. Code that short-cuts on pointer identity (e.g. "same first
// element ⇒ same name") is only wrong on such operands; the universes of pairs.go always hold
// every name in separate storage.

import (
	"bytes"
	"fmt"
	"sync/atomic"
	"time"

	enc "github.com/named-data/ndnd/std/encoding"
	"verif/mc/enum"
)

const aliasSfx = " [operands share a backing array]"

type aliasStats struct {
	namePairs, compPairs  atomic.Int64
	equalTrue, prefixTrue atomic.Int64
}

type rng struct{ i, j int }

func ranges(n int) []rng {
	var r []rng
	for i := 0; i <= n; i++ {
		for j := i; j <= n; j++ {
			r = append(r, rng{i, j})
		}
	}
	return r
}

// nameLaws: all pair clauses on two real operands with reference values oa, ob.
func nameLaws(col *collector, as *aliasStats, w int64, a, b enc.Name, oa, ob oname, how string, rp func() any) {
	nameLawsSfx(col, as, w, a, b, oa, ob, how, rp, aliasSfx)
}

func nameLawsSfx(col *collector, as *aliasStats, w int64, a, b enc.Name, oa, ob oname, how string, rp func() any, aliasSfx string) {
	oc, where := oCmp(oa, ob)
	oeq := oc == 0
	desc := func() string { return fmt.Sprintf("%s; a=%s b=%s", how, oa.Short(), ob.Short()) }
	e1, e2 := a.Equal(b), b.Equal(a)
	if e1 != e2 {
		col.note("C14.eq", "Equal is not symmetric"+aliasSfx, w, func() (string, any) {
			return fmt.Sprintf("%s: a.Equal(b)=%v b.Equal(a)=%v", desc(), e1, e2), rp()
		})
	}
	if e1 != oeq || e2 != oeq {
		col.note("C14.eq", "Equal disagrees with component-wise identity (differs in "+where+")"+aliasSfx, w, func() (string, any) {
			return fmt.Sprintf("%s: a.Equal(b)=%v b.Equal(a)=%v, names identical=%v", desc(), e1, e2, oeq), rp()
		})
	}
	// the derived consistency laws are reported only when Equal itself agrees with the reference
	// (otherwise they restate the same root cause under further keys)
	eqOK := e1 == oeq && e2 == oeq
	if weq := bytes.Equal(a.Bytes(), b.Bytes()); eqOK && e1 != weq {
		col.note("C14.eq", "Equal disagrees with equality of Bytes()"+aliasSfx, w, func() (string, any) {
			return fmt.Sprintf("%s: Equal=%v, Bytes() equal=%v", desc(), e1, weq), rp()
		})
	}
	c1, c2 := sign(a.Compare(b)), sign(b.Compare(a))
	if c1 != -c2 {
		col.note("C14.total", "Compare is not antisymmetric (decided by "+where+")"+aliasSfx, w, func() (string, any) {
			return fmt.Sprintf("%s: Compare(a,b)=%d Compare(b,a)=%d", desc(), c1, c2), rp()
		})
	}
	if c1 != oc {
		col.note("C14.canon", "Compare disagrees with NDN canonical order (pair decided by "+where+")"+aliasSfx, w, func() (string, any) {
			return fmt.Sprintf("%s: Compare(a,b)=%d, canonical order says %d", desc(), c1, oc), rp()
		})
	}
	if eqOK && e1 != (c1 == 0) {
		col.note("C14.eq", "Equal disagrees with Compare==0"+aliasSfx, w, func() (string, any) {
			return fmt.Sprintf("%s: Equal=%v Compare=%d", desc(), e1, c1), rp()
		})
	}
	p1, p2 := a.IsPrefix(b), b.IsPrefix(a)
	op1, op2 := oIsPrefix(oa, ob), oIsPrefix(ob, oa)
	if p1 != op1 || p2 != op2 {
		col.note("C14.prefix", "IsPrefix disagrees with the component-wise prefix relation"+aliasSfx, w, func() (string, any) {
			return fmt.Sprintf("%s: a.IsPrefix(b)=%v (reference %v), b.IsPrefix(a)=%v (reference %v)", desc(), p1, op1, p2, op2), rp()
		})
	}
	if eqOK && (p1 && p2) != e1 {
		col.note("C14.prefix", "mutual IsPrefix disagrees with Equal"+aliasSfx, w, func() (string, any) {
			return fmt.Sprintf("%s: IsPrefix both ways=%v Equal=%v", desc(), p1 && p2, e1), rp()
		})
	}
	ha, hb := a.Hash(), b.Hash()
	if oeq && ha != hb {
		col.note("C14.hash", "equal names hash differently"+aliasSfx, w, func() (string, any) {
			return fmt.Sprintf("%s: %#x vs %#x", desc(), ha, hb), rp()
		})
	}
	if op1 {
		if ph := b.PrefixHash(); len(ph) != len(ob)+1 || ph[len(oa)] != ha {
			col.note("C14.hash", "PrefixHash()[i] != Hash() of the i-component prefix"+aliasSfx, w, func() (string, any) {
				return fmt.Sprintf("%s: b.PrefixHash()=%#x, a.Hash()=%#x, a is the %d-component prefix of b", desc(), ph, ha, len(oa)), rp()
			})
		}
	}
	if e1 {
		as.equalTrue.Add(1)
	}
	if p1 {
		as.prefixTrue.Add(1)
	}
	as.namePairs.Add(1)
}

// aliasedName: every pair of sub-slices of one name (same backing array), and every sub-slice
// against every sub-slice of a shallow copy (distinct Component array, shared value arrays).
func aliasedName(col *collector, as *aliasStats, w int64, o oname) {
	n := real(o, 0)
	if n == nil {
		n = enc.Name{}
	}
	sh := append(make(enc.Name, 0, len(n)+1), n...) // shallow copy with spare capacity
	rs := ranges(len(o))
	k := int64(0)
	rp := func() any { return map[string]any{"kind": "aliased", "a": o.JSON()} }
	for _, x := range rs {
		for _, y := range rs {
			how := fmt.Sprintf("a=n[%d:%d] b=n[%d:%d] (sub-slices of one name)", x.i, x.j, y.i, y.j)
			nameLaws(col, as, w<<8|k, n[x.i:x.j], n[y.i:y.j], o[x.i:x.j], o[y.i:y.j], how, rp)
			k++
			how2 := fmt.Sprintf("a=n[%d:%d] b=m[%d:%d] (m = shallow copy of n, shared value arrays)", x.i, x.j, y.i, y.j)
			nameLaws(col, as, w<<8|k, n[x.i:x.j], sh[y.i:y.j], o[x.i:x.j], o[y.i:y.j], how2, rp)
			k++
		}
	}
}

// aliasedComp: components whose values are sub-slices of ONE byte array, same and different type.
func aliasedComp(col *collector, as *aliasStats, w int64, c ocomp, otherTyp uint64) {
	buf := append([]byte(nil), c.val...)
	rs := ranges(len(buf))
	k := int64(0)
	for _, x := range rs {
		for _, y := range rs {
			for _, t2 := range []uint64{c.typ, otherTyp} {
				oa, ob := ocomp{c.typ, c.val[x.i:x.j]}, ocomp{t2, c.val[y.i:y.j]}
				a := enc.Component{Typ: enc.TLNum(c.typ), Val: buf[x.i:x.j]}
				b := enc.Component{Typ: enc.TLNum(t2), Val: buf[y.i:y.j]}
				rp := func() any {
					return map[string]any{"kind": "aliased-comp", "a": oname{c}.JSON(), "b": oname{{otherTyp, nil}}.JSON(),
						"how": fmt.Sprintf("a.Val=v[%d:%d] b.Val=v[%d:%d] of one array, types %d/%d", x.i, x.j, y.i, y.j, c.typ, t2)}
				}
				compLaws(col, w<<16|k, a, b, oa, ob, aliasSfx, rp)
				// and as single-component names / two-component names sharing the value array
				nameLaws(col, as, w<<16|k, enc.Name{a}, enc.Name{b}, oname{oa}, oname{ob}, "single-component names whose values are sub-slices of one byte array", rp)
				nameLaws(col, as, w<<16|k, enc.Name{a, b}, enc.Name{a}, oname{oa, ob}, oname{oa}, "names built from components whose values are sub-slices of one byte array", rp)
				as.compPairs.Add(1)
				k++
			}
		}
	}
}

func aliasedPhase(col *collector, as *aliasStats, phase int64, names []oname, deadline time.Time) (int64, bool) {
	return enum.Range(int64(len(names)), deadline, func(i int64) {
		aliasedName(col, as, phase<<50|i, names[i])
	})
}

// nameLawsPlain: the pair laws on two names held in SEPARATE storage (used for names too large for
// an all-pairs universe).
func nameLawsPlain(col *collector, as *aliasStats, w int64, oa, ob oname, rp func() any) {
	nameLawsSfx(col, as, w, real(oa, 0), real(ob, 1), oa, ob, "separate storage", rp, countClass(oa))
}
