package main

// Independent reference for C14: names as plain (type, value) sequences, NDN canonical order,
// equality, prefix relation, "covered by the URI clause" predicate. Nothing here calls the code
// under test.

import (
	"encoding/binary"
	"encoding/hex"
	"fmt"
	"strings"

	enc "github.com/named-data/ndnd/std/encoding"
)

type ocomp struct {
	typ uint64
	val []byte
}

type oname []ocomp

func sign(x int) int {
	switch {
	case x < 0:
		return -1
	case x > 0:
		return 1
	}
	return 0
}

// oCmpComp: NDN canonical order of two components: type, then value length, then value bytes.
// `where` says which rule decided.
func oCmpComp(a, b ocomp) (int, string) {
	if a.typ != b.typ {
		if a.typ < b.typ {
			return -1, "type"
		}
		return 1, "type"
	}
	if len(a.val) != len(b.val) {
		if len(a.val) < len(b.val) {
			return -1, "length"
		}
		return 1, "length"
	}
	for i := range a.val {
		if a.val[i] != b.val[i] {
			if a.val[i] < b.val[i] {
				return -1, "value"
			}
			return 1, "value"
		}
	}
	return 0, "equal"
}

// oCmp: component-wise; a proper prefix sorts first.
func oCmp(a, b oname) (int, string) {
	for i := 0; i < len(a) && i < len(b); i++ {
		if c, w := oCmpComp(a[i], b[i]); c != 0 {
			return c, w
		}
	}
	switch {
	case len(a) < len(b):
		return -1, "prefix"
	case len(a) > len(b):
		return 1, "prefix"
	}
	return 0, "equal"
}

func oIsPrefix(a, b oname) bool {
	if len(a) > len(b) {
		return false
	}
	for i := range a {
		if c, _ := oCmpComp(a[i], b[i]); c != 0 {
			return false
		}
	}
	return true
}

// oKey is a second, structurally different oracle: a byte string whose plain lexicographic order
// is the canonical order (fixed-width type and length make every component self-delimiting; a
// shorter string that is a prefix sorts first). The harness cross-checks oCmp against it.
func oKey(n oname) string {
	var sb strings.Builder
	var w [12]byte
	for _, c := range n {
		binary.BigEndian.PutUint64(w[:8], c.typ)
		binary.BigEndian.PutUint32(w[8:], uint32(len(c.val)))
		sb.Write(w[:])
		sb.Write(c.val)
	}
	return sb.String()
}

// Decimal ("typed number") conventions of the NDN naming conventions rev.3:
// seg=50, off=52, v=54, t=56, seq=58. Hex conventions: 1 (sha256digest), 2 (params-sha256).
func isDecConv(t uint64) bool {
	return t == 50 || t == 52 || t == 54 || t == 56 || t == 58
}
func isHexConv(t uint64) bool { return t == 1 || t == 2 }

func compKind(t uint64) string {
	switch {
	case t == 8:
		return "generic"
	case isDecConv(t):
		return "dec-convention"
	case isHexConv(t):
		return "hex-convention"
	}
	return "other-typed"
}

// shortestNat: the value is the shortest NonNegativeInteger encoding (1,2,4,8 bytes) of its number.
func shortestNat(v []byte) bool {
	switch len(v) {
	case 1:
		return true
	case 2:
		return v[0] != 0
	case 4:
		return v[0] != 0 || v[1] != 0
	case 8:
		return v[0] != 0 || v[1] != 0 || v[2] != 0 || v[3] != 0
	}
	return false
}

// coveredComp: what the property's URI sentence quantifies over.
func coveredComp(c ocomp) bool {
	if c.typ < 1 || c.typ > 65535 {
		return false
	}
	if isDecConv(c.typ) {
		return shortestNat(c.val)
	}
	return true
}

func covered(n oname) bool {
	for _, c := range n {
		if !coveredComp(c) {
			return false
		}
	}
	return true
}

// real builds the value handed to the code under test. variant 0: empty values are nil slices
// and the empty name is a nil Name; variant 1: empty values are non-nil zero-length slices, the
// empty name is Name{}; all backing arrays are fresh. Both denote the same name.
func real(n oname, variant int) enc.Name {
	if len(n) == 0 {
		if variant == 0 {
			return nil
		}
		return enc.Name{}
	}
	r := make(enc.Name, len(n))
	for i, c := range n {
		r[i] = realComp(c, variant)
	}
	return r
}

func realComp(c ocomp, variant int) enc.Component {
	var v []byte
	if len(c.val) == 0 {
		if variant == 1 {
			v = []byte{}
		}
	} else {
		v = append([]byte(nil), c.val...)
	}
	return enc.Component{Typ: enc.TLNum(c.typ), Val: v}
}

func fromReal(n enc.Name) oname {
	r := make(oname, len(n))
	for i, c := range n {
		r[i] = ocomp{uint64(c.Typ), append([]byte(nil), c.Val...)}
	}
	return r
}

func (c ocomp) String() string { return fmt.Sprintf("%d:%s", c.typ, hex.EncodeToString(c.val)) }

func (n oname) String() string {
	if len(n) == 0 {
		return "[]"
	}
	p := make([]string, len(n))
	for i, c := range n {
		p[i] = c.String()
	}
	return "[" + strings.Join(p, " ") + "]"
}

// short rendering for long values
func (n oname) Short() string {
	s := n.String()
	if len(s) > 160 {
		return fmt.Sprintf("%s…(%d comps, %d chars)", s[:120], len(n), len(s))
	}
	return s
}

type jcomp struct {
	Typ uint64 `json:"typ"`
	Hex string `json:"val_hex"`
}

func (n oname) JSON() []jcomp {
	r := make([]jcomp, len(n))
	for i, c := range n {
		r[i] = jcomp{c.typ, hex.EncodeToString(c.val)}
	}
	return r
}

func fromJSON(j []jcomp) (oname, error) {
	r := make(oname, len(j))
	for i, c := range j {
		v, err := hex.DecodeString(c.Hex)
		if err != nil {
			return nil, err
		}
		r[i] = ocomp{c.Typ, v}
	}
	return r, nil
}
