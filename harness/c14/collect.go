package main

// Deterministic violation collection: workers run in parallel, so for every (clause,key) the
// counterexample with the smallest weight (smallest universe first, then smallest index / shortest
// string) is the one reported; the number of occurrences is kept as well.

import (
	"fmt"
	"sort"
	"sync"
	"sync/atomic"

	"verif/mc/report"
)

type vent struct {
	clause, key string
	mu          sync.Mutex
	minW        atomic.Int64
	count       atomic.Int64
	detail      string
	replay      any
}

type collector struct {
	m sync.Map // clause|key -> *vent
}

const maxW = int64(^uint64(0) >> 1)

func (c *collector) note(clause, key string, w int64, mk func() (string, any)) {
	k := clause + "|" + key
	var e *vent
	if x, ok := c.m.Load(k); ok {
		e = x.(*vent)
	} else {
		ne := &vent{clause: clause, key: key}
		ne.minW.Store(maxW)
		x, _ := c.m.LoadOrStore(k, ne)
		e = x.(*vent)
	}
	e.count.Add(1)
	if w >= e.minW.Load() {
		return
	}
	e.mu.Lock()
	if w < e.minW.Load() {
		e.detail, e.replay = mk()
		e.minW.Store(w)
	}
	e.mu.Unlock()
}

func (c *collector) flush(rep *report.Reporter) map[string]int64 {
	var all []*vent
	c.m.Range(func(_, v any) bool { all = append(all, v.(*vent)); return true })
	sort.Slice(all, func(i, j int) bool {
		if all[i].clause != all[j].clause {
			return all[i].clause < all[j].clause
		}
		return all[i].key < all[j].key
	})
	counts := map[string]int64{}
	for _, e := range all {
		counts[e.clause+" | "+e.key] = e.count.Load()
		rep.Add(report.Violation{Clause: e.clause, Key: e.key,
			Detail: fmt.Sprintf("%s (occurrences in this run: %d)", e.detail, e.count.Load()), Replay: e.replay})
	}
	return counts
}

// strWeight orders strings by length, then by their first seven bytes.
func strWeight(phase int64, s string) int64 {
	w := int64(0)
	for i := 0; i < 6; i++ {
		w <<= 8
		if i < len(s) {
			w |= int64(s[i])
		}
	}
	l := int64(len(s))
	if l > 127 {
		l = 127
	}
	return phase<<60 | l<<48 | w
}
