package main

import "bytes"

var uTypes = []uint64{1, 2, 8, 0x20, 0x32, 0x36, 253, 65535}

var uValues = [][]byte{
	{}, {0x00}, {0x01}, {0xff}, {0x00, 0x00}, {0x00, 0x01}, {0x01, 0x00},
	[]byte("a"), []byte("."), []byte(".."), []byte("..."), []byte("%"), []byte("="), []byte("/"),
	[]byte("a=b"), {0x80},
}

// allComps: types × values = 128 components.
func allComps() []ocomp {
	var r []ocomp
	for _, t := range uTypes {
		for _, v := range uValues {
			r = append(r, ocomp{t, v})
		}
	}
	return r
}

// core24: the 24-component subset used for the long (≤3) sequences. Chosen so that neighbours
// differ in exactly one byte / one length step / the type only, and so that every URI-special
// value and every value-format family (text, hex, decimal shortest / non-shortest) occurs.
func core24() []ocomp {
	b := func(t uint64, v ...byte) ocomp { return ocomp{t, v} }
	s := func(t uint64, v string) ocomp { return ocomp{t, []byte(v)} }
	return []ocomp{
		b(8), b(8, 0x00), b(8, 0x01), b(8, 0xff), b(8, 0x00, 0x01), b(8, 0x01, 0x00),
		s(8, "a"), s(8, "."), s(8, ".."), s(8, "%"), s(8, "="), s(8, "/"),
		b(1), b(1, 0x00),
		b(2, 0x01),
		b(0x20), s(0x20, "a"),
		b(0x32, 0x00), b(0x32, 0x01), b(0x32, 0x01, 0x00),
		b(0x36, 0x00, 0x01), // decimal convention, NOT shortest form (outside the URI clause)
		b(253), b(253, 0x00),
		b(65535, 0xff),
	}
}

// mid40: core24 plus sixteen more, for the thorough-tier triple universe.
func mid40() []ocomp {
	b := func(t uint64, v ...byte) ocomp { return ocomp{t, v} }
	s := func(t uint64, v string) ocomp { return ocomp{t, []byte(v)} }
	return append(core24(),
		s(8, "..."), s(8, "a=b"), b(8, 0x80), b(8, 0x00, 0x00),
		b(1, 0x01), b(2), b(2, 0x00), b(0x20, 0x00), b(0x32), b(0x32, 0xff), b(0x36, 0x00), b(0x36, 0x01),
		b(253, 0x01), b(65535), b(65535, 0x00), s(65535, "a"))
}

// seqCount: number of sequences of length ≤ k over m symbols.
func seqCount(m, k int) int64 {
	t, p := int64(0), int64(1)
	for l := 0; l <= k; l++ {
		t += p
		p *= int64(m)
	}
	return t
}

// seqAt: the idx-th sequence (ordered by length, then odometer) of length ≤ k over set.
func seqAt(set []ocomp, k int, idx int64) oname {
	m := int64(len(set))
	p := int64(1)
	for l := 0; l <= k; l++ {
		if idx < p {
			n := make(oname, l)
			for d := l - 1; d >= 0; d-- {
				n[d] = set[idx%m]
				idx /= m
			}
			return n
		}
		idx -= p
		p *= m
	}
	panic("seqAt: index out of range")
}

func allSeqs(set []ocomp, k int) []oname {
	n := seqCount(len(set), k)
	r := make([]oname, n)
	for i := int64(0); i < n; i++ {
		r[i] = seqAt(set, k, i)
	}
	return r
}

// byteComps: every one of the 256 single-byte values under each type, multi-byte values mixing
// the escape-relevant characters, and, for the decimal conventions, the 2/4/8-byte shortest forms
// around the width boundaries.
func byteComps() []ocomp {
	var r []ocomp
	types := []uint64{1, 2, 8, 0x20, 0x32, 0x34, 0x36, 0x38, 0x3a, 253, 65535}
	for _, t := range types {
		for v := 0; v < 256; v++ {
			r = append(r, ocomp{t, []byte{byte(v)}})
		}
	}
	// multi-byte values mixing escape-relevant characters
	for _, t := range []uint64{8, 0x20, 253} {
		for _, v := range []string{"%41", "%%", "%2", "a%", "%25", "==", "a/b", "//", "\\", "a\\b", "a b", "<a>", "<", ">", "<v=a>",
			"seg=1", "v=1", "8=a", "=", "=a", "a=", "sha256digest=00", "..%2E", "....", "\xc3\xa9", "\xc3", "~_-", "AzZ09", "a\x00b", "\x00\x00", "%00", "%zz"} {
			r = append(r, ocomp{t, []byte(v)})
		}
	}
	nat := [][]byte{
		{0x01, 0x00}, {0xff, 0xff}, {0x00, 0x01, 0x00, 0x00}, {0xff, 0xff, 0xff, 0xff},
		{0, 0, 0, 1, 0, 0, 0, 0}, {0xff, 0xff, 0xff, 0xff, 0xff, 0xff, 0xff, 0xff},
		{0x7f, 0xff, 0xff, 0xff, 0xff, 0xff, 0xff, 0xff}, {0x80, 0, 0, 0, 0, 0, 0, 0},
	}
	for _, t := range []uint64{0x32, 0x34, 0x36, 0x38, 0x3a} {
		for _, v := range nat {
			r = append(r, ocomp{t, v})
		}
	}
	return r
}

// longValueNames: names around the 253/256-byte value-length boundary whose value bytes are
// themselves a run of encoded empty generic components, next to the name obtained by reading
// those bytes as components; plus near-identical long-value names (see below). Used by C14.eq only
// (Equal ⇔ Bytes equal, Bytes decodes back to the name).
func longValueNames(wide bool) []oname {
	var r []oname
	for _, l := range []int{250, 252, 254, 256, 258} {
		v := bytes.Repeat([]byte{0x08, 0x00}, l/2)
		r = append(r, oname{{8, v}})
		b := oname{{8, []byte{0x00}}}
		for i := 0; i < l/2; i++ {
			b = append(b, ocomp{8, nil})
		}
		r = append(r, b)
		r = append(r, oname{{8, []byte{byte(l >> 8)}}, {8, v}})
	}
	r = append(r, oname{}, oname{{8, nil}}, oname{{8, []byte{0}}})
	// names that differ only in the first / last / last two bytes of a long component, the long
	// component being the only one, the last of two, or the first of two; every value length
	// around the 253 (one-byte → three-byte length) boundary, and around 65536 when wide is set
	a := ocomp{8, []byte("a")}
	variants := func(l int) [][]byte {
		base := make([]byte, l)
		for i := range base {
			base[i] = byte(i%251 + 1)
		}
		mod := func(f func(v []byte)) []byte { v := append([]byte(nil), base...); f(v); return v }
		return [][]byte{base,
			mod(func(v []byte) { v[l-1] ^= 0xff }),
			mod(func(v []byte) { v[l-2] ^= 0xff }),
			mod(func(v []byte) { v[l-1] ^= 0xff; v[l-2] ^= 0xff }),
			mod(func(v []byte) { v[0] ^= 0xff }),
		}
	}
	for l := 250; l <= 258; l++ {
		for _, t := range []uint64{8, 1, 253} {
			for _, v := range variants(l) {
				r = append(r, oname{{t, v}}, oname{a, {t, v}}, oname{{t, v}, a})
			}
		}
	}
	if wide {
		for l := 65533; l <= 65538; l++ {
			for _, v := range variants(l) {
				r = append(r, oname{{8, v}}, oname{a, {8, v}})
			}
		}
	}
	return r
}

func dedupe(ns []oname) ([]oname, int) {
	seen := map[string]bool{}
	var r []oname
	d := 0
	for _, n := range ns {
		k := oKey(n)
		if seen[k] {
			d++
			continue
		}
		seen[k] = true
		r = append(r, n)
	}
	return r, d
}

// manyShape: how the components of a many-component name look.
type manyShape struct {
	typ     uint64
	valLen  int
	indexed bool // value bytes depend on the position (otherwise all components are identical)
}

func manyShapes() []manyShape {
	var r []manyShape
	for _, t := range []uint64{8, 253} {
		for _, l := range []int{0, 1, 2} {
			r = append(r, manyShape{t, l, false}, manyShape{t, l, true})
		}
	}
	return r
}

// manyName: k components of the given shape; lastAlt changes the last byte of the last component.
func manyName(sh manyShape, k int, lastAlt bool) oname {
	n := make(oname, k)
	for i := range n {
		v := make([]byte, sh.valLen)
		for j := range v {
			v[j] = 0x61
			if sh.indexed {
				v[j] = byte((i*7 + j*3) % 256)
			}
		}
		if lastAlt && i == k-1 && sh.valLen > 0 {
			v[sh.valLen-1] ^= 0x80
		}
		n[i] = ocomp{sh.typ, v}
	}
	return n
}

// manyCompPairUniverse: every component count 0..maxK × every shape (+ last-byte variant): the
// all-pairs universe of the many-components family.
func manyCompPairUniverse(maxK int) []oname {
	var r []oname
	for k := 0; k <= maxK; k++ {
		for _, sh := range manyShapes() {
			r = append(r, manyName(sh, k, false))
			if sh.valLen > 0 && k > 0 {
				r = append(r, manyName(sh, k, true))
			}
		}
	}
	d, _ := dedupe(r)
	return d
}
