package main

import (
	"encoding/hex"
	"encoding/json"
	"fmt"
	"os"
	"time"

	"verif/mc/report"
)

// replayFile re-executes one stored counterexample without the enumeration.
func replayFile(path string) int {
	b, err := os.ReadFile(path)
	if err != nil {
		fmt.Println("CHECK-ERROR:", err)
		return 2
	}
	var f struct {
		Clause string `json:"clause"`
		Key    string `json:"key"`
		Replay struct {
			Kind     string  `json:"kind"`
			A        []jcomp `json:"a"`
			B        []jcomp `json:"b"`
			C        []jcomp `json:"c"`
			Fn       string  `json:"fn"`
			InputHex string  `json:"input_hex"`
		} `json:"replay"`
	}
	if err := json.Unmarshal(b, &f); err != nil {
		fmt.Println("CHECK-ERROR:", err)
		return 2
	}
	col := &collector{}
	var st pairStats
	var us uriStats
	var ps parseStats
	names := func(js ...[]jcomp) []oname {
		var r []oname
		for _, j := range js {
			n, err := fromJSON(j)
			if err != nil {
				report.Fatal("bad replay file: %v", err)
			}
			r = append(r, n)
		}
		return r
	}
	switch f.Replay.Kind {
	case "parse":
		s, err := hex.DecodeString(f.Replay.InputHex)
		if err != nil {
			report.Fatal("bad replay file: %v", err)
		}
		checkParse(col, &ps, &us, 6, string(s), true)
	case "single":
		checkSingle(col, 0, 0, names(f.Replay.A)[0])
	case "pair":
		u := buildUniverse("replay", 0, names(f.Replay.A, f.Replay.B), true)
		u.singles(col, &st, zeroTime)
		u.pairs(col, &st, nil, zeroTime, false)
	case "triple":
		u := buildUniverse("replay", 0, names(f.Replay.A, f.Replay.B, f.Replay.C), true)
		u.pairs(col, &st, nil, zeroTime, false)
		triples(col, u, zeroTime)
	case "comp-pair":
		n := names(f.Replay.A, f.Replay.B)
		checkCompPair(col, 0, 2, 0, 1, n[0][0], n[1][0])
	case "aliased":
		var as aliasStats
		aliasedName(col, &as, 0, names(f.Replay.A)[0])
	case "aliased-comp":
		var as aliasStats
		n := names(f.Replay.A, f.Replay.B)
		aliasedComp(col, &as, 0, n[0][0], n[1][0].typ)
	case "many":
		o := names(f.Replay.A)[0]
		var as aliasStats
		checkSingle(col, 0, 0, o)
		nameLawsPlain(col, &as, 0, o, o[:len(o)-1], func() any { return nil })
		checkNameURI(col, &us, 0, o, "replay")
	case "wire":
		checkWire(col, 0, names(f.Replay.A)[0])
	case "comp-uri":
		checkCompURI(col, &us, 0, names(f.Replay.A)[0][0])
	case "name-uri":
		checkNameURI(col, &us, 0, names(f.Replay.A)[0], "replay")
	default:
		report.Fatal("unknown replay kind %q", f.Replay.Kind)
	}
	hit := false
	col.m.Range(func(_, v any) bool {
		e := v.(*vent)
		fmt.Printf("replayed: clause=%s key=%q :: %s\n", e.clause, e.key, e.detail)
		if e.clause == f.Clause && e.key == f.Key {
			hit = true
		}
		return true
	})
	if hit {
		fmt.Printf("VIOLATION property=C14 replay=%s\n", path)
		return 1
	}
	fmt.Println("replay: violation not reproduced")
	return 0
}

var zeroTime = time.Time{}
