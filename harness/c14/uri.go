package main

// C14.uri (string round trip for the names the property covers) and C14.parse (no parser panics).

import (
	"fmt"
	"regexp"
	"runtime"
	"strconv"
	"strings"
	"sync"
	"sync/atomic"

	enc "github.com/named-data/ndnd/std/encoding"
)

const encPkg = "github.com/named-data/ndnd/std/encoding."

type panicInfo struct {
	msg  string // normalised message
	site string // first frame inside std/encoding
	raw  string
}

var reIdx = regexp.MustCompile(`\[[^\]]*\]`)
var reLen = regexp.MustCompile(` with (length|capacity) \d+`)

var normCache sync.Map

func normPanic(r any) string {
	raw := fmt.Sprint(r)
	if v, ok := normCache.Load(raw); ok {
		return v.(string)
	}
	v := normPanicSlow(raw)
	normCache.Store(raw, v)
	return v
}

func normPanicSlow(s string) string {
	s = strings.TrimPrefix(s, "runtime error: ")
	s = reIdx.ReplaceAllString(s, "")
	s = reLen.ReplaceAllString(s, "")
	return strings.Join(strings.Fields(s), " ")
}

func panicSite() string {
	pcs := make([]uintptr, 48)
	n := runtime.Callers(2, pcs)
	fr := runtime.CallersFrames(pcs[:n])
	for {
		f, more := fr.Next()
		if strings.HasPrefix(f.Function, encPkg) {
			return "encoding." + strings.TrimPrefix(f.Function, encPkg)
		}
		if !more {
			break
		}
	}
	return "unknown"
}

// guard runs f and reports a panic instead of dying.
func guard(f func()) (pi *panicInfo) {
	defer func() {
		if r := recover(); r != nil {
			pi = &panicInfo{msg: normPanic(r), site: panicSite(), raw: fmt.Sprint(r)}
		}
	}()
	f()
	return nil
}

func (p *panicInfo) key() string { return "panic " + p.msg + " @ " + p.site }

type uriStats struct {
	names, comps, uncovered      atomic.Int64
	uncoveredSame, uncoveredDiff atomic.Int64
	uncoveredErr                 atomic.Int64
	fromParser                   atomic.Int64
}

func sameName(m enc.Name, o oname) bool {
	if len(m) != len(o) {
		return false
	}
	for i := range m {
		if c, _ := oCmpComp(ocomp{uint64(m[i].Typ), m[i].Val}, o[i]); c != 0 {
			return false
		}
	}
	return true
}

func sameComp(c enc.Component, o ocomp) bool {
	r, _ := oCmpComp(ocomp{uint64(c.Typ), c.Val}, o)
	return r == 0
}

// checkCompURI: ComponentFromStr(c.String()) == c and ComponentFromStr(c.CanonicalString()) == c
// for a covered component. Returns false if the component-level round trip failed.
func checkCompURI(col *collector, st *uriStats, w int64, oc ocomp) bool {
	ok := true
	st.comps.Add(1)
	rp := func() any { return map[string]any{"kind": "comp-uri", "a": oname{oc}.JSON()} }
	for variant := 0; variant < 2; variant++ {
		c := realComp(oc, variant)
		for _, form := range []string{"String", "CanonicalString"} {
			var s string
			var back enc.Component
			var err error
			pi := guard(func() {
				if form == "String" {
					s = c.String()
				} else {
					s = c.CanonicalString()
				}
				back, err = enc.ComponentFromStr(s)
			})
			kind := compKind(oc.typ)
			switch {
			case pi != nil:
				ok = false
				col.note("C14.uri", "component round trip: "+pi.key(), w, func() (string, any) {
					return fmt.Sprintf("component %s: %s()=%q then ComponentFromStr: panic %s", oc, form, s, pi.raw), rp()
				})
			case err != nil:
				ok = false
				col.note("C14.uri", "ComponentFromStr(c."+form+"()) returns an error ("+kind+" component)", w, func() (string, any) {
					return fmt.Sprintf("component %s: %s()=%q, ComponentFromStr error: %v", oc, form, s, err), rp()
				})
			case !sameComp(back, oc) || !back.Equal(c) || !c.Equal(back):
				ok = false
				col.note("C14.uri", "ComponentFromStr(c."+form+"()) != c ("+kind+" component)", w, func() (string, any) {
					return fmt.Sprintf("component %s: %s()=%q parses back to %s", oc, form, s, ocomp{uint64(back.Typ), back.Val}), rp()
				})
			default:
				// a parsed component is the caller's: changing its value bytes in place (as a caller
				// stepping a segment or sequence number does) must not change what the next parse of
				// the same string returns
				if len(back.Val) > 0 {
					for i := range back.Val {
						back.Val[i] ^= 0xff
					}
					var again enc.Component
					var err2 error
					pi2 := guard(func() { again, err2 = enc.ComponentFromStr(s) })
					if pi2 != nil || err2 != nil || !sameComp(again, oc) {
						ok = false
						col.note("C14.uri", "parsed components share memory: changing one in place changes what the next ComponentFromStr of the same string returns ("+kind+" component)", w, func() (string, any) {
							return fmt.Sprintf("component %s: %s()=%q parsed, the result's value bytes inverted in place, parsed again: %s (err %v)", oc, form, s, ocomp{uint64(again.Typ), again.Val}, err2), rp()
						})
					}
					for i := range back.Val {
						back.Val[i] ^= 0xff
					}
				}
			}
		}
	}
	return ok
}

// checkNameURI: NameFromStr(n.String()) == n for a covered name.
func checkNameURI(col *collector, st *uriStats, w int64, o oname, origin string) {
	if !covered(o) {
		// outside the property: only record what happens (never a violation) — but it must not panic
		st.uncovered.Add(1)
		var s string
		var back enc.Name
		var err error
		pi := guard(func() { s = real(o, 0).String(); back, err = enc.NameFromStr(s) })
		switch {
		case pi != nil:
			col.note("C14.parse", pi.key(), strWeight(6, s), func() (string, any) {
				return fmt.Sprintf("NameFromStr(%q) (URI form of %s): panic %s", s, o.Short(), pi.raw), parseReplay("NameFromStr", s)
			})
		case err != nil:
			st.uncoveredErr.Add(1)
		case sameName(back, o):
			st.uncoveredSame.Add(1)
		default:
			st.uncoveredDiff.Add(1)
		}
		return
	}
	st.names.Add(1)
	rp := func() any { return map[string]any{"kind": "name-uri", "a": o.JSON(), "origin": origin} }
	for variant := 0; variant < 2; variant++ {
		n := real(o, variant)
		var s string
		var back enc.Name
		var err error
		pi := guard(func() { s = n.String(); back, err = enc.NameFromStr(s) })
		if pi == nil && err == nil && sameName(back, o) && back.Equal(n) && n.Equal(back) {
			continue
		}
		// classify: is a single component responsible, or the split/trim rules?
		cause := "name structure (split/trim rules)"
		for _, c := range o {
			var cb enc.Component
			var cerr error
			cpi := guard(func() { cb, cerr = enc.ComponentFromStr(realComp(c, variant).String()) })
			if cpi != nil || cerr != nil || !sameComp(cb, c) {
				cause = compKind(c.typ) + " component"
				break
			}
		}
		switch {
		case pi != nil:
			col.note("C14.uri", "name round trip: "+pi.key(), w, func() (string, any) {
				return fmt.Sprintf("name %s: String()=%q then NameFromStr: panic %s", o.Short(), s, pi.raw), rp()
			})
		case err != nil:
			col.note("C14.uri", "NameFromStr(n.String()) returns an error; cause: "+cause, w, func() (string, any) {
				return fmt.Sprintf("name %s: String()=%q, NameFromStr error: %v", o.Short(), s, err), rp()
			})
		default:
			col.note("C14.uri", "NameFromStr(n.String()) != n; cause: "+cause, w, func() (string, any) {
				return fmt.Sprintf("name %s: String()=%q parses back to %s", o.Short(), s, fromReal(back).Short()), rp()
			})
		}
		return
	}
}

// ---- parsers ----

var parserNames = []string{"NameFromStr", "ComponentFromStr", "NamePatternFromStr", "ComponentPatternFromStr"}

type parseStats struct {
	strings atomic.Int64
	calls   atomic.Int64
	ok      [4]atomic.Int64
	errs    [4]atomic.Int64
	panics  [4]atomic.Int64
}

func parseReplay(fn, s string) any {
	return map[string]any{"kind": "parse", "fn": fn, "input_quoted": strconv.Quote(s), "input_hex": fmt.Sprintf("%x", s)}
}

// checkParse feeds s to the four parsers; a panic is a C14.parse violation. Names/components the
// parser accepts are then pushed through the URI round trip when the property covers them.
func checkParse(col *collector, ps *parseStats, us *uriStats, phase int64, s string, follow bool) {
	ps.strings.Add(1)
	ps.calls.Add(4)
	w := strWeight(phase, s)
	var nm enc.Name
	var cp enc.Component
	var e0, e1, e2, e3 error
	report := func(fn int, pi *panicInfo) {
		ps.panics[fn].Add(1)
		col.note("C14.parse", pi.key(), w, func() (string, any) {
			return fmt.Sprintf("%s(%q) panics: %s", parserNames[fn], s, pi.raw), parseReplay(parserNames[fn], s)
		})
	}
	tally := func(fn int, err error) {
		if err != nil {
			ps.errs[fn].Add(1)
		} else {
			ps.ok[fn].Add(1)
		}
	}
	if pi := guard(func() { nm, e0 = enc.NameFromStr(s) }); pi != nil {
		report(0, pi)
		e0 = fmt.Errorf("panic")
	} else {
		tally(0, e0)
	}
	if pi := guard(func() { cp, e1 = enc.ComponentFromStr(s) }); pi != nil {
		report(1, pi)
		e1 = fmt.Errorf("panic")
	} else {
		tally(1, e1)
	}
	if pi := guard(func() { _, e2 = enc.NamePatternFromStr(s) }); pi != nil {
		report(2, pi)
	} else {
		tally(2, e2)
	}
	if pi := guard(func() { _, e3 = enc.ComponentPatternFromStr(s) }); pi != nil {
		report(3, pi)
	} else {
		tally(3, e3)
	}
	if !follow {
		return
	}
	if e0 == nil {
		o := fromReal(nm)
		if covered(o) {
			us.fromParser.Add(1)
			checkNameURI(col, us, w, o, "NameFromStr("+strconv.Quote(s)+")")
		}
	}
	if e1 == nil {
		oc := ocomp{uint64(cp.Typ), append([]byte(nil), cp.Val...)}
		if coveredComp(oc) {
			checkCompURI(col, us, w, oc)
		}
	}
}

// edits: every single-character deletion, substitution and insertion of s over the alphabet.
func edits(s string, alphabet []byte, f func(string)) int64 {
	n := int64(0)
	b := []byte(s)
	for i := range b {
		f(string(b[:i]) + string(b[i+1:]))
		n++
		for _, c := range alphabet {
			if c != b[i] {
				t := append([]byte(nil), b...)
				t[i] = c
				f(string(t))
				n++
			}
		}
	}
	for i := 0; i <= len(b); i++ {
		for _, c := range alphabet {
			f(string(b[:i]) + string([]byte{c}) + string(b[i:]))
			n++
		}
	}
	return n
}
