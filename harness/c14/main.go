// C14: Name order, equality, prefix relation, hashes and URI form are mutually consistent.
//
// Bounded exhaustive input enumeration on the real std/encoding code:
//   - all pairs over generated name universes (every sequence of length ≤k over adversarial
//     component sets) against an independent implementation of NDN canonical order, equality and
//     the prefix relation; hashes and prefix hashes; all triples for transitivity;
//   - URI round trip for every name the property covers, incl. all 256 single-byte values, every
//     value length of a boundary-dense length set x type family x fill pattern, every type number
//     1..65535 and every binary/decimal magnitude boundary of the numeric conventions (lengths.go);
//   - all four string parsers on EVERY string of length ≤L over an adversarial alphabet and on
//     every single-character edit of the URI forms, and on typed-prefix + unit^n strings for every
//     repeat count of a boundary-dense set (digit runs, escapes, separators): a panic is a violation.
//
// Odometers only, nothing is sampled. `--replay <file>` re-executes one stored counterexample.
package main

import (
	"fmt"
	"os"
	"sync/atomic"
	"time"

	enc "github.com/named-data/ndnd/std/encoding"
	"verif/mc/enum"
	"verif/mc/report"
)

// alphabet for the exhaustive string enumeration and for the edits
var alphabet = []byte{'a', 'v', 's', 'F', '0', '1', '8', '/', '=', '%', '.', '<', '>', '-', '_', '~', '\\', ' ', '+', 0x80, 0xc3, 0x00}

type phaseResult struct {
	Name     string `json:"phase"`
	Cases    int64  `json:"cases"`
	Complete bool   `json:"complete"`
	WallMs   int64  `json:"wall_ms"`
}

func main() {
	if len(os.Args) >= 3 && os.Args[1] == "--replay" {
		os.Exit(replayFile(os.Args[2]))
	}
	rep := report.New("C14", "exploration")
	thorough := rep.Thorough()
	start := time.Now()
	budget := 100 * time.Second
	if thorough {
		budget = 25 * time.Minute
	}
	deadline := start.Add(budget)
	col := &collector{}
	smp := &multiSamples{}
	var phases []phaseResult
	exhaustive := true
	run := func(name string, f func() (int64, bool)) {
		t0 := time.Now()
		n, ok := f()
		if !ok {
			exhaustive = false
		}
		phases = append(phases, phaseResult{name, n, ok, time.Since(t0).Milliseconds()})
		fmt.Printf("phase %-34s cases=%-12d complete=%v  %.1fs\n", name, n, ok, time.Since(t0).Seconds())
	}

	// alphabet sanity (distinctness is what makes the string count "measured")
	seenA := map[byte]bool{}
	for _, c := range alphabet {
		if seenA[c] {
			report.Fatal("C14 harness: duplicate alphabet character %q", c)
		}
		seenA[c] = true
	}

	comps128 := allComps()
	c24 := core24()
	c40 := mid40()
	bcomps := byteComps()

	// ---------- name universes ----------
	seqLen := 3 // the ≤3 universe over the 24-component core is affordable in both tiers
	uCore, dup := dedupe(allSeqs(c24, seqLen))
	if dup != 0 {
		report.Fatal("C14 harness: core universe has %d duplicates", dup)
	}
	uWide, dup2 := dedupe(allSeqs(comps128, 2))
	if dup2 != 0 {
		report.Fatal("C14 harness: wide universe has %d duplicates", dup2)
	}
	// triple universe: every name of length ≤2 over the core (quick) / the 40 set (thorough), each twice
	tset := c24
	if thorough {
		tset = c40
	}
	tNames := allSeqs(tset, 2)
	tNames = append(tNames, tNames...)
	longNames, _ := dedupe(longValueNames(true))

	var st pairStats
	var us uriStats
	var ps parseStats
	seen := map[string]bool{}

	// components first: Component.Compare/Equal/Hash incl. the *Component argument form
	var compPairs atomic.Int64
	compSet := append(append(append([]ocomp{}, comps128...), bcomps...), exoticComps()...)
	run("component pairs", func() (int64, bool) {
		_, ok := enum.Range(int64(len(compSet)), deadline, func(i int64) {
			for j := int(i); j < len(compSet); j++ {
				checkCompPair(col, 0, len(compSet), int(i), j, compSet[i], compSet[j])
			}
			compPairs.Add(int64(len(compSet)) - i)
		})
		return compPairs.Load(), ok
	})

	T := buildUniverse("triple", 1, tNames, true)
	run("pairs (triple universe)", func() (int64, bool) {
		before := st.pairs.Load()
		_, ok := T.singles(col, &st, deadline)
		_, ok2 := T.pairs(col, &st, smp.of("triple", 2), deadline, false)
		return st.pairs.Load() - before, ok && ok2
	})
	var tripleCount int64
	run("triples", func() (int64, bool) {
		n, ok := triples(col, T, deadline)
		tripleCount = n
		return n, ok
	})

	L := buildUniverse("long-values", 2, longNames, false)
	run("pairs (long values, eq only)", func() (int64, bool) {
		before := st.pairs.Load()
		_, ok0 := enum.Range(int64(len(longNames)), deadline, func(i int64) { checkWire(col, 2<<60|i, longNames[i]) })
		_, ok := L.pairs(col, &st, nil, deadline, true)
		ok = ok && ok0
		return st.pairs.Load() - before, ok
	})

	// ---------- many-components family ----------
	// axis 1: every component count 0..K (all pairs, all prefixes); axis 2: the counts at which a
	// TLV size / hashed size / in-memory size of the name crosses a threshold (singles only)
	manyK, manyBig, manyURI := 64, 1100, 1100
	if thorough {
		manyK, manyBig, manyURI = 140, 32771, 8200
	}
	mNames := manyCompPairUniverse(manyK)
	MC := buildUniverse("many-components", 2, mNames, false)
	MC.markSeen(seen)
	run(fmt.Sprintf("pairs (many components, k<=%d, %d names)", manyK, len(mNames)), func() (int64, bool) {
		before := st.pairs.Load()
		_, ok := MC.singles(col, &st, deadline)
		_, ok2 := MC.pairs(col, &st, smp.of("many", 2), deadline, false)
		_, ok3 := enum.Range(int64(len(mNames)), deadline, func(i int64) { checkNameURI(col, &us, 2<<60|1<<50|i, mNames[i], "many-components") })
		MC.addSeen(seen)
		return st.pairs.Load() - before, ok && ok2 && ok3
	})
	var bigMany []oname
	for _, k := range sizeThresholdCounts(manyBig) {
		if k <= manyK {
			continue
		}
		for _, sh := range manyShapes() {
			if sh.typ == 8 && sh.indexed || k <= 1100 && !sh.indexed && sh.valLen == 1 {
				bigMany = append(bigMany, manyName(sh, k, false))
			}
		}
	}
	var bigManyComps atomic.Int64
	run(fmt.Sprintf("singles (many components at size thresholds, %d names, k<=%d)", len(bigMany), manyBig), func() (int64, bool) {
		return enum.Range(int64(len(bigMany)), deadline, func(i int64) {
			o := bigMany[i]
			checkSingle(col, 2, 1<<51|i, o)
			// against its own longest proper prefix and a last-byte variant: Equal/Compare/IsPrefix/Hash
			var as aliasStats
			alt := append(oname{}, o...)
			lv := append([]byte(nil), o[len(o)-1].val...)
			if len(lv) > 0 {
				lv[len(lv)-1] ^= 0x80
			} else {
				lv = []byte{0}
			}
			alt[len(alt)-1] = ocomp{o[len(o)-1].typ, lv}
			rp := func() any { return map[string]any{"kind": "many", "a": o.JSON()} }
			nameLawsPlain(col, &as, 2<<60|1<<51|i, o, o[:len(o)-1], rp)
			nameLawsPlain(col, &as, 2<<60|1<<51|i, o, alt, rp)
			if len(o) <= manyURI {
				checkNameURI(col, &us, 2<<60|1<<51|i, o, "many-components")
			}
			bigManyComps.Add(int64(len(o)))
		})
	})

	xNames, _ := dedupe(allSeqs(exoticComps(), 2))
	X := buildUniverse("exotic-types", 2, xNames, false)
	X.markSeen(seen)
	run(fmt.Sprintf("pairs (type-boundary comps, len<=2, %d names)", len(xNames)), func() (int64, bool) {
		before := st.pairs.Load()
		_, ok := X.singles(col, &st, deadline)
		_, ok2 := X.pairs(col, &st, smp.of("exotic", 2), deadline, false)
		X.addSeen(seen)
		return st.pairs.Load() - before, ok && ok2
	})

	C := buildUniverse("core<=3", 3, uCore, false)
	C.markSeen(seen)
	run(fmt.Sprintf("pairs (core, len<=%d, %d names)", seqLen, len(uCore)), func() (int64, bool) {
		before := st.pairs.Load()
		_, ok := C.singles(col, &st, deadline)
		_, ok2 := C.pairs(col, &st, smp.of("core", 3), deadline, false)
		C.addSeen(seen)
		return st.pairs.Load() - before, ok && ok2
	})
	collC, collEx := C.hashCollisions()

	W := buildUniverse("wide<=2", 4, uWide, false)
	W.markSeen(seen)
	run(fmt.Sprintf("pairs (wide, len<=2, %d names)", len(uWide)), func() (int64, bool) {
		before := st.pairs.Load()
		_, ok := W.singles(col, &st, deadline)
		_, ok2 := W.pairs(col, &st, smp.of("wide", 3), deadline, false)
		W.addSeen(seen)
		return st.pairs.Load() - before, ok && ok2
	})
	collW, collExW := W.hashCollisions()
	if collEx == "" {
		collEx = collExW
	}

	// ---------- aliased operands (shared storage) ----------
	var as aliasStats
	run("aliased sub-slices (core + wide names)", func() (int64, bool) {
		_, ok := aliasedPhase(col, &as, 1, uCore, deadline)
		_, ok2 := aliasedPhase(col, &as, 2, uWide, deadline)
		return as.namePairs.Load(), ok && ok2
	})
	run("aliased component values", func() (int64, bool) {
		_, ok := enum.Range(int64(len(compSet)), deadline, func(i int64) {
			c := compSet[i]
			other := uint64(8)
			if c.typ == 8 {
				other = 253
			}
			aliasedComp(col, &as, 3<<38|i, c, other)
		})
		return as.compPairs.Load(), ok
	})

	collM := -1
	if thorough {
		uMid := allSeqs(c40, 3)
		M := buildUniverse("mid40<=3", 4, uMid, false)
		M.markSeen(seen)
		run(fmt.Sprintf("pairs (40 comps, len<=3, %d names)", len(uMid)), func() (int64, bool) {
			before := st.pairs.Load()
			_, ok := M.singles(col, &st, deadline)
			_, ok2 := M.pairs(col, &st, smp.of("mid40", 2), deadline, false)
			return st.pairs.Load() - before, ok && ok2
		})
		collM, _ = M.hashCollisions()
		run("aliased sub-slices (40 comps, len<=3)", func() (int64, bool) {
			before := as.namePairs.Load()
			_, ok := aliasedPhase(col, &as, 4, uMid, deadline)
			return as.namePairs.Load() - before, ok
		})
	}

	// ---------- URI round trip ----------
	uriLen := 2
	if thorough {
		uriLen = 3
	}
	nURI := seqCount(len(comps128), uriLen)
	var distinctURI atomic.Int64
	run(fmt.Sprintf("uri (all 128 comps, len<=%d)", uriLen), func() (int64, bool) {
		return enum.Range(nURI, deadline, func(i int64) {
			o := seqAt(comps128, uriLen, i)
			if covered(o) && len(o) > 0 {
				distinctURI.Add(1)
			}
			if len(o) == 1 && coveredComp(o[0]) {
				checkCompURI(col, &us, 5<<60|i, o[0])
			}
			checkNameURI(col, &us, 5<<60|i, o, "generated")
		})
	})
	if !thorough {
		nc := int64(len(uCore))
		run("uri (core, len<=3)", func() (int64, bool) {
			return enum.Range(nc, deadline, func(i int64) { checkNameURI(col, &us, 5<<60|1<<40|i, uCore[i], "generated") })
		})
	}
	// all 256 byte values under every type, alone and in five name contexts
	ctxA := ocomp{8, []byte("a")}
	ctxE := ocomp{8, nil}
	run("uri (256 byte values x types x contexts)", func() (int64, bool) {
		return enum.Range(int64(len(bcomps)), deadline, func(i int64) {
			c := bcomps[i]
			w := 5<<60 | 2<<40 | i
			if coveredComp(c) {
				checkCompURI(col, &us, w, c)
			}
			for _, o := range []oname{{c}, {c, ctxA}, {ctxA, c}, {c, ctxE}, {ctxE, c}, {c, c}} {
				checkNameURI(col, &us, w, o, "generated")
			}
		})
	})
	// value lengths x types x fill patterns; every type number; decimal magnitudes
	var ls lengthStats
	run("uri (value lengths x types x fills)", func() (int64, bool) { return uriLengthPhase(col, &us, &ls, thorough, deadline) })
	run("uri (every type 1..65535 x 4 values)", func() (int64, bool) { return allTypesPhase(col, &us, &ls, deadline) })
	run("uri+parse (decimal magnitudes)", func() (int64, bool) { return magnitudePhase(col, &ps, &us, &ls, deadline) })
	for _, i := range []int{7, 8, 11, 12, 13, 14, 15, 0} {
		c := comps128[2*16+i] // generic
		n := oname{c, {0x32, []byte{1}}, {1, []byte{0xab}}}
		checkNameURI(col, &us, 5<<60|3<<40|int64(i), n, "sample")
		var back enc.Name
		var str string
		res := errOf(func() (e error) { str = real(n, 0).String(); back, e = enc.NameFromStr(str); return })
		smp.of("uri", 8).Offer(fmt.Sprintf("[uri] %s -> String()=%q -> NameFromStr -> %s (%s) same=%v", n, str, fromReal(back), res, sameName(back, n)))
	}

	// ---------- parsers ----------
	maxLen := 4
	if thorough {
		maxLen = 6
	}
	A := int64(len(alphabet))
	nStr := int64(0)
	for l, p := 0, int64(1); l <= maxLen; l, p = l+1, p*A {
		nStr += p
	}
	strAt := func(idx int64) string {
		p := int64(1)
		for l := 0; l <= maxLen; l++ {
			if idx < p {
				b := make([]byte, l)
				for d := l - 1; d >= 0; d-- {
					b[d] = alphabet[idx%A]
					idx /= A
				}
				return string(b)
			}
			idx -= p
			p *= A
		}
		panic("strAt")
	}
	var distinctStr int64
	run(fmt.Sprintf("parse (every string len<=%d over %d chars)", maxLen, len(alphabet)), func() (int64, bool) {
		n, ok := enum.Range(nStr, deadline, func(i int64) { checkParse(col, &ps, &us, 6, strAt(i), true) })
		distinctStr = n
		return n, ok
	})
	// single-character edits of URI forms
	var bases []string
	baseSeen := map[string]bool{}
	addBase := func(s string) {
		if !baseSeen[s] {
			baseSeen[s] = true
			bases = append(bases, s)
		}
	}
	editNames := allSeqs(c24, 2)
	if thorough {
		editNames = uWide
	}
	for _, o := range editNames {
		addBase(real(o, 0).String())
	}
	editComps := compSet
	if !thorough {
		// quick: the 128 universe components, the type-boundary ones, and the byte-value / escape
		// extras under the generic type only
		editComps = append(append([]ocomp{}, comps128...), exoticComps()...)
		for _, c := range bcomps {
			if c.typ == 8 || isDecConv(c.typ) && len(c.val) > 1 {
				editComps = append(editComps, c)
			}
		}
	}
	for _, c := range editComps {
		rc := realComp(c, 0)
		addBase(rc.String())
		addBase(rc.CanonicalString())
		addBase("/" + rc.CanonicalString() + "/" + rc.String())
		p := enc.Pattern{Typ: enc.TLNum(c.typ), Tag: "a"}
		addBase(p.String())
		addBase(p.CanonicalString())
		addBase("/" + rc.String() + "/" + p.String())
		addBase(enc.NamePattern{p, rc}.String())
	}
	var editCount atomic.Int64
	run(fmt.Sprintf("parse (single-char edits of %d URI forms)", len(bases)), func() (int64, bool) {
		_, ok := enum.Range(int64(len(bases)), deadline, func(i int64) {
			editCount.Add(edits(bases[i], alphabet, func(s string) { checkParse(col, &ps, &us, 7, s, true) }))
		})
		return editCount.Load(), ok
	})
	run("parse (typed prefix x unit^n x wrappings)", func() (int64, bool) { return parseLengthPhase(col, &ps, &us, &ls, thorough, deadline) })
	run("parse (type-number digit strings)", func() (int64, bool) { return typeDigitsPhase(col, &ps, &us, &ls, deadline) })
	for _, l := range []int{32, 33} {
		c := ocomp{1, filled(fills[2], l)}
		s := realComp(c, 0).String()
		var back enc.Component
		res := errOf(func() (e error) { back, e = enc.ComponentFromStr(s); return })
		smp.of("length", 2).Offer(fmt.Sprintf("[length] %d-byte digest component -> String()=%q -> ComponentFromStr -> %d bytes, %s, same=%v", l, s, len(back.Val), res, sameComp(back, c)))
	}
	smp.of("parse", 2).Offer(fmt.Sprintf("[parse] NameFromStr(%q) -> %v ; ComponentFromStr(%q) -> %v ; ComponentPatternFromStr(%q) -> %v",
		"/a/%2", errOf(func() error { _, e := enc.NameFromStr("/a/%2"); return e }),
		"v=1=2", errOf(func() error { _, e := enc.ComponentFromStr("v=1=2"); return e }),
		"<v=a", errOf(func() error { _, e := enc.ComponentPatternFromStr("<v=a"); return e })))

	// structural (by-construction) hash collision: evidence only, the property does not forbid it
	x := oname{{8, []byte("a")}, {8, []byte("b")}}
	y := oname{{8, []byte{'a', 0, 0, 0, 0, 0, 0, 0, 8, 'b'}}}
	structural := real(x, 0).Hash() == real(y, 0).Hash()

	counts := col.flush(rep)
	distinctPairs := st.distinct.Load()
	evals := as.namePairs.Load()*9 + as.compPairs.Load()*8 + st.evals.Load() + compPairs.Load()*6 + tripleCount + us.names.Load()*2 + us.comps.Load()*4 + us.uncovered.Load() + ps.calls.Load()
	cov := report.Coverage{
		"evaluations":                    evals,
		"distinct_nontrivial":            distinctPairs + distinctURI.Load() + distinctStr,
		"distinct_breakdown":             map[string]int64{"name_pairs": distinctPairs, "uri_names": distinctURI.Load(), "parser_strings": distinctStr},
		"rule":                           "a case is one distinct input: an unordered pair of DISTINCT names (distinct canonical keys) evaluated in one of the counted pair universes (type-boundary, core, wide, thorough: 40-set); a pair both of whose names already belonged to an earlier universe is not counted again, one non-empty covered name of the generated 128-component URI universe, or one string of the exhaustive string enumeration (distinct by construction: odometer over a duplicate-free alphabet). Identical-name pairs are trivial and not counted; edit-generated strings, byte-value contexts, parser-fed names and triples are NOT counted here because they can repeat (see the other counters)",
		"exhaustive":                     exhaustive,
		"phases":                         phases,
		"samples":                        smp.list(),
		"bounds":                         map[string]any{"component_types": uTypes, "component_values": len(uValues), "core_components": len(c24), "core_max_len": seqLen, "wide_components": len(comps128), "wide_max_len": 2, "triple_universe_names": len(tNames), "uri_max_len": uriLen, "byte_value_components": len(bcomps), "string_alphabet": fmt.Sprintf("%q", alphabet), "string_max_len": maxLen, "edit_bases": len(bases)},
		"name_pairs":                     st.pairs.Load(),
		"component_pairs":                compPairs.Load(),
		"triples":                        tripleCount,
		"many_components_family":         map[string]any{"pair_universe_names": len(mNames), "max_k_all_pairs": manyK, "threshold_names": len(bigMany), "max_k_threshold": manyBig, "threshold_components_total": bigManyComps.Load(), "threshold_counts": sizeThresholdCounts(manyBig)},
		"aliased_operand_pairs":          map[string]int64{"name_pairs": as.namePairs.Load(), "component_pairs": as.compPairs.Load(), "equal_true": as.equalTrue.Load(), "isprefix_true": as.prefixTrue.Load()},
		"compare_outcomes":               map[string]int64{"less": st.cmpLt.Load(), "equal": st.cmpEq.Load(), "greater": st.cmpGt.Load()},
		"pairs_decided_by":               map[string]int64{"type": st.byType.Load(), "length": st.byLen.Load(), "value": st.byVal.Load(), "prefix": st.byPrefix.Load()},
		"isprefix_true":                  st.prefixTrue.Load(),
		"equal_true":                     st.equalTrue.Load(),
		"uri_names_roundtrip":            us.names.Load(),
		"uri_comps_roundtrip":            us.comps.Load(),
		"uri_names_fed_back_from_parser": us.fromParser.Load(),
		"uri_uncovered_names":            map[string]int64{"total": us.uncovered.Load(), "same": us.uncoveredSame.Load(), "different": us.uncoveredDiff.Load(), "error": us.uncoveredErr.Load()},
		"parser_strings":                 ps.strings.Load(),
		"parser_outcomes":                parserOutcomes(&ps),
		"length_magnitude_type_families": ls.JSON(),
		"hash_collisions_between_distinct_names": map[string]any{"core": collC, "wide": collW, "mid40_thorough_only": collM, "pairwise_observed": st.collisions.Load(), "example": collEx,
			"note": "evidence only; the property requires equal names to hash equally, not injectivity"},
		"hash_structural_collision": map[string]any{"a": x.String(), "b": y.String(), "collide": structural,
			"note": "two distinct names that feed identical bytes to a hasher that writes 8-byte type + value without the value length; 'collide' says whether the code under test does so; not a violation of the property text"},
		"violation_occurrences": counts,
	}
	rep.Finish(cov, []string{
		"NDN canonical order, the decimal/hex naming-convention type numbers (seg=50, off=52, v=54, t=56, seq=58; 1,2 hex) and 'shortest form' (value equals the 1/2/4/8-byte NonNegativeInteger encoding of its number) are re-stated independently in the harness",
		"the URI clause demands exactly NameFromStr(n.String()) == n (and the component-level equivalents) for covered names; it does not demand conformance with the NDN URI scheme's '...' padding convention",
		"transitivity is checked on the matrices of real Compare/Equal/IsPrefix results of the triple universe",
		"a hash collision between distinct names is evidence, not a violation",
		"aliased operands: every pair of sub-slices n[i:j] of one name (and of a shallow copy sharing the value arrays) and every pair of components whose values are sub-slices of one byte array are evaluated with the same laws; names are never mutated while shared",
	})
}

func errOf(f func() error) string {
	var e error
	if pi := guard(func() { e = f() }); pi != nil {
		return "PANIC " + pi.raw
	}
	if e == nil {
		return "ok"
	}
	return "error: " + e.Error()
}

func parserOutcomes(ps *parseStats) map[string]map[string]int64 {
	r := map[string]map[string]int64{}
	for i, n := range parserNames {
		r[n] = map[string]int64{"ok": ps.ok[i].Load(), "error": ps.errs[i].Load(), "panic": ps.panics[i].Load()}
	}
	return r
}

// checkCompPair: component-level laws, including the *Component argument form that
// Component.Compare/Equal accept.
func checkCompPair(col *collector, phase int64, n, i, j int, oa, ob ocomp) {
	w := phase<<60 | int64(i)*int64(n) + int64(j)
	rp := func() any { return map[string]any{"kind": "comp-pair", "a": oname{oa}.JSON(), "b": oname{ob}.JSON()} }
	compLaws(col, w, realComp(oa, 0), realComp(ob, 1), oa, ob, "", rp)
}

// compLaws evaluates the component-level laws on two REAL operands (which may share storage);
// sfx is appended to every key so that an aliasing-only failure names its root cause.
func compLaws(col *collector, w int64, a, b enc.Component, oa, ob ocomp, sfx string, rp func() any) {
	oc, where := oCmpComp(oa, ob)
	desc := fmt.Sprintf("a=%s b=%s", oa, ob)
	c1, c2 := sign(a.Compare(b)), sign(b.Compare(a))
	c1p, c2p := sign(a.Compare(&b)), sign(b.Compare(&a))
	if c1 != c1p || c2 != c2p {
		col.note("C14.total", "Component.Compare(*Component) differs from Compare(Component)"+sfx, w, func() (string, any) {
			return fmt.Sprintf("%s: %d/%d vs %d/%d", desc, c1, c2, c1p, c2p), rp()
		})
	}
	if c1 != -c2 {
		col.note("C14.total", "Compare is not antisymmetric (decided by "+where+")"+sfx, w, func() (string, any) {
			return fmt.Sprintf("components %s: Compare(a,b)=%d Compare(b,a)=%d", desc, c1, c2), rp()
		})
	}
	if c1 != oc {
		col.note("C14.canon", "Compare disagrees with NDN canonical order (pair decided by "+where+")"+sfx, w, func() (string, any) {
			return fmt.Sprintf("components %s: Compare(a,b)=%d, canonical order says %d", desc, c1, oc), rp()
		})
	}
	e1, e2, e1p := a.Equal(b), b.Equal(a), a.Equal(&b)
	if e1 != e2 || e1 != e1p || e1 != (oc == 0) || e1 != (c1 == 0) {
		col.note("C14.eq", "Component.Equal disagrees with identity / Compare==0 / its pointer form"+sfx, w, func() (string, any) {
			return fmt.Sprintf("components %s: Equal=%v/%v/%v identical=%v Compare=%d", desc, e1, e2, e1p, oc == 0, c1), rp()
		})
	}
	if e1 != bytesEq(a.Bytes(), b.Bytes()) {
		col.note("C14.eq", "Component.Equal disagrees with equality of Bytes()"+sfx, w, func() (string, any) {
			return fmt.Sprintf("components %s: Equal=%v", desc, e1), rp()
		})
	}
	if oc == 0 && a.Hash() != b.Hash() {
		col.note("C14.hash", "equal components hash differently"+sfx, w, func() (string, any) {
			return fmt.Sprintf("components %s: %#x vs %#x", desc, a.Hash(), b.Hash()), rp()
		})
	}
}

func bytesEq(a, b []byte) bool { return string(a) == string(b) }

// multiSamples keeps a few written-out cases per phase.
type multiSamples struct {
	order []string
	m     map[string]*report.Samples
}

func (ms *multiSamples) of(name string, n int) *report.Samples {
	if ms.m == nil {
		ms.m = map[string]*report.Samples{}
	}
	if s, ok := ms.m[name]; ok {
		return s
	}
	s := &report.Samples{N: n}
	ms.m[name] = s
	ms.order = append(ms.order, name)
	return s
}

func (ms *multiSamples) list() []string {
	var r []string
	for _, k := range ms.order {
		r = append(r, ms.m[k].List()...)
	}
	return r
}

// exoticComps: component types at the TLV var-number width boundaries and outside the range
// the URI parser accepts (0, >65535). Order/equality/hash/prefix laws apply to them as well;
// they never enter the URI clause.
func exoticComps() []ocomp {
	var r []ocomp
	for _, t := range []uint64{0, 7, 252, 254, 255, 256, 65534, 65536, 0xffffffff, 0x100000000, 0xffffffffffffffff} {
		r = append(r, ocomp{t, nil}, ocomp{t, []byte{0}}, ocomp{t, []byte{1}})
	}
	return r
}
