//go:build verif

// White-box helper for the C07 harness: a fingerprint of every field of the content store's
// private structures that the shared dump (VerifDumpPitCs) does NOT know about. On the tree the
// harness was written for there is none and the fingerprint is empty; a change that adds state to
// a CS entry, to the replacement policy or to the table (a memoised decoding, a cached "last used"
// shortcut, a counter) makes it part of the canonical state of the search, so that two histories
// that differ only in the new state are not merged. Never part of a normal build (tag verif).
package table

import (
	"fmt"
	"reflect"
	"sort"
	"strings"
)

var verifKnownFields = map[string]bool{
	"nameTreeCsEntry.node": true, "nameTreeCsEntry.baseCsEntry": true,
	"baseCsEntry.index": true, "baseCsEntry.staleTime": true, "baseCsEntry.wire": true,
	"CsLRU.cs": true, "CsLRU.queue": true, "CsLRU.locations": true,
}

func verifShallow(v reflect.Value, depth int) string {
	switch v.Kind() {
	case reflect.Bool:
		return fmt.Sprint(v.Bool())
	case reflect.Int, reflect.Int8, reflect.Int16, reflect.Int32, reflect.Int64:
		return fmt.Sprint(v.Int())
	case reflect.Uint, reflect.Uint8, reflect.Uint16, reflect.Uint32, reflect.Uint64, reflect.Uintptr:
		return fmt.Sprint(v.Uint())
	case reflect.String:
		return fmt.Sprintf("%q", v.String())
	case reflect.Slice:
		if v.IsNil() {
			return "nil"
		}
		if v.Type().Elem().Kind() == reflect.Uint8 {
			return fmt.Sprintf("%x", v.Bytes())
		}
		if depth <= 0 {
			return fmt.Sprintf("len%d", v.Len())
		}
		// the elements, too: a memoised decoding differs from another one in what its slices hold
		var parts []string
		for i := 0; i < v.Len() && i < 16; i++ {
			parts = append(parts, verifShallow(v.Index(i), depth-1))
		}
		return fmt.Sprintf("len%d[%s]", v.Len(), strings.Join(parts, ","))
	case reflect.Map, reflect.Chan:
		if v.IsNil() {
			return "nil"
		}
		return fmt.Sprintf("len%d", v.Len())
	case reflect.Pointer, reflect.Interface:
		if v.IsNil() {
			return "nil"
		}
		if depth <= 0 {
			return "set"
		}
		return "&" + verifShallow(v.Elem(), depth-1)
	case reflect.Func, reflect.UnsafePointer:
		if v.IsNil() {
			return "nil"
		}
		return "set"
	case reflect.Struct:
		if depth <= 0 {
			return "struct"
		}
		var parts []string
		for i := 0; i < v.NumField(); i++ {
			parts = append(parts, v.Type().Field(i).Name+"="+verifShallow(v.Field(i), depth-1))
		}
		return "{" + strings.Join(parts, ",") + "}"
	case reflect.Array:
		return fmt.Sprintf("array%d", v.Len())
	}
	return v.Kind().String()
}

func verifUnknownFields(v reflect.Value) string {
	var parts []string
	t := v.Type()
	for i := 0; i < v.NumField(); i++ {
		f := t.Field(i)
		key := t.Name() + "." + f.Name
		if f.Anonymous && v.Field(i).Kind() == reflect.Struct {
			if s := verifUnknownFields(v.Field(i)); s != "" {
				parts = append(parts, s)
			}
			continue
		}
		if verifKnownFields[key] {
			continue
		}
		parts = append(parts, key+"="+verifShallow(v.Field(i), 5))
	}
	return strings.Join(parts, ",")
}

// VerifCsHidden: see the file comment. Entries in name order.
func VerifCsHidden(p *PitCsTree) string {
	var out []string
	var walk func(n *pitCsTreeNode, path string)
	walk = func(n *pitCsTreeNode, path string) {
		if n.csEntry != nil {
			if s := verifUnknownFields(reflect.ValueOf(n.csEntry).Elem()); s != "" {
				out = append(out, path+":"+s)
			}
		}
		for _, c := range n.children {
			walk(c, path+"/"+c.component.String())
		}
	}
	walk(p.root, "")
	sort.Strings(out)
	if l, ok := p.csReplacement.(*CsLRU); ok {
		if s := verifUnknownFields(reflect.ValueOf(l).Elem()); s != "" {
			out = append(out, "policy:"+s)
		}
	}
	return strings.Join(out, ";")
}
