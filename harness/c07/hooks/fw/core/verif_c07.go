//go:build verif

// White-box helper for the C07 harness: turns the TEXT of a configuration file into a *Config the
// way the daemon does at start-up (fw/executor/main.go: DefaultConfig() overlaid by a strict YAML
// decode of the file). Never part of a normal build (tag verif); added through `go build -overlay`.
package core

import (
	"strings"

	"github.com/goccy/go-yaml"
)

func VerifConfigFromYaml(text string) (*Config, error) {
	c := DefaultConfig()
	dec := yaml.NewDecoder(strings.NewReader(text), yaml.Strict())
	if err := dec.Decode(c); err != nil {
		return nil, err
	}
	return c, nil
}
