// C07: the Content Store answers only with matching, fresh-enough Data, within capacity.
// Explicit-state search over Put/Get/Cap/Time histories on the REAL PitCsTree (+ real CsLRU)
// under a virtual clock, against a reference list; LRU order is tracked as a SET of candidate
// orders where the property leaves the effect of a lookup on recency open.
package main

import (
	"bytes"
	"crypto/sha1"
	"fmt"
	"os"
	"sort"
	"strings"
	"time"

	"github.com/named-data/ndnd/fw/core"
	fwmgmt "github.com/named-data/ndnd/fw/mgmt"
	"github.com/named-data/ndnd/fw/table"
	enc "github.com/named-data/ndnd/std/encoding"
	"github.com/named-data/ndnd/std/ndn"
	mgmtdef "github.com/named-data/ndnd/std/ndn/mgmt_2022"
	"github.com/named-data/ndnd/std/utils"
	spec "github.com/named-data/ndnd/std/ndn/spec_2022"
	sec "github.com/named-data/ndnd/std/security"
	"verif/mc/explore"
	"verif/mc/report"
	"verif/shim/vtime"
)

type refEntry struct {
	wire    []byte
	payload string
	staleAt time.Time
}

type inst struct {
	cs     *table.PitCsTree
	ref    map[string]*refEntry
	orders [][]string // candidate LRU orders (front = next victim)
	cap    int
	filled int // big configurations: how many names the Fill operations have inserted so far
	// settings the store was started with (configuration at start-up), and what the start-up found wrong
	admit, serve bool
	pending      []report.Violation
	// twin configurations: the store of a second forwarding thread. The capacity is one
	// process-wide setting that applies to each thread's store separately.
	alt *inst
}

type sys struct {
	names   []string
	getters []string
	cap0    int
	twin    bool
	yaml    bool // the start-up configuration arrives as the TEXT of a configuration file
	ops     []explore.Op
	do      map[string]func(in *inst) []report.Violation
}

var nmCache = map[string]enc.Name{}

func nm(s string) enc.Name {
	if n, ok := nmCache[s]; ok {
		return n
	}
	n, err := enc.NameFromStr(s)
	if err != nil {
		panic(err)
	}
	nmCache[s] = n
	return n
}

type pkt struct {
	data *spec.Data
	wire []byte
}

var pktCache = map[string]pkt{}

func mkData(name string, fresh int, payload string) pkt {
	k := fmt.Sprintf("%s|%d|%s", name, fresh, payload)
	if p, ok := pktCache[k]; ok {
		return p
	}
	cfg := &ndn.DataConfig{}
	if fresh >= 0 {
		d := time.Duration(fresh) * time.Millisecond
		cfg.Freshness = &d
	}
	content := enc.Wire{[]byte(payload)}
	if payload != "p" {
		// the other version of a packet differs from the first in EVERY field a Data packet has
		// besides its name: content (two buffers, longer), content type, final block id, signature
		cfg.ContentType = utils.IdPtr(ndn.ContentTypeKey)
		fb := enc.NewStringComponent(enc.TypeGenericNameComponent, "last-"+payload)
		cfg.FinalBlockID = &fb
		content = enc.Wire{[]byte(payload + payload), []byte("-second-version")}
	}
	ed, err := spec.Spec{}.MakeData(nm(name), cfg, content, sec.NewSha256Signer())
	if err != nil {
		panic(err)
	}
	w := ed.Wire.Join()
	p, _, err := spec.ReadPacket(enc.NewBufferReader(w))
	if err != nil || p.Data == nil {
		panic(fmt.Sprint("cannot re-read data: ", err))
	}
	pktCache[k] = pkt{p.Data, w}
	return pktCache[k]
}

// digest writes out every field of a decoded Data packet (through the accessors the forwarder and
// the applications use, plus the raw structure): two packets with equal digests are the same packet
func digest(d *spec.Data) string {
	var b strings.Builder
	fmt.Fprintf(&b, "name=%s", d.Name())
	if ct := d.ContentType(); ct != nil {
		fmt.Fprintf(&b, " ctype=%d", *ct)
	}
	if f := d.Freshness(); f != nil {
		fmt.Fprintf(&b, " fresh=%v", *f)
	}
	if fb := d.FinalBlockID(); fb != nil {
		fmt.Fprintf(&b, " final=%s", fb.String())
	}
	fmt.Fprintf(&b, " metainfo=%v content=%x", d.MetaInfo != nil, d.Content().Join())
	if sg := d.Signature(); sg != nil {
		fmt.Fprintf(&b, " sig=%d key=%s nonce=%x value=%x", sg.SigType(), sg.KeyName(), sg.SigNonce(), sg.SigValue())
		if t := sg.SigTime(); t != nil {
			fmt.Fprintf(&b, " sigtime=%d", t.UnixNano())
		}
		if n := sg.SigSeqNum(); n != nil {
			fmt.Fprintf(&b, " sigseq=%d", *n)
		}
	}
	fmt.Fprintf(&b, " siginfo=%v sigvalue=%x", d.SignatureInfo != nil, d.SignatureValue.Join())
	return b.String()
}

var digestCache = map[string]string{}

// wireDigest = digest of the decoding of a packet's bytes (a private decoding of a private copy)
func wireDigest(w []byte) string {
	if s, ok := digestCache[string(w)]; ok {
		return s
	}
	p, _, err := spec.ReadPacket(enc.NewBufferReader(append([]byte(nil), w...)))
	s := "undecodable"
	if err == nil && p.Data != nil {
		s = digest(p.Data)
	}
	digestCache[string(w)] = s
	return s
}

// scribble overwrites everything reachable from a decoded Data packet that its owner may overwrite:
// a packet decoded from a buffer points into that buffer, and the owner of the buffer re-uses it
func scribble(d *spec.Data, names bool) {
	if os.Getenv("C07_NO_SCRIBBLE") != "" { // development aid: shows which clauses hold without it
		return
	}
	fill := func(b []byte) {
		for i := range b {
			b[i] = 0x55
		}
	}
	for _, c := range d.NameV {
		if names {
			fill(c.Val)
		}
	}
	for _, b := range d.ContentV {
		fill(b)
	}
	for _, b := range d.SignatureValue {
		fill(b)
	}
	if d.MetaInfo != nil {
		if d.MetaInfo.FreshnessPeriod != nil {
			*d.MetaInfo.FreshnessPeriod = 77 * time.Hour
		}
		if d.MetaInfo.ContentType != nil {
			*d.MetaInfo.ContentType = 99
		}
		if d.MetaInfo.FinalBlockID != nil {
			fill(d.MetaInfo.FinalBlockID)
		}
		d.MetaInfo = nil
	}
	d.NameV, d.ContentV, d.SignatureInfo, d.SignatureValue = nil, nil, nil, nil
}

func touchAll(orders [][]string, name string) [][]string {
	for i, o := range orders {
		orders[i] = moveBack(o, name)
	}
	return orders
}

func moveBack(o []string, name string) []string {
	out := make([]string, 0, len(o)+1)
	for _, x := range o {
		if x != name {
			out = append(out, x)
		}
	}
	return append(out, name)
}

func dedupOrders(orders [][]string) [][]string {
	seen := map[string]bool{}
	var out [][]string
	for _, o := range orders {
		k := strings.Join(o, ">")
		if !seen[k] {
			seen[k] = true
			out = append(out, o)
		}
	}
	sort.Slice(out, func(i, j int) bool { return strings.Join(out[i], ">") < strings.Join(out[j], ">") })
	return out
}

func isPrefix(p, n enc.Name) bool { return p.IsPrefix(n) }

func newSys(names []string, cap0 int, caps []int, fresh []int, dts []int) *sys {
	s := &sys{names: names, cap0: cap0, do: map[string]func(in *inst) []report.Violation{}}
	add := func(name string, f func(in *inst) []report.Violation) {
		s.ops = append(s.ops, explore.Op{Name: name})
		s.do[name] = f
	}
	for _, n := range names {
		for _, fr := range fresh {
			for _, pl := range []string{"p", "q"} {
				n, fr, pl := n, fr, pl
				add(fmt.Sprintf("Put(%s,fresh=%dms,%s)", n, fr, pl), func(in *inst) []report.Violation { return s.put(in, n, fr, pl) })
			}
		}
	}
	getNames := append([]string{"/"}, names...)
	getNames = append(getNames, "/zz")
	for _, n := range getNames {
		for _, cbp := range []bool{false, true} {
			for _, mbf := range []bool{false, true} {
				n, cbp, mbf := n, cbp, mbf
				add(fmt.Sprintf("Get(%s,cbp=%v,mbf=%v)", n, cbp, mbf), func(in *inst) []report.Violation { return s.get(in, n, cbp, mbf) })
			}
		}
	}
	for _, k := range caps {
		k := k
		// the capacity is changed the way an operator does it: a cs/config command handed to the real
		// management module (fw/mgmt/cs.go), with and without the optional Flags/Mask pair
		for _, fm := range []bool{false, true} {
			fm := fm
			nm := fmt.Sprintf("Cap(%d)", k)
			if fm {
				nm = fmt.Sprintf("Cap(%d,flags+mask)", k)
			}
			add(nm, func(in *inst) (v []report.Violation) {
				args := &mgmtdef.ControlArgs{Capacity: utils.IdPtr(uint64(k))}
				if fm {
					args.Flags, args.Mask = utils.IdPtr(uint64(0)), utils.IdPtr(uint64(0))
				}
				status, _ := fwmgmt.VerifCommand("cs", "config", args, 1)
				in.cap = k
				if status != 200 || table.CsCapacity() != k {
					v = append(v, report.Violation{Clause: "C07.cap", Key: "cs/config command does not set the capacity",
						Detail: fmt.Sprintf("%s through the management module answered %d and left the capacity at %d", nm, status, table.CsCapacity())})
				}
				return
			})
		}
	}
	for _, dt := range dts {
		dt := dt
		add(fmt.Sprintf("T(%dms)", dt), func(in *inst) []report.Violation {
			vtime.Advance(time.Duration(dt) * time.Millisecond)
			return nil
		})
	}
	return s
}

// ---- start-up: every store of this harness is brought up the way the daemon brings it up ----
//
// The capacity (and the admit / serve switches) reach the store on two ways: the configuration the
// daemon is started with (core.LoadConfig + table.Configure, fw/executor/yanfd.go NewYaNFD) and
// the cs/config management command at run time. Both are part of every universe: New() and the
// Boot operations go the first way - with the configuration given as a Config value or as the TEXT
// of a configuration file decoded the way fw/executor/main.go decodes it -, Cap goes the second.

type bootCfg struct {
	cap          int
	admit, serve bool
	yaml         bool
}

var loggerDone bool
var cfgCache = map[bootCfg]*core.Config{}

func configFor(b bootCfg) *core.Config {
	if c, ok := cfgCache[b]; ok {
		return c
	}
	var c *core.Config
	if b.yaml {
		text := fmt.Sprintf("core:\n  log_level: FATAL\ntables:\n  content_store:\n    capacity: %d\n    admit: %v\n    serve: %v\n  dead_nonce_list:\n    lifetime: 6000\n", b.cap, b.admit, b.serve)
		var err error
		c, err = core.VerifConfigFromYaml(text)
		if err != nil {
			report.Fatal("C07", "configuration text rejected: "+err.Error()+"\n"+text)
		}
	} else {
		c = core.DefaultConfig()
		c.Core.LogLevel = "FATAL"
		c.Tables.ContentStore.Capacity = uint16(b.cap)
		c.Tables.ContentStore.Admit = b.admit
		c.Tables.ContentStore.Serve = b.serve
		c.Tables.DeadNonceList.Lifetime = 6000
	}
	cfgCache[b] = c
	return c
}

// boot = daemon start-up as far as the tables are concerned; returns what it found wrong
func boot(b bootCfg) (v []report.Violation) {
	if b.cap > 65535 {
		panic("configured capacities are 16-bit")
	}
	core.LoadConfig(configFor(b), "")
	if !loggerDone {
		loggerDone = true
		core.InitializeLogger("")
	}
	table.Configure()
	how := "a Config value"
	if b.yaml {
		how = "the text of a configuration file"
	}
	if got := table.CsCapacity(); got != b.cap {
		v = append(v, report.Violation{Clause: "C07.cap", Key: "capacity configured at start-up is not the capacity in force",
			Detail: fmt.Sprintf("started with tables.content_store.capacity = %d (given as %s; core.LoadConfig + table.Configure): CsCapacity() = %d", b.cap, how, got)})
	}
	return
}

func (s *sys) New() any {
	vtime.Reset(false)
	pend := boot(bootCfg{s.cap0, true, true, s.yaml})
	in := &inst{cs: table.NewPitCS(func(table.PitEntry) {}), ref: map[string]*refEntry{}, orders: [][]string{{}}, cap: s.cap0, admit: true, serve: true, pending: pend}
	if s.twin {
		in.alt = &inst{cs: table.NewPitCS(func(table.PitEntry) {}), ref: map[string]*refEntry{}, orders: [][]string{{}}, cap: s.cap0, admit: true, serve: true}
	}
	return in
}

// addBoot adds restarts to the alphabet: the daemon is started again with a configuration that
// gives capacity k (every k in caps) and the admit / serve switches (all four combinations), as a
// Config value and as configuration text. A restart begins with an empty store.
func (s *sys) addBoot(caps []int) {
	for _, k := range caps {
		for _, yaml := range []bool{false, true} {
			for _, fl := range [][2]bool{{true, true}, {true, false}, {false, true}, {false, false}} {
				b := bootCfg{k, fl[0], fl[1], yaml}
				name := fmt.Sprintf("Boot(capacity=%d,admit=%v,serve=%v,yaml=%v)", k, b.admit, b.serve, yaml)
				s.ops = append(s.ops, explore.Op{Name: name})
				s.do[name] = func(in *inst) []report.Violation {
					v := boot(b)
					in.cs = table.NewPitCS(func(table.PitEntry) {})
					in.ref, in.orders, in.cap, in.admit, in.serve = map[string]*refEntry{}, [][]string{{}}, b.cap, b.admit, b.serve
					return append(v, s.sizeCheck(in)...)
				}
			}
		}
	}
}

// makeTwin turns the alphabet into one over TWO stores (two forwarding threads): every insert and
// lookup exists once per store, capacity changes are process-wide. Each store is held to the
// property on its own, and an operation on one store must leave the other's cached set alone.
func (s *sys) makeTwin() {
	s.twin = true
	var ops []explore.Op
	for _, op := range s.ops {
		ops = append(ops, op)
		if strings.HasPrefix(op.Name, "Cap(") || strings.HasPrefix(op.Name, "T(") {
			continue
		}
		base := s.do[op.Name]
		bn := "B:" + op.Name
		ops = append(ops, explore.Op{Name: bn})
		s.do[bn] = func(in *inst) []report.Violation {
			in.alt.cap = in.cap
			v := base(in.alt)
			for i := range v {
				v[i].Detail = "[second store] " + v[i].Detail
			}
			for _, x := range s.sizeCheck(in) {
				x.Key = "operation on the second store: first store: " + x.Key
				v = append(v, x)
			}
			return v
		}
		an := op.Name
		s.do[an] = func(in *inst) []report.Violation {
			v := base(in)
			in.alt.cap = in.cap
			for _, x := range s.sizeCheck(in.alt) {
				x.Key = "operation on the first store: second store: " + x.Key
				v = append(v, x)
			}
			return v
		}
	}
	s.ops = ops
}

func (s *sys) Ops(any) []explore.Op { return s.ops }

func (s *sys) put(in *inst, name string, fresh int, payload string) (v []report.Violation) {
	p := mkData(name, fresh, payload)
	_, existed := in.ref[name]
	// the cached set before the insertion is the reference's: every operation ends with a
	// comparison of the real cached set with the reference (sizeCheck), and a state in which they
	// differ is reported and not continued
	before := refNames(in)
	// the caller owns the buffer it hands in and re-uses it afterwards (a face receive loop
	// does): the store gets a private copy of the packet bytes, which is overwritten right after
	// ... and the decoded packet handed in is the decoding of THAT buffer (it points into it), as in
	// the forwarder's Data pipeline; it, too, belongs to the caller and is overwritten afterwards.
	// The insertion is guarded the way the pipeline guards it (fw/fw/thread.go: IsCsAdmitting).
	if !in.cs.IsCsAdmitting() {
		if in.admit {
			// nothing is cached, so nothing the property demands of cached packets can fail: the text
			// leaves it open; the reference follows the store
		}
		return s.sizeCheck(in)
	}
	buf := append([]byte(nil), p.wire...)
	dec, _, err := spec.ReadPacket(enc.NewBufferReader(buf))
	if err != nil || dec.Data == nil {
		panic(fmt.Sprint("cannot decode own packet: ", err))
	}
	// (the NAME is given its own memory: the name tree keeps referring to the components of the
	// names it was given, and whether their memory may be re-used is the name tree's contract, not
	// this property's - see the hand-off note; C07_SCRIBBLE_NAMES=1 tries it)
	if os.Getenv("C07_SCRIBBLE_NAMES") == "" {
		dec.Data.NameV = nm(name)
	}
	in.cs.InsertData(dec.Data, buf)
	scribble(dec.Data, false)
	for i := range buf {
		buf[i] = 0xAA
	}
	dump := table.VerifDumpPitCs(in.cs, vtime.Now())
	after := dumpNames(dump)
	stale := vtime.Now()
	if fresh > 0 {
		stale = stale.Add(time.Duration(fresh) * time.Millisecond)
	}
	in.ref[name] = &refEntry{wire: p.wire, payload: payload, staleAt: stale}
	in.orders = touchAll(in.orders, name)
	// which entries disappeared?
	afterSet := map[string]bool{}
	for _, n := range after {
		afterSet[n] = true
	}
	var victims []string
	for _, n := range append(before, name) {
		if !afterSet[n] && (n != name || !contains(before, name)) {
			if !contains(victims, n) {
				victims = append(victims, n)
			}
		}
	}
	if existed {
		if len(victims) > 0 {
			v = append(v, report.Violation{Clause: "C07.lru", Key: "refresh evicts", Detail: fmt.Sprintf("refreshing %s removed %v", name, victims)})
		}
	} else {
		// inserting under a new name: at most capacity packets stay cached
		if len(after) > in.cap {
			v = append(v, report.Violation{Clause: "C07.cap", Key: "over capacity after insert of new name", Detail: fmt.Sprintf("capacity %d but %d packets cached after Put(%s): %v", in.cap, len(after), name, after)})
		}
		if in.cs.CsSize() > in.cap {
			v = append(v, report.Violation{Clause: "C07.cap", Key: "CsSize over capacity after insert of new name", Detail: fmt.Sprintf("capacity %d but CsSize()=%d", in.cap, in.cs.CsSize())})
		}
	}
	// victims must be evicted from the LRU end, one by one, in some candidate order;
	// and nothing is evicted unless the store is over capacity
	need := len(in.ref) - in.cap
	if need < 0 {
		need = 0
	}
	if !existed && len(victims) != need && len(after) <= in.cap {
		v = append(v, report.Violation{Clause: "C07.lru", Key: "evicted more than needed", Detail: fmt.Sprintf("capacity %d, %d entries before insert, evicted %v", in.cap, len(before), victims)})
	}
	if len(victims) > 0 {
		var keep [][]string
		for _, o := range in.orders {
			if len(o) < len(victims) {
				continue
			}
			head := append([]string{}, o[:len(victims)]...)
			sort.Strings(head)
			vs := append([]string{}, victims...)
			sort.Strings(vs)
			if strings.Join(head, ",") == strings.Join(vs, ",") {
				keep = append(keep, append([]string{}, o[len(victims):]...))
			}
		}
		if len(keep) == 0 {
			v = append(v, report.Violation{Clause: "C07.lru", Key: "victim is not least recently used", Detail: fmt.Sprintf("Put(%s) evicted %v but the least-recently inserted/refreshed/exact-hit order(s) are %v", name, victims, in.orders)})
			// resynchronise: drop victims everywhere
			for _, o := range in.orders {
				var no []string
				for _, x := range o {
					if !contains(victims, x) {
						no = append(no, x)
					}
				}
				keep = append(keep, no)
			}
		}
		in.orders = dedupOrders(keep)
		for _, x := range victims {
			delete(in.ref, x)
		}
	}
	v = append(v, s.sizeCheckDump(in, dump)...)
	return
}

func refNames(in *inst) []string {
	names := make([]string, 0, len(in.ref))
	for n := range in.ref {
		names = append(names, n)
	}
	sort.Strings(names)
	return names
}

func dumpNames(d table.VerifPitCsDump) []string {
	out := make([]string, 0, len(d.Cs))
	for _, c := range d.Cs {
		out = append(out, c.Name)
	}
	sort.Strings(out)
	return out
}

func contains(l []string, x string) bool {
	for _, y := range l {
		if y == x {
			return true
		}
	}
	return false
}

func (s *sys) sizeCheck(in *inst) []report.Violation {
	return s.sizeCheckDump(in, table.VerifDumpPitCs(in.cs, vtime.Now()))
}

func (s *sys) sizeCheckDump(in *inst, d table.VerifPitCsDump) (v []report.Violation) {
	if in.cs.CsSize() != len(d.Cs) {
		v = append(v, report.Violation{Clause: "C07.size", Key: "CsSize differs from stored entries", Detail: fmt.Sprintf("CsSize()=%d but %d entries stored", in.cs.CsSize(), len(d.Cs))})
	}
	names := refNames(in)
	got := dumpNames(d)
	if strings.Join(names, ",") != strings.Join(got, ",") {
		v = append(v, report.Violation{Clause: "C07.size", Key: "cached set differs from reference", Detail: fmt.Sprintf("cached %v, reference %v", got, names)})
	}
	return
}

// get = one lookup checked against the reference; a lookup never changes the cached set
func (s *sys) get(in *inst, name string, cbp, mbf bool) []report.Violation {
	v := s.lookup(in, name, cbp, mbf)
	return append(v, s.sizeCheck(in)...)
}

func (s *sys) lookup(in *inst, name string, cbp, mbf bool) (v []report.Violation) {
	now := vtime.Now()
	it := &spec.Interest{NameV: nm(name), CanBePrefixV: cbp, MustBeFreshV: mbf}
	// the lookup is guarded the way the Interest pipeline guards it (fw/fw/thread.go: IsCsServing)
	if !in.cs.IsCsServing() {
		if in.serve && !cbp {
			if ref := in.ref[name]; ref != nil && (!mbf || now.Before(ref.staleAt)) {
				v = append(v, report.Violation{Clause: "C07.find", Key: "store started with serve=true does not serve: cached fresh entry not found", Detail: fmt.Sprintf("IsCsServing()=false although the start-up configuration says serve: true; Get(%s,mbf=%v) cannot find the cached entry", name, mbf)})
			}
		}
		return
	}
	e := in.cs.FindMatchingDataFromCS(it)
	ref := in.ref[name]
	if e == nil {
		if !cbp && ref != nil && (!mbf || now.Before(ref.staleAt)) {
			v = append(v, report.Violation{Clause: "C07.find", Key: fmt.Sprintf("exact lookup misses cached fresh entry (mbf=%v)", mbf), Detail: fmt.Sprintf("Get(%s,mbf=%v) found nothing; entry cached, stale in %v", name, mbf, ref.staleAt.Sub(now))})
		}
		if !cbp && ref != nil {
			// a miss does not change recency
		}
		return
	}
	data, wire, err := e.Copy()
	if err != nil || data == nil {
		v = append(v, report.Violation{Clause: "C07.bytes", Key: "Copy fails", Detail: fmt.Sprint("CsEntry.Copy error: ", err)})
		return
	}
	// Copy returns the packet twice: as bytes and decoded. The forwarder sends what Copy returns
	// (packet.L3.Data = decoded, packet.Raw = bytes): the two must be the same packet in every
	// field - name, content, MetaInfo, signature. (Decided first: the name of the returned packet,
	// which the clauses below go by, is taken from the decoded form.)
	got := digest(data)
	if want := wireDigest(wire); got != want {
		v = append(v, report.Violation{Clause: "C07.bytes", Key: "decoded Data returned by Copy is not the decoding of the bytes returned with it", Detail: fmt.Sprintf("Get(%s,cbp=%v,mbf=%v): Copy returned the decoded packet {%s} together with bytes that decode to {%s}", name, cbp, mbf, got, want)})
		scribble(data, true)
		return
	}
	gn := data.NameV.String()
	if cbp {
		if !isPrefix(nm(name), data.NameV) {
			v = append(v, report.Violation{Clause: "C07.match", Key: "prefix lookup returns non-extension", Detail: fmt.Sprintf("Get(%s,cbp) returned %s", name, gn)})
		}
	} else if !data.NameV.Equal(nm(name)) {
		v = append(v, report.Violation{Clause: "C07.match", Key: "exact lookup returns other name", Detail: fmt.Sprintf("Get(%s) returned %s", name, gn)})
	}
	r := in.ref[gn]
	if r == nil {
		v = append(v, report.Violation{Clause: "C07.find", Key: "returns evicted or never inserted entry", Detail: fmt.Sprintf("Get(%s,cbp=%v,mbf=%v) returned %s which is not cached per reference", name, cbp, mbf, gn)})
		return
	}
	if !bytes.Equal(wire, r.wire) {
		v = append(v, report.Violation{Clause: "C07.bytes", Key: "bytes differ from last insert", Detail: fmt.Sprintf("Get(%s) returned bytes that differ from the packet last inserted under %s", name, gn)})
	}
	// ... and the decoded packet must be the packet most recently inserted under that name
	if want := wireDigest(r.wire); got != want {
		v = append(v, report.Violation{Clause: "C07.bytes", Key: "decoded Data returned by Copy is not the packet last inserted under that name", Detail: fmt.Sprintf("Get(%s,cbp=%v,mbf=%v): Copy returned the decoded packet {%s}; the packet last inserted under %s decodes to {%s}", name, cbp, mbf, got, gn, want)})
	}
	// the entry's own statement of when it goes stale: insertion (or refresh) + freshness period
	if st := e.StaleTime(); !st.Equal(r.staleAt) {
		v = append(v, report.Violation{Clause: "C07.fresh", Key: "entry reports a stale time other than last insertion + freshness period", Detail: fmt.Sprintf("Get(%s): StaleTime() is %v from now, last insertion + freshness period is %v from now", name, st.Sub(now), r.staleAt.Sub(now))})
	}
	// what Copy hands out belongs to the caller, who may change it (the next lookup must still
	// return the inserted packet): the bytes and everything reachable from the decoded packet
	scribble(data, true)
	for i := range wire {
		wire[i] ^= 0xFF
	}
	if mbf && !now.Before(r.staleAt) {
		v = append(v, report.Violation{Clause: "C07.fresh", Key: fmt.Sprintf("stale entry served to MustBeFresh (cbp=%v)", cbp), Detail: fmt.Sprintf("Get(%s,mbf) returned %s which went stale %v ago", name, gn, now.Sub(r.staleAt))})
	}
	// recency
	if !cbp {
		in.orders = touchAll(in.orders, gn)
	} else if gn == name {
		// CanBePrefix lookup answered by the exact-name entry: the property leaves open whether
		// this counts as an exact-name hit; keep both possibilities.
		var more [][]string
		for _, o := range in.orders {
			more = append(more, append([]string{}, o...), moveBack(o, gn))
		}
		in.orders = dedupOrders(more)
	}
	return
}

func (s *sys) Apply(i any, op explore.Op) []report.Violation {
	in := i.(*inst)
	v := s.do[op.Name](in)
	if len(in.pending) > 0 { // what the start-up found wrong is reported with the first operation
		v = append(in.pending, v...)
		in.pending = nil
	}
	return v
}

func (s *sys) Canon(i any) string {
	in := i.(*inst)
	if in.alt != nil {
		in.alt.cap = in.cap
		return canonOne(in) + " ||B|| " + canonOne(in.alt)
	}
	return canonOne(in)
}

func canonOne(in *inst) string {
	now := vtime.Now()
	var b strings.Builder
	names := []string{}
	for n := range in.ref {
		names = append(names, n)
	}
	sort.Strings(names)
	rel := func(d time.Duration) time.Duration {
		if d <= 0 {
			return 0
		}
		return d
	}
	for _, n := range names {
		r := in.ref[n]
		fmt.Fprintf(&b, "%s:%s:%v;", n, r.payload, rel(r.staleAt.Sub(now)))
	}
	fmt.Fprintf(&b, "cap=%d/%d admit=%v/%v serve=%v/%v orders=%v", in.cap, table.CsCapacity(), in.admit, in.cs.IsCsAdmitting(), in.serve, in.cs.IsCsServing(), dedupOrders(in.orders))
	d := table.VerifDumpPitCs(in.cs, now)
	fmt.Fprintf(&b, "#n=%d dead=%v lru=%v loc=%d map=%d cnt=%d", d.Nodes, d.DeadNodes, d.LruOrder, d.LruLocations, d.CsMapSize, d.NCs)
	// fields of the entries / of the replacement policy that the dump does not know (none on the
	// tree this was written for): state added by a change must not be merged away
	if h := table.VerifCsHidden(in.cs); h != "" {
		fmt.Fprintf(&b, " hidden=%s", h)
	}
	for _, c := range d.Cs {
		// the stored bytes are part of the state: two histories that end in the same reference
		// contents may still hold different private buffers (e.g. a reused, longer buffer)
		fmt.Fprintf(&b, "|%s:%v:%v:%d:%x", c.Name, rel(c.StaleIn), c.InMap, len(c.Wire), sha1.Sum(c.Wire))
	}
	return b.String()
}

func build(cfg string) explore.System {
	switch {
	case strings.HasPrefix(cfg, "lru"):
		// tiny alphabet for a deep search WITHOUT state de-duplication: inserts and exact hits
		// on three names at a fixed capacity (state hidden from the canonical form, e.g. a cached
		// "last used" shortcut, can only be exposed by histories, not by states)
		var c int
		fmt.Sscanf(cfg, "lru cap=%d", &c)
		s := newSys([]string{"/a", "/a/b", "/c"}, c, nil, []int{-1}, nil)
		var keep []explore.Op
		for _, op := range s.ops {
			if strings.HasPrefix(op.Name, "Put(") && strings.HasSuffix(op.Name, ",p)") {
				keep = append(keep, op)
			}
			if strings.HasPrefix(op.Name, "Get(") && strings.Contains(op.Name, "cbp=false,mbf=false") && !strings.HasPrefix(op.Name, "Get(/,") && !strings.HasPrefix(op.Name, "Get(/zz") {
				keep = append(keep, op)
			}
		}
		s.ops = keep
		return s
	case strings.HasPrefix(cfg, "order"), strings.HasPrefix(cfg, "hist"):
		// the LRU ORDER universe: n names (more than any capacity used, so every capacity can be
		// filled and overflowed), initial capacity c, the capacity moved to EVERY value 0..n
		// through management (raised above and lowered below the occupancy), inserts, refreshes,
		// and exact hits at every occupancy below, at and above the capacity.
		// Small alphabet, so the search runs to a FIXPOINT: every reachable (cached list in
		// recency order x capacity) combination is visited and every operation tried in it.
		// "hist" is the same alphabet without capacity changes, for searches without
		// state de-duplication.
		// "order+fresh": every packet carries a 1 s freshness period, lookups also with
		// MustBeFresh, and the clock can step 1 s: a MustBeFresh hit counts like any exact hit, a
		// MustBeFresh miss on a stale entry does not. "order twin": two stores (two forwarding
		// threads) under the one process-wide capacity.
		var n, c int
		hist := strings.HasPrefix(cfg, "hist")
		withFresh := strings.HasPrefix(cfg, "order+fresh")
		twin := strings.HasPrefix(cfg, "order twin")
		switch {
		case hist:
			fmt.Sscanf(cfg, "hist n=%d cap=%d", &n, &c)
		case withFresh:
			fmt.Sscanf(cfg, "order+fresh n=%d cap=%d", &n, &c)
		case twin:
			fmt.Sscanf(cfg, "order twin n=%d cap=%d", &n, &c)
		default:
			fmt.Sscanf(cfg, "order n=%d cap=%d", &n, &c)
		}
		all := []string{"/a", "/a/b", "/c", "/c/d", "/e", "/e/f/g", "/h"}
		var caps []int
		for k := 0; k <= n && !hist; k++ {
			caps = append(caps, k)
		}
		fresh, dts := []int{-1}, []int(nil)
		if withFresh {
			fresh, dts = []int{1000}, []int{1000}
		}
		s := newSys(all[:n], c, caps, fresh, dts)
		var keep []explore.Op
		for _, op := range s.ops {
			switch {
			case strings.HasPrefix(op.Name, "Put(") && strings.HasSuffix(op.Name, ",p)"):
				keep = append(keep, op)
			case strings.HasPrefix(op.Name, "Get(/,"), strings.HasPrefix(op.Name, "Get(/zz"):
			case strings.HasPrefix(op.Name, "Get(") && strings.Contains(op.Name, "cbp=false,mbf=false"):
				keep = append(keep, op)
			case strings.HasPrefix(op.Name, "Get(") && strings.Contains(op.Name, "cbp=false,mbf=true") && withFresh:
				keep = append(keep, op)
			case strings.HasPrefix(op.Name, "Cap(") && !strings.Contains(op.Name, "flags"):
				keep = append(keep, op)
			case strings.HasPrefix(op.Name, "T("):
				keep = append(keep, op)
			}
		}
		s.ops = keep
		if twin {
			s.makeTwin()
		}
		return s
	case strings.HasPrefix(cfg, "boot"):
		// the START-UP universe: n names, the daemon (re)started with every capacity 0..n in its
		// configuration (Config value and configuration text; admit / serve switches in all four
		// combinations), the capacity moved to every value 0..n through management in between,
		// inserts, refreshes and exact hits. Runs to a fixpoint.
		var n, c, y int
		fmt.Sscanf(cfg, "boot n=%d cap=%d yaml=%d", &n, &c, &y)
		all := []string{"/a", "/a/b", "/c", "/c/d"}
		var caps []int
		for k := 0; k <= n; k++ {
			caps = append(caps, k)
		}
		s := newSys(all[:n], c, caps, []int{-1}, nil)
		s.yaml = y == 1
		var keep []explore.Op
		for _, op := range s.ops {
			switch {
			case strings.HasPrefix(op.Name, "Put("):
				keep = append(keep, op)
			case strings.HasPrefix(op.Name, "Get(/,"), strings.HasPrefix(op.Name, "Get(/zz"):
			case strings.HasPrefix(op.Name, "Get(") && strings.Contains(op.Name, "cbp=false,mbf=false"):
				keep = append(keep, op)
			case strings.HasPrefix(op.Name, "Cap(") && !strings.Contains(op.Name, "flags"):
				keep = append(keep, op)
			}
		}
		s.ops = keep
		s.addBoot(caps)
		return s
	case strings.HasPrefix(cfg, "ambig"):
		// names that differ only in where the component boundaries / which the component types are:
		// /a/b, the single component "a"+<8-byte type 8>+"b", the same value under type 264
		// (264 = 8 mod 256) - tables keyed by a hash of the name must not confuse them
		var c int
		fmt.Sscanf(cfg, "ambig cap=%d", &c)
		return newSys([]string{"/a/b", "/a%00%00%00%00%00%00%00%08b", "/a/264=b", "/a%08b"}, c, []int{1, 2}, []int{-1}, nil)
	case strings.HasPrefix(cfg, "big"):
		// capacities at which per-batch / per-tick shortcuts would start to matter (64, 128, 1024):
		// macro operations that insert k new names in a row, each insertion checked like a single Put
		var c int
		fmt.Sscanf(cfg, "big cap=%d", &c)
		var names []string
		for i := 0; i < 2*c+8; i++ {
			names = append(names, fmt.Sprintf("/n/%d", i))
		}
		// the capacity is also halved and doubled through management between the fills (a raise
		// above the occupancy followed by fills up to the new capacity), and the oldest entries are
		// hit / refreshed while the store is below, at and above its capacity
		s := newSys(names, c, []int{c / 2, 2 * c}, []int{-1}, nil)
		var capOps []explore.Op
		for _, op := range s.ops {
			if strings.HasPrefix(op.Name, "Cap(") && !strings.Contains(op.Name, "flags") {
				capOps = append(capOps, op)
			}
		}
		s.ops = capOps
		tag := func(v []report.Violation) []report.Violation {
			for i := range v {
				v[i].Key = fmt.Sprintf("capacity %d: %s", c, v[i].Key)
			}
			return v
		}
		for _, k := range []int{c - 1, c + 1, c + 6} {
			k := k
			name := fmt.Sprintf("Fill(%d new names)", k)
			s.ops = append(s.ops, explore.Op{Name: name})
			s.do[name] = func(in *inst) (v []report.Violation) {
				for i := 0; i < k && len(v) == 0; i++ {
					n := names[in.filled%len(names)]
					in.filled++
					v = s.put(in, n, -1, "p")
					if len(v) == 0 && i%7 == 0 {
						v = s.get(in, n, false, false)
					}
				}
				return tag(v)
			}
		}
		// every third cached entry, oldest first, is hit by an exact-name lookup / refreshed
		for _, refresh := range []bool{false, true} {
			refresh := refresh
			name := "HitOld(every 3rd cached entry, oldest first)"
			if refresh {
				name = "RefreshOld(every 3rd cached entry, oldest first)"
			}
			s.ops = append(s.ops, explore.Op{Name: name})
			s.do[name] = func(in *inst) (v []report.Violation) {
				order := append([]string{}, in.orders[0]...)
				for i := 0; i < len(order) && len(v) == 0; i += 3 {
					if refresh {
						v = s.put(in, order[i], -1, "q")
					} else {
						v = s.get(in, order[i], false, false)
					}
				}
				return tag(v)
			}
		}
		return s
	case strings.HasPrefix(cfg, "typed"):
		// sibling names whose last components differ in TYPE only (equal value bytes)
		var c int
		fmt.Sscanf(cfg, "typed cap=%d", &c)
		return newSys([]string{"/a/x", "/a/32=x", "/a/v=1", "/a/seg=1"}, c, []int{1, 2}, []int{-1}, nil)
	case strings.HasPrefix(cfg, "small"):
		var c int
		fmt.Sscanf(cfg, "small cap=%d", &c)
		return newSys([]string{"/a", "/a/b", "/c"}, c, []int{0, 1, 2}, []int{-1, 1000}, []int{1000})
	default:
		var c int
		fmt.Sscanf(cfg, "full cap=%d", &c)
		return newSys([]string{"/a", "/a/b", "/a/b/c", "/a/c"}, c, []int{0, 1, 2, 3}, []int{-1, 0, 1000}, []int{500, 1000})
	}
}

func main() {
	explore.Main(explore.Spec{
		ID: "C07", PanicClause: "C07.panic", Build: build,
		Configs: func(th bool) []explore.Config {
			var c []explore.Config
			// LRU order universes first: cheap, run to a fixpoint, never starved by the budget
			// start-up universes: every capacity 0..n as the configured one, restarts in between
			c = append(c, explore.Config{Name: "boot n=2 cap=0 yaml=1", MaxDepth: 64, MaxDev: -1})
			c = append(c, explore.Config{Name: "boot n=3 cap=0 yaml=0", MaxDepth: 64, MaxDev: -1})
			c = append(c, explore.Config{Name: "order n=4 cap=3", MaxDepth: 64, MaxDev: -1})
			c = append(c, explore.Config{Name: "order twin n=3 cap=2", MaxDepth: 64, MaxDev: -1})
			c = append(c, explore.Config{Name: "order n=5 cap=4", MaxDepth: 64, MaxDev: -1})
			c = append(c, explore.Config{Name: "order+fresh n=4 cap=3", MaxDepth: 64, MaxDev: -1})
			if th {
				c = append(c, explore.Config{Name: "order n=6 cap=5", MaxDepth: 64, MaxDev: -1})
				c = append(c, explore.Config{Name: "order twin n=4 cap=3", MaxDepth: 64, MaxDev: -1})
				c = append(c, explore.Config{Name: "order+fresh n=5 cap=4", MaxDepth: 64, MaxDev: -1})
			}
			d1, d2 := 10, 4
			if th {
				d1, d2 = 12, 6
			}
			for _, k := range []int{1, 2} {
				c = append(c, explore.Config{Name: fmt.Sprintf("small cap=%d", k), MaxDepth: d1, MaxDev: -1})
			}
			for _, k := range []int{0, 2, 3} {
				c = append(c, explore.Config{Name: fmt.Sprintf("full cap=%d", k), MaxDepth: d2, MaxDev: -1})
			}
			for _, k := range []int{2, 3} {
				c = append(c, explore.Config{Name: fmt.Sprintf("ambig cap=%d", k), MaxDepth: d2, MaxDev: -1})
				c = append(c, explore.Config{Name: fmt.Sprintf("typed cap=%d", k), MaxDepth: d2, MaxDev: -1})
			}
			for _, k := range []int{64, 128, 1024} {
				if k == 1024 && !th {
					continue
				}
				bd := 3
				if k == 1024 {
					bd = 2
				}
				c = append(c, explore.Config{Name: fmt.Sprintf("big cap=%d", k), MaxDepth: bd, MaxDev: -1})
			}
			// audit of the canonical form: the same search without state de-duplication
			ad := 3
			if th {
				ad = 4
			}
			c = append(c, explore.Config{Name: "audit(no dedup) small cap=2", BuildName: "small cap=2", MaxDepth: ad + 1, MaxDev: -1, NoDedup: true})
			c = append(c, explore.Config{Name: "audit(no dedup) full cap=2", BuildName: "full cap=2", MaxDepth: ad, MaxDev: -1, NoDedup: true})
			ld := 7
			if th {
				ld = 9
			}
			c = append(c, explore.Config{Name: "history search (no dedup) lru cap=2", BuildName: "lru cap=2", MaxDepth: ld, MaxDev: -1, NoDedup: true})
			c = append(c, explore.Config{Name: "history search (no dedup) lru cap=1", BuildName: "lru cap=1", MaxDepth: ld - 1, MaxDev: -1, NoDedup: true})
			// the same at a capacity that needs three entries before anything is evicted: hits and
			// refreshes below the capacity, then fills (4 names, capacity 3)
			c = append(c, explore.Config{Name: "history search (no dedup) hist n=4 cap=3", BuildName: "hist n=4 cap=3", MaxDepth: ld - 1, MaxDev: -1, NoDedup: true})
			if only := os.Getenv("C07_ONLY"); only != "" { // development aid: run matching configurations only
				var f []explore.Config
				for _, x := range c {
					if strings.Contains(x.Name, only) {
						f = append(f, x)
					}
				}
				c = f
			}
			return c
		},
		Budget: func(th bool) time.Duration {
			if th {
				return 20 * time.Minute
			}
			return 90 * time.Second
		},
		Rule: "BFS over histories of InsertData (4 names sharing prefixes x freshness {absent,0,1s} x 2 payloads), FindMatchingDataFromCS (every name, root, unknown name x CanBePrefix x MustBeFresh), SetCsCapacity(0..3) and clock steps on the real PitCsTree with the real CsLRU under a virtual clock; each transition checked against a reference store; eviction victims must be the head of a candidate LRU order. LRU-order universes (4-6 names, inserts, refreshes, exact hits, capacity moved to every value 0..n through management, optionally freshness + MustBeFresh + clock, optionally two stores under the one process-wide capacity) run to a FIXPOINT: every reachable (recency-ordered cached list x capacity) state with the store below, at and above its capacity. Large-capacity configurations (64/128/1024) combine fills with halving/doubling the capacity and hits/refreshes of the oldest entries. Every buffer handed to InsertData is overwritten after the call and every buffer returned by Copy is overwritten after it was compared. Every store is STARTED the way the daemon starts it (core.LoadConfig + table.Configure with the capacity in the configuration, as a Config value or as configuration-file text decoded like fw/executor/main.go); start-up universes (boot) restart the daemon with every configured capacity 0..n x admit x serve between inserts, hits and cs/config commands, to a fixpoint. Inserts and lookups pass the forwarder's IsCsAdmitting / IsCsServing guards. Everything Copy returns is judged: the bytes, the decoded Data field by field (name, content, content type, freshness period, final block id, signature info and value) against the packet last inserted and against the bytes returned with it, and StaleTime(); the two versions of a packet differ in every one of those fields; the decoded packet handed to InsertData points into the caller's buffer and is overwritten after the call, the decoded packet returned by Copy is overwritten after it was compared. The canonical state includes a reflective fingerprint of every entry / policy field the dump does not know",
		Assumptions: []string{
			"the caller of InsertData may re-use its buffer after the call, and the caller of CsEntry.Copy owns the returned bytes (both are overwritten by the harness)",
			"the decoded packet returned by CsEntry.Copy belongs to the caller like the bytes do (the forwarder puts it into the packet it sends); the decoded packet handed to InsertData belongs to the caller and is overwritten after the call, except its name (the name tree refers to the components of inserted names)",
		"a store whose start-up configuration says admit: false may or may not cache (the reference follows IsCsAdmitting); with serve: true a cached fresh packet must be found, i.e. IsCsServing must hold",
		"the configured capacity is process-wide and applies to each forwarding thread's store separately; an operation on one store leaves the other's cached set unchanged",
			"a CanBePrefix lookup answered by the entry whose name equals the Interest name may or may not refresh its recency (both accepted); other prefix hits do not, exact (non-CanBePrefix) hits, inserts and refreshes do",
			"prefix lookups may return any matching fresh-enough entry, or none",
			"accidental 64-bit hash collisions are outside the universe; structural collisions (names whose components concatenate to the same bytes) are inside it (universe ambig)",
		},
	})
}
