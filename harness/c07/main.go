// C07: the Content Store answers only with matching, fresh-enough Data, within capacity.
// Explicit-state search over Put/Get/Cap/Time histories on the REAL PitCsTree (+ real CsLRU)
// under a virtual clock, against a reference list; LRU order is tracked as a SET of candidate
// orders where the property leaves the effect of a lookup on recency open.
package main

import (
	"bytes"
	"crypto/sha1"
	"fmt"
	"os"
	"sort"
	"strings"
	"time"

	"github.com/named-data/ndnd/fw/core"
	fwmgmt "github.com/named-data/ndnd/fw/mgmt"
	"github.com/named-data/ndnd/fw/table"
	enc "github.com/named-data/ndnd/std/encoding"
	"github.com/named-data/ndnd/std/ndn"
	mgmtdef "github.com/named-data/ndnd/std/ndn/mgmt_2022"
	"github.com/named-data/ndnd/std/utils"
	spec "github.com/named-data/ndnd/std/ndn/spec_2022"
	sec "github.com/named-data/ndnd/std/security"
	"verif/mc/explore"
	"verif/mc/report"
	"verif/shim/vtime"
)

type refEntry struct {
	wire    []byte
	payload string
	staleAt time.Time
}

type inst struct {
	cs     *table.PitCsTree
	ref    map[string]*refEntry
	orders [][]string // candidate LRU orders (front = next victim)
	cap    int
	filled int // big configurations: how many names the Fill operations have inserted so far
	// twin configurations: the store of a second forwarding thread. The capacity is one
	// process-wide setting that applies to each thread's store separately.
	alt *inst
}

type sys struct {
	names   []string
	getters []string
	cap0    int
	twin    bool
	ops     []explore.Op
	do      map[string]func(in *inst) []report.Violation
}

var nmCache = map[string]enc.Name{}

func nm(s string) enc.Name {
	if n, ok := nmCache[s]; ok {
		return n
	}
	n, err := enc.NameFromStr(s)
	if err != nil {
		panic(err)
	}
	nmCache[s] = n
	return n
}

type pkt struct {
	data *spec.Data
	wire []byte
}

var pktCache = map[string]pkt{}

func mkData(name string, fresh int, payload string) pkt {
	k := fmt.Sprintf("%s|%d|%s", name, fresh, payload)
	if p, ok := pktCache[k]; ok {
		return p
	}
	cfg := &ndn.DataConfig{}
	if fresh >= 0 {
		d := time.Duration(fresh) * time.Millisecond
		cfg.Freshness = &d
	}
	ed, err := spec.Spec{}.MakeData(nm(name), cfg, enc.Wire{[]byte(payload)}, sec.NewSha256Signer())
	if err != nil {
		panic(err)
	}
	w := ed.Wire.Join()
	p, _, err := spec.ReadPacket(enc.NewBufferReader(w))
	if err != nil || p.Data == nil {
		panic(fmt.Sprint("cannot re-read data: ", err))
	}
	pktCache[k] = pkt{p.Data, w}
	return pktCache[k]
}

func touchAll(orders [][]string, name string) [][]string {
	for i, o := range orders {
		orders[i] = moveBack(o, name)
	}
	return orders
}

func moveBack(o []string, name string) []string {
	out := make([]string, 0, len(o)+1)
	for _, x := range o {
		if x != name {
			out = append(out, x)
		}
	}
	return append(out, name)
}

func dedupOrders(orders [][]string) [][]string {
	seen := map[string]bool{}
	var out [][]string
	for _, o := range orders {
		k := strings.Join(o, ">")
		if !seen[k] {
			seen[k] = true
			out = append(out, o)
		}
	}
	sort.Slice(out, func(i, j int) bool { return strings.Join(out[i], ">") < strings.Join(out[j], ">") })
	return out
}

func isPrefix(p, n enc.Name) bool { return p.IsPrefix(n) }

func newSys(names []string, cap0 int, caps []int, fresh []int, dts []int) *sys {
	s := &sys{names: names, cap0: cap0, do: map[string]func(in *inst) []report.Violation{}}
	add := func(name string, f func(in *inst) []report.Violation) {
		s.ops = append(s.ops, explore.Op{Name: name})
		s.do[name] = f
	}
	for _, n := range names {
		for _, fr := range fresh {
			for _, pl := range []string{"p", "q"} {
				n, fr, pl := n, fr, pl
				add(fmt.Sprintf("Put(%s,fresh=%dms,%s)", n, fr, pl), func(in *inst) []report.Violation { return s.put(in, n, fr, pl) })
			}
		}
	}
	getNames := append([]string{"/"}, names...)
	getNames = append(getNames, "/zz")
	for _, n := range getNames {
		for _, cbp := range []bool{false, true} {
			for _, mbf := range []bool{false, true} {
				n, cbp, mbf := n, cbp, mbf
				add(fmt.Sprintf("Get(%s,cbp=%v,mbf=%v)", n, cbp, mbf), func(in *inst) []report.Violation { return s.get(in, n, cbp, mbf) })
			}
		}
	}
	for _, k := range caps {
		k := k
		// the capacity is changed the way an operator does it: a cs/config command handed to the real
		// management module (fw/mgmt/cs.go), with and without the optional Flags/Mask pair
		for _, fm := range []bool{false, true} {
			fm := fm
			nm := fmt.Sprintf("Cap(%d)", k)
			if fm {
				nm = fmt.Sprintf("Cap(%d,flags+mask)", k)
			}
			add(nm, func(in *inst) (v []report.Violation) {
				args := &mgmtdef.ControlArgs{Capacity: utils.IdPtr(uint64(k))}
				if fm {
					args.Flags, args.Mask = utils.IdPtr(uint64(0)), utils.IdPtr(uint64(0))
				}
				status, _ := fwmgmt.VerifCommand("cs", "config", args, 1)
				in.cap = k
				if status != 200 || table.CsCapacity() != k {
					v = append(v, report.Violation{Clause: "C07.cap", Key: "cs/config command does not set the capacity",
						Detail: fmt.Sprintf("%s through the management module answered %d and left the capacity at %d", nm, status, table.CsCapacity())})
				}
				return
			})
		}
	}
	for _, dt := range dts {
		dt := dt
		add(fmt.Sprintf("T(%dms)", dt), func(in *inst) []report.Violation {
			vtime.Advance(time.Duration(dt) * time.Millisecond)
			return nil
		})
	}
	return s
}

var cfgDone bool

func (s *sys) New() any {
	vtime.Reset(false)
	if !cfgDone {
		cfgDone = true
		c := core.DefaultConfig()
		c.Core.LogLevel = "FATAL"
		core.LoadConfig(c, "")
		core.InitializeLogger("")
	}
	table.VerifConfigure(s.cap0, true, true, 6*time.Second)
	in := &inst{cs: table.NewPitCS(func(table.PitEntry) {}), ref: map[string]*refEntry{}, orders: [][]string{{}}, cap: s.cap0}
	if s.twin {
		in.alt = &inst{cs: table.NewPitCS(func(table.PitEntry) {}), ref: map[string]*refEntry{}, orders: [][]string{{}}, cap: s.cap0}
	}
	return in
}

// makeTwin turns the alphabet into one over TWO stores (two forwarding threads): every insert and
// lookup exists once per store, capacity changes are process-wide. Each store is held to the
// property on its own, and an operation on one store must leave the other's cached set alone.
func (s *sys) makeTwin() {
	s.twin = true
	var ops []explore.Op
	for _, op := range s.ops {
		ops = append(ops, op)
		if strings.HasPrefix(op.Name, "Cap(") || strings.HasPrefix(op.Name, "T(") {
			continue
		}
		base := s.do[op.Name]
		bn := "B:" + op.Name
		ops = append(ops, explore.Op{Name: bn})
		s.do[bn] = func(in *inst) []report.Violation {
			in.alt.cap = in.cap
			v := base(in.alt)
			for i := range v {
				v[i].Detail = "[second store] " + v[i].Detail
			}
			for _, x := range s.sizeCheck(in) {
				x.Key = "operation on the second store: first store: " + x.Key
				v = append(v, x)
			}
			return v
		}
		an := op.Name
		s.do[an] = func(in *inst) []report.Violation {
			v := base(in)
			in.alt.cap = in.cap
			for _, x := range s.sizeCheck(in.alt) {
				x.Key = "operation on the first store: second store: " + x.Key
				v = append(v, x)
			}
			return v
		}
	}
	s.ops = ops
}

func (s *sys) Ops(any) []explore.Op { return s.ops }

func (s *sys) put(in *inst, name string, fresh int, payload string) (v []report.Violation) {
	p := mkData(name, fresh, payload)
	_, existed := in.ref[name]
	// the cached set before the insertion is the reference's: every operation ends with a
	// comparison of the real cached set with the reference (sizeCheck), and a state in which they
	// differ is reported and not continued
	before := refNames(in)
	// the caller owns the buffer it hands in and re-uses it afterwards (a face receive loop
	// does): the store gets a private copy of the packet bytes, which is overwritten right after
	buf := append([]byte(nil), p.wire...)
	in.cs.InsertData(p.data, buf)
	for i := range buf {
		buf[i] = 0xAA
	}
	dump := table.VerifDumpPitCs(in.cs, vtime.Now())
	after := dumpNames(dump)
	stale := vtime.Now()
	if fresh > 0 {
		stale = stale.Add(time.Duration(fresh) * time.Millisecond)
	}
	in.ref[name] = &refEntry{wire: p.wire, payload: payload, staleAt: stale}
	in.orders = touchAll(in.orders, name)
	// which entries disappeared?
	afterSet := map[string]bool{}
	for _, n := range after {
		afterSet[n] = true
	}
	var victims []string
	for _, n := range append(before, name) {
		if !afterSet[n] && (n != name || !contains(before, name)) {
			if !contains(victims, n) {
				victims = append(victims, n)
			}
		}
	}
	if existed {
		if len(victims) > 0 {
			v = append(v, report.Violation{Clause: "C07.lru", Key: "refresh evicts", Detail: fmt.Sprintf("refreshing %s removed %v", name, victims)})
		}
	} else {
		// inserting under a new name: at most capacity packets stay cached
		if len(after) > in.cap {
			v = append(v, report.Violation{Clause: "C07.cap", Key: "over capacity after insert of new name", Detail: fmt.Sprintf("capacity %d but %d packets cached after Put(%s): %v", in.cap, len(after), name, after)})
		}
		if in.cs.CsSize() > in.cap {
			v = append(v, report.Violation{Clause: "C07.cap", Key: "CsSize over capacity after insert of new name", Detail: fmt.Sprintf("capacity %d but CsSize()=%d", in.cap, in.cs.CsSize())})
		}
	}
	// victims must be evicted from the LRU end, one by one, in some candidate order;
	// and nothing is evicted unless the store is over capacity
	need := len(in.ref) - in.cap
	if need < 0 {
		need = 0
	}
	if !existed && len(victims) != need && len(after) <= in.cap {
		v = append(v, report.Violation{Clause: "C07.lru", Key: "evicted more than needed", Detail: fmt.Sprintf("capacity %d, %d entries before insert, evicted %v", in.cap, len(before), victims)})
	}
	if len(victims) > 0 {
		var keep [][]string
		for _, o := range in.orders {
			if len(o) < len(victims) {
				continue
			}
			head := append([]string{}, o[:len(victims)]...)
			sort.Strings(head)
			vs := append([]string{}, victims...)
			sort.Strings(vs)
			if strings.Join(head, ",") == strings.Join(vs, ",") {
				keep = append(keep, append([]string{}, o[len(victims):]...))
			}
		}
		if len(keep) == 0 {
			v = append(v, report.Violation{Clause: "C07.lru", Key: "victim is not least recently used", Detail: fmt.Sprintf("Put(%s) evicted %v but the least-recently inserted/refreshed/exact-hit order(s) are %v", name, victims, in.orders)})
			// resynchronise: drop victims everywhere
			for _, o := range in.orders {
				var no []string
				for _, x := range o {
					if !contains(victims, x) {
						no = append(no, x)
					}
				}
				keep = append(keep, no)
			}
		}
		in.orders = dedupOrders(keep)
		for _, x := range victims {
			delete(in.ref, x)
		}
	}
	v = append(v, s.sizeCheckDump(in, dump)...)
	return
}

func refNames(in *inst) []string {
	names := make([]string, 0, len(in.ref))
	for n := range in.ref {
		names = append(names, n)
	}
	sort.Strings(names)
	return names
}

func dumpNames(d table.VerifPitCsDump) []string {
	out := make([]string, 0, len(d.Cs))
	for _, c := range d.Cs {
		out = append(out, c.Name)
	}
	sort.Strings(out)
	return out
}

func contains(l []string, x string) bool {
	for _, y := range l {
		if y == x {
			return true
		}
	}
	return false
}

func (s *sys) sizeCheck(in *inst) []report.Violation {
	return s.sizeCheckDump(in, table.VerifDumpPitCs(in.cs, vtime.Now()))
}

func (s *sys) sizeCheckDump(in *inst, d table.VerifPitCsDump) (v []report.Violation) {
	if in.cs.CsSize() != len(d.Cs) {
		v = append(v, report.Violation{Clause: "C07.size", Key: "CsSize differs from stored entries", Detail: fmt.Sprintf("CsSize()=%d but %d entries stored", in.cs.CsSize(), len(d.Cs))})
	}
	names := refNames(in)
	got := dumpNames(d)
	if strings.Join(names, ",") != strings.Join(got, ",") {
		v = append(v, report.Violation{Clause: "C07.size", Key: "cached set differs from reference", Detail: fmt.Sprintf("cached %v, reference %v", got, names)})
	}
	return
}

// get = one lookup checked against the reference; a lookup never changes the cached set
func (s *sys) get(in *inst, name string, cbp, mbf bool) []report.Violation {
	v := s.lookup(in, name, cbp, mbf)
	return append(v, s.sizeCheck(in)...)
}

func (s *sys) lookup(in *inst, name string, cbp, mbf bool) (v []report.Violation) {
	now := vtime.Now()
	it := &spec.Interest{NameV: nm(name), CanBePrefixV: cbp, MustBeFreshV: mbf}
	e := in.cs.FindMatchingDataFromCS(it)
	ref := in.ref[name]
	if e == nil {
		if !cbp && ref != nil && (!mbf || now.Before(ref.staleAt)) {
			v = append(v, report.Violation{Clause: "C07.find", Key: fmt.Sprintf("exact lookup misses cached fresh entry (mbf=%v)", mbf), Detail: fmt.Sprintf("Get(%s,mbf=%v) found nothing; entry cached, stale in %v", name, mbf, ref.staleAt.Sub(now))})
		}
		if !cbp && ref != nil {
			// a miss does not change recency
		}
		return
	}
	data, wire, err := e.Copy()
	if err != nil || data == nil {
		v = append(v, report.Violation{Clause: "C07.bytes", Key: "Copy fails", Detail: fmt.Sprint("CsEntry.Copy error: ", err)})
		return
	}
	gn := data.NameV.String()
	if cbp {
		if !isPrefix(nm(name), data.NameV) {
			v = append(v, report.Violation{Clause: "C07.match", Key: "prefix lookup returns non-extension", Detail: fmt.Sprintf("Get(%s,cbp) returned %s", name, gn)})
		}
	} else if !data.NameV.Equal(nm(name)) {
		v = append(v, report.Violation{Clause: "C07.match", Key: "exact lookup returns other name", Detail: fmt.Sprintf("Get(%s) returned %s", name, gn)})
	}
	r := in.ref[gn]
	if r == nil {
		v = append(v, report.Violation{Clause: "C07.find", Key: "returns evicted or never inserted entry", Detail: fmt.Sprintf("Get(%s,cbp=%v,mbf=%v) returned %s which is not cached per reference", name, cbp, mbf, gn)})
		return
	}
	if !bytes.Equal(wire, r.wire) {
		v = append(v, report.Violation{Clause: "C07.bytes", Key: "bytes differ from last insert", Detail: fmt.Sprintf("Get(%s) returned bytes that differ from the packet last inserted under %s", name, gn)})
	}
	// what Copy hands out belongs to the caller, who may change it (the next lookup must still
	// return the inserted bytes)
	for i := range wire {
		wire[i] ^= 0xFF
	}
	if mbf && !now.Before(r.staleAt) {
		v = append(v, report.Violation{Clause: "C07.fresh", Key: fmt.Sprintf("stale entry served to MustBeFresh (cbp=%v)", cbp), Detail: fmt.Sprintf("Get(%s,mbf) returned %s which went stale %v ago", name, gn, now.Sub(r.staleAt))})
	}
	// recency
	if !cbp {
		in.orders = touchAll(in.orders, gn)
	} else if gn == name {
		// CanBePrefix lookup answered by the exact-name entry: the property leaves open whether
		// this counts as an exact-name hit; keep both possibilities.
		var more [][]string
		for _, o := range in.orders {
			more = append(more, append([]string{}, o...), moveBack(o, gn))
		}
		in.orders = dedupOrders(more)
	}
	return
}

func (s *sys) Apply(i any, op explore.Op) []report.Violation { return s.do[op.Name](i.(*inst)) }

func (s *sys) Canon(i any) string {
	in := i.(*inst)
	if in.alt != nil {
		in.alt.cap = in.cap
		return canonOne(in) + " ||B|| " + canonOne(in.alt)
	}
	return canonOne(in)
}

func canonOne(in *inst) string {
	now := vtime.Now()
	var b strings.Builder
	names := []string{}
	for n := range in.ref {
		names = append(names, n)
	}
	sort.Strings(names)
	rel := func(d time.Duration) time.Duration {
		if d <= 0 {
			return 0
		}
		return d
	}
	for _, n := range names {
		r := in.ref[n]
		fmt.Fprintf(&b, "%s:%s:%v;", n, r.payload, rel(r.staleAt.Sub(now)))
	}
	fmt.Fprintf(&b, "cap=%d orders=%v", in.cap, dedupOrders(in.orders))
	d := table.VerifDumpPitCs(in.cs, now)
	fmt.Fprintf(&b, "#n=%d dead=%v lru=%v loc=%d map=%d cnt=%d", d.Nodes, d.DeadNodes, d.LruOrder, d.LruLocations, d.CsMapSize, d.NCs)
	for _, c := range d.Cs {
		// the stored bytes are part of the state: two histories that end in the same reference
		// contents may still hold different private buffers (e.g. a reused, longer buffer)
		fmt.Fprintf(&b, "|%s:%v:%v:%d:%x", c.Name, rel(c.StaleIn), c.InMap, len(c.Wire), sha1.Sum(c.Wire))
	}
	return b.String()
}

func build(cfg string) explore.System {
	switch {
	case strings.HasPrefix(cfg, "lru"):
		// tiny alphabet for a deep search WITHOUT state de-duplication: inserts and exact hits
		// on three names at a fixed capacity (state hidden from the canonical form, e.g. a cached
		// "last used" shortcut, can only be exposed by histories, not by states)
		var c int
		fmt.Sscanf(cfg, "lru cap=%d", &c)
		s := newSys([]string{"/a", "/a/b", "/c"}, c, nil, []int{-1}, nil)
		var keep []explore.Op
		for _, op := range s.ops {
			if strings.HasPrefix(op.Name, "Put(") && strings.HasSuffix(op.Name, ",p)") {
				keep = append(keep, op)
			}
			if strings.HasPrefix(op.Name, "Get(") && strings.Contains(op.Name, "cbp=false,mbf=false") && !strings.HasPrefix(op.Name, "Get(/,") && !strings.HasPrefix(op.Name, "Get(/zz") {
				keep = append(keep, op)
			}
		}
		s.ops = keep
		return s
	case strings.HasPrefix(cfg, "order"), strings.HasPrefix(cfg, "hist"):
		// the LRU ORDER universe: n names (more than any capacity used, so every capacity can be
		// filled and overflowed), initial capacity c, the capacity moved to EVERY value 0..n
		// through management (raised above and lowered below the occupancy), inserts, refreshes,
		// and exact hits at every occupancy below, at and above the capacity.
		// Small alphabet, so the search runs to a FIXPOINT: every reachable (cached list in
		// recency order x capacity) combination is visited and every operation tried in it.
		// "hist" is the same alphabet without capacity changes, for searches without
		// state de-duplication.
		// "order+fresh": every packet carries a 1 s freshness period, lookups also with
		// MustBeFresh, and the clock can step 1 s: a MustBeFresh hit counts like any exact hit, a
		// MustBeFresh miss on a stale entry does not. "order twin": two stores (two forwarding
		// threads) under the one process-wide capacity.
		var n, c int
		hist := strings.HasPrefix(cfg, "hist")
		withFresh := strings.HasPrefix(cfg, "order+fresh")
		twin := strings.HasPrefix(cfg, "order twin")
		switch {
		case hist:
			fmt.Sscanf(cfg, "hist n=%d cap=%d", &n, &c)
		case withFresh:
			fmt.Sscanf(cfg, "order+fresh n=%d cap=%d", &n, &c)
		case twin:
			fmt.Sscanf(cfg, "order twin n=%d cap=%d", &n, &c)
		default:
			fmt.Sscanf(cfg, "order n=%d cap=%d", &n, &c)
		}
		all := []string{"/a", "/a/b", "/c", "/c/d", "/e", "/e/f/g", "/h"}
		var caps []int
		for k := 0; k <= n && !hist; k++ {
			caps = append(caps, k)
		}
		fresh, dts := []int{-1}, []int(nil)
		if withFresh {
			fresh, dts = []int{1000}, []int{1000}
		}
		s := newSys(all[:n], c, caps, fresh, dts)
		var keep []explore.Op
		for _, op := range s.ops {
			switch {
			case strings.HasPrefix(op.Name, "Put(") && strings.HasSuffix(op.Name, ",p)"):
				keep = append(keep, op)
			case strings.HasPrefix(op.Name, "Get(/,"), strings.HasPrefix(op.Name, "Get(/zz"):
			case strings.HasPrefix(op.Name, "Get(") && strings.Contains(op.Name, "cbp=false,mbf=false"):
				keep = append(keep, op)
			case strings.HasPrefix(op.Name, "Get(") && strings.Contains(op.Name, "cbp=false,mbf=true") && withFresh:
				keep = append(keep, op)
			case strings.HasPrefix(op.Name, "Cap(") && !strings.Contains(op.Name, "flags"):
				keep = append(keep, op)
			case strings.HasPrefix(op.Name, "T("):
				keep = append(keep, op)
			}
		}
		s.ops = keep
		if twin {
			s.makeTwin()
		}
		return s
	case strings.HasPrefix(cfg, "ambig"):
		// names that differ only in where the component boundaries / which the component types are:
		// /a/b, the single component "a"+<8-byte type 8>+"b", the same value under type 264
		// (264 = 8 mod 256) - tables keyed by a hash of the name must not confuse them
		var c int
		fmt.Sscanf(cfg, "ambig cap=%d", &c)
		return newSys([]string{"/a/b", "/a%00%00%00%00%00%00%00%08b", "/a/264=b", "/a%08b"}, c, []int{1, 2}, []int{-1}, nil)
	case strings.HasPrefix(cfg, "big"):
		// capacities at which per-batch / per-tick shortcuts would start to matter (64, 128, 1024):
		// macro operations that insert k new names in a row, each insertion checked like a single Put
		var c int
		fmt.Sscanf(cfg, "big cap=%d", &c)
		var names []string
		for i := 0; i < 2*c+8; i++ {
			names = append(names, fmt.Sprintf("/n/%d", i))
		}
		// the capacity is also halved and doubled through management between the fills (a raise
		// above the occupancy followed by fills up to the new capacity), and the oldest entries are
		// hit / refreshed while the store is below, at and above its capacity
		s := newSys(names, c, []int{c / 2, 2 * c}, []int{-1}, nil)
		var capOps []explore.Op
		for _, op := range s.ops {
			if strings.HasPrefix(op.Name, "Cap(") && !strings.Contains(op.Name, "flags") {
				capOps = append(capOps, op)
			}
		}
		s.ops = capOps
		tag := func(v []report.Violation) []report.Violation {
			for i := range v {
				v[i].Key = fmt.Sprintf("capacity %d: %s", c, v[i].Key)
			}
			return v
		}
		for _, k := range []int{c - 1, c + 1, c + 6} {
			k := k
			name := fmt.Sprintf("Fill(%d new names)", k)
			s.ops = append(s.ops, explore.Op{Name: name})
			s.do[name] = func(in *inst) (v []report.Violation) {
				for i := 0; i < k && len(v) == 0; i++ {
					n := names[in.filled%len(names)]
					in.filled++
					v = s.put(in, n, -1, "p")
					if len(v) == 0 && i%7 == 0 {
						v = s.get(in, n, false, false)
					}
				}
				return tag(v)
			}
		}
		// every third cached entry, oldest first, is hit by an exact-name lookup / refreshed
		for _, refresh := range []bool{false, true} {
			refresh := refresh
			name := "HitOld(every 3rd cached entry, oldest first)"
			if refresh {
				name = "RefreshOld(every 3rd cached entry, oldest first)"
			}
			s.ops = append(s.ops, explore.Op{Name: name})
			s.do[name] = func(in *inst) (v []report.Violation) {
				order := append([]string{}, in.orders[0]...)
				for i := 0; i < len(order) && len(v) == 0; i += 3 {
					if refresh {
						v = s.put(in, order[i], -1, "q")
					} else {
						v = s.get(in, order[i], false, false)
					}
				}
				return tag(v)
			}
		}
		return s
	case strings.HasPrefix(cfg, "typed"):
		// sibling names whose last components differ in TYPE only (equal value bytes)
		var c int
		fmt.Sscanf(cfg, "typed cap=%d", &c)
		return newSys([]string{"/a/x", "/a/32=x", "/a/v=1", "/a/seg=1"}, c, []int{1, 2}, []int{-1}, nil)
	case strings.HasPrefix(cfg, "small"):
		var c int
		fmt.Sscanf(cfg, "small cap=%d", &c)
		return newSys([]string{"/a", "/a/b", "/c"}, c, []int{0, 1, 2}, []int{-1, 1000}, []int{1000})
	default:
		var c int
		fmt.Sscanf(cfg, "full cap=%d", &c)
		return newSys([]string{"/a", "/a/b", "/a/b/c", "/a/c"}, c, []int{0, 1, 2, 3}, []int{-1, 0, 1000}, []int{500, 1000})
	}
}

func main() {
	explore.Main(explore.Spec{
		ID: "C07", PanicClause: "C07.panic", Build: build,
		Configs: func(th bool) []explore.Config {
			var c []explore.Config
			// LRU order universes first: cheap, run to a fixpoint, never starved by the budget
			c = append(c, explore.Config{Name: "order n=4 cap=3", MaxDepth: 64, MaxDev: -1})
			c = append(c, explore.Config{Name: "order twin n=3 cap=2", MaxDepth: 64, MaxDev: -1})
			c = append(c, explore.Config{Name: "order n=5 cap=4", MaxDepth: 64, MaxDev: -1})
			c = append(c, explore.Config{Name: "order+fresh n=4 cap=3", MaxDepth: 64, MaxDev: -1})
			if th {
				c = append(c, explore.Config{Name: "order n=6 cap=5", MaxDepth: 64, MaxDev: -1})
				c = append(c, explore.Config{Name: "order twin n=4 cap=3", MaxDepth: 64, MaxDev: -1})
				c = append(c, explore.Config{Name: "order+fresh n=5 cap=4", MaxDepth: 64, MaxDev: -1})
			}
			d1, d2 := 10, 4
			if th {
				d1, d2 = 12, 6
			}
			for _, k := range []int{1, 2} {
				c = append(c, explore.Config{Name: fmt.Sprintf("small cap=%d", k), MaxDepth: d1, MaxDev: -1})
			}
			for _, k := range []int{0, 2, 3} {
				c = append(c, explore.Config{Name: fmt.Sprintf("full cap=%d", k), MaxDepth: d2, MaxDev: -1})
			}
			for _, k := range []int{2, 3} {
				c = append(c, explore.Config{Name: fmt.Sprintf("ambig cap=%d", k), MaxDepth: d2, MaxDev: -1})
				c = append(c, explore.Config{Name: fmt.Sprintf("typed cap=%d", k), MaxDepth: d2, MaxDev: -1})
			}
			for _, k := range []int{64, 128, 1024} {
				if k == 1024 && !th {
					continue
				}
				bd := 3
				if k == 1024 {
					bd = 2
				}
				c = append(c, explore.Config{Name: fmt.Sprintf("big cap=%d", k), MaxDepth: bd, MaxDev: -1})
			}
			// audit of the canonical form: the same search without state de-duplication
			ad := 3
			if th {
				ad = 4
			}
			c = append(c, explore.Config{Name: "audit(no dedup) small cap=2", BuildName: "small cap=2", MaxDepth: ad + 1, MaxDev: -1, NoDedup: true})
			c = append(c, explore.Config{Name: "audit(no dedup) full cap=2", BuildName: "full cap=2", MaxDepth: ad, MaxDev: -1, NoDedup: true})
			ld := 7
			if th {
				ld = 9
			}
			c = append(c, explore.Config{Name: "history search (no dedup) lru cap=2", BuildName: "lru cap=2", MaxDepth: ld, MaxDev: -1, NoDedup: true})
			c = append(c, explore.Config{Name: "history search (no dedup) lru cap=1", BuildName: "lru cap=1", MaxDepth: ld - 1, MaxDev: -1, NoDedup: true})
			// the same at a capacity that needs three entries before anything is evicted: hits and
			// refreshes below the capacity, then fills (4 names, capacity 3)
			c = append(c, explore.Config{Name: "history search (no dedup) hist n=4 cap=3", BuildName: "hist n=4 cap=3", MaxDepth: ld - 1, MaxDev: -1, NoDedup: true})
			if only := os.Getenv("C07_ONLY"); only != "" { // development aid: run matching configurations only
				var f []explore.Config
				for _, x := range c {
					if strings.Contains(x.Name, only) {
						f = append(f, x)
					}
				}
				c = f
			}
			return c
		},
		Budget: func(th bool) time.Duration {
			if th {
				return 20 * time.Minute
			}
			return 90 * time.Second
		},
		Rule: "BFS over histories of InsertData (4 names sharing prefixes x freshness {absent,0,1s} x 2 payloads), FindMatchingDataFromCS (every name, root, unknown name x CanBePrefix x MustBeFresh), SetCsCapacity(0..3) and clock steps on the real PitCsTree with the real CsLRU under a virtual clock; each transition checked against a reference store; eviction victims must be the head of a candidate LRU order. LRU-order universes (4-6 names, inserts, refreshes, exact hits, capacity moved to every value 0..n through management, optionally freshness + MustBeFresh + clock, optionally two stores under the one process-wide capacity) run to a FIXPOINT: every reachable (recency-ordered cached list x capacity) state with the store below, at and above its capacity. Large-capacity configurations (64/128/1024) combine fills with halving/doubling the capacity and hits/refreshes of the oldest entries. Every buffer handed to InsertData is overwritten after the call and every buffer returned by Copy is overwritten after it was compared",
		Assumptions: []string{
			"the caller of InsertData may re-use its buffer after the call, and the caller of CsEntry.Copy owns the returned bytes (both are overwritten by the harness)",
			"the configured capacity is process-wide and applies to each forwarding thread's store separately; an operation on one store leaves the other's cached set unchanged",
			"a CanBePrefix lookup answered by the entry whose name equals the Interest name may or may not refresh its recency (both accepted); other prefix hits do not, exact (non-CanBePrefix) hits, inserts and refreshes do",
			"prefix lookups may return any matching fresh-enough entry, or none",
			"accidental 64-bit hash collisions are outside the universe; structural collisions (names whose components concatenate to the same bytes) are inside it (universe ambig)",
		},
	})
}
