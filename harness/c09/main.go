// C09: /localhost traffic never crosses a non-local face.
//
// Explicit-state search over Interest/Data/clock histories on ONE real fw.Thread
// (verif/harness/fwsim) with FIBs that invite leakage: a default route towards a non-local face,
// a /localhost route towards a non-local face, a /localhost/nfd entry with a local and a
// non-local next hop, best-route or multicast on "/", consumer-chosen next hops (NextHopFaceId,
// from a local application, from a non-local face that ignores the header and from a NON-LOCAL
// face on which local fields are enabled, naming local and non-local faces), token-addressed Data
// and cache hits.
//
//	C09.out   invariant on EVERY SendPacket observed on a face with Scope()==NonLocal, whatever
//	          the step was: the packet's name does not start with "localhost".
//	C09.in    an Interest or Data under /localhost arriving on a non-local face changes nothing in
//	          the white-box dump of the forwarder (PIT, CS, expiry queue, name tree, dead nonce
//	          list, table sizes) - only packet counters may move - and produces no transmission.
//	C09.local in every explored state a local application (L1) can still fetch
//	          /localhost/nfd/y from the local producer face (L5): the Interest reaches L5 (or is
//	          already pending there, or is answered from the cache), the Data comes back to L1,
//	          and a second Interest is answered again (cache or producer). Claimed whenever L5 is
//	          listed by the FIB entry covering the name NOW - also after earlier attempts of L1
//	          made while the entry listed other next hops (fibmix.go, refetch.go).
package main

import (
	"fmt"
	"os"
	"runtime/debug"
	"strconv"
	"strings"
	"time"

	"github.com/named-data/ndnd/fw/defn"
	"github.com/named-data/ndnd/fw/table"
	"verif/harness/fwsim"
	"verif/mc/explore"
	"verif/mc/report"
)

var faceLabel = map[uint64]string{fwsim.L1: "L1", fwsim.N2: "N2", fwsim.N3: "N3", fwsim.N4: "N4", fwsim.L5: "L5", fwsim.A6: "A6"}
var faceByLabel = map[string]uint64{"L1": fwsim.L1, "N2": fwsim.N2, "N3": fwsim.N3, "N4": fwsim.N4, "L5": fwsim.L5, "A6": fwsim.A6}

const probeName = "/localhost/nfd/y"

type iOp struct {
	face uint64
	name string
	cbp  bool
	nh   uint64 // NextHopFaceId in the LP header (0 = absent)
	hint string // forwarding hint delegation ("" = none)
	hl   uint   // HopLimit carried by the Interest on arrival (0 = no HopLimit element)
	lt   string // InterestLifetime element ("" = absent, else a duration; "0" = zero)
	ifid uint64 // IncomingFaceId header the PEER put on the frame (0 = absent)
}
type dOp struct {
	face uint64
	name string
	tok  string // none | echo0 | echo1
	ifid uint64 // IncomingFaceId header the PEER put on the frame (0 = absent)
}

// uOp installs one FIB universe of the fibmix configurations (first step of a history): the next
// hops of the FIB entry that covers the probe name, in insertion order.
type uOp struct {
	prefix string
	routes []fwsim.Route
}
type tOp struct{ dt time.Duration }

type opDef struct {
	i    *iOp
	d    *dOp
	t    *tOp
	down uint64 // != 0: the face is destroyed (removed from the forwarder's face tables)
	u    *uOp
	f    *fOp
}

// fOp changes the FIB entry of the producer prefix between packets (fibmix configurations).
type fOp struct {
	add  bool
	face uint64 // a non-local face, or the local producer L5 (its route comes and goes too)
	cost uint64
}

type sys struct {
	t1     bool   // the driven thread has id 1 of 2 (names under /localhost belong to thread 0)
	nameA  string // the ordinary name of the alphabet ("/a", or one that hashes to the driven thread)
	fibmix bool   // the first step chooses the FIB entry that covers the probe name (see universes)
	// deferred: every non-local face is backlogged - it keeps what it was handed until the next clock
	// step and serialises it then; C09.out is evaluated on what it reads at that time (wire.go)
	deferred bool
	cfg      fwsim.Config
	names    []string
	defs     map[string]opDef
	allOps   []explore.Op
}

type inst struct {
	sim      *fwsim.Sim
	issued   map[uint32]bool // entry tokens revealed by upstream transmissions
	live     []uint32        // revealed tokens whose entry still exists, in canonical dump order
	nonceCtr uint32
	dump     table.VerifPitCsDump
	started  bool
	fib      string            // fibmix: the chosen universe and the route changes since (for reports)
	uprefix  string            // fibmix: the prefix of the FIB entry that covers the probe name and lists the producer L5
	hops     map[uint64]uint64 // fibmix: the harness's own record of that entry's next hops (face -> cost)
	queue    []queued          // defer configurations: what the backlogged non-local faces still hold
}

func (s *sys) add(n string, d opDef) {
	if _, dup := s.defs[n]; dup {
		return
	}
	s.names = append(s.names, n)
	s.defs[n] = d
	s.allOps = append(s.allOps, explore.Op{Name: n})
}

func (s *sys) addI(o iOp) {
	sh := "plain"
	if o.cbp {
		sh = "cbp"
	}
	if o.nh != 0 {
		sh += "+nh=" + faceLabel[o.nh]
	}
	if o.hint != "" {
		sh += "+hint=" + o.hint
	}
	if o.hl != 0 {
		sh += fmt.Sprintf("+hl=%d", o.hl)
	}
	if o.lt != "" {
		sh += "+lt=" + o.lt
	}
	if o.ifid != 0 {
		sh += "+ifid=" + faceLabel[o.ifid]
	}
	oo := o
	s.add(fmt.Sprintf("I(%s,%s,%s)", faceLabel[o.face], o.name, sh), opDef{i: &oo})
}

func (s *sys) addD(o dOp) {
	oo := o
	tk := o.tok
	if o.ifid != 0 {
		tk += "+ifid=" + faceLabel[o.ifid]
	}
	s.add(fmt.Sprintf("D(%s,%s,%s)", faceLabel[o.face], o.name, tk), opDef{d: &oo})
}

func build(cfgName string) explore.System {
	debug.SetGCPercent(400)
	var st, cs, fib string
	if _, err := fmt.Sscanf(cfgName, "leaky %s %s %s", &st, &cs, &fib); err != nil {
		report.Fatal("bad config name %q", cfgName)
	}
	s := &sys{defs: map[string]opDef{}, nameA: "/a"}
	link, tiny, cstiny := false, false, false
	for _, x := range strings.Fields(cfgName)[4:] {
		switch x {
		case "link":
			link = true // arrivals go through a real NDNLPLinkService (fwsim.Config.RealLinkService)
		case "fibmix":
			s.fibmix, tiny = true, true
		case "tiny":
			tiny = true // a handful of interacting ops, for the deep search without de-duplication
		case "cstiny":
			tiny, cstiny = true, true // the same, around the content store (hits on several faces in a row)
		case "defer":
			s.deferred = true
		case "t1":
			s.t1 = true
			s.nameA = fwsim.New(fwsim.Config{ThreadID: 1}).NameForThread("a")
		default:
			report.Fatal("bad config name %q", cfgName)
		}
	}
	A := s.nameA
	s.cfg = fwsim.Config{
		RealLinkService: link,
		// a producer region: a forwarding hint inside it is "reached" (the FIB lookup falls back to the
		// Interest name), one outside it replaces the name in the FIB lookup
		Regions: []string{"/r"},
		Faces: []fwsim.FaceSpec{
			{ID: fwsim.L1, Label: "L1", Scope: defn.Local, Link: defn.PointToPoint, CCF: true},
			{ID: fwsim.N2, Label: "N2", Scope: defn.NonLocal, Link: defn.PointToPoint},
			{ID: fwsim.N3, Label: "N3", Scope: defn.NonLocal, Link: defn.PointToPoint},
			{ID: fwsim.L5, Label: "L5", Scope: defn.Local, Link: defn.PointToPoint, CCF: true},
			// a NON-LOCAL face on which local fields (consumer-controlled forwarding) were enabled:
			// faces/create and faces/update accept LocalFieldsEnabled for any face
			// (the LocalFields flag switches on consumer-controlled forwarding, incoming face
			// indication and local cache policy together)
			{ID: fwsim.N4, Label: "N4", Scope: defn.NonLocal, Link: defn.PointToPoint, CCF: true, IFI: true, LCP: true},
		},
		Routes: []fwsim.Route{
			{Prefix: "/", Face: fwsim.N2, Cost: 1},          // default route towards the network
			{Prefix: "/localhost", Face: fwsim.N2, Cost: 1}, // misconfigured/hostile registration
			{Prefix: "/localhost/nfd", Face: fwsim.L5, Cost: 0},
			{Prefix: "/localhost/nfd", Face: fwsim.N2, Cost: 1},
			{Prefix: A, Face: fwsim.N3, Cost: 1},
		},
	}
	if s.t1 {
		s.cfg.ThreadID = 1
	}
	if s.fibmix {
		// the entries under /localhost are installed by the universe step
		s.cfg.Routes = []fwsim.Route{{Prefix: "/", Face: fwsim.N2, Cost: 1}, {Prefix: A, Face: fwsim.N3, Cost: 1}}
		s.addUniverses()
	}
	switch st {
	case "br":
		s.cfg.Strategies = []fwsim.StrategyChoice{{Prefix: "/", Strategy: fwsim.BestRoute}}
	case "mc":
		s.cfg.Strategies = []fwsim.StrategyChoice{{Prefix: "/", Strategy: fwsim.Multicast}}
	default:
		report.Fatal("unknown strategy %q", st)
	}
	s.cfg.CsAdmit, s.cfg.CsServe = cs == "cs1", cs == "cs1"
	if fib == "ht" {
		s.cfg.FibAlgo, s.cfg.HashtableM = "hashtable", 2
	}
	// alphabet, simplest first
	for _, n := range []string{"/localhost/x", probeName, A} {
		for _, f := range []uint64{fwsim.L1, fwsim.N2} {
			s.addI(iOp{face: f, name: n})
		}
	}
	for _, tk := range []string{"none", "echo0"} {
		for _, n := range []string{"/localhost/x", probeName, A} {
			for _, f := range []uint64{fwsim.L5, fwsim.N2, fwsim.L1} {
				s.addD(dOp{face: f, name: n, tok: tk})
			}
		}
	}
	s.add("T(100ms)", opDef{t: &tOp{100 * time.Millisecond}})
	s.add("T(5s)", opDef{t: &tOp{5 * time.Second}})
	if s.fibmix {
		s.add("T(400ms)", opDef{t: &tOp{400 * time.Millisecond}}) // with T(100ms): the edge of the 500 ms retransmission suppression
		s.addI(iOp{face: fwsim.L1, name: probeName, nh: fwsim.N2})
	}
	// the non-local peer's face is destroyed; packets it delivered before may still be queued,
	// so arrivals attributed to N2 keep being part of the alphabet afterwards
	s.add("Down(N2)", opDef{down: fwsim.N2})
	for _, n := range []string{"/localhost/x", probeName, A} {
		for _, f := range []uint64{fwsim.L1, fwsim.N2} {
			s.addI(iOp{face: f, name: n, cbp: true})
		}
	}
	s.addI(iOp{face: fwsim.N2, name: "/", cbp: true}) // matches every Data by prefix, legal on a non-local face
	s.addI(iOp{face: fwsim.N3, name: "/localhost", cbp: true})
	// consumer-chosen next hop (only honoured on faces with local fields enabled: L1)
	s.addI(iOp{face: fwsim.L1, name: "/localhost/x", nh: fwsim.N2})
	s.addI(iOp{face: fwsim.L1, name: "/localhost/x", nh: fwsim.L5})
	s.addI(iOp{face: fwsim.L1, name: A, nh: fwsim.N2})
	s.addI(iOp{face: fwsim.N2, name: "/localhost/x", nh: fwsim.L5}) // NextHopFaceId on a face without local fields
	// ... and on a non-local face WITH local fields (N4): the chosen next hop is a local face (the
	// producer / management face L5, the application L1) or a non-local one; the Interest is under
	// /localhost, so it must be rejected on arrival whatever its LP header says
	s.addI(iOp{face: fwsim.N4, name: "/localhost/x"})
	for _, nh := range []uint64{fwsim.L5, fwsim.L1, fwsim.N2} {
		s.addI(iOp{face: fwsim.N4, name: "/localhost/x", nh: nh})
	}
	s.addI(iOp{face: fwsim.N4, name: probeName, nh: fwsim.L5})
	s.addI(iOp{face: fwsim.N4, name: probeName, cbp: true, nh: fwsim.L5})
	// the legal use of that face: an ordinary name sent to a chosen local face (creates PIT state
	// with a downstream on N4), and the Data that comes back
	s.addI(iOp{face: fwsim.N4, name: A, nh: fwsim.L5})
	s.addD(dOp{face: fwsim.N2, name: "/localhost/x", tok: "echo1"})
	s.addD(dOp{face: fwsim.L5, name: "/localhost/x", tok: "echo1"})
	// forwarding hints: the FIB lookup (and anything else keyed on "the lookup name") uses the
	// hint instead of the Interest name, which must not weaken the scope test on the name
	s.addI(iOp{face: fwsim.L1, name: "/localhost/x", hint: "/a"})
	s.addI(iOp{face: fwsim.L1, name: "/localhost/x", hint: "/a", nh: fwsim.N2})
	s.addI(iOp{face: fwsim.L1, name: A, hint: "/localhost/h"})
	// ... on Interests under /localhost that arrive on NON-LOCAL faces: a hint that has a FIB route
	// (the ordinary name), one inside the producer region (lookup falls back to the name), one under
	// /localhost; without local fields (N2) and with (N4, NextHopFaceId naming the local producer).
	// The complete product of optional Interest fields is swept in l3sweep.go.
	s.addI(iOp{face: fwsim.N2, name: "/localhost/x", hint: A})
	s.addI(iOp{face: fwsim.N2, name: probeName, hint: "/r/s"})
	s.addI(iOp{face: fwsim.N4, name: probeName, hint: A, nh: fwsim.L5})
	if os.Getenv("VERIF_TIER") == "thorough" {
		s.addI(iOp{face: fwsim.N2, name: "/localhost/x", hint: "/localhost/h"})
		s.addI(iOp{face: fwsim.L1, name: probeName, hint: "/r/s"})
		// InterestLifetime elements (0, short) on /localhost Interests
		s.addI(iOp{face: fwsim.N2, name: "/localhost/x", lt: "0"})
		s.addI(iOp{face: fwsim.N2, name: probeName, cbp: true, lt: "10ms"})
		s.addI(iOp{face: fwsim.L1, name: probeName, lt: "10ms"})
	}
	// Interests that CARRY a HopLimit (1: exhausted by the decrement, 2, 255), under /localhost and
	// under /localhop, from the local application and from a non-local face
	s.addI(iOp{face: fwsim.L1, name: "/localhost/x", hl: 2})
	s.addI(iOp{face: fwsim.L1, name: probeName, hl: 2})
	s.addI(iOp{face: fwsim.L1, name: "/localhost/x", hl: 1})
	s.addI(iOp{face: fwsim.L1, name: "/localhost/x", hl: 255})
	s.addI(iOp{face: fwsim.L1, name: "/localhost/x", hl: 2, nh: fwsim.N2})
	s.addI(iOp{face: fwsim.N2, name: "/localhost/x", hl: 2})
	s.addI(iOp{face: fwsim.L1, name: "/localhop/z", hl: 2})
	s.addI(iOp{face: fwsim.N2, name: "/localhop/z", hl: 255})
	if link {
		// LP header fields only a forwarder puts on frames it SENDS, put on a RECEIVED frame by the
		// peer: IncomingFaceId naming a local face (the producer / management face, the application)
		// or a non-local one, on the non-local face with local fields enabled (N4) and on one without
		// (N2). Whatever the header says, the packet arrived on a non-local face. Only the real link
		// service reads the header, so these ops exist in the "link" configurations only.
		for _, id := range []uint64{fwsim.L5, fwsim.L1, fwsim.N2} {
			s.addI(iOp{face: fwsim.N4, name: "/localhost/x", ifid: id})
		}
		s.addI(iOp{face: fwsim.N4, name: probeName, ifid: fwsim.L1, nh: fwsim.L5})
		s.addI(iOp{face: fwsim.N2, name: "/localhost/x", ifid: fwsim.L5})
		s.addI(iOp{face: fwsim.N4, name: A, ifid: fwsim.L1})
		for _, tk := range []string{"none", "echo0"} {
			s.addD(dOp{face: fwsim.N4, name: "/localhost/x", tok: tk, ifid: fwsim.L5})
			s.addD(dOp{face: fwsim.N4, name: probeName, tok: tk, ifid: fwsim.L5})
		}
		s.addD(dOp{face: fwsim.N2, name: probeName, tok: "none", ifid: fwsim.L5})
	}
	if tiny {
		keep := []string{"I(L1," + probeName + ",plain+hl=2)", "I(N2," + A + ",plain)", "I(N2,/,cbp)", "D(L5," + probeName + ",none)", "D(L5,/localhost/x,echo0)", "D(N2,/localhost/x,echo0)", "T(100ms)"}
		if cstiny {
			// Data of an ordinary name and of two names under /localhost get cached (unsolicited Data is
			// admitted), then consumers on non-local and local faces hit the cache in every order
			keep = []string{"D(N2," + A + ",none)", "D(L5,/localhost/x,none)", "D(L5," + probeName + ",none)", "I(N2," + A + ",plain)", "I(L1,/localhost/x,plain)", "I(L1," + probeName + ",plain)", "I(N2,/,cbp)", "I(L1," + A + ",plain)", "T(100ms)"}
		}
		if s.fibmix {
			for _, n := range s.names {
				if d := s.defs[n]; d.u != nil || d.f != nil {
					keep = append(keep, n)
				}
			}
			// attempts of the local application itself (plain, and with a consumer-chosen NON-LOCAL next
			// hop, which the scope rule rejects) between the FIB changes, at 0 / 100 / 400 / 500 ms / 5 s
			keep = append(keep, "I(L1,"+probeName+",plain)", "I(N2,"+probeName+",plain)", "I(L1,"+probeName+",plain+nh=N2)", "T(400ms)", "T(5s)")
		}
		s.names, s.allOps = nil, nil
		for _, n := range keep {
			if _, ok := s.defs[n]; !ok {
				report.Fatal("tiny alphabet: op %q does not exist", n)
			}
			s.names = append(s.names, n)
			s.allOps = append(s.allOps, explore.Op{Name: n})
		}
	}
	return s
}

func (s *sys) New() any {
	in := &inst{sim: fwsim.New(s.cfg), issued: map[uint32]bool{}}
	in.refresh()
	return in
}

func (in *inst) refresh() {
	in.dump = in.sim.Dump()
	in.live = in.live[:0]
	for _, e := range in.dump.Pit {
		if e.InTokenMap && in.issued[e.Token] {
			in.live = append(in.live, e.Token)
		}
	}
}

func (s *sys) Ops(i any) []explore.Op {
	in := i.(*inst)
	out := make([]explore.Op, 0, len(s.allOps))
	for _, op := range s.allOps {
		if s.fibmix && (s.defs[op.Name].u != nil) == in.started {
			continue // a universe is chosen first, and only first
		}
		if f := s.defs[op.Name].down; f != 0 && !in.sim.FaceRegistered(f) {
			continue
		}
		if d := s.defs[op.Name].d; d != nil {
			if d.tok == "echo0" && len(in.live) < 1 {
				continue
			}
			if d.tok == "echo1" && len(in.live) < 2 {
				continue
			}
		}
		out = append(out, op)
	}
	return out
}

func nonLocal(f uint64) bool { return f != fwsim.L1 && f != fwsim.L5 }

func isLocalhostStr(n string) bool { return n == "/localhost" || strings.HasPrefix(n, "/localhost/") }

// whiteBox renders everything C09.in compares before/after a rejected packet: the complete
// private PIT-CS state including table sizes and tree shape, plus the dead nonce list sizes.
func (in *inst) whiteBox() string {
	d := in.sim.Dump()
	a, b := in.sim.DnlSize()
	return fwsim.CanonPitCs(d, in.sim.Queue(), fwsim.CanonOpts{WithCounters: true, WithSatisfied: true}) + fmt.Sprintf("|dnl=%d/%d", a, b)
}

func (in *inst) noteTokens(sends []fwsim.Send) {
	for _, sd := range sends {
		if sd.Kind == fwsim.KInterest {
			if th, t, ok := fwsim.IssuedToken(sd.PitToken); ok && int(th) == in.sim.ThreadID() {
				in.issued[t] = true
			}
		}
	}
}

// checkOut is C09.out: the invariant on every transmission.
func checkOut(sends []fwsim.Send, how string) (v []report.Violation) {
	for _, sd := range sends {
		if !nonLocal(sd.Face) {
			continue
		}
		if fwsim.IsLocalhost(sd.Name) {
			v = append(v, report.Violation{Clause: "C09.out",
				Key:    fmt.Sprintf("%s under /localhost transmitted on a non-local face (%s)", sd.Kind, how),
				Detail: fmt.Sprintf("%s %s was handed to non-local face %s", sd.Kind, sd.NameStr, faceLabel[sd.Face])})
		} else if is, what := sendLocalhost(sd); is {
			// the decoded packet is not under /localhost, the bytes the face will send are
			v = append(v, report.Violation{Clause: "C09.out",
				Key:    fmt.Sprintf("bytes of a packet under /localhost handed to a non-local face as %s not under /localhost (%s)", sd.Kind, how),
				Detail: fmt.Sprintf("non-local face %s was handed %s %s, but Pkt.Raw holds the %s", faceLabel[sd.Face], sd.Kind, sd.NameStr, what)})
		}
	}
	return
}

func (s *sys) step(in *inst, op explore.Op) (v []report.Violation) {
	d, ok := s.defs[op.Name]
	if !ok {
		report.Fatal("unknown op %q", op.Name)
	}
	in.started = true
	var sends []fwsim.Send
	how := ""
	switch {
	case d.u != nil:
		in.hops = map[uint64]uint64{}
		for _, rt := range d.u.routes {
			in.sim.AddRoute(rt.Prefix, rt.Face, rt.Cost)
			if rt.Prefix == d.u.prefix {
				in.hops[rt.Face] = rt.Cost
			}
		}
		in.fib, in.uprefix = op.Name, d.u.prefix
	case d.f != nil:
		if d.f.add {
			in.sim.AddRoute(in.uprefix, d.f.face, d.f.cost)
			in.hops[d.f.face] = d.f.cost
		} else {
			in.sim.RemoveRoute(in.uprefix, d.f.face)
			delete(in.hops, d.f.face)
		}
		in.fib += " ; " + op.Name
	case d.i != nil:
		o := d.i
		in.nonceCtr++
		is := fwsim.InterestSpec{Name: o.name, CanBePrefix: o.cbp, Nonce: fwsim.U32(0x2000 + in.nonceCtr)}
		if o.hint != "" {
			is.Hint = []string{o.hint}
		}
		if o.hl != 0 {
			is.HopLimit = fwsim.Uint(o.hl)
		}
		if o.lt != "" {
			lt, err := time.ParseDuration(o.lt)
			if o.lt != "0" && err != nil {
				report.Fatal("bad lifetime %q", o.lt)
			}
			is.Lifetime = fwsim.Dur(lt)
		}
		var lp fwsim.LP
		if o.nh != 0 {
			lp.NextHopFaceID = fwsim.U64(o.nh)
		}
		if o.ifid != 0 {
			lp.IncomingFaceID = fwsim.U64(o.ifid)
		}
		rejected := nonLocal(o.face) && isLocalhostStr(o.name)
		before := ""
		if rejected {
			before = in.whiteBox()
		}
		sends = in.sim.Interest(o.face, is, lp)
		in.noteTokens(sends)
		how = "forwarded to a FIB next hop"
		if o.nh != 0 && in.sim.Faces[o.face].Spec().CCF {
			how = "sent to the face chosen by NextHopFaceId"
		}
		for _, sd := range sends {
			if sd.Kind == fwsim.KData {
				how = "answered from the cache"
			}
		}
		v = append(v, checkOut(sends, how)...)
		if rejected {
			v = append(v, s.checkIn(in, "Interest", o.name, o.face, before, sends)...)
		}
	case d.d != nil:
		o := d.d
		var lp fwsim.LP
		switch o.tok {
		case "echo0":
			lp.PitToken = in.sim.Token(in.live[0])
		case "echo1":
			lp.PitToken = in.sim.Token(in.live[1])
		}
		if o.ifid != 0 {
			lp.IncomingFaceID = fwsim.U64(o.ifid)
		}
		rejected := nonLocal(o.face) && isLocalhostStr(o.name)
		before := ""
		if rejected {
			before = in.whiteBox()
		}
		sends = in.sim.Data(o.face, fwsim.DataSpec{Name: o.name, Content: "x", Freshness: fwsim.Dur(time.Second)}, lp)
		in.noteTokens(sends)
		how = "Data arrival, name match"
		if o.tok != "none" {
			how = "Data arrival, token match"
		}
		v = append(v, checkOut(sends, how)...)
		if rejected {
			v = append(v, s.checkIn(in, "Data", o.name, o.face, before, sends)...)
		}
	case d.t != nil:
		in.sim.Advance(d.t.dt)
		sends, how = in.sim.Tick(), "periodic reaper"
		v = append(v, checkOut(sends, how)...)
	case d.down != 0:
		in.sim.RemoveFace(d.down)
		in.dropQueue(d.down)
	}
	v = append(v, s.afterStep(in, sends, op.Name, how)...)
	if d.t != nil {
		in.queue = in.queue[:0] // time passes: the backlogged faces drain (judged just above)
	}
	in.refresh()
	return
}

// checkIn is C09.in.
func (s *sys) checkIn(in *inst, kind, name string, face uint64, before string, sends []fwsim.Send) (v []report.Violation) {
	if len(sends) > 0 {
		x := []string{}
		for _, sd := range sends {
			x = append(x, sd.String())
		}
		v = append(v, report.Violation{Clause: "C09.in", Key: kind + " under /localhost from a non-local face caused a transmission",
			Detail: fmt.Sprintf("%s %s arriving on non-local face %s must not be accepted, yet the forwarder sent %v", kind, name, faceLabel[face], x)})
	}
	if after := in.whiteBox(); after != before {
		v = append(v, report.Violation{Clause: "C09.in", Key: kind + " under /localhost from a non-local face changed forwarder state",
			Detail: fmt.Sprintf("%s %s arriving on non-local face %s must not be accepted, yet the tables changed:\nbefore %s\nafter  %s", kind, name, faceLabel[face], before, after)})
	}
	return
}

func (s *sys) Apply(i any, op explore.Op) []report.Violation { return s.step(i.(*inst), op) }
func (s *sys) Do(i any, op explore.Op)                       { s.step(i.(*inst), op) }

// CheckState is C09.local, run in every explored state (destroys the instance).
func (s *sys) CheckState(i any) (v []report.Violation) {
	if s.t1 {
		return nil // Interests under /localhost are dispatched to thread 0, which is not the driven one
	}
	in := i.(*inst)
	fibNote := "FIB has /localhost/nfd -> L5 (cost 0)"
	if s.fibmix {
		if in.uprefix == "" || !in.producerListed() {
			// no universe chosen yet, or the local producer is (currently) not a next hop of the FIB entry
			// that covers the probe name: the property does not say where the Interest has to go
			return nil
		}
		fibNote = "FIB (next hops in insertion order): " + in.fib
	}
	return s.probeLocal(in, fibNote)
}

// producerListed: is the local producer L5 a next hop of the longest-prefix FIB entry of the probe
// name right now (the premise of C09.local)?
// Decided on the harness's own record of the routes it installed (the entry is the deepest one
// configured, so whenever it lists L5 it is the longest-prefix match), not by asking the FIB under test.
func (in *inst) producerListed() bool {
	_, ok := in.hops[fwsim.L5]
	return ok
}

// probeLocal is the fetch-twice probe of C09.local (destroys the instance): the local application
// L1 sends the probe Interest with a nonce never used before; it must reach the local producer L5
// (or be pending there already: an out-record towards L5 exists, i.e. an earlier Interest WAS sent
// to L5, or be answered from the cache), be recorded as pending for L1, and the Data of L5 must
// come back to L1; then once more.
func (s *sys) probeLocal(in *inst, fibNote string) (v []report.Violation) {
	bad := func(key, detail string) {
		v = append(v, report.Violation{Clause: "C09.local", Key: key, Detail: detail})
	}
	hasOut := func(face uint64) bool {
		for _, e := range in.sim.Dump().Pit {
			if e.Name == probeName && !e.CanBePrefix && !e.MustBeFresh {
				for _, o := range e.Out {
					if o.Face == face {
						return true
					}
				}
			}
		}
		return false
	}
	hasIn := func(face uint64) bool {
		for _, e := range in.sim.Dump().Pit {
			if e.Name == probeName && !e.CanBePrefix && !e.MustBeFresh {
				for _, o := range e.In {
					if o.Face == face {
						return true
					}
				}
			}
		}
		return false
	}
	fetch := func(round string) bool {
		in.nonceCtr++
		ps := fwsim.InterestSpec{Name: probeName, Nonce: fwsim.U32(0x7000 + in.nonceCtr)}
		if round == "second fetch" {
			ps.HopLimit = fwsim.Uint(3) // a local application may well set one
		}
		sends := in.sim.Interest(fwsim.L1, ps, fwsim.LP{})
		v = append(v, checkOut(sends, "forwarded to a FIB next hop")...)
		v = append(v, s.afterStep(in, sends, "probe Interest "+probeName+" of L1 ("+round+")", "probe")...)
		toL1, toL5 := 0, 0
		for _, sd := range sends {
			if sd.Kind == fwsim.KData && sd.Face == fwsim.L1 && sd.NameStr == probeName {
				toL1++
			}
			if sd.Kind == fwsim.KInterest && sd.Face == fwsim.L5 {
				toL5++
			}
		}
		if toL1 > 0 {
			return true // answered from the cache
		}
		if toL5 == 0 && !hasOut(fwsim.L5) {
			bad("Interest under /localhost from a local application does not reach the local producer face ("+round+")",
				fmt.Sprintf("L1 sent Interest %s (fresh nonce); %s; sends: %v; no out-record towards L5 either", probeName, fibNote, sends))
			return false
		}
		if !hasIn(fwsim.L1) {
			bad("Interest under /localhost from a local application is not recorded as pending ("+round+")", fmt.Sprintf("after Interest %s from L1 the PIT holds no in-record for L1", probeName))
			return false
		}
		ds := in.sim.Data(fwsim.L5, fwsim.DataSpec{Name: probeName, Content: "x", Freshness: fwsim.Dur(time.Second)}, fwsim.LP{})
		v = append(v, checkOut(ds, "Data arrival, name match")...)
		v = append(v, s.afterStep(in, ds, "probe Data "+probeName+" of L5 ("+round+")", "probe")...)
		got := 0
		for _, sd := range ds {
			if sd.Kind == fwsim.KData && sd.Face == fwsim.L1 && sd.NameStr == probeName {
				got++
			}
		}
		if got == 0 {
			bad("Data under /localhost from the local producer is not returned to the local consumer ("+round+")", fmt.Sprintf("L5 answered %s; sends: %v", probeName, ds))
			return false
		}
		return true
	}
	if fetch("first fetch") {
		fetch("second fetch")
	}
	return
}

func (s *sys) Canon(i any) string {
	in := i.(*inst)
	liveIdx := map[uint32]int{}
	for k, t := range in.live {
		liveIdx[t] = k
	}
	down := ""
	if !in.sim.FaceRegistered(fwsim.N2) {
		down = "down(N2)|"
	}
	if s.deferred {
		down += in.canonQueue()
	}
	if s.fibmix {
		if !in.started {
			down += "ROOT|"
		}
		nodes, aux := table.VerifDumpFib(table.FibStrategyTable)
		// the prefix the Add/Rem steps act on is part of the state (two universes can build the same FIB)
		down += fmt.Sprintf("P=%s|FIB%v%v|", in.uprefix, nodes, aux)
	}
	return down + fwsim.CanonPitCs(in.dump, in.sim.Queue(), fwsim.CanonOpts{
		Token: func(t uint32) string {
			if k, ok := liveIdx[t]; ok {
				return fmt.Sprintf("T%d", k)
			}
			return "u"
		},
		// every Interest of this alphabet carries a nonce never used before: stored nonces can
		// never equal a future one, and the dead nonce list can never hit
		Nonce: func(string, uint32) string { return "o" },
	})
}

// devDepth lets a developer override the depth bound (VERIF_DEPTH) while sizing the tiers.
func devDepth(d int) int {
	if v, err := strconv.Atoi(os.Getenv("VERIF_DEPTH")); err == nil && v > 0 {
		return v
	}
	return d
}

func configs(th bool) []explore.Config {
	var c []explore.Config
	add := func(st, cs, fib string, depth int) {
		c = append(c, explore.Config{Name: fmt.Sprintf("leaky %s %s %s", st, cs, fib), MaxDepth: devDepth(depth), MaxDev: -1})
	}
	if !th {
		// cheaper configurations first: what they leave of their share goes to the deeper ones
		add("br", "cs0", "tree fibmix", 3) // FIB universes (fibmix.go): universe + 2 steps
		add("mc", "cs1", "ht fibmix", 3)
		add("br", "cs1", "tree link", 4)  // arrivals through the real NDNLPLinkService
		add("mc", "cs1", "tree t1", 5)    // the driven thread is thread 1 of 2
		add("br", "cs1", "ht link t1", 4) // both
		add("br", "cs1", "tree defer", 3) // backlogged non-local faces (wire.go)
		c = append(c, explore.Config{Name: "history search (no dedup) leaky mc cs1 ht cstiny defer", BuildName: "leaky mc cs1 ht cstiny defer", MaxDepth: devDepth(5), MaxDev: -1, NoDedup: true})
		// audit of the canonical form, and a deep history search, both WITHOUT de-duplication
		c = append(c, explore.Config{Name: "audit(no dedup) leaky br cs0 ht", BuildName: "leaky br cs0 ht", MaxDepth: devDepth(3), MaxDev: -1, NoDedup: true})
		c = append(c, explore.Config{Name: "history search (no dedup) leaky br cs1 tree tiny", BuildName: "leaky br cs1 tree tiny", MaxDepth: devDepth(6), MaxDev: -1, NoDedup: true})
		c = append(c, explore.Config{Name: "history search (no dedup) leaky mc cs0 ht tiny", BuildName: "leaky mc cs0 ht tiny", MaxDepth: devDepth(6), MaxDev: -1, NoDedup: true})
		add("br", "cs0", "ht", 5)
		add("mc", "cs0", "ht", 5)
		add("mc", "cs1", "tree", 5)
		add("br", "cs1", "tree", 5)
		return c
	}
	for _, fib := range []string{"tree", "ht"} {
		add("br", "cs0", fib+" fibmix", 4)
		add("br", "cs1", fib+" fibmix", 4)
		add("mc", "cs1", fib+" fibmix", 4)
		for _, cs := range []string{"cs1", "cs0"} {
			for _, st := range []string{"br", "mc"} {
				add(st, cs, fib, 7)
			}
		}
		c = append(c, explore.Config{Name: "history search (no dedup) leaky br cs1 " + fib + " tiny", BuildName: "leaky br cs1 " + fib + " tiny", MaxDepth: 7, MaxDev: -1, NoDedup: true})
		c = append(c, explore.Config{Name: "history search (no dedup) leaky mc cs0 " + fib + " tiny", BuildName: "leaky mc cs0 " + fib + " tiny", MaxDepth: 7, MaxDev: -1, NoDedup: true})
		add("br", "cs1", fib+" link", 6)
		add("mc", "cs1", fib+" t1", 6)
		add("mc", "cs0", fib+" link t1", 6)
		add("br", "cs1", fib+" defer", 6)
		add("mc", "cs1", fib+" link defer", 5)
		c = append(c, explore.Config{Name: "history search (no dedup) leaky br cs1 " + fib + " cstiny defer", BuildName: "leaky br cs1 " + fib + " cstiny defer", MaxDepth: 7, MaxDev: -1, NoDedup: true})
		c = append(c, explore.Config{Name: "history search (no dedup) leaky mc cs1 " + fib + " cstiny defer", BuildName: "leaky mc cs1 " + fib + " cstiny defer", MaxDepth: 7, MaxDev: -1, NoDedup: true})
	}
	return c
}

func main() {
	fwsim.ReplayIfRequested("C09", "C09.panic", build)
	explore.Main(explore.Spec{
		Extra: func(rep *report.Reporter, cov report.Coverage) {
			lpHeaderPass(rep, cov)
			l3SweepPass(rep, cov)
			scopePass(rep, cov)
			refetchPass(rep, cov)
		},
		ID: "C09", PanicClause: "C09.panic", Build: build,
		Configs: configs,
		Budget: func(th bool) time.Duration {
			if th {
				return 25 * time.Minute
			}
			return 78 * time.Second
		},
		Rule: "BFS over histories of Interest arrivals (names /localhost/x, /localhost/nfd/y, /localhop/z, /a, / and /localhost with CanBePrefix; with and without a HopLimit element (1, 2, 255); from local L1 and non-local N2/N3/N4; NextHopFaceId -> N2 / L5 / L1 on the local-fields face L1, on N2 (local fields disabled) and on the NON-LOCAL face N4 with local fields enabled), Data arrivals (same names, from L5/N2/L1, no token or echo of a live upstream token) clock steps and the destruction of the non-local face N2 (after which packets it delivered earlier still arrive), on one real fw.Thread with leaky FIBs (default route and /localhost route to non-local N2, /localhost/nfd -> {L5,N2}), best-route or multicast on /, cache on/off, FIB tree/hash table; in the configurations that go through the real NDNLPLinkService also frames on which the PEER put an IncomingFaceId header (naming L5 / L1 / N2) on the non-local face N4 with all three local-fields options (consumer-controlled forwarding, incoming face indication, local cache policy) and on N2 without, Interests and Data; FIB universes (fibmix configurations): the first step installs the FIB entry that covers the probe name (/localhost/nfd below a /localhost -> N2 entry, or /localhost) with the local producer L5 at cost 1 and every subset of the non-local faces {N2,N3} at cost 0|1|2 in every insertion order (134 universes), and the same entries WITHOUT the producer (50 universes: it has not registered yet); non-local next hops and the producer's own route are added/removed between packets, the local application's own attempts (plain, NextHopFaceId naming a non-local face) and clock steps of 100 ms / 400 ms / 5 s in between; separately an exhaustive sweep of 48640 'fetch after an earlier attempt under a different FIB' cases (refetch.go: strategy x FIB implementation x entry prefix x next hops before (L5 absent|present, N2 absent|c0|c2, N3 absent|c0, both insertion orders) x earlier attempt plain|NextHopFaceId=N2|HopLimit|two attempts x 0|100|499|500|501 ms|3.9|4.1|7 s until the FIB change x 10 FIB changes (producer registers / re-registers, non-local hops removed / added / replaced, non-local face destroyed)), each on a fresh forwarder, C09.local probed whenever the entry then lists L5; separately an exhaustive sweep of 24192 received frames (lpsweep.go: 8 option combinations of the receiving non-local face x 2 base states x 3 packets under /localhost x IncomingFaceId absent|L1|L5|N2|self|missing|0 x NextHopFaceId absent|L5|N2 x PitToken absent|live or well-formed|4 bytes x CachePolicy x CongestionMark x NonDiscovery) through the real link service, each on a fresh forwarder; separately an exhaustive sweep of the optional fields of the Interest itself (l3sweep.go, quick 20736 / thorough 414720 Interests under /localhost received on a non-local face: arrival face N2|N4 x copied|real link service x base state empty|same Interest pending from L1|matching Data cached x name/CanBePrefix/MustBeFresh x forwarding hint none|routed to a non-local face|routed to a local application|under /localhost|inside the producer region|unrouted|two delegations in both orders x NextHopFaceId x HopLimit x InterestLifetime x PitToken x Nonce), each on a fresh forwarder; forwarding hints (routed, inside the producer region /r) on /localhost Interests from non-local faces are also part of the BFS alphabet; C09.out checked on every SendPacket of every step and of the probes - on the decoded packet, on the bytes handed over, again through the OutPkt the face keeps once the pipeline call has returned, and in the 'defer' configurations (backlogged non-local faces that drain only at clock steps; full alphabet with de-duplication on tables + queued packets, and a content-store alphabet of 9 ops without de-duplication) after every later step and probe for as long as the packet is queued (wire.go), C09.in by comparing the complete white-box dump before/after each rejected packet, C09.local by a fetch-twice probe in every explored state",
		Assumptions: []string{
			"faces are simulated at the dispatch.Face seam (verif/harness/fwsim): Scope() of the fake face is what the thread consults; NextHopFaceId is copied into the packet only on faces with local fields enabled, as NDNLPLinkService.handleIncomingFrame does",
			"L5 is a pure producer (never sends Interests), so it is never excluded as a next hop for holding an in-record",
			"C09.local is claimed whenever L5 is a next hop of the longest-prefix FIB entry of the probe name (decided on the harness's own record of the routes it installed), whatever else that entry lists and in whatever order and cost, and whatever the same application attempted earlier under a different FIB (fibmix universes, refetch sweep); an Interest that is not forwarded because an out-record towards L5 exists counts as pending at the producer (an Interest WAS sent to L5), and the Data of L5 must then still reach L1; a packet's arrival face is the face whose link service received the frame, whatever header fields the frame carries (C09.in is evaluated against that face)",
			"what a face transmits is what it reads through the dispatch.OutPkt it was handed (Pkt.Raw, decoded L3) at the moment it serialises; a backlogged face is modelled as draining at clock steps only, which within a history observes a superset of what any earlier drain would read (every queued packet is re-read after every step); the canonical state of the defer configurations adds the set of queued (face, kind, name, producing path)",
			"every Interest carries a fresh nonce (loop/dead-nonce drops are C02's subject); equal canonical white-box dump (tokens renamed by entry, clock-relative) implies equal futures",
			"states reached by a violating transition are not expanded (their futures would repeat the same leak)",
		},
	})
}
