package main

// C09.in / C09.out over the OPTIONAL FIELDS OF THE INTEREST ITSELF (exhaustive input enumeration,
// depth 1 from three base states): whatever an Interest under /localhost carries besides its name -
// forwarding hint delegations (with a FIB route towards a non-local face, towards a local
// application, under /localhost, inside / outside this forwarder's producer region, several in
// either order), a consumer-chosen next hop, a HopLimit, an InterestLifetime, CanBePrefix /
// MustBeFresh, a PIT token, no Nonce - when it arrives on a NON-LOCAL face it is not accepted: no
// transmission, no change of the forwarder's tables. "The lookup name", "the name the strategy is
// chosen by", "the name the PIT entry is keyed by" may all differ from the Interest name once such
// fields are present; the scope rule speaks about the packet's name only.
//
// Enumerated (quick | thorough), each case on a fresh forwarder:
//   arrival face   N2 (no local fields) | N4 (consumer-controlled forwarding, incoming face
//                  indication, local cache policy enabled)
//   arrival path   this package's copy of the link-service half | a real NDNLPLinkService
//   base state     empty tables | the same Interest (same hint) sent by local application L1 just
//                  before, pending | matching Data of L5 in the content store
//   name, flags    /localhost/x exact, /localhost/nfd/y CanBePrefix, /localhost CanBePrefix
//                  | every name x CanBePrefix x MustBeFresh
//   hint           none | [/a] -> N3 | [/app] -> L5 | [/localhost/h] | [/r/s] in region /r |
//                  [/zz] no route besides the default | [/a,/r/s] | [/r/s,/a]
//   NextHopFaceId  absent | L5 | N2
//   HopLimit       absent | 0 | 1 | 255      | absent | 0 | 1 | 2 | 255
//   Lifetime       absent | 0 | 60 s         | absent | 0 | 10 ms | 60 s
//   PitToken       absent | 6 bytes in this forwarder's own format | + 4 bytes
//   Nonce          present                   | present | absent
// quick 2x2x3x3x8x3x4x3x2 = 20736 Interests, thorough 2x2x3x12x8x3x5x4x3x2 = 414720.

import (
	"fmt"
	"time"

	"github.com/named-data/ndnd/fw/defn"
	"verif/harness/fwsim"
	"verif/mc/enum"
	"verif/mc/report"
)

func l3SweepPass(rep *report.Reporter, cov report.Coverage) {
	th := rep.Thorough()
	type nm struct {
		name     string
		cbp, mbf bool
		cached   string // the Data the "cached" base state holds
	}
	var names []nm
	if th {
		for _, n := range []string{"/localhost/x", probeName, "/localhost"} {
			for f := 0; f < 4; f++ {
				c := n
				if n == "/localhost" {
					c = "/localhost/x"
				}
				names = append(names, nm{n, f&1 != 0, f&2 != 0, c})
			}
		}
	} else {
		names = []nm{{"/localhost/x", false, false, "/localhost/x"}, {probeName, true, false, probeName}, {"/localhost", true, false, "/localhost/x"}}
	}
	hints := [][]string{nil, {"/a"}, {"/app"}, {"/localhost/h"}, {"/r/s"}, {"/zz"}, {"/a", "/r/s"}, {"/r/s", "/a"}}
	nhs := []uint64{0, fwsim.L5, fwsim.N2}
	hls := []int{-1, 0, 1, 255}
	lts := []time.Duration{-1, 0, 60 * time.Second}
	toks := 2
	nonces := 1
	if th {
		hls = []int{-1, 0, 1, 2, 255}
		lts = []time.Duration{-1, 0, 10 * time.Millisecond, 60 * time.Second}
		toks, nonces = 3, 2
	}
	od := enum.Odometer{Radix: []int{2, 2, 3, len(names), len(hints), len(nhs), len(hls), len(lts), toks, nonces}}
	faces := []uint64{fwsim.N2, fwsim.N4}
	baseNames := []string{"empty tables", "the same Interest sent by local application L1 just before (pending)", "matching Data of L5 cached"}
	cases, counted := int64(0), 0
	seen := map[string]bool{}
	total := od.Size()
	// the Interests WITHOUT any optional field are judged first: a root cause that does not depend on
	// the optional fields gets the bare key only, not one key per field
	plainBad := map[string]bool{}
	eval := func(i int64, plainPass bool) {
		d := od.Decode(i)
		plain := d[4] == 0 && d[5] == 0 && d[6] == 0 && d[7] == 0 && d[8] == 0 && d[9] == 0
		if plain != plainPass {
			return
		}
		face, link, base, n, hint, nh, hl, lt, tk, non := faces[d[0]], d[1] == 1, d[2], names[d[3]], hints[d[4]], nhs[d[5]], hls[d[6]], lts[d[7]], d[8], d[9]
		cases++
		cfg := fwsim.Config{
			RealLinkService: link, CsAdmit: true, CsServe: true, Regions: []string{"/r"},
			Faces: []fwsim.FaceSpec{
				{ID: fwsim.L1, Label: "L1", Scope: defn.Local, Link: defn.PointToPoint, CCF: true, IFI: true, LCP: true},
				{ID: fwsim.N2, Label: "N2", Scope: defn.NonLocal, Link: defn.PointToPoint},
				{ID: fwsim.N3, Label: "N3", Scope: defn.NonLocal, Link: defn.PointToPoint},
				{ID: fwsim.L5, Label: "L5", Scope: defn.Local, Link: defn.PointToPoint, CCF: true, IFI: true, LCP: true},
				{ID: fwsim.N4, Label: "N4", Scope: defn.NonLocal, Link: defn.PointToPoint, CCF: true, IFI: true, LCP: true},
			},
			Routes: []fwsim.Route{{Prefix: "/", Face: fwsim.N2, Cost: 1}, {Prefix: "/localhost", Face: fwsim.L5, Cost: 1},
				{Prefix: "/a", Face: fwsim.N3, Cost: 1}, {Prefix: "/app", Face: fwsim.L5, Cost: 1}},
		}
		in := &inst{sim: fwsim.New(cfg), issued: map[uint32]bool{}}
		spec := fwsim.InterestSpec{Name: n.name, CanBePrefix: n.cbp, MustBeFresh: n.mbf, Hint: hint}
		switch base {
		case 1:
			ps := spec
			ps.Nonce = fwsim.U32(0x5001)
			in.noteTokens(in.sim.Interest(fwsim.L1, ps, fwsim.LP{}))
		case 2:
			in.sim.Data(fwsim.L5, fwsim.DataSpec{Name: n.cached, Content: "x", Freshness: fwsim.Dur(10 * time.Second)}, fwsim.LP{})
		}
		in.refresh()
		if non == 0 {
			spec.Nonce = fwsim.U32(0x5100)
		}
		if hl >= 0 {
			spec.HopLimit = fwsim.Uint(uint(hl))
		}
		if lt >= 0 {
			spec.Lifetime = fwsim.Dur(lt)
		}
		var lp fwsim.LP
		if nh != 0 {
			lp.NextHopFaceID = fwsim.U64(nh)
		}
		switch tk {
		case 1:
			lp.PitToken = in.sim.Token(0x01020304)
			if len(in.live) > 0 {
				lp.PitToken = in.sim.Token(in.live[0])
			}
		case 2:
			lp.PitToken = []byte{1, 2, 3, 4}
		}
		before := in.whiteBox()
		cnt := in.sim.Counters()
		sends := in.sim.Interest(face, spec, lp)
		if c := in.sim.Counters(); c.NInInterests != cnt.NInInterests {
			counted++
		}
		var vs []report.Violation
		vs = append(vs, checkOut(sends, "Interest with optional fields received on a non-local face")...)
		vs = append(vs, (&sys{}).checkIn(in, "Interest", n.name, face, before, sends)...)
		if len(vs) == 0 {
			return
		}
		flags := ""
		if n.cbp {
			flags += " CanBePrefix"
		}
		if n.mbf {
			flags += " MustBeFresh"
		}
		desc := fmt.Sprintf("Interest %s%s on non-local %s (%s; %s; FIB / -> N2, /localhost -> L5, /a -> N3, /app -> L5; producer region /r) carrying ForwardingHint=%v NextHopFaceId=%s HopLimit=%s InterestLifetime=%s PitToken=%x Nonce=%v",
			n.name, flags, faceLabel[face], map[bool]string{false: "copied link-service half", true: "real NDNLPLinkService"}[link], baseNames[base], hint,
			map[uint64]string{0: "-", fwsim.L5: "L5", fwsim.N2: "N2"}[nh], optInt(hl), optDur(lt), lp.PitToken, non == 0)
		for _, v := range vs {
			if plain {
				plainBad[v.Clause+v.Key] = true
			} else if plainBad[v.Clause+v.Key] {
				continue
			}
			// one key per root cause: the first optional field present, in the order the pipeline reads them
			switch {
			case len(hint) > 0:
				v.Key += " [Interest carried a forwarding hint]"
			case nh != 0:
				v.Key += " [frame carried a NextHopFaceId header]"
			case hl >= 0:
				v.Key += " [Interest carried a HopLimit]"
			case lt >= 0:
				v.Key += " [Interest carried an InterestLifetime]"
			case tk != 0:
				v.Key += " [frame carried a PIT token]"
			case non != 0:
				v.Key += " [Interest without Nonce]"
			}
			if seen[v.Clause+v.Key] {
				continue
			}
			seen[v.Clause+v.Key] = true
			v.Detail = desc + " :: " + v.Detail
			v.Replay = map[string]any{"mode": "interest-field-sweep", "case": desc, "index": i}
			rep.Add(v)
		}
	}
	for i := int64(0); i < total; i++ {
		eval(i, true)
	}
	for i := int64(0); i < total; i++ {
		eval(i, false)
	}
	cov["interest_field_sweep"] = map[string]any{"interests": cases, "exhaustive": true, "interests_counted_as_incoming": counted,
		"digits": od.Radix,
		"note":   "every combination of arrival face (N2 | N4 with local fields) x arrival path (copied | real link service) x base state (empty | same Interest pending from L1 | matching Data cached) x name/flags x forwarding hint (8 delegation lists: routed to a non-local face, to a local application, under /localhost, inside / outside the producer region, two delegations in both orders) x NextHopFaceId x HopLimit x InterestLifetime x PitToken x Nonce of an Interest under /localhost received on a NON-LOCAL face; C09.in (no transmission, white-box dump unchanged) and C09.out on each"}
}

func optInt(v int) string {
	if v < 0 {
		return "-"
	}
	return fmt.Sprint(v)
}

func optDur(v time.Duration) string {
	if v < 0 {
		return "-"
	}
	return v.String()
}
