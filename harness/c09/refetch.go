package main

// C09.local over FETCHES THAT FOLLOW AN EARLIER ATTEMPT MADE UNDER A DIFFERENT FIB (exhaustive
// input enumeration, each case on a fresh forwarder). "Local faces are unaffected: /localhost
// exchanges between local applications ... always work" - also when the same application tried
// before, at a time the FIB entry covering the name listed other next hops (only non-local ones the
// scope rule forbids, none at all, the producer among them), and the FIB changed since: whatever
// the refused or vanished next hops left behind in the PIT entry must not keep the next attempt
// (new nonce) from the local producer.
//
// One case = strategy x FIB implementation x prefix of the entry x next hops BEFORE (L5 absent |
// cost 1; N2 absent | cost 0 | cost 2; N3 absent | cost 0; inserted in this or the reverse order) x
// shape of the earlier attempt(s) of L1 x time between the attempt and the FIB change x FIB change x
// time between the change and the fetch. Then, if the harness's own record of the entry lists L5,
// the fetch-twice probe of C09.local runs (C09.out on every transmission all along).

import (
	"fmt"
	"time"

	"github.com/named-data/ndnd/fw/defn"
	"verif/harness/fwsim"
	"verif/mc/enum"
	"verif/mc/report"
)

type fibChange struct {
	name string
	do   func(in *inst, prefix string)
}

func refetchPass(rep *report.Reporter, cov report.Coverage) {
	th := rep.Thorough()
	strategies := []string{fwsim.BestRoute, fwsim.Multicast}
	fibs := []string{"nametree", "hashtable"}
	prefixes := []string{"/localhost/nfd", "/localhost"}
	l5s := []int{-1, 1}
	n2s := []int{-1, 0, 2}
	n3s := []int{-1, 0}
	attempts := []string{"plain", "NextHopFaceId=N2", "HopLimit=2", "two (plain, 100 ms apart)"}
	// around the edges that matter to the forwarder: the 500 ms retransmission suppression, the
	// 4 s default InterestLifetime (PIT entry expiry), the dead nonce list
	gaps := []time.Duration{0, 100 * time.Millisecond, 499 * time.Millisecond, 500 * time.Millisecond, 501 * time.Millisecond, 3900 * time.Millisecond, 4100 * time.Millisecond, 7 * time.Second}
	after := []time.Duration{0}
	if th {
		after = []time.Duration{0, 100 * time.Millisecond, 450 * time.Millisecond, 5 * time.Second}
	}
	add := func(face, cost uint64) func(*inst, string) {
		return func(in *inst, p string) { in.sim.AddRoute(p, face, cost); in.hops[face] = cost }
	}
	rem := func(face uint64) func(*inst, string) {
		return func(in *inst, p string) { in.sim.RemoveRoute(p, face); delete(in.hops, face) }
	}
	both := func(fs ...func(*inst, string)) func(*inst, string) {
		return func(in *inst, p string) {
			for _, f := range fs {
				f(in, p)
			}
		}
	}
	changes := []fibChange{
		{"none", func(*inst, string) {}},
		{"Add(L5,c1)", add(fwsim.L5, 1)},
		{"Add(L5,c3)", add(fwsim.L5, 3)},
		{"Rem(N2)", rem(fwsim.N2)},
		{"Rem(N3)", rem(fwsim.N3)},
		{"Add(N2,c0)", add(fwsim.N2, 0)},
		{"Add(N3,c0)", add(fwsim.N3, 0)},
		{"Rem(L5) ; Add(L5,c1)", both(rem(fwsim.L5), add(fwsim.L5, 1))},
		{"Rem(N2) ; Rem(N3) ; Add(L5,c1)", both(rem(fwsim.N2), rem(fwsim.N3), add(fwsim.L5, 1))},
		{"Add(L5,c1) ; Down(N2)", both(add(fwsim.L5, 1), func(in *inst, _ string) { in.sim.RemoveFace(fwsim.N2); delete(in.hops, fwsim.N2) })},
	}
	od := enum.Odometer{Radix: []int{len(strategies), len(fibs), len(prefixes), len(l5s), len(n2s), len(n3s), 2, len(attempts), len(gaps), len(changes), len(after)}}
	total := od.Size()
	cases, probed, noClaim := int64(0), int64(0), int64(0)
	seen := map[string]bool{}
	sample := ""
	for i := int64(0); i < total; i++ {
		d := od.Decode(i)
		st, fib, prefix := strategies[d[0]], fibs[d[1]], prefixes[d[2]]
		c5, c2, c3, rev, att, gap, ch, aft := l5s[d[3]], n2s[d[4]], n3s[d[5]], d[6] == 1, attempts[d[7]], gaps[d[8]], changes[d[9]], after[d[10]]
		var hops []fwsim.Route
		if c5 >= 0 {
			hops = append(hops, fwsim.Route{Prefix: prefix, Face: fwsim.L5, Cost: uint64(c5)})
		}
		if c2 >= 0 {
			hops = append(hops, fwsim.Route{Prefix: prefix, Face: fwsim.N2, Cost: uint64(c2)})
		}
		if c3 >= 0 {
			hops = append(hops, fwsim.Route{Prefix: prefix, Face: fwsim.N3, Cost: uint64(c3)})
		}
		if rev {
			if len(hops) < 2 {
				continue // the reverse order is the same order
			}
			for a, b := 0, len(hops)-1; a < b; a, b = a+1, b-1 {
				hops[a], hops[b] = hops[b], hops[a]
			}
		}
		cases++
		cfg := fwsim.Config{
			CsAdmit: true, CsServe: true, FibAlgo: fib, HashtableM: 2,
			Faces: []fwsim.FaceSpec{
				{ID: fwsim.L1, Label: "L1", Scope: defn.Local, Link: defn.PointToPoint, CCF: true},
				{ID: fwsim.N2, Label: "N2", Scope: defn.NonLocal, Link: defn.PointToPoint},
				{ID: fwsim.N3, Label: "N3", Scope: defn.NonLocal, Link: defn.PointToPoint},
				{ID: fwsim.L5, Label: "L5", Scope: defn.Local, Link: defn.PointToPoint, CCF: true},
			},
			Strategies: []fwsim.StrategyChoice{{Prefix: "/", Strategy: st}},
			Routes:     []fwsim.Route{{Prefix: "/", Face: fwsim.N2, Cost: 1}},
		}
		if prefix == "/localhost/nfd" {
			cfg.Routes = append(cfg.Routes, fwsim.Route{Prefix: "/localhost", Face: fwsim.N2, Cost: 1})
		}
		cfg.Routes = append(cfg.Routes, hops...)
		in := &inst{sim: fwsim.New(cfg), issued: map[uint32]bool{}, hops: map[uint64]uint64{}, uprefix: prefix}
		lab := ""
		for _, r := range hops {
			in.hops[r.Face] = r.Cost
			lab += fmt.Sprintf(" %s:%d", faceLabel[r.Face], r.Cost)
		}
		s := &sys{}
		var vs []report.Violation
		attempt := func(sp fwsim.InterestSpec, lp fwsim.LP, how string) {
			in.nonceCtr++
			sp.Name, sp.Nonce = probeName, fwsim.U32(0x2000+in.nonceCtr)
			sends := in.sim.Interest(fwsim.L1, sp, lp)
			vs = append(vs, checkOut(sends, how)...)
			vs = append(vs, s.afterStep(in, sends, "earlier attempt of L1", how)...)
		}
		pass := func(dt time.Duration) {
			if dt > 0 {
				in.sim.Advance(dt)
				vs = append(vs, checkOut(in.sim.Tick(), "periodic reaper")...)
			}
		}
		switch d[7] {
		case 0:
			attempt(fwsim.InterestSpec{}, fwsim.LP{}, "forwarded to a FIB next hop")
		case 1:
			attempt(fwsim.InterestSpec{}, fwsim.LP{NextHopFaceID: fwsim.U64(fwsim.N2)}, "sent to the face chosen by NextHopFaceId")
		case 2:
			attempt(fwsim.InterestSpec{HopLimit: fwsim.Uint(2)}, fwsim.LP{}, "forwarded to a FIB next hop")
		case 3:
			attempt(fwsim.InterestSpec{}, fwsim.LP{}, "forwarded to a FIB next hop")
			pass(100 * time.Millisecond)
			attempt(fwsim.InterestSpec{}, fwsim.LP{}, "forwarded to a FIB next hop")
		}
		pass(gap)
		ch.do(in, prefix)
		pass(aft)
		desc := fmt.Sprintf("[%s, FIB %s] entry %s ->%s ; earlier attempt of L1 for %s: %s ; %v pass ; FIB change: %s ; %v pass ; L1 fetches %s (new nonce)",
			st[len("/localhost/nfd/strategy/"):], fib, prefix, lab, probeName, att, gap, ch.name, aft, probeName)
		if in.producerListed() {
			probed++
			if sample == "" && c5 < 0 && gap > 0 {
				sample = desc
			}
			vs = append(vs, s.probeLocal(in, fmt.Sprintf("FIB entry %s now lists %v (face -> cost)", prefix, labelHops(in.hops)))...)
		} else {
			noClaim++
		}
		for _, v := range vs {
			if seen[v.Clause+v.Key] {
				continue
			}
			seen[v.Clause+v.Key] = true
			v.Detail = desc + " :: " + v.Detail
			v.Replay = map[string]any{"mode": "refetch-sweep", "case": desc, "index": i}
			rep.Add(v)
		}
	}
	cov["refetch_sweep"] = map[string]any{"cases": cases, "exhaustive": true, "probed": probed, "producer_not_listed_no_claim": noClaim,
		"digits": od.Radix, "sample": sample,
		"note": "every combination of strategy (best-route | multicast) x FIB (name tree | hash table) x entry prefix (/localhost/nfd below /localhost -> N2 | /localhost) x next hops before (L5 absent|c1, N2 absent|c0|c2, N3 absent|c0, either insertion order) x earlier attempt of the local application L1 (plain | NextHopFaceId naming non-local N2 | HopLimit | two attempts 100 ms apart) x time until the FIB change (0 | 100 | 499 | 500 | 501 ms | 3.9 s | 4.1 s | 7 s) x FIB change (none | producer registers at cost 1 / 3 | non-local next hop removed / added | producer re-registers | non-local hops replaced by the producer | producer registers and the non-local face is destroyed) x time until the fetch; C09.local fetch-twice probe with nonces never used before whenever the entry then lists L5, C09.out on every transmission"}
}

func labelHops(h map[uint64]uint64) string {
	out := ""
	for _, f := range []uint64{fwsim.L5, fwsim.N2, fwsim.N3} {
		if c, ok := h[f]; ok {
			out += fmt.Sprintf(" %s:%d", faceLabel[f], c)
		}
	}
	return out
}
