package main

// FIB universes for the second sentence of C09 ("Local faces are unaffected: /localhost exchanges
// between local applications and the forwarder itself always work" - whatever the FIB): the FIB
// entry that covers the probe name lists the local producer L5 TOGETHER WITH non-local faces that
// the scope rule makes unusable for this name, at every cost order and in every insertion order.
//
// A universe = the prefix of that entry (/localhost/nfd, with a /localhost -> N2 entry above it, or
// /localhost itself) and an ordered list of next hops: L5 at cost 1 and every subset of {N2, N3},
// each at a cost below, equal to or above the producer's (0, 1, 2), in every order of insertion
// (the order routes were registered in is the order the strategies are handed the next hops in).
// The universe is chosen by the first step of a history; afterwards non-local next hops are added
// to and removed from the entry between packets. C09.local (the fetch-twice probe) is evaluated in
// every state, C09.out on every transmission.
//
// Round 10: the producer's own route comes and goes too. Universes WITHOUT L5 (the entry lists only
// non-local faces, or does not exist) model a producer that has not registered yet; Add(L5,c1) /
// Rem(L5) are steps of the history, next to the application's own attempts I(L1,probe) (plain, and
// with a NextHopFaceId naming a non-local face) and clock steps of 100 ms / 400 ms / 5 s (the edge
// of the 500 ms retransmission suppression and the PIT lifetime). C09.local is claimed in every
// state in which the harness's own record of the entry lists L5: a fetch that FOLLOWS earlier
// attempts made while the FIB was different must work like a first one. The complete product of
// (FIB before x attempt x time distance x FIB change) at depth 1 is swept in refetch.go.

import (
	"fmt"

	"verif/harness/fwsim"
)

func permutations(xs []fwsim.Route) [][]fwsim.Route {
	if len(xs) <= 1 {
		return [][]fwsim.Route{append([]fwsim.Route{}, xs...)}
	}
	var out [][]fwsim.Route
	for i := range xs {
		rest := append(append([]fwsim.Route{}, xs[:i]...), xs[i+1:]...)
		for _, p := range permutations(rest) {
			out = append(out, append([]fwsim.Route{xs[i]}, p...))
		}
	}
	return out
}

func (s *sys) addUniverses() {
	for _, prefix := range []string{"/localhost/nfd", "/localhost"} {
		// cost code per non-local face: 0 = absent, 1..3 = cost 0..2
		for c2 := 0; c2 < 4; c2++ {
			for c3 := 0; c3 < 4; c3++ {
				for l5 := 1; l5 >= 0; l5-- {
					// l5 == 0: the local producer has NOT registered yet (it does so later in the history, after
					// the application's first attempts went nowhere); the entry then lists non-local faces only,
					// or does not exist at all
					set := []fwsim.Route{}
					if l5 == 1 {
						set = append(set, fwsim.Route{Prefix: prefix, Face: fwsim.L5, Cost: 1})
					}
					if c2 > 0 {
						set = append(set, fwsim.Route{Prefix: prefix, Face: fwsim.N2, Cost: uint64(c2 - 1)})
					}
					if c3 > 0 {
						set = append(set, fwsim.Route{Prefix: prefix, Face: fwsim.N3, Cost: uint64(c3 - 1)})
					}
					for _, order := range permutations(set) {
						lab := ""
						for _, r := range order {
							lab += fmt.Sprintf(" %s:%d", faceLabel[r.Face], r.Cost)
						}
						routes := order
						if prefix == "/localhost/nfd" {
							// the hostile registration one level up stays, as in the other configurations
							routes = append([]fwsim.Route{{Prefix: "/localhost", Face: fwsim.N2, Cost: 1}}, order...)
						}
						s.add(fmt.Sprintf("U(%s ->%s)", prefix, lab), opDef{u: &uOp{prefix: prefix, routes: routes}})
					}
				}
			}
		}
	}
	for _, f := range []uint64{fwsim.N2, fwsim.N3} {
		s.add(fmt.Sprintf("Add(%s,c0)", faceLabel[f]), opDef{f: &fOp{add: true, face: f, cost: 0}})
		s.add(fmt.Sprintf("Rem(%s)", faceLabel[f]), opDef{f: &fOp{face: f}})
	}
	// the local producer registers (again) / unregisters between the application's attempts
	s.add("Add(L5,c1)", opDef{f: &fOp{add: true, face: fwsim.L5, cost: 1}})
	s.add("Rem(L5)", opDef{f: &fOp{face: fwsim.L5}})
}
