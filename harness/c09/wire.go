package main

// C09.out judged on what really LEAVES a face.
//
// The forwarding thread only hands a dispatch.OutPkt to a face (linkServiceBase.SendPacket queues
// it); the face's own goroutine reads OutPkt.Pkt.Raw when it builds the frame - right after the
// pipeline call returned, or, on a backlogged face, many packets later. The property speaks about
// what is TRANSMITTED, so the invariant is evaluated
//
//	(a) on the decoded packet the thread handed over (as before),
//	(b) on the BYTES it handed over (Send.Wire, parsed leniently: a packet whose L3 view and bytes
//	    disagree is judged by both),
//	(c) again through the OutPkt the face keeps (fwsim.Send.Reread) once the pipeline call has
//	    returned (every configuration: "late" serialisation), and
//	(d) in the "defer" configurations, after EVERY later step of the history for as long as the
//	    face is backlogged: every non-local face keeps what it was handed until the next clock step
//	    (T op = the faces drain). A face that never drains within a history sees every overwrite a
//	    face draining earlier could see (the re-read after each step is a superset of every drain
//	    schedule), so "drain only at clock steps" loses nothing within the depth bound.

import (
	"fmt"
	"sort"
	"strings"

	"verif/harness/fwsim"
	"verif/mc/report"
)

// readVar reads one TLV variable-length number; ok=false when the bytes end first.
func readVar(b []byte) (v uint64, n int, ok bool) {
	if len(b) == 0 {
		return 0, 0, false
	}
	switch x := b[0]; {
	case x < 253:
		return uint64(x), 1, true
	case x == 253:
		if len(b) < 3 {
			return 0, 0, false
		}
		return uint64(b[1])<<8 | uint64(b[2]), 3, true
	case x == 254:
		if len(b) < 5 {
			return 0, 0, false
		}
		return uint64(b[1])<<24 | uint64(b[2])<<16 | uint64(b[3])<<8 | uint64(b[4]), 5, true
	default:
		if len(b) < 9 {
			return 0, 0, false
		}
		for i := 1; i <= 8; i++ {
			v = v<<8 | uint64(b[i])
		}
		return v, 9, true
	}
}

// wireView is what a receiver of the bytes can tell about the packet that starts at raw[0]: its
// kind (outer TLV type 5 / 6) and the components of its Name, as far as the bytes go. The parse is
// lenient on purpose: a truncated or over-long buffer (the slice header of a queued packet keeps
// its OLD length when the memory behind it is reused) still yields the name prefix that is there.
type wireView struct {
	kind  string   // "Interest" | "Data" | "" (neither)
	comps [][]byte // values of the complete name components present
	types []uint64
}

func viewWire(raw []byte) (w wireView) {
	t, n, ok := readVar(raw)
	if !ok {
		return
	}
	switch t {
	case 5:
		w.kind = "Interest"
	case 6:
		w.kind = "Data"
	default:
		return
	}
	raw = raw[n:]
	l, n, ok := readVar(raw)
	if !ok {
		return
	}
	raw = raw[n:]
	if uint64(len(raw)) > l {
		raw = raw[:l]
	}
	// first element: Name (type 7)
	t, n, ok = readVar(raw)
	if !ok || t != 7 {
		return
	}
	raw = raw[n:]
	l, n, ok = readVar(raw)
	if !ok {
		return
	}
	raw = raw[n:]
	if uint64(len(raw)) > l {
		raw = raw[:l]
	}
	for len(raw) > 0 {
		ct, n1, ok := readVar(raw)
		if !ok {
			return
		}
		cl, n2, ok := readVar(raw[n1:])
		if !ok || uint64(len(raw)-n1-n2) < cl {
			return
		}
		w.types = append(w.types, ct)
		w.comps = append(w.comps, raw[n1+n2:n1+n2+int(cl)])
		raw = raw[n1+n2+int(cl):]
	}
	return
}

func (w wireView) localhost() bool {
	return w.kind != "" && len(w.comps) > 0 && string(w.comps[0]) == "localhost"
}

func (w wireView) String() string {
	if w.kind == "" {
		return "(neither Interest nor Data)"
	}
	var b strings.Builder
	b.WriteString(w.kind + " ")
	if len(w.comps) == 0 {
		b.WriteString("/")
	}
	for i, c := range w.comps {
		if w.types[i] == 8 {
			fmt.Fprintf(&b, "/%s", printable(c))
		} else {
			fmt.Fprintf(&b, "/%d=%s", w.types[i], printable(c))
		}
	}
	return b.String()
}

func printable(c []byte) string {
	for _, x := range c {
		if x < 0x21 || x > 0x7e || x == '/' || x == '%' {
			return fmt.Sprintf("%%%x", c)
		}
	}
	return string(c)
}

// sendLocalhost: does this Send, as it stands, put a packet under /localhost on the wire? Judged
// by the decoded packet AND by the bytes.
func sendLocalhost(sd fwsim.Send) (bool, string) {
	if fwsim.IsLocalhost(sd.Name) {
		return true, fmt.Sprintf("%s %s", sd.Kind, sd.NameStr)
	}
	if w := viewWire(sd.Wire); w.localhost() {
		return true, "bytes of " + w.String()
	}
	return false, ""
}

// checkLate is clause (c)/(d): a packet a non-local face was handed and has not serialised yet is
// read again through the OutPkt the face keeps. `when` says what happened since the hand-over.
func checkLate(sd fwsim.Send, when string) (v []report.Violation) {
	if !nonLocal(sd.Face) {
		return
	}
	if was, _ := sendLocalhost(sd); was {
		return // already reported at the hand-over
	}
	late := sd.Reread()
	if is, what := sendLocalhost(late); is {
		v = append(v, report.Violation{Clause: "C09.out",
			Key: fmt.Sprintf("packet queued on a non-local face reads as a packet under /localhost when the face serialises it (handed over as %s not under /localhost)", sd.Kind),
			Detail: fmt.Sprintf("non-local face %s was handed %s %s (%d bytes, first bytes %x); the face only queues the OutPkt and reads Pkt.Raw when it builds the frame; %s the same OutPkt reads as %s (%d bytes, first bytes %x): that is what goes on the wire of %s",
				faceLabel[sd.Face], sd.Kind, sd.NameStr, len(sd.Wire), head(sd.Wire), when, what, len(late.Wire), head(late.Wire), faceLabel[sd.Face])})
	}
	return
}

func head(b []byte) []byte {
	if len(b) > 24 {
		return b[:24]
	}
	return b
}

// afterStep runs (c) on the sends of the step just made and (d) on everything the backlogged faces
// still hold, then queues the new sends (defer configurations only).
func (s *sys) afterStep(in *inst, sends []fwsim.Send, what, how string) (v []report.Violation) {
	for _, q := range in.queue {
		v = append(v, checkLate(q.send, "after the later step "+what)...)
	}
	for _, sd := range sends {
		v = append(v, checkLate(sd, "once the pipeline call of "+what+" has returned")...)
		if s.deferred && nonLocal(sd.Face) && in.sim.FaceRegistered(sd.Face) {
			in.queue = append(in.queue, queued{sd, how})
		}
	}
	return
}

// queued is one packet a backlogged non-local face holds, with the path that produced it (packets
// of different origin may live in different memory, so the origin is part of the canonical state).
type queued struct {
	send fwsim.Send
	how  string
}

// dropQueue forgets what a destroyed face still held (it never transmits it).
func (in *inst) dropQueue(face uint64) {
	k := 0
	for _, q := range in.queue {
		if q.send.Face != face {
			in.queue[k] = q
			k++
		}
	}
	in.queue = in.queue[:k]
}

// canonQueue is the part of the canonical state the backlogged faces contribute: which packets
// (face, kind, name at hand-over, producing path) are still waiting. Their order does not matter to the oracle.
func (in *inst) canonQueue() string {
	if len(in.queue) == 0 {
		return ""
	}
	set := map[string]bool{}
	for _, q := range in.queue {
		set[fmt.Sprintf("%s:%s:%s:%s", faceLabel[q.send.Face], q.send.Kind, q.send.NameStr, q.how)] = true
	}
	keys := make([]string, 0, len(set))
	for k := range set {
		keys = append(keys, k)
	}
	sort.Strings(keys)
	return "Q" + fmt.Sprint(keys) + "|"
}
