package main

// C09.scope: the classification of a face as local or non-local is what every scope check of
// the forwarder rests on. For every unicast transport constructor shipped (outgoing UDP, outgoing
// TCP before and after its connect sequence, accepted TCP) and every remote address class the
// host can reach (IPv4/IPv6 loopback, the host's own non-loopback addresses, another address on
// its subnet, a zone-qualified IPv6 link-local neighbour) the resulting face must be Local exactly
// when the remote address is a loopback address. Real sockets are opened (UDP "connect" sends
// nothing; TCP connects to a listener this harness opens on the host's own address). Address
// classes the host does not have are reported as not run.

import (
	"fmt"
	"net"
	"strings"
	"time"

	"github.com/named-data/ndnd/fw/defn"
	"github.com/named-data/ndnd/fw/face"
	"verif/mc/report"
)

type scopeCase struct {
	class    string
	ip       string // may carry a zone
	loopback bool
}

func hostAddressClasses() (cases []scopeCase, notRun []string) {
	cases = []scopeCase{{"ipv4 loopback", "127.0.0.1", true}, {"ipv4 loopback (other)", "127.8.9.10", true}, {"ipv6 loopback", "::1", true}}
	have4, have6, haveLL := false, false, false
	ifs, _ := net.Interfaces()
	for _, ifc := range ifs {
		addrs, _ := ifc.Addrs()
		for _, a := range addrs {
			ipn, ok := a.(*net.IPNet)
			if !ok || ipn.IP.IsLoopback() {
				continue
			}
			if ip4 := ipn.IP.To4(); ip4 != nil && !have4 {
				have4 = true
				cases = append(cases, scopeCase{"own ipv4 address", ip4.String(), false})
				other := append(net.IP{}, ip4...)
				other[3] ^= 0x40
				cases = append(cases, scopeCase{"ipv4 neighbour on the same subnet", other.String(), false})
			} else if ipn.IP.To4() == nil && ipn.IP.IsLinkLocalUnicast() && !haveLL {
				haveLL = true
				cases = append(cases, scopeCase{"zone-qualified ipv6 link-local neighbour", "fe80::1234%" + ifc.Name, false})
				cases = append(cases, scopeCase{"own zone-qualified ipv6 link-local address", ipn.IP.String() + "%" + ifc.Name, false})
			} else if ipn.IP.To4() == nil && !ipn.IP.IsLinkLocalUnicast() && !have6 {
				have6 = true
				cases = append(cases, scopeCase{"own ipv6 address", ipn.IP.String(), false})
			}
		}
	}
	if !have4 {
		notRun = append(notRun, "non-loopback ipv4 (host has none)")
	}
	if !have6 {
		notRun = append(notRun, "non-loopback ipv6 (host has none)")
	}
	if !haveLL {
		notRun = append(notRun, "ipv6 link-local with zone (host has none)")
	}
	return
}

func scopeStr(s defn.Scope) string {
	if s == defn.Local {
		return "Local"
	}
	if s == defn.NonLocal {
		return "NonLocal"
	}
	return fmt.Sprint("scope#", int(s))
}

func scopePass(rep *report.Reporter, cov report.Coverage) {
	face.VerifSetPorts(0, 0) // ephemeral local ports
	cases, notRun := hostAddressClasses()
	ran := []string{}
	check := func(ctor, class string, c scopeCase, got defn.Scope) {
		want := defn.NonLocal
		if c.loopback {
			want = defn.Local
		}
		ran = append(ran, fmt.Sprintf("%s %s (%s) -> %s", ctor, class, c.ip, scopeStr(got)))
		if got != want {
			rep.Add(report.Violation{Clause: "C09.scope", Key: fmt.Sprintf("%s face to a %s remote (%s) is classified %s", ctor, map[bool]string{true: "loopback", false: "non-loopback"}[c.loopback], strings.Split(c.class, " (")[0], scopeStr(got)),
				Detail: fmt.Sprintf("%s with remote %s (%s) yields a face with scope %s, want %s", ctor, c.ip, c.class, scopeStr(got), scopeStr(want)),
				Replay: map[string]any{"mode": "scope", "constructor": ctor, "remote": c.ip}})
		}
	}
	for _, c := range cases {
		v := 4
		if strings.Contains(c.ip, ":") {
			v = 6
		}
		// outgoing UDP
		if uri := defn.MakeUDPFaceURI(v, c.ip, 6363); uri != nil && uri.IsCanonical() {
			if t, err := face.MakeUnicastUDPTransport(uri, nil, face.PersistencyPersistent); err == nil {
				check("outgoing UDP", c.class, c, t.Scope())
				t.Close()
			} else {
				notRun = append(notRun, fmt.Sprintf("outgoing UDP to %s: %v", c.ip, err))
			}
		} else {
			notRun = append(notRun, fmt.Sprintf("outgoing UDP to %s: URI not canonical", c.ip))
		}
		// TCP: listener on the address itself when it is one of the host's own
		ln, err := net.Listen(map[int]string{4: "tcp4", 6: "tcp6"}[v], net.JoinHostPort(c.ip, "0"))
		if err != nil {
			// not an address of this host: the outgoing constructor can still be classified
			if uri := defn.MakeTCPFaceURI(v, c.ip, 6363); uri != nil && uri.IsCanonical() {
				if t, err := face.MakeUnicastTCPTransport(uri, nil, face.PersistencyPersistent); err == nil {
					check("outgoing TCP (before connecting)", c.class, c, t.Scope())
				}
			}
			continue
		}
		port := uint16(ln.Addr().(*net.TCPAddr).Port)
		accepted := make(chan net.Conn, 1)
		go func() {
			conn, err := ln.Accept()
			if err == nil {
				accepted <- conn
			} else {
				close(accepted)
			}
		}()
		if uri := defn.MakeTCPFaceURI(v, c.ip, port); uri != nil && uri.IsCanonical() {
			if t, err := face.MakeUnicastTCPTransport(uri, nil, face.PersistencyPersistent); err == nil {
				check("outgoing TCP (before connecting)", c.class, c, t.Scope())
				done := make(chan bool, 1)
				go func() { done <- t.VerifConnect() }()
				select {
				case ok := <-done:
					if ok {
						check("outgoing TCP (after its connect sequence)", c.class, c, t.Scope())
					} else {
						notRun = append(notRun, fmt.Sprintf("TCP connect to %s did not succeed", c.ip))
					}
				case <-time.After(20 * time.Second):
					notRun = append(notRun, fmt.Sprintf("TCP connect to %s did not finish (environment)", c.ip))
				}
				select {
				case conn, ok := <-accepted:
					if ok && conn != nil {
						if at, err := face.AcceptUnicastTCPTransport(conn, nil, face.PersistencyOnDemand); err == nil {
							check("accepted TCP", c.class, c, at.Scope())
							at.Close()
						}
					}
				case <-time.After(5 * time.Second):
				}
				t.Close()
			}
		} else {
			notRun = append(notRun, fmt.Sprintf("TCP to %s: URI not canonical", c.ip))
		}
		ln.Close()
	}
	cov["scope_classification"] = map[string]any{"cases_run": len(ran), "cases": ran, "not_run": notRun,
		"note": "exhaustive over (transport constructor) x (remote address classes this host can reach); real sockets, no NDN traffic"}
}
