package main

// C09.in over the NDNLPv2 header of RECEIVED frames (exhaustive input enumeration, depth 1 from two
// base states): whatever header fields a peer puts on a frame, and whatever local-fields options
// are enabled on the face the frame arrives on, an Interest or Data under /localhost that arrives
// on a NON-LOCAL face is not accepted: no transmission, no change of the forwarder's tables.
//
// Every frame goes through a REAL face.NDNLPLinkService (handleIncomingFrame -> dispatchInterest /
// dispatchData -> the forwarding thread). Enumerated:
//   face options   consumer-controlled forwarding x incoming-face indication x local cache policy (8)
//   base state     empty tables | a local application's Interest /localhost/x pending towards the
//                  local producer (so that Data, by name or by token, would find a PIT entry)
//   packet         Interest /localhost/x | Interest /localhost/nfd/y (CanBePrefix) | Data /localhost/x
//   IncomingFaceId absent | L1 | L5 | N2 | the face itself | a face that does not exist | 0
//   NextHopFaceId  absent | L5 | N2
//   PitToken       absent | the live upstream token (base state 2) / a well-formed token naming no
//                  entry (base state 1) | 4 bytes
//   CachePolicy    absent | NoCache
//   CongestionMark absent | 1
//   NonDiscovery   absent | present
// = 8 x 2 x 3 x 7 x 3 x 3 x 2 x 2 x 2 = 24192 frames, each on a fresh forwarder.

import (
	"fmt"

	"github.com/named-data/ndnd/fw/defn"
	"verif/harness/fwsim"
	"verif/mc/report"
)

func lpHeaderPass(rep *report.Reporter, cov report.Coverage) {
	type pk struct {
		label string
		wire  func(nonce uint32) []byte
		kind  string
	}
	pkts := []pk{
		{"Interest /localhost/x", func(n uint32) []byte {
			return fwsim.MakeInterest(fwsim.InterestSpec{Name: "/localhost/x", Nonce: fwsim.U32(n)})
		}, "Interest"},
		{"Interest " + probeName + " (CanBePrefix)", func(n uint32) []byte {
			return fwsim.MakeInterest(fwsim.InterestSpec{Name: probeName, CanBePrefix: true, Nonce: fwsim.U32(n)})
		}, "Interest"},
		{"Data /localhost/x", func(uint32) []byte {
			return fwsim.MakeData(fwsim.DataSpec{Name: "/localhost/x", Content: "x", Freshness: fwsim.Dur(1e9)})
		}, "Data"},
	}
	const missing = uint64(99)
	ifids := []*uint64{nil, fwsim.U64(fwsim.L1), fwsim.U64(fwsim.L5), fwsim.U64(fwsim.N2), fwsim.U64(fwsim.N4), fwsim.U64(missing), fwsim.U64(0)}
	nhs := []*uint64{nil, fwsim.U64(fwsim.L5), fwsim.U64(fwsim.N2)}
	ptr := func(p *uint64) string {
		if p == nil {
			return "-"
		}
		if l, ok := faceLabel[*p]; ok {
			return l
		}
		return fmt.Sprint(*p)
	}
	cases, accepted := 0, 0
	seenKey := map[string]bool{}
	for opt := 0; opt < 8; opt++ {
		ccf, ifi, lcp := opt&1 != 0, opt&2 != 0, opt&4 != 0
		for base := 0; base < 2; base++ {
			cfg := fwsim.Config{
				RealLinkService: true, CsAdmit: true, CsServe: true,
				Faces: []fwsim.FaceSpec{
					{ID: fwsim.L1, Label: "L1", Scope: defn.Local, Link: defn.PointToPoint, CCF: true, IFI: true, LCP: true},
					{ID: fwsim.N2, Label: "N2", Scope: defn.NonLocal, Link: defn.PointToPoint},
					{ID: fwsim.L5, Label: "L5", Scope: defn.Local, Link: defn.PointToPoint, CCF: true, IFI: true, LCP: true},
					{ID: fwsim.N4, Label: "N4", Scope: defn.NonLocal, Link: defn.PointToPoint, CCF: ccf, IFI: ifi, LCP: lcp},
				},
				Routes: []fwsim.Route{{Prefix: "/", Face: fwsim.N2, Cost: 1}, {Prefix: "/localhost", Face: fwsim.L5, Cost: 1}},
			}
			for pi, p := range pkts {
				for _, ifid := range ifids {
					for _, nh := range nhs {
						for tk := 0; tk < 3; tk++ {
							for rest := 0; rest < 8; rest++ {
								cases++
								in := &inst{sim: fwsim.New(cfg), issued: map[uint32]bool{}}
								var live []byte
								if base == 1 {
									in.noteTokens(in.sim.Interest(fwsim.L1, fwsim.InterestSpec{Name: "/localhost/x", Nonce: fwsim.U32(0x5001)}, fwsim.LP{}))
									in.refresh()
									if len(in.live) != 1 {
										// the local exchange itself does not work: C09.local, reported once
										if !seenKey["base"] {
											seenKey["base"] = true
											rep.Add(report.Violation{Clause: "C09.local", Key: "Interest under /localhost from a local application does not reach the local producer face (base state of the LP header sweep)",
												Detail: "L1 sent Interest /localhost/x; FIB: / -> N2, /localhost -> L5; no upstream transmission with a PIT token was observed", Replay: map[string]any{"mode": "lp-header-sweep", "case": "base state"}})
										}
										continue
									}
									live = in.sim.Token(in.live[0])
								}
								lp := fwsim.LP{IncomingFaceID: ifid, NextHopFaceID: nh}
								switch tk {
								case 1:
									lp.PitToken = live
									if live == nil {
										lp.PitToken = in.sim.Token(0x01020304)
									}
								case 2:
									lp.PitToken = []byte{1, 2, 3, 4}
								}
								if rest&1 != 0 {
									lp.CachePolicy = fwsim.U64(1)
								}
								if rest&2 != 0 {
									lp.CongestionMark = fwsim.U64(1)
								}
								lp.NonDiscovery = rest&4 != 0
								before := in.whiteBox()
								cnt := in.sim.Counters()
								sends := in.sim.Inject(fwsim.N4, p.wire(0x5100+uint32(pi)), lp)
								desc := fmt.Sprintf("%s on non-local N4 (link service options: consumer-controlled forwarding=%v, incoming face indication=%v, local cache policy=%v; %s) in an NDNLPv2 frame with IncomingFaceId=%s NextHopFaceId=%s PitToken=%x CachePolicy=%v CongestionMark=%v NonDiscovery=%v",
									p.label, ccf, ifi, lcp, []string{"empty tables", "Interest /localhost/x of L1 pending towards L5"}[base], ptr(ifid), ptr(nh), lp.PitToken, lp.CachePolicy != nil, lp.CongestionMark != nil, lp.NonDiscovery)
								var vs []report.Violation
								vs = append(vs, checkOut(sends, "frame with LP header fields received on a non-local face")...)
								vs = append(vs, (&sys{}).checkIn(in, p.kind, p.label[len(p.kind)+1:], fwsim.N4, before, sends)...)
								if c := in.sim.Counters(); c.NInInterests != cnt.NInInterests {
									accepted++
								}
								for _, v := range vs {
									// one key per root cause: which header field made the difference
									if ifid != nil {
										v.Key += " [frame carried an IncomingFaceId header]"
									} else if nh != nil {
										v.Key += " [frame carried a NextHopFaceId header]"
									} else if len(lp.PitToken) > 0 {
										v.Key += " [frame carried a PIT token]"
									}
									if seenKey[v.Clause+v.Key] {
										continue
									}
									seenKey[v.Clause+v.Key] = true
									v.Detail = desc + " :: " + v.Detail
									v.Replay = map[string]any{"mode": "lp-header-sweep", "case": desc}
									rep.Add(v)
								}
							}
						}
					}
				}
			}
		}
	}
	cov["lp_header_sweep"] = map[string]any{"frames": cases, "exhaustive": true, "frames_counted_as_incoming_interest": accepted,
		"note": "every combination of link-service local-fields options (8) x base state (2) x packet (3) x IncomingFaceId (7) x NextHopFaceId (3) x PitToken (3) x CachePolicy x CongestionMark x NonDiscovery on a frame received by a real NDNLPLinkService of a NON-LOCAL face; C09.in (no transmission, white-box dump unchanged) and C09.out on each"}
}
