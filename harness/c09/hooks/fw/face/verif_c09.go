//go:build verif

package face

// VerifConnect runs the transport's (re)connect sequence once, as its receive loop does first
// thing, and reports whether it connected.
func (t *UnicastTCPTransport) VerifConnect() bool {
	t.reconnect()
	select {
	case ok := <-t.rechan:
		return ok
	default:
		return false
	}
}

// VerifSetPorts sets the standard ports Configure() would read from the configuration.
func VerifSetPorts(udp, tcp uint16) { UDPUnicastPort, TCPUnicastPort = udp, tcp }
