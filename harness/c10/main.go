// C10: link-layer fragmentation and reassembly reproduce every packet exactly.
//
// Enumeration A (arithmetic): every packet size 1..8800 x MTU set x link-service/packet
// configurations is sent through the REAL sendPacket of an NDNLPLinkService sitting on an
// in-memory transport; the recorded frames are checked against the MTU and fed, in emission
// order, to the REAL handleIncomingFrame of a peer link service whose dispatch target is a
// recording forwarding thread.
// Enumeration B (orders): for (size, MTU) classes giving 1..4 fragments and 1..3 concurrent
// messages (<= 8 frames) ALL permutations of the frames are fed to the peer.
//
// Nothing is sampled. See README.md in this directory for the oracle and its three-valued parts.
package main

import (
	"bytes"
	"fmt"
	"os"
	"runtime/debug"
	"runtime/pprof"
	"sort"
	"strings"
	"sync"
	"sync/atomic"
	"time"

	defn "github.com/named-data/ndnd/fw/defn"
	"github.com/named-data/ndnd/fw/dispatch"
	"github.com/named-data/ndnd/fw/face"
	"github.com/named-data/ndnd/fw/fw"
	ndnlog "github.com/named-data/ndnd/std/log"
	"verif/mc/enum"
	"verif/mc/report"
)

const (
	maxPacket = 8800 // "any network packet up to the maximum NDN packet size"
	minMTU    = 128  // "any face MTU from 128 bytes up"
	// maxHeaderRoom: upper bound on the link-layer bytes ANY NDNLPv2 sender may need around a
	// fragment: LpPacket T+L (4) + Fragment T+L (4) + Sequence (10) + FragIndex/FragCount (8) +
	// IncomingFaceId (12) + PitToken (2+32) + CongestionMark (12) + 2 spare = 86. A packet with
	// size <= MTU-86 "fits" under every reasonable reserve policy and MUST be one frame; between
	// that and the true single-frame limit the choice is the implementation's (may).
	maxHeaderRoom = 86
)

// ---------------------------------------------------------------------------------------------
// configuration space

type cfg struct {
	fragOn bool
	ifi    bool // IsIncomingFaceIndicationEnabled + InFace set on the outgoing packet
	tok    int  // 0 none; 1 packet arrived with a token and leaves with a (different) token; 2 leaves with a token, arrived without; 3 arrived with a token, leaves without; 4 arrived with a 6-byte token, leaves with a 32-byte token (tokens are 1..32 bytes, chosen by the downstream)
	mark   int  // 0 none; 1 upstream congestion mark (value 1); 2 the link service adds its own mark; 3 upstream mark with an 8-byte value
	// via: how the sender got its options. 0: constructed with them. 1..3: constructed with another
	// option set (1: incoming-face indication toggled, 2: fragmentation toggled, 3: both toggled) and
	// then changed to the final options with SetOptions, as management faces/update does.
	via int
	// mtuChange: 0 the sender was created at the MTU in force; 1/2 it was created at a smaller/larger
	// MTU, sent packets, and then got this MTU through LinkService.SetMTU (management faces/update)
	mtuChange int
	// hist: run-time reconfiguration history the sender went through before it had these options
	// (block 5, reconf.go): one letter per setter call, "" = none. The option fields above are the
	// FINAL options; the options the sender was constructed with follow from them and the history.
	hist string
}

// features lists how a configuration departs from the baseline (fragmentation on, nothing attached).
func (c cfg) features() []string {
	var f []string
	if !c.fragOn {
		f = append(f, "fragmentation=off")
	}
	if c.ifi {
		f = append(f, "incoming-face-indication")
	}
	switch c.tok {
	case 1:
		f = append(f, "token:in+out")
	case 2:
		f = append(f, "token:out-only")
	case 3:
		f = append(f, "token:in-only")
	case 4:
		f = append(f, "token:in+out-32-bytes")
	}
	switch c.mark {
	case 1:
		f = append(f, "mark:upstream")
	case 2:
		f = append(f, "mark:own")
	case 3:
		f = append(f, "mark:upstream-8-byte-value")
	}
	switch c.via {
	case 1:
		f = append(f, "SetOptions(from:incoming-face-indication-toggled)")
	case 2:
		f = append(f, "SetOptions(from:fragmentation-toggled)")
	case 3:
		f = append(f, "SetOptions(from:both-toggled)")
	}
	if c.hist != "" {
		f = append(f, reconfFeature)
	}
	switch c.mtuChange {
	case 1:
		f = append(f, "SetMTU(raised-on-live-face)")
	case 2:
		f = append(f, "SetMTU(lowered-on-live-face)")
	}
	return f
}
func (c cfg) String() string {
	f := c.features()
	if len(f) == 0 {
		return "baseline"
	}
	return strings.Join(f, ",")
}

// viaCfgs: every final (fragmentation, incoming-face indication) option set reached through
// SetOptions from each of the three other option sets, x token none/present x mark none/8-byte value.
func viaCfgs() []cfg {
	var out []cfg
	for _, fr := range []bool{true, false} {
		for _, ifi := range []bool{false, true} {
			for via := 1; via <= 3; via++ {
				for _, t := range []int{0, 1} {
					for _, m := range []int{0, 3} {
						out = append(out, cfg{fr, ifi, t, m, via, 0, ""})
					}
				}
			}
		}
	}
	return out
}

func allCfgs(base bool) []cfg {
	var out []cfg
	toks, marks := []int{0, 1, 2, 3, 4}, []int{0, 1, 2, 3}
	if base {
		toks, marks = []int{0, 1}, []int{0, 1}
	}
	for _, fr := range []bool{true, false} {
		for _, ifi := range []bool{false, true} {
			for _, t := range toks {
				for _, m := range marks {
					out = append(out, cfg{fr, ifi, t, m, 0, 0, ""})
				}
			}
		}
	}
	return out
}

// ---------------------------------------------------------------------------------------------
// recording forwarding thread: routes what the receiver dispatches to the slot of the receiving face

type delivered struct {
	data bool
	pkt  *defn.Pkt
}
type slot struct{ got []delivered }

const maxSlots = 4096

type recThread struct{ slots [maxSlots]*slot }

func (r *recThread) String() string { return "verif-recording-thread" }
func (r *recThread) QueueData(p *defn.Pkt) {
	s := r.slots[*p.IncomingFaceID]
	s.got = append(s.got, delivered{true, p})
}
func (r *recThread) QueueInterest(p *defn.Pkt) {
	s := r.slots[*p.IncomingFaceID]
	s.got = append(s.got, delivered{false, p})
}
func (r *recThread) GetNumPitEntries() int { return 0 }
func (r *recThread) GetNumCsEntries() int  { return 0 }

var rec = &recThread{}

// worker context: one per goroutine at a time, owns a face id / slot
type wctx struct {
	id   uint64
	slot *slot
	rcv  *face.NDNLPLinkService // cached receiver (enumeration B)
	rbuf []byte                 // the receive buffer of this worker's "transport" (see recvReused)
}

// recvReused hands a frame to the receiver the way every real transport does: the frame is read
// into the transport's ONE receive buffer, handleIncomingFrame gets a slice of it, and the buffer
// belongs to the transport again as soon as the call returns - the next frame is read over it.
// Between two frames the buffer therefore holds something else (here: a filler that is not a
// well-formed TLV). Whatever the link service keeps from a frame (fragments waiting for
// reassembly, the packet handed to the forwarding thread) must be its own copy; if it is not,
// the deliveries judged afterwards differ from what was sent.
func recvReused(ctx *wctx, l *face.NDNLPLinkService, f []byte) {
	if cap(ctx.rbuf) < len(f) {
		ctx.rbuf = make([]byte, 2*maxPacket+len(f))
	}
	b := ctx.rbuf[:len(f)]
	copy(b, f)
	face.VerifC10Recv(l, b)
	for i := range b {
		b[i] = 0xdb
	}
}

var (
	ctxMu   sync.Mutex
	ctxFree []*wctx
	ctxNext uint64 = 1
)

func getCtx() *wctx {
	ctxMu.Lock()
	defer ctxMu.Unlock()
	if n := len(ctxFree); n > 0 {
		c := ctxFree[n-1]
		ctxFree = ctxFree[:n-1]
		return c
	}
	if ctxNext >= maxSlots {
		report.Fatal("too many worker contexts")
	}
	c := &wctx{id: ctxNext, slot: &slot{}}
	rec.slots[c.id] = c.slot
	ctxNext++
	return c
}
func putCtx(c *wctx) {
	c.slot.got = c.slot.got[:0]
	ctxMu.Lock()
	ctxFree = append(ctxFree, c)
	ctxMu.Unlock()
}

// ---------------------------------------------------------------------------------------------
// violation collection with minimal-configuration attribution

type vioEx struct {
	mtu, size int
	c         cfg
	detail    string
	replay    map[string]any
	count     int64
}

type vioKey struct{ clause, symptom, feat string }

var (
	vioMu sync.Mutex
	vios  = map[vioKey]*vioEx{}
)

func addVio(clause, symptom string, c cfg, mtu, size int, detail string, replay func() map[string]any) {
	k := vioKey{clause, symptom, c.String()}
	vioMu.Lock()
	defer vioMu.Unlock()
	if e, ok := vios[k]; ok {
		e.count++
		if len(c.hist) < len(e.c.hist) || (len(c.hist) == len(e.c.hist) && (mtu < e.mtu || (mtu == e.mtu && size < e.size))) {
			e.c = c // the shortest reconfiguration history is the one reported
			e.mtu, e.size, e.detail, e.replay = mtu, size, detail, replay()
		}
		return
	}
	vios[k] = &vioEx{mtu: mtu, size: size, c: c, detail: detail, replay: replay(), count: 1}
}

// flush reports, per (clause, symptom), only the configurations that are minimal: no violating
// configuration has a strict subset of its features. One root cause => one key.
func flushVios(rep *report.Reporter) {
	type grp struct{ clause, symptom string }
	groups := map[grp][]vioKey{}
	for k := range vios {
		g := grp{k.clause, k.symptom}
		groups[g] = append(groups[g], k)
	}
	for g, ks := range groups {
		sets := map[string]map[string]bool{}
		for _, k := range ks {
			m := map[string]bool{}
			for _, f := range vios[k].c.features() {
				m[f] = true
			}
			sets[k.feat] = m
		}
		for _, k := range ks {
			minimal := true
			for _, o := range ks {
				if o == k || len(sets[o.feat]) >= len(sets[k.feat]) {
					continue
				}
				sub := true
				for f := range sets[o.feat] {
					if !sets[k.feat][f] {
						sub = false
					}
				}
				if sub {
					minimal = false
					break
				}
			}
			if !minimal {
				continue
			}
			e := vios[k]
			rep.Add(report.Violation{Clause: g.clause, Key: g.symptom + "; minimal configuration: " + k.feat,
				Detail: fmt.Sprintf("%s [first at MTU=%d size=%d config=%s; %d cases with this configuration]", e.detail, e.mtu, e.size, e.c, e.count),
				Replay: e.replay})
		}
	}
}

// ---------------------------------------------------------------------------------------------
// one sender/receiver pair

type pair struct {
	ctx  *wctx
	c    cfg
	mtu  int
	mtu0 int // MTU the sender was created with, when it differs (block 4)
	stx  *face.VerifC10Transport
	snd  *face.NDNLPLinkService
	rtx  *face.VerifC10Transport
	rcv  *face.NDNLPLinkService
	inID uint64
}

func newPair(ctx *wctx, mtu int, c cfg) *pair {
	p := &pair{ctx: ctx, c: c, mtu: mtu, inID: 300}
	so := face.MakeNDNLPLinkServiceOptions()
	so.IsFragmentationEnabled = c.fragOn
	so.IsIncomingFaceIndicationEnabled = c.ifi
	p.stx = face.VerifC10MakeTransport(mtu, defn.NonLocal, defn.PointToPoint)
	if c.mark == 2 {
		p.stx.SendQueueSize = so.DefaultCongestionThresholdBytes + 1
	}
	if c.via == 0 {
		p.snd = face.VerifC10MakeLinkService(p.stx, so, 3000+ctx.id)
	} else {
		first := so
		if c.via == 1 || c.via == 3 {
			first.IsIncomingFaceIndicationEnabled = !c.ifi
		}
		if c.via == 2 || c.via == 3 {
			first.IsFragmentationEnabled = !c.fragOn
		}
		p.snd = face.VerifC10MakeLinkService(p.stx, first, 3000+ctx.id)
		p.snd.SetOptions(so)
	}
	ro := face.MakeNDNLPLinkServiceOptions()
	p.rtx = face.VerifC10MakeTransport(mtu, defn.NonLocal, defn.PointToPoint)
	p.rcv = face.VerifC10MakeLinkService(p.rtx, ro, ctx.id)
	return p
}

func safely(what string, f func()) (panicked string) {
	defer func() {
		if r := recover(); r != nil {
			panicked = fmt.Sprintf("panic in %s: %v", what, r)
		}
	}()
	f()
	return ""
}

var (
	one64   uint64 = 1
	big64   uint64 = 1 << 40
	tblPkts []tblPkt
)

// outPkt builds the dispatch.OutPkt for a table packet under a configuration.
func (p *pair) outPkt(tp *tblPkt, size int) (out dispatch.OutPkt, wantTok []byte, wantMark *uint64, anyMark bool) {
	pk := &defn.Pkt{Raw: tp.raw, L3: tp.l3}
	switch p.c.tok {
	case 1, 3, 4:
		pk.PitToken = []byte{0, 7, 0xaa, byte(size >> 8), byte(size), 1}
	}
	switch p.c.tok {
	case 1, 2:
		// first two bytes 0: the receiver maps the token of a Data packet to forwarding thread 0
		wantTok = []byte{0, 0, 0x55, byte(size >> 8), byte(size), 2}
	case 4:
		wantTok = make([]byte, 32)
		for i := range wantTok {
			wantTok[i] = byte(i * 7)
		}
		wantTok[2], wantTok[3] = byte(size>>8), byte(size)
	}
	switch p.c.mark {
	case 1:
		pk.CongestionMark, wantMark = &one64, &one64
	case 3:
		pk.CongestionMark, wantMark = &big64, &big64
	case 2:
		anyMark = true
	}
	out = dispatch.OutPkt{Pkt: pk, PitToken: wantTok}
	if p.c.ifi {
		out.InFace = &p.inID
	}
	return
}

type caseStats struct {
	nCases, nOne, nFrag, nDrop, nFrames int64
	shapes                              map[int]bool // distinct frame counts >= 2 seen in this row
	maxExcess                           int
}

func hexHead(b []byte, n int) string {
	if len(b) > n {
		return fmt.Sprintf("%x…(%d bytes)", b[:n], len(b))
	}
	return fmt.Sprintf("%x", b)
}

// runCase = one (MTU, config, size) evaluation of enumeration A.
func (p *pair) runCase(size int, st *caseStats) {
	tp := &tblPkts[size]
	c, mtu := p.c, p.mtu
	out, wantTok, wantMark, anyMark := p.outPkt(tp, size)
	replay := func() map[string]any {
		return map[string]any{"enumeration": "A", "mtu": mtu, "mtu_before": p.mtu0, "size": size, "packet": string(tp.kind), "config": c.String(), "history": c.hist}
	}
	p.stx.VerifReset()
	if c.mark == 2 {
		face.VerifC10ArmCongestion(p.snd)
	}
	if pn := safely("sendPacket", func() { face.VerifC10Send(p.snd, out) }); pn != "" {
		addVio("C10.exact", pn, c, mtu, size, pn, replay)
		return
	}
	frames := p.stx.VerifFrames()
	st.nCases++
	st.nFrames += int64(len(frames))
	switch {
	case len(frames) == 0:
		st.nDrop++
	case len(frames) == 1:
		st.nOne++
	default:
		st.nFrag++
		if st.shapes == nil {
			st.shapes = map[int]bool{}
		}
		st.shapes[len(frames)] = true
	}

	// --- sender side -------------------------------------------------------------------------
	for i, f := range frames {
		if len(f) > mtu {
			if len(f)-mtu > st.maxExcess {
				st.maxExcess = len(f) - mtu
			}
			addVio("C10.mtu", "frame exceeds the MTU", c, mtu, size,
				fmt.Sprintf("frame %d of %d has %d bytes, MTU %d (%d over)", i, len(frames), len(f), mtu, len(f)-mtu), replay)
			break
		}
	}
	fits := size+maxHeaderRoom <= mtu
	if fits && len(frames) != 1 {
		addVio("C10.one", "packet that fits is not sent as one frame", c, mtu, size,
			fmt.Sprintf("packet of %d bytes on MTU %d (room for %d header bytes) produced %d frames", size, mtu, mtu-size, len(frames)), replay)
	}
	if !c.fragOn {
		bad := ""
		if len(frames) > 1 {
			bad = fmt.Sprintf("%d frames emitted", len(frames))
		} else if len(frames) == 1 {
			if v, err := scanFrame(frames[0]); err != nil {
				bad = "frame is not a well-formed TLV: " + err.Error()
			} else if v.isLp && (v.hasIdx || v.hasCnt) && !(v.idx == 0 && v.cnt == 1) {
				bad = "frame carries fragmentation fields"
			} else if v.isLp && !bytes.Equal(v.payload, tp.raw) {
				bad = fmt.Sprintf("frame carries %d of %d packet bytes", len(v.payload), size)
			} else if !v.isLp && !bytes.Equal(frames[0], tp.raw) {
				bad = "bare frame differs from the packet"
			}
		}
		if bad != "" {
			addVio("C10.nofrag", "fragmentation disabled: packet not sent whole or dropped", c, mtu, size, bad, replay)
		}
	} else if len(frames) == 0 {
		addVio("C10.exact", "no frame emitted although fragmentation is enabled", c, mtu, size,
			fmt.Sprintf("packet of %d bytes on MTU %d", size, mtu), replay)
	}

	// --- receiver side -----------------------------------------------------------------------
	if tp.kind == 'R' {
		// no well-formed network packet of this size exists: nothing to deliver; check the payload only
		if len(frames) == 1 {
			if v, err := scanFrame(frames[0]); err != nil || (v.isLp && !bytes.Equal(v.payload, tp.raw)) {
				addVio("C10.exact", "single frame does not carry the packet bytes", c, mtu, size, fmt.Sprintf("scan: %v", err), replay)
			}
		}
		return
	}
	sl := p.ctx.slot
	sl.got = sl.got[:0]
	for i, f := range frames {
		if pn := safely("handleIncomingFrame", func() { recvReused(p.ctx, p.rcv, f) }); pn != "" {
			addVio("C10.exact", pn, c, mtu, size, fmt.Sprintf("%s (frame %d of %d)", pn, i, len(frames)), replay)
			face.VerifC10ClearStore(p.rcv)
			return
		}
	}
	if len(frames) == 0 {
		if len(sl.got) != 0 {
			addVio("C10.exact", "packet delivered although no frame was sent", c, mtu, size, "", replay)
		}
		return
	}
	p.judgeDelivery(sl.got, tp.raw, tp.kind == 'D', wantTok, wantMark, anyMark, frames, size, replay)
	if n := face.VerifC10StoreLen(p.rcv); n != 0 {
		addVio("C10.exact", "reassembly store not empty after all frames of the message arrived", c, mtu, size,
			fmt.Sprintf("store: %+v", face.VerifC10DumpStore(p.rcv)), replay)
		face.VerifC10ClearStore(p.rcv)
	}
	sl.got = sl.got[:0]
}

// fragmentSetProblem inspects the emitted frames with the harness's own reader: "" when they are a
// well-formed NDNLPv2 fragmentation of raw (or one frame carrying raw), else what is wrong.
func fragmentSetProblem(frames [][]byte, raw []byte) string {
	if len(frames) == 1 {
		v, err := scanFrame(frames[0])
		switch {
		case err != nil:
			return "frame is not a well-formed TLV"
		case !v.isLp:
			if !bytes.Equal(frames[0], raw) {
				return "bare frame differs from the packet"
			}
		case !bytes.Equal(v.payload, raw):
			return "single frame does not carry the whole packet"
		case (v.hasIdx && v.idx != 0) || (v.hasCnt && v.cnt != 1):
			return "single frame carries fragmentation fields of a multi-fragment message"
		}
		return ""
	}
	var cat []byte
	var base uint64
	for i, f := range frames {
		v, err := scanFrame(f)
		switch {
		case err != nil || !v.isLp:
			return "fragment frame is not a well-formed LpPacket"
		case !v.hasIdx || !v.hasCnt:
			return "fragments carry no FragIndex/FragCount"
		case !v.hasSeq:
			return "fragments carry no Sequence"
		case v.idx != uint64(i) || v.cnt != uint64(len(frames)):
			return "FragIndex/FragCount do not number the fragments 0..n-1 of n"
		}
		if i == 0 {
			base = v.seq
		} else if v.seq != base+uint64(i) {
			return "Sequence numbers of the fragments are not consecutive"
		}
		cat = append(cat, v.payload...)
	}
	if !bytes.Equal(cat, raw) {
		return "fragment payloads do not concatenate to the packet"
	}
	return ""
}

// judgeDelivery compares what the recording thread received with the one packet that was sent.
func (p *pair) judgeDelivery(got []delivered, raw []byte, isData bool, wantTok []byte, wantMark *uint64, anyMark bool,
	frames [][]byte, size int, replay func() map[string]any) {
	c, mtu := p.c, p.mtu
	if len(got) == 1 && got[0].data == isData && bytes.Equal(got[0].pkt.Raw, raw) {
		g := got[0]
		switch {
		case !bytes.Equal(g.pkt.PitToken, wantTok):
			addVio("C10.exact", "PIT token differs", c, mtu, size,
				fmt.Sprintf("attached %x, delivered %x", wantTok, g.pkt.PitToken), replay)
		case anyMark && g.pkt.CongestionMark == nil:
			addVio("C10.exact", "congestion mark lost", c, mtu, size, "link service marked the packet, receiver delivered no mark", replay)
		case !anyMark && (wantMark == nil) != (g.pkt.CongestionMark == nil),
			!anyMark && wantMark != nil && *wantMark != *g.pkt.CongestionMark:
			addVio("C10.exact", "congestion mark differs", c, mtu, size,
				fmt.Sprintf("sent %v, delivered %v", ptrStr(wantMark), ptrStr(g.pkt.CongestionMark)), replay)
		}
		return
	}
	// not exactly the packet, once: find out from the frames themselves which side is at fault
	what := fmt.Sprintf("%d frames sent in order, %d packets delivered", len(frames), len(got))
	if len(got) == 1 {
		what += fmt.Sprintf("; sent %s, delivered %s, first differing byte at offset %d", hexHead(raw, 16), hexHead(got[0].pkt.Raw, 16), firstDiff(got[0].pkt.Raw, raw))
	}
	if prob := fragmentSetProblem(frames, raw); prob != "" {
		addVio("C10.exact", "sender: "+prob+" (peer cannot deliver the packet)", c, mtu, size, what, replay)
		return
	}
	sym := "peer loses or corrupts a packet whose fragments are well-formed and arrive in order"
	if len(got) > 1 {
		sym = "peer delivers a packet more than once"
	}
	addVio("C10.exact", sym, c, mtu, size, what, replay)
}

func ptrStr(p *uint64) string {
	if p == nil {
		return "none"
	}
	return fmt.Sprint(*p)
}

// ---------------------------------------------------------------------------------------------

func quickMTUs() []int {
	set := map[int]bool{}
	add := func(lo, hi int) {
		for v := lo; v <= hi; v++ {
			set[v] = true
		}
	}
	add(128, 160)
	add(250, 262)
	add(8780, 8800)
	for _, v := range []int{508, 1280, 1400, 1452, 1500, 4000, 8192} {
		set[v] = true
	}
	var m []int
	for v := range set {
		m = append(m, v)
	}
	sort.Ints(m)
	return m
}

type quietHandler struct{}

// core.LogFatal ends in os.Exit(1); turn it into a panic that the case wrapper reports.
func (quietHandler) HandleLog(e *ndnlog.Entry) error {
	if e.Level >= ndnlog.FatalLevel {
		panic("core.LogFatal: " + e.Message)
	}
	return nil
}

func main() {
	rep := report.New("C10", "exploration")
	thorough := rep.Thorough()
	start := time.Now()
	budgetA := 60 * time.Second
	if thorough {
		budgetA = 24 * time.Minute
	}
	if v := os.Getenv("VERIF_C10_BUDGET_S"); v != "" {
		var s int
		fmt.Sscan(v, &s)
		budgetA = time.Duration(s) * time.Second
	}

	if f := os.Getenv("VERIF_CPUPROFILE"); f != "" {
		fh, _ := os.Create(f)
		pprof.StartCPUProfile(fh)
	}
	debug.SetGCPercent(800) // the live heap is small (packet table); the code under test allocates per frame
	// environment of the code under test
	ndnlog.SetHandler(quietHandler{})
	ndnlog.SetLevel(ndnlog.FatalLevel)
	fw.Threads = make([]*fw.Thread, 1) // only len() is used by the name -> thread hash
	dispatch.InitializeFWThreads([]dispatch.FWThread{rec})
	face.VerifC10SetCongestionMarking(true) // own marking additionally needs a congested send queue (config mark:own)

	var err error
	var minI, minD int
	tblPkts, minI, minD, err = buildTable(maxPacket)
	if err != nil {
		report.Fatal("packet builder: %v", err)
	}
	for i, a := range os.Args {
		if a == "--replay" && i+1 < len(os.Args) {
			os.Exit(replayFile(os.Args[i+1]))
		}
	}

	// ---------------- Enumeration A ----------------
	// Block 3: options reached through SetOptions (see viaCfgs). Block 1: the property's own dimensions (fragmentation x incoming-face indication x token x
	// mark = 16 configurations) on the full MTU list of the tier. Block 2: the extended token/mark
	// variants (token attached only on output / only on input, the link service's own mark, 8-byte
	// mark value; 64 more configurations) on a smaller MTU list. Rows are MTU-major inside a block
	// so that a capped run reports a completed MTU prefix.
	base := allCfgs(true)
	ext := []cfg{}
	isBase := map[cfg]bool{}
	for _, c := range base {
		isBase[c] = true
	}
	for _, c := range allCfgs(false) {
		if !isBase[c] {
			ext = append(ext, c)
		}
	}
	var mtus1, mtus2 []int
	if thorough {
		for v := minMTU; v <= maxPacket; v++ {
			mtus1 = append(mtus1, v)
		}
		mtus2 = quickMTUs()
	} else {
		mtus1 = quickMTUs()
		mtus2 = []int{128, 256, 257, 258, 508, 1280, 1500, 4000, 8192, 8800}
	}
	via := viaCfgs()
	mtus3 := []int{160, 300, 508, 1500, 8192}
	if thorough {
		mtus3 = []int{128, 160, 256, 257, 258, 300, 508, 1280, 1500, 4000, 8192, 8800}
	}
	devOverride := false
	dev5 := os.Getenv("VERIF_C10_DEV_BLOCK5") != "" // development aid only: blocks 1-4 get no time
	if dev5 {
		devOverride, budgetA = true, 0
	}
	if v := os.Getenv("VERIF_C10_MTUS"); v != "" { // development aid only: restrict both MTU lists
		devOverride = true
		mtus1, mtus2, mtus3 = nil, nil, nil
		for _, x := range strings.Split(v, ",") {
			var m int
			fmt.Sscan(x, &m)
			mtus1, mtus2, mtus3 = append(mtus1, m), append(mtus2, m), append(mtus3, m)
		}
	}
	type row struct {
		mtu   int
		c     cfg
		block int
	}
	var rows []row
	for _, m := range mtus1 {
		for _, c := range base {
			rows = append(rows, row{m, c, 1})
		}
	}
	for _, m := range mtus2 {
		for _, c := range ext {
			rows = append(rows, row{m, c, 2})
		}
	}
	for _, m := range mtus3 {
		for _, c := range via {
			rows = append(rows, row{m, c, 3})
		}
	}
	// Cheapest rows first, so that a time cap costs as few rows as possible and always the same
	// kind: rows without fragmentation (no frame for most sizes) come first, then the fragmenting
	// rows by descending MTU (the number of frames per row is ~ 38.7e6 / payload per frame).
	sort.SliceStable(rows, func(i, j int) bool {
		a, b := rows[i], rows[j]
		if a.c.fragOn != b.c.fragOn {
			return !a.c.fragOn
		}
		if a.c.fragOn && a.mtu != b.mtu {
			return a.mtu > b.mtu
		}
		return false
	})
	var tot caseStats
	var totMu sync.Mutex
	var shapes int64
	rowDone := make([]bool, len(rows))
	samples := &report.Samples{N: 12}
	var maxExcess int64
	doneRows, completeA := enum.Range(int64(len(rows)), start.Add(budgetA), func(i int64) {
		r := rows[i]
		ctx := getCtx()
		defer putCtx(ctx)
		p := newPair(ctx, r.mtu, r.c)
		var st caseStats
		for size := 1; size <= maxPacket; size++ {
			p.runCase(size, &st)
		}
		totMu.Lock()
		tot.nCases += st.nCases
		tot.nOne += st.nOne
		tot.nFrag += st.nFrag
		tot.nDrop += st.nDrop
		tot.nFrames += st.nFrames
		rowDone[i] = true
		totMu.Unlock()
		atomic.AddInt64(&shapes, int64(len(st.shapes)))
		for {
			old := atomic.LoadInt64(&maxExcess)
			if int64(st.maxExcess) <= old || atomic.CompareAndSwapInt64(&maxExcess, old, int64(st.maxExcess)) {
				break
			}
		}
		if (r.mtu == 1500 || r.mtu == 128) && !r.c.ifi && ((r.c.tok == 0 && r.c.mark == 0) || (r.c.fragOn && r.c.tok == 1 && r.c.mark == 1)) {
			samples.Offer(fmt.Sprintf("A: MTU=%d config=%s sizes 1..%d: %d one-frame, %d fragmented (%d distinct frame counts), %d dropped, %d frames",
				r.mtu, r.c, maxPacket, st.nOne, st.nFrag, len(st.shapes), st.nDrop, st.nFrames))
		}
	})
	// per block: which MTUs have all their configurations done
	summarize := func(block int, list []int, nCfg int) string {
		done := map[int]int{}
		for i, r := range rows {
			if r.block == block && rowDone[i] {
				done[r.mtu]++
			}
		}
		full, minMissing := 0, -1
		for _, m := range list {
			if done[m] == nCfg {
				full++
			} else if m > minMissing {
				minMissing = m
			}
		}
		if full == len(list) {
			return fmt.Sprintf("all %d values (%d..%d), all %d configurations each", len(list), list[0], list[len(list)-1], nCfg)
		}
		return fmt.Sprintf("%d of %d values complete with all %d configurations; every value above %d is complete (the fragmenting rows of the smaller MTUs are the most expensive and run last)", full, len(list), nCfg, minMissing)
	}
	const quickList = "128..160, 250..262, 508, 1280, 1400, 1452, 1500, 4000, 8192, 8780..8800"
	covA := map[string]any{
		"rows_total": len(rows), "rows_done": doneRows, "complete": completeA,
		"sizes":  fmt.Sprintf("1..%d (every size; Interest below %d, Data from %d, raw bytes below %d and at 255, 256 = no well-formed packet of that size exists)", maxPacket, minD, minD, minI),
		"block1": map[string]any{"configurations": len(base), "what": "fragmentation on/off x incoming-face indication x PIT token x congestion mark", "mtu_list_size": len(mtus1), "mtus_completed": summarize(1, mtus1, len(base))},
		"block2": map[string]any{"configurations": len(ext), "what": "token only on output / only on input, link service's own congestion mark, 8-byte mark value (x the block-1 dimensions)", "mtu_list_size": len(mtus2), "mtus_completed": summarize(2, mtus2, len(ext))},
		"block3": map[string]any{"configurations": len(via), "what": "sender options reached through SetOptions after construction with each of the 3 other (fragmentation, incoming-face indication) option sets x token none/present x mark none/8-byte value", "mtu_list": fmt.Sprint(mtus3), "mtus_completed": summarize(3, mtus3, len(via))},
		"cases":  tot.nCases, "one_frame": tot.nOne, "fragmented": tot.nFrag, "dropped_no_frames": tot.nDrop, "frames": tot.nFrames,
		"max_bytes_over_mtu_seen": maxExcess,
	}
	if thorough {
		covA["block1_mtu_list"] = fmt.Sprintf("every MTU %d..%d", minMTU, maxPacket)
		covA["block2_mtu_list"] = quickList
	} else {
		covA["block1_mtu_list"] = quickList
		covA["block2_mtu_list"] = fmt.Sprint(mtus2)
	}

	// block 4: MTU changed on a live face
	b4budget := 20 * time.Second
	if thorough {
		b4budget = 3 * time.Minute
	}
	if dev5 {
		b4budget = 0
	}
	cov4, cases4, pairs4 := enumMTUChange(thorough, time.Now().Add(b4budget))
	covA["block4"] = cov4
	tot.nCases += cases4
	shapes += pairs4
	completeA = completeA && cov4["complete"] == true

	// block 5: run-time reconfiguration histories (SetOptions repeated / toggled and toggled back)
	b5budget := 10 * time.Second
	if thorough {
		b5budget = 4 * time.Minute
	}
	cov5, cases5, classes5 := enumReconf(thorough, time.Now().Add(b5budget), samples)
	covA["block5"] = cov5
	tot.nCases += cases5
	shapes += classes5
	completeA = completeA && cov5["complete"] == true

	// ---------------- Enumeration B ----------------
	covB := enumB(thorough, samples)
	covSD := enumSeqDistance(thorough)
	covSF := enumStartedFace(thorough)
	covB["sequence_distance_family"] = covSD
	covB["started_face_family"] = covSF
	covB["orders"] = covB["orders"].(int64) + covSD["arrival_orders_run"].(int64)
	covB["classes_run"] = covB["classes_run"].(int64) + covSD["message_sets"].(int64)
	covMC := enumMaxConcurrent(thorough, samples)
	covB["concurrent_maximum_size_family"] = covMC
	covB["orders"] = covB["orders"].(int64) + covMC["arrival_orders_run"].(int64)
	covB["classes_run"] = covB["classes_run"].(int64) + covMC["message_sets_done"].(int64)
	if covMC["complete"] != true {
		covB["complete"] = false
	}

	flushVios(rep)
	exhaustive := completeA && covB["complete"] == true && !devOverride
	code := rep.FinishNoExit(report.Coverage{
		"evaluations":         tot.nCases + covB["orders"].(int64),
		"distinct_nontrivial": shapes + covB["classes_run"].(int64),
		"rule":                "A: distinct (MTU, configuration, frame count >= 2) triples whose frames were sent and re-assembled, the ordered MTU pairs of block 4 and the (MTU, final configuration, setter history) classes of block 5; B: distinct (MTU, message shape, last-fragment class, frame source) classes whose every frame order was run, plus the message sets of the sequence-distance and concurrent-maximum-size families",
		"samples":             samples.List(),
		"exhaustive":          exhaustive,
		"enumeration_A":       covA,
		"enumeration_B":       covB,
	}, []string{
		"Seam: sendPacket / handleIncomingFrame called synchronously on NDNLPLinkService objects sitting on an in-memory transport (hook file, build tag verif); face goroutines, sockets and the face table are not involved.",
		"Receiver dispatch needs one forwarding thread: a recording dispatch.FWThread is registered as thread 0 and fw.Threads has length 1; PIT tokens attached to Data start with thread id 0.",
		"C10.one is three-valued: a packet MUST be one frame when size <= MTU-86 (86 = upper bound of all NDNLPv2 header bytes a sender may reserve); between that and the true limit one frame or fragmentation/drop are both accepted.",
		"Packet contents: Data padded through Content (name component length 1..8 to reach every size), Interests below the smallest Data; sizes with no well-formed packet are sent as raw bytes and judged on the sender side only.",
		"Own congestion marking (config mark:own) is armed through a hook that puts the link service in the state 'threshold exceeded, last mark long ago' and a transport reporting a congested queue; wall-clock time never decides an outcome.",
		"Enumeration B also runs harness-built reference frames (Sequence/FragIndex/FragCount on every fragment, token and mark repeated) so that the receiver is exercised in every order even while the sender omits FragIndex/FragCount.",
		"Block 4 changes the MTU of a live sender (created at m0, has sent packets) with LinkService.SetMTU, the setter management faces/update uses, for all ordered pairs of the 74-value MTU list, and applies the same oracle with the MTU then in force to packet sizes straddling both MTUs.",
		"Block 5 puts the sender through every history of up to 4 (thorough: 5) run-time setter calls over {SetOptions(same options), SetOptions(incoming-face indication toggled), SetOptions(fragmentation toggled), SetOptions(other options toggled)} plus each call repeated 5 and 8 times, with sends between the calls, before the packet sizes around the MTU are swept; besides the oracle of the other blocks (for the final options) C10.one is applied differentially: a packet that a freshly constructed link service with the same options sends as ONE frame fits, so the reconfigured sender must send it as one frame too.",
		"Block 3 reaches the sender's options through SetOptions from every other (fragmentation, incoming-face indication) option set; the oracle is the same as for a sender constructed with the final options.",
		"Receive buffer: every frame reaches handleIncomingFrame (enumerations A and B) in ONE buffer per receiver that is overwritten with a filler as soon as the call returns, as a transport's receive loop does; what was delivered is judged after all frames of the case.",
		"Concurrent maximum-size family: 2..4 messages of 8800, 8799, ... bytes at MTU 128, 129, 160 (thorough: 15 MTUs up to 300 and a mixed-size profile) with four link-layer header profiles (up to 32-byte token + 8-byte mark + incoming-face indication = the most fragments per message), five systematic interleavings, two further messages afterwards on the same link; not every interleaving of hundreds of frames.",
		"MTU < 128 (where the header reserve can reach the MTU: division by zero in sendPacket) is outside this property (C17/C04).",
	})
	pprof.StopCPUProfile()
	os.Exit(code)
}
