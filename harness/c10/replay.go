package main

import (
	"encoding/json"
	"fmt"
	"os"
	"sort"
	"strings"

	defn "github.com/named-data/ndnd/fw/defn"
	"github.com/named-data/ndnd/fw/face"
	"verif/mc/report"
)

// replayFile re-executes the single case recorded in a replay file (./check C10 --replay <file>)
// without the enumerations and without touching the evidence file. Exit 1 if it still violates.
func replayFile(path string) int {
	raw, err := os.ReadFile(path)
	if err != nil {
		fmt.Printf("CHECK-ERROR: %v\n", err)
		return 2
	}
	var doc struct {
		Clause, Key string
		Replay      struct {
			Enumeration string
			Mtu, Size   int
			MtuBefore   int `json:"mtu_before"`
			Config      string
			History     string
			Sizes       []int
			Shape       []int
			Source      string
			Order       []int
		}
	}
	if err := json.Unmarshal(raw, &doc); err != nil {
		fmt.Printf("CHECK-ERROR: %v\n", err)
		return 2
	}
	r := doc.Replay
	ctx := getCtx()
	switch r.Enumeration {
	case "A":
		var c *cfg
		change := 0
		var feats []string
		for _, f := range strings.Split(r.Config, ",") {
			switch f {
			case "SetMTU(raised-on-live-face)":
				change = 1
			case "SetMTU(lowered-on-live-face)":
				change = 2
			case reconfFeature:
				// the history itself is in r.History
			default:
				feats = append(feats, f)
			}
		}
		want := strings.Join(feats, ",")
		if want == "" {
			want = "baseline"
		}
		for _, x := range append(allCfgs(false), viaCfgs()...) {
			if x.String() == want {
				x := x
				c = &x
			}
		}
		if c == nil || r.Size < 1 || r.Size > maxPacket {
			fmt.Printf("CHECK-ERROR: unknown configuration %q or size %d\n", r.Config, r.Size)
			return 2
		}
		c.mtuChange = change
		var st caseStats
		var p *pair
		if r.History != "" {
			c.hist = r.History
			p = newPairHist(ctx, r.Mtu, *c, &st)
			fresh := newPair(getCtx(), r.Mtu, cfg{fragOn: c.fragOn, ifi: c.ifi, tok: c.tok, mark: c.mark})
			fresh.runCase(r.Size, &st)
			p.runCase(r.Size, &st)
			if nf, n := len(fresh.stx.VerifFrames()), len(p.stx.VerifFrames()); nf == 1 && n != 1 {
				addVio("C10.one", reconfOneSymptom, *c, r.Mtu, r.Size, fmt.Sprintf("fresh sender: 1 frame; after [%s]: %d frames", reconfDescribe(r.History), n), func() map[string]any { return nil })
			}
		} else if r.MtuBefore > 0 {
			p = newPairChanged(ctx, r.MtuBefore, r.Mtu, *c, &st)
		} else {
			p = newPair(ctx, r.Mtu, *c)
		}
		p.runCase(r.Size, &st)
		for i, f := range p.stx.VerifFrames() {
			v, e := scanFrame(f)
			fmt.Printf("frame %d: %d bytes (MTU %d) seq=%v idx=%v/%v cnt=%v/%v token=%x mark=%v payload=%d scan-error=%v\n",
				i, len(f), r.Mtu, v.hasSeq, v.hasIdx, v.idx, v.hasCnt, v.cnt, v.token, v.hasMark, len(v.payload), e)
		}
	case "B":
		// rebuild the frames exactly as enumB does for this class
		msgs, frames, err := buildOrderClass(ctx, r.Mtu, r.Shape, r.Sizes, r.Source)
		if err != nil {
			fmt.Printf("CHECK-ERROR: %v\n", err)
			return 2
		}
		tr := face.VerifC10MakeTransport(r.Mtu, defn.NonLocal, defn.PointToPoint)
		rcv := face.VerifC10MakeLinkService(tr, face.MakeNDNLPLinkServiceOptions(), ctx.id)
		for _, fi := range r.Order {
			if fi < 0 || fi >= len(frames) {
				fmt.Printf("CHECK-ERROR: order refers to frame %d of %d\n", fi, len(frames))
				return 2
			}
			f := frames[fi]
			if pn := safely("handleIncomingFrame", func() { recvReused(ctx, rcv, f) }); pn != "" {
				addVio("C10.order", r.Source+" frames: "+pn, cfg{fragOn: true}, r.Mtu, 0, pn, func() map[string]any { return nil })
			}
		}
		lacking := false
		for _, f := range frames {
			if v, err := scanFrame(f); err == nil && v.isLp && v.hasSeq && !(v.hasIdx && v.hasCnt) {
				lacking = true
			}
		}
		if sym, det := judgeOrder(ctx.slot.got, msgs); sym != "" {
			if lacking {
				sym = "sender: fragments carry no FragIndex/FragCount (peer cannot deliver the packet)"
			}
			addVio("C10.order", r.Source+" frames: "+sym, cfg{fragOn: true}, r.Mtu, 0, det, func() map[string]any { return nil })
		}
		if face.VerifC10StoreLen(rcv) != 0 && !lacking {
			addVio("C10.order", r.Source+" frames: reassembly store not empty after all frames arrived", cfg{fragOn: true}, r.Mtu, 0,
				fmt.Sprintf("%+v", face.VerifC10DumpStore(rcv)), func() map[string]any { return nil })
		}
	case "B-sequence-distance":
		// the family is small and deterministic: re-run all of it (the violating sets are printed)
		putCtx(ctx)
		enumSeqDistance(true)
	case "B-started-face":
		putCtx(ctx)
		enumStartedFace(os.Getenv("VERIF_TIER") == "thorough")
	case "B-concurrent-maximum-size":
		putCtx(ctx)
		enumMaxConcurrent(os.Getenv("VERIF_TIER") == "thorough", &report.Samples{N: 1})
	default:
		fmt.Printf("CHECK-ERROR: replay file has no enumeration field\n")
		return 2
	}
	var keys []vioKey
	for k := range vios {
		keys = append(keys, k)
	}
	sort.Slice(keys, func(i, j int) bool { return keys[i].clause+keys[i].symptom < keys[j].clause+keys[j].symptom })
	for _, k := range keys {
		fmt.Printf("REPLAY property=C10 clause=%s symptom=%q config=%s :: %s\n", k.clause, k.symptom, k.feat, vios[k].detail)
	}
	if len(keys) == 0 {
		fmt.Println("REPLAY property=C10: no violation")
		return 0
	}
	return 1
}
