package main

import (
	"fmt"

	defn "github.com/named-data/ndnd/fw/defn"
	"github.com/named-data/ndnd/fw/face"
	"verif/mc/report"
)

// Enumeration B, "sequence distance" family: interleaved messages whose base sequence numbers are
// a chosen distance d apart (the reassembly table is keyed by the base sequence; anything that
// folds, truncates or hashes that key shows up only for particular distances). All frames come
// from the REAL sender at MTU 128; the sender assigns consecutive sequence numbers, so the distance
// is produced by what is sent in between.
//
//   direct:  A has exactly d fragments, B (2..3 fragments) is sent right after it;
//   filler:  A has 2..3 fragments, then complete filler messages totalling d-|A| fragments, then B;
//   triple:  A (d1 fragments), B (d2 fragments), C (2..3 fragments), all three in flight.
//
// Arrival orders: (1) A's first fragment, [fillers, complete and in order], all of B, rest of A;
// (2) A's first fragment, [fillers], then A's rest and B alternating; (3) B's first fragment,
// [fillers], all of A, rest of B. Triple: A0, B0, all of C, rest of B, rest of A - and A0, B0,
// then the three round-robin. Every message must be delivered exactly once, byte-identical, and the
// reassembly store must be empty afterwards.

var seqDistances = []int{1, 2, 3, 4, 7, 8, 15, 16, 31, 32, 63, 64, 65, 127, 128, 255, 256}

type sdMsg struct {
	m      *bMsg
	frames [][]byte
}

func sdSend(p *pair, size, salt int) (*sdMsg, string) {
	raw, l3, err := dataOfSize(size, salt)
	if err != nil {
		return nil, err.Error()
	}
	m := &bMsg{raw: raw, l3: l3, isData: true}
	p.stx.VerifReset()
	if pn := safely("sendPacket", func() { face.VerifC10Send(p.snd, mkOut(m)) }); pn != "" {
		return nil, pn
	}
	out := &sdMsg{m: m}
	for _, f := range p.stx.VerifFrames() {
		out.frames = append(out.frames, append([]byte{}, f...))
	}
	return out, ""
}

type sdRef struct{ msg, idx int }

func enumSeqDistance(thorough bool) map[string]any {
	const mtu = 128
	ctx := getCtx()
	defer putCtx(ctx)
	counts := probeFrameCounts(ctx, mtu, 1) // no attachments
	sizeFor := func(frags int) int { return pickSize(counts, frags, "mid") }
	maxFrags := 0
	for _, c := range counts {
		if c > maxFrags {
			maxFrags = c
		}
	}
	base := cfg{fragOn: true}
	var cases, orders, skipped int64
	// first sequence numbers: besides small values, numbers just below 2^64 so that the fragments of
	// one message (and the messages of one interleaving) straddle the wrap-around of the 64-bit
	// Sequence field - NFD peers start counting at 2^64-2
	starts := []uint64{0, 1000, 1<<64 - 2}
	if thorough {
		starts = []uint64{0, 1, 63, 1000, 1<<32 - 2, 1<<64 - 65, 1<<64 - 3, 1<<64 - 2, 1<<64 - 1}
	}
	// run one arrival order over the messages; report under a key that names the family only
	run := func(family string, d string, msgs []*sdMsg, order []sdRef) {
		orders++
		tr := face.VerifC10MakeTransport(mtu, defn.NonLocal, defn.PointToPoint)
		rcv := face.VerifC10MakeLinkService(tr, face.MakeNDNLPLinkServiceOptions(), ctx.id)
		sl := ctx.slot
		sl.got = sl.got[:0]
		replay := func() map[string]any {
			var fr []int
			for _, m := range msgs {
				fr = append(fr, len(m.frames))
			}
			return map[string]any{"enumeration": "B-sequence-distance", "family": family, "distance": d, "mtu": mtu, "fragments_per_message": fr, "order(msg,fragment)": fmt.Sprint(order)}
		}
		for _, r := range order {
			f := msgs[r.msg].frames[r.idx]
			if pn := safely("handleIncomingFrame", func() { recvReused(ctx, rcv, f) }); pn != "" {
				addVio("C10.order", "interleaved messages with distant base sequences: "+pn, base, mtu, 0, pn, replay)
				return
			}
		}
		var bm []*bMsg
		for _, m := range msgs {
			bm = append(bm, m.m)
		}
		if sym, det := judgeOrder(sl.got, bm); sym != "" {
			addVio("C10.order", "interleaved messages with distant base sequences: "+sym, base, mtu, 0,
				fmt.Sprintf("%s; family %s, base sequences %s apart, fragments per message %v", det, family, d, replay()["fragments_per_message"]), replay)
		} else if face.VerifC10StoreLen(rcv) != 0 {
			addVio("C10.order", "interleaved messages with distant base sequences: reassembly store not empty after all frames arrived", base, mtu, 0,
				fmt.Sprintf("store %+v; family %s, distance %s", face.VerifC10DumpStore(rcv), family, d), replay)
		}
		sl.got = sl.got[:0]
	}
	all := func(mi int, m *sdMsg, from int) []sdRef {
		var o []sdRef
		for i := from; i < len(m.frames); i++ {
			o = append(o, sdRef{mi, i})
		}
		return o
	}
	alternate := func(a, b []sdRef) []sdRef {
		var o []sdRef
		for i := 0; i < len(a) || i < len(b); i++ {
			if i < len(a) {
				o = append(o, a[i])
			}
			if i < len(b) {
				o = append(o, b[i])
			}
		}
		return o
	}
	for _, start := range starts {
		for _, d := range seqDistances {
			for _, kb := range []int{2, 3} {
				// ---- direct and filler variants: message list [A, fillers..., B]
				for _, variant := range []string{"direct", "filler"} {
					ka := d
					if variant == "filler" {
						ka = 2 + d%2
						if ka > d {
							continue // distance smaller than A itself: only the direct variant exists
						}
					} else if d > maxFrags || d < 2 {
						if d == 1 && variant == "direct" {
							ka = 1 // single-frame A (no reassembly state): still a valid neighbour
						} else {
							skipped++
							continue
						}
					}
					p := newPair(ctx, mtu, base)
					face.VerifC10SetNextSequence(p.snd, start)
					var msgs []*sdMsg
					fail := ""
					add := func(frags, salt int) {
						if fail != "" {
							return
						}
						sz := sizeFor(frags)
						if frags == 1 {
							sz = 60
						}
						m, why := sdSend(p, sz, salt)
						if why != "" || len(m.frames) != frags {
							fail = fmt.Sprintf("could not build a %d-fragment message (%s)", frags, why)
							return
						}
						msgs = append(msgs, m)
					}
					add(ka, 7000+d)
					for rest := d - ka; rest > 0; {
						n := rest
						if n > 60 {
							n = 60
						}
						if n == 1 && rest == 1 {
							n = 1
						}
						add(n, 7100+rest)
						rest -= n
					}
					add(kb, 7300+d)
					if fail != "" {
						report.Fatal("%s", fail)
					}
					cases++
					ia, ib := 0, len(msgs)-1
					var fill []sdRef
					for mi := 1; mi < ib; mi++ {
						fill = append(fill, all(mi, msgs[mi], 0)...)
					}
					A, B := msgs[ia], msgs[ib]
					ds := fmt.Sprint(d)
					o1 := append(append(append([]sdRef{{ia, 0}}, fill...), all(ib, B, 0)...), all(ia, A, 1)...)
					o2 := append(append([]sdRef{{ia, 0}}, fill...), alternate(all(ia, A, 1), all(ib, B, 0))...)
					o3 := append(append(append([]sdRef{{ib, 0}}, fill...), all(ia, A, 0)...), all(ib, B, 1)...)
					run(variant, ds, msgs, o1)
					run(variant, ds, msgs, o2)
					run(variant, ds, msgs, o3)
				}
			}
		}
		// ---- triples
		dl := []int{2, 3, 8, 16, 24, 32, 40, 63, 64, 65}
		for _, d1 := range dl {
			for _, d2 := range dl {
				if d1 > maxFrags || d2 > maxFrags {
					skipped++
					continue
				}
				p := newPair(ctx, mtu, base)
				face.VerifC10SetNextSequence(p.snd, start)
				var msgs []*sdMsg
				for i, fr := range []int{d1, d2, 2 + (d1+d2)%2} {
					m, why := sdSend(p, sizeFor(fr), 7500+100*i+d1+d2)
					if why != "" || len(m.frames) != fr {
						report.Fatal("%s", fmt.Sprintf("could not build a %d-fragment message (%s)", fr, why))
					}
					msgs = append(msgs, m)
				}
				cases++
				ds := fmt.Sprintf("%d and %d", d1, d1+d2)
				o1 := append(append(append([]sdRef{{0, 0}, {1, 0}}, all(2, msgs[2], 0)...), all(1, msgs[1], 1)...), all(0, msgs[0], 1)...)
				o2 := append([]sdRef{{0, 0}, {1, 0}}, alternate(alternate(all(0, msgs[0], 1), all(1, msgs[1], 1)), all(2, msgs[2], 0))...)
				run("triple", ds, msgs, o1)
				run("triple", ds, msgs, o2)
			}
		}
	}
	return map[string]any{"distances": seqDistances, "first_sequence_numbers": fmt.Sprint(starts), "mtu": mtu, "max_fragments_per_message_at_this_mtu": maxFrags,
		"message_sets": cases, "arrival_orders_run": orders, "skipped_direct_variants(distance > max fragments)": skipped,
		"families": "direct (A has d fragments), filler (complete messages in between make up the distance), triple (three messages in flight, distances d1 and d1+d2)"}
}
