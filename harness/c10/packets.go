package main

import (
	"fmt"

	enc "github.com/named-data/ndnd/std/encoding"
	spec "github.com/named-data/ndnd/std/ndn/spec_2022"
)

// Packet table: for every wire size 1..maxSize one network packet of exactly that size.
// Data packets are padded through the Content element (and, to hit the sizes that the 1- vs
// 3-byte length forms skip, through the length of the single name component). The smallest sizes
// are Interests. Sizes below the smallest well-formed Interest have no network packet at all;
// for them the table holds raw bytes and only the sender-side clauses are evaluated.

type tblPkt struct {
	raw  []byte
	l3   *spec.Packet // parsed form (never nil; empty for the raw-bytes sizes)
	kind byte         // 'D' Data, 'I' Interest, 'R' raw bytes (no well-formed packet of this size)
}

func tlNum(b []byte, v int) []byte {
	switch {
	case v <= 0xfc:
		return append(b, byte(v))
	case v <= 0xffff:
		return append(b, 0xfd, byte(v>>8), byte(v))
	default:
		return append(b, 0xfe, byte(v>>24), byte(v>>16), byte(v>>8), byte(v))
	}
}

func tlNumLen(v int) int {
	switch {
	case v <= 0xfc:
		return 1
	case v <= 0xffff:
		return 3
	default:
		return 5
	}
}

// fill writes a position dependent pattern that never looks like a well-formed Interest/Data/
// LpPacket start (high bit set, != 0xfd..0xff) so that a fragment delivered on its own cannot be
// mistaken for a packet, and so that misplaced bytes are detected.
func fill(b []byte, n int, salt int) []byte {
	for i := 0; i < n; i++ {
		b = append(b, byte(0x80|((i*7+salt*13+i/251)&0x7f)))
		if b[len(b)-1] >= 0xfd {
			b[len(b)-1] = 0x80
		}
	}
	return b
}

// mkName: /<comp of n bytes>. First byte 'v' so that the name never starts with "localhost".
func mkName(n int, salt int) []byte {
	var b []byte
	b = append(b, 0x07)
	b = tlNum(b, 1+tlNumLen(n)+n)
	b = append(b, 0x08)
	b = tlNum(b, n)
	for i := 0; i < n; i++ {
		b = append(b, byte('a'+(i+salt)%26))
	}
	return b
}

// mkData builds a Data packet: Name(/<n bytes>) [Content(c bytes)] SignatureInfo(DigestSha256-type 0) SignatureValue(empty).
func mkData(n, c, salt int) []byte {
	var inner []byte
	inner = append(inner, mkName(n, salt)...)
	if c >= 0 {
		inner = append(inner, 0x15)
		inner = tlNum(inner, c)
		inner = fill(inner, c, salt)
	}
	inner = append(inner, 0x16, 0x03, 0x1b, 0x01, 0x00, 0x17, 0x00)
	var b []byte
	b = append(b, 0x06)
	b = tlNum(b, len(inner))
	return append(b, inner...)
}

func dataSize(n, c int) int {
	inner := 1 + tlNumLen(1+tlNumLen(n)+n) + 1 + tlNumLen(n) + n + 7
	if c >= 0 {
		inner += 1 + tlNumLen(c) + c
	}
	return 1 + tlNumLen(inner) + inner
}

// mkInterest builds an Interest: Name(/<n bytes>) [Nonce].
func mkInterest(n int, nonce bool, salt int) []byte {
	var inner []byte
	inner = append(inner, mkName(n, salt)...)
	if nonce {
		inner = append(inner, 0x0a, 0x04, 0x01, 0x02, 0x03, byte(salt))
	}
	var b []byte
	b = append(b, 0x05)
	b = tlNum(b, len(inner))
	return append(b, inner...)
}

func parseL3(raw []byte) (*spec.Packet, error) {
	p, _, err := spec.ReadPacket(enc.NewBufferReader(raw))
	if err != nil {
		return nil, err
	}
	if p.Interest == nil && p.Data == nil {
		return nil, fmt.Errorf("neither Interest nor Data")
	}
	return p, nil
}

// buildTable returns the table indexed by size (index 0 unused) and the smallest Interest/Data sizes.
func buildTable(maxSize int) (tbl []tblPkt, minInterest, minData int, err error) {
	tbl = make([]tblPkt, maxSize+1)
	// Data: first (n, c) in simplest-first order that gives the size
	for n := 1; n <= 8; n++ {
		for c := -1; c <= maxSize; c++ {
			s := dataSize(n, c)
			if s > maxSize {
				break
			}
			if tbl[s].raw == nil {
				raw := mkData(n, c, s)
				if len(raw) != s {
					return nil, 0, 0, fmt.Errorf("builder: Data(n=%d,c=%d) has %d bytes, computed %d", n, c, len(raw), s)
				}
				l3, e := parseL3(raw)
				if e != nil || l3.Data == nil {
					return nil, 0, 0, fmt.Errorf("builder: Data(n=%d,c=%d) does not parse: %v", n, c, e)
				}
				tbl[s] = tblPkt{raw: raw, l3: l3, kind: 'D'}
				if minData == 0 || s < minData {
					minData = s
				}
			}
		}
	}
	// Interests for every size below the smallest Data (and nothing else)
	for n := 1; n <= 40; n++ {
		for _, nonce := range []bool{false, true} {
			raw := mkInterest(n, nonce, n)
			s := len(raw)
			if s >= minData || s > maxSize || tbl[s].raw != nil {
				continue
			}
			l3, e := parseL3(raw)
			if e != nil || l3.Interest == nil {
				return nil, 0, 0, fmt.Errorf("builder: Interest(n=%d) does not parse: %v", n, e)
			}
			tbl[s] = tblPkt{raw: raw, l3: l3, kind: 'I'}
			if minInterest == 0 || s < minInterest {
				minInterest = s
			}
		}
	}
	for s := 1; s <= maxSize; s++ {
		if tbl[s].raw == nil {
			// below the smallest Interest, and 255/256 (a TLV with a 1-byte type has 254 or >= 257 bytes)
			if s >= minInterest && s != 255 && s != 256 {
				return nil, 0, 0, fmt.Errorf("builder: no packet of size %d", s)
			}
			tbl[s] = tblPkt{raw: fill(nil, s, s), l3: &spec.Packet{}, kind: 'R'}
		}
	}
	return tbl, minInterest, minData, nil
}

// bigInterest builds an Interest of exactly the given size using several name components of
// at most 200 bytes (used by the order enumeration so that both packet types are reassembled).
func bigInterest(size int, salt int) ([]byte, *spec.Packet, error) {
	for last := 1; last <= 200; last++ {
		for k := 0; k <= size/200+1; k++ {
			var name []byte
			for i := 0; i < k; i++ {
				name = append(name, 0x08, 200)
				for j := 0; j < 200; j++ {
					name = append(name, byte('a'+(i+j+salt)%26))
				}
			}
			name = append(name, 0x08, byte(last))
			for j := 0; j < last; j++ {
				name = append(name, byte('b'+(j+salt)%25))
			}
			var inner []byte
			inner = append(inner, 0x07)
			inner = tlNum(inner, len(name))
			inner = append(inner, name...)
			inner = append(inner, 0x0a, 0x04, 0x09, 0x08, 0x07, byte(salt))
			var b []byte
			b = append(b, 0x05)
			b = tlNum(b, len(inner))
			b = append(b, inner...)
			if len(b) == size {
				l3, e := parseL3(b)
				if e != nil || l3.Interest == nil {
					return nil, nil, fmt.Errorf("bigInterest(%d) does not parse: %v", size, e)
				}
				return b, l3, nil
			}
		}
	}
	return nil, nil, fmt.Errorf("no Interest of size %d", size)
}

// dataOfSize builds a Data packet of exactly the given size with a salt-dependent name and content
// (so that two messages of equal size differ).
func dataOfSize(size, salt int) ([]byte, *spec.Packet, error) {
	for n := 1; n <= 8; n++ {
		for c := -1; c <= size; c++ {
			if dataSize(n, c) == size {
				raw := mkData(n, c, salt)
				l3, err := parseL3(raw)
				if err != nil || l3.Data == nil || len(raw) != size {
					return nil, nil, fmt.Errorf("dataOfSize(%d): %v", size, err)
				}
				return raw, l3, nil
			}
		}
	}
	return nil, nil, fmt.Errorf("no Data of size %d", size)
}
