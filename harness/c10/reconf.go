package main

import (
	"fmt"
	"sort"
	"strings"
	"sync"
	"sync/atomic"
	"time"

	"github.com/named-data/ndnd/fw/face"
	"verif/mc/enum"
	"verif/mc/report"
)

// Block 5 of enumeration A: run-time reconfiguration HISTORIES. Management faces/update calls
// SetOptions on the live link service of a face every time it is invoked - also when only a
// threshold changes, i.e. with the options the link service already has - and a face lives through
// any number of such updates. Blocks 1-3 see a sender after zero or one setter call; this block puts
// the sender through every history of up to L calls over the alphabet
//
//	S  SetOptions(the options it already has)
//	I  SetOptions(incoming-face indication toggled)
//	F  SetOptions(fragmentation toggled)
//	O  SetOptions(the other options toggled: consumer-controlled forwarding, local cache policy,
//	   congestion marking)
//
// (two equal toggles = "off and on again"), plus each call repeated 5 and 8 times, with two sends
// after every call (the face is live; these sends are judged under the options then in force).
// Then the packet sizes around the MTU are swept and every case goes through the oracle of the
// other blocks with the FINAL options (C10.mtu, C10.one with the 86-byte reserve, C10.exact,
// C10.nofrag). In addition C10.one is applied differentially: a freshly constructed link service
// with the same options and MTU is the witness for "fits" - if it sends the packet as one frame
// (which is then <= MTU, or C10.mtu reports it), the packet fits, and the reconfigured sender must
// send it as one frame too.

const reconfFeature = "reconfigured-at-run-time(SetOptions-history)"

const reconfOneSymptom = "packet that a freshly constructed link service with the same options sends as one frame is not sent as one frame after run-time reconfiguration"

func reconfEventName(e byte) string {
	switch e {
	case 'S':
		return "SetOptions(same options)"
	case 'I':
		return "SetOptions(incoming-face indication toggled)"
	case 'F':
		return "SetOptions(fragmentation toggled)"
	default:
		return "SetOptions(other options toggled)"
	}
}

func reconfDescribe(h string) string {
	var parts []string
	for i := 0; i < len(h); {
		j := i
		for j < len(h) && h[j] == h[i] {
			j++
		}
		if j-i > 1 {
			parts = append(parts, fmt.Sprintf("%s x%d", reconfEventName(h[i]), j-i))
		} else {
			parts = append(parts, reconfEventName(h[i]))
		}
		i = j
	}
	return strings.Join(parts, " ; ")
}

// reconfHistories: every history of length 1..depth over SIFO (shortest first), then each event
// repeated 5 and 8 (thorough: also 12 and 40) times.
func reconfHistories(thorough bool) []string {
	depth := 4
	reps := []int{5, 8}
	if thorough {
		depth = 5
		reps = []int{5, 8, 12, 40}
	}
	const ev = "SIFO"
	var out []string
	level := []string{""}
	for d := 1; d <= depth; d++ {
		var next []string
		for _, h := range level {
			for i := 0; i < len(ev); i++ {
				next = append(next, h+string(ev[i]))
			}
		}
		out = append(out, next...)
		level = next
	}
	for _, k := range reps {
		for i := 0; i < len(ev); i++ {
			out = append(out, strings.Repeat(string(ev[i]), k))
		}
	}
	return out
}

// newPairHist: a sender constructed with the options that the history turns into c's options, put
// through the history (two judged sends after every call), and a fresh receiver.
func newPairHist(ctx *wctx, mtu int, c cfg, st *caseStats) *pair {
	frag, ifi, other := c.fragOn, c.ifi, false
	for i := 0; i < len(c.hist); i++ {
		switch c.hist[i] {
		case 'I':
			ifi = !ifi
		case 'F':
			frag = !frag
		case 'O':
			other = !other
		}
	}
	// (frag, ifi, other) are the options at construction; "other" ends as false
	first := c
	first.fragOn, first.ifi, first.hist = frag, ifi, ""
	p := newPair(ctx, mtu, first)
	if other {
		o := p.snd.Options()
		o.IsConsumerControlledForwardingEnabled, o.IsLocalCachePolicyEnabled, o.IsCongestionMarkingEnabled = true, true, true
		p.snd = face.VerifC10MakeLinkService(p.stx, o, 3000+ctx.id)
	}
	for i := 0; i < len(c.hist); i++ {
		o := p.snd.Options()
		switch c.hist[i] {
		case 'I':
			o.IsIncomingFaceIndicationEnabled = !o.IsIncomingFaceIndicationEnabled
		case 'F':
			o.IsFragmentationEnabled = !o.IsFragmentationEnabled
		case 'O':
			v := !o.IsConsumerControlledForwardingEnabled
			o.IsConsumerControlledForwardingEnabled, o.IsLocalCachePolicyEnabled, o.IsCongestionMarkingEnabled = v, v, v
		}
		p.snd.SetOptions(o)
		cur := c
		cur.fragOn, cur.ifi, cur.hist = o.IsFragmentationEnabled, o.IsIncomingFaceIndicationEnabled, c.hist[:i+1]
		p.c = cur
		for _, s := range []int{40, mtu + 40} {
			if s <= maxPacket {
				p.runCase(s, st)
			}
		}
	}
	p.c = c
	return p
}

// reconfSizes: every size from 120 below the MTU to 2 above it (all one-frame limits of all header
// profiles lie there), the two-frame limits, a small, a medium and the maximum size.
func reconfSizes(m int) []int {
	set := map[int]bool{20: true, 1000: true, maxPacket: true}
	for d := -120; d <= 2; d++ {
		set[m+d] = true
	}
	for _, d := range []int{-60, -52, -26, 0} {
		set[2*m+d] = true
	}
	var out []int
	for s := range set {
		if s >= 1 && s <= maxPacket {
			out = append(out, s)
		}
	}
	sort.Ints(out)
	return out
}

func enumReconf(thorough bool, deadline time.Time, samples *report.Samples) (map[string]any, int64, int64) {
	mtus := []int{128, 300, 1500, 8800}
	if thorough {
		mtus = []int{128, 160, 256, 257, 258, 300, 508, 1280, 1500, 4000, 8192, 8800}
	}
	hists := reconfHistories(thorough)
	type row struct {
		c     cfg
		mtu   int
		first byte // histories starting with this call
	}
	var rows []row
	for _, m := range mtus {
		for _, fr := range []bool{true, false} {
			for _, ifi := range []bool{false, true} {
				for _, at := range [][2]int{{0, 0}, {1, 3}} { // nothing attached; token + 8-byte mark value
					for _, f := range []byte("SIFO") {
						rows = append(rows, row{cfg{fragOn: fr, ifi: ifi, tok: at[0], mark: at[1]}, m, f})
					}
				}
			}
		}
	}
	var cases, classes, diffChecked, refOne int64
	var tot caseStats
	var mu sync.Mutex
	done, complete := enum.Range(int64(len(rows)), deadline, func(i int64) {
		r := rows[i]
		ctx := getCtx()
		defer putCtx(ctx)
		var st caseStats
		sizes := reconfSizes(r.mtu)
		// the witness: a freshly constructed link service with the final options
		ref := make([]int, len(sizes))
		fresh := newPair(ctx, r.mtu, r.c)
		for k, s := range sizes {
			fresh.runCase(s, &st)
			ref[k] = len(fresh.stx.VerifFrames())
		}
		var nDiff, nOne, nCls int64
		for _, h := range hists {
			if h[0] != r.first {
				continue
			}
			c := r.c
			c.hist = h
			p := newPairHist(ctx, r.mtu, c, &st)
			for k, s := range sizes {
				p.runCase(s, &st)
				n := len(p.stx.VerifFrames())
				nDiff++
				if ref[k] == 1 {
					nOne++
					if n != 1 {
						size := s
						addVio("C10.one", reconfOneSymptom, c, r.mtu, size,
							fmt.Sprintf("packet of %d bytes on MTU %d: a freshly constructed link service with these options sends 1 frame, this sender sends %d frames after the history [%s] (header reserve now %d bytes, fresh %d)",
								size, r.mtu, n, reconfDescribe(h), face.VerifC10HeaderOverhead(p.snd), face.VerifC10HeaderOverhead(fresh.snd)),
							func() map[string]any {
								return map[string]any{"enumeration": "A", "mtu": r.mtu, "size": size, "packet": string(tblPkts[size].kind), "config": c.String(), "history": h}
							})
					}
				}
			}
			nCls++
		}
		if r.mtu == 1500 && r.c.fragOn && !r.c.ifi && r.c.tok == 0 && r.first == 'S' {
			samples.Offer(fmt.Sprintf("A5: MTU=%d config=%s, histories starting with %s: %d histories x %d sizes, %d comparisons with a freshly constructed sender (%d where it sends one frame)",
				r.mtu, r.c, reconfEventName(r.first), nCls, len(sizes), nDiff, nOne))
		}
		mu.Lock()
		tot.nFrames += st.nFrames
		tot.nFrag += st.nFrag
		mu.Unlock()
		atomic.AddInt64(&cases, st.nCases)
		atomic.AddInt64(&classes, nCls)
		atomic.AddInt64(&diffChecked, nDiff)
		atomic.AddInt64(&refOne, nOne)
	})
	return map[string]any{
		"what":                       "sender put through a history of run-time SetOptions calls (same options / incoming-face indication toggled / fragmentation toggled / other options toggled), two sends after every call, then the packet sizes around the MTU; oracle of blocks 1-3 for the final options + differential C10.one against a freshly constructed sender",
		"histories":                  len(hists),
		"history_alphabet":           "S=SetOptions(same options) I=SetOptions(incoming-face indication toggled) F=SetOptions(fragmentation toggled) O=SetOptions(consumer-controlled forwarding, local cache policy, congestion marking toggled)",
		"history_lengths":            map[bool]string{false: "every history of 1..4 calls, each call repeated 5 and 8 times", true: "every history of 1..5 calls, each call repeated 5, 8, 12 and 40 times"}[thorough],
		"final_option_sets":          "fragmentation on/off x incoming-face indication on/off x {nothing attached, token + 8-byte congestion mark value}",
		"mtu_list":                   fmt.Sprint(mtus),
		"sizes_per_mtu_example_1500": len(reconfSizes(1500)),
		"rows_total":                 len(rows), "rows_done": done, "complete": complete,
		"cases": cases, "fragmented": tot.nFrag, "frames": tot.nFrames,
		"history_classes_done":            classes,
		"comparisons_with_fresh_sender":   diffChecked,
		"comparisons_fresh_sends_1_frame": refOne,
	}, cases, classes
}
