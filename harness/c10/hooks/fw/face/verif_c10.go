//go:build verif

// White-box access for the C10 check (fragmentation / reassembly). Added to package face through
// the build overlay of the C10 harness only; never part of a normal build.
package face

import (
	"sort"
	"strconv"
	"time"

	defn "github.com/named-data/ndnd/fw/defn"
	"github.com/named-data/ndnd/fw/dispatch"
)

// VerifC10Transport is an in-memory implementation of the unexported transport interface. It
// records every frame handed to sendFrame (copying it: the link service reuses its out buffer).
type VerifC10Transport struct {
	transportBase
	// SendQueueSize is what GetSendQueueSize reports (drives the link service's own congestion marking).
	SendQueueSize uint64
	// frames are the frames passed to sendFrame since the last VerifReset, in order.
	frames [][]byte
	// arena backs the recorded frames so that recording does not allocate per frame
	arena []byte
}

// VerifC10MakeTransport makes an in-memory transport with the chosen MTU, scope and link type.
func VerifC10MakeTransport(mtu int, scope defn.Scope, linkType defn.LinkType) *VerifC10Transport {
	t := &VerifC10Transport{}
	t.makeTransportBase(defn.MakeNullFaceURI(), defn.MakeNullFaceURI(), PersistencyPermanent, scope, linkType, mtu)
	t.running.Store(true)
	return t
}

func (t *VerifC10Transport) String() string {
	return "VerifC10Transport, FaceID=" + strconv.FormatUint(t.faceID, 10)
}
func (t *VerifC10Transport) SetPersistency(persistency Persistency) bool {
	t.persistency = persistency
	return true
}
func (t *VerifC10Transport) GetSendQueueSize() uint64 { return t.SendQueueSize }
func (t *VerifC10Transport) sendFrame(frame []byte) {
	if cap(t.arena)-len(t.arena) < len(frame) {
		n := 1 << 16
		if n < len(frame) {
			n = len(frame)
		}
		t.arena = make([]byte, 0, n) // earlier frames keep the old arena alive
	}
	off := len(t.arena)
	t.arena = append(t.arena, frame...)
	t.frames = append(t.frames, t.arena[off:off+len(frame):off+len(frame)])
	t.nOutBytes += uint64(len(frame))
}
func (t *VerifC10Transport) runReceive() {}
func (t *VerifC10Transport) Close()      { t.running.Store(false) }

// VerifFrames returns the frames recorded since the last VerifReset, in emission order. The slices
// stay valid until VerifReset.
func (t *VerifC10Transport) VerifFrames() [][]byte { return t.frames }

// VerifReset forgets the recorded frames and recycles their memory.
func (t *VerifC10Transport) VerifReset() {
	t.frames = t.frames[:0]
	t.arena = t.arena[:0]
}

// VerifC10MakeLinkService makes an NDNLPLinkService on the transport without starting goroutines
// and without registering it in the face table.
func VerifC10MakeLinkService(t *VerifC10Transport, options NDNLPLinkServiceOptions, faceID uint64) *NDNLPLinkService {
	l := MakeNDNLPLinkService(t, options)
	l.SetFaceID(faceID)
	return l
}

// VerifC10Send is sendPacket, synchronously.
func VerifC10Send(l *NDNLPLinkService, out dispatch.OutPkt) { sendPacket(l, out) }

// VerifC10Recv is handleIncomingFrame, synchronously.
func VerifC10Recv(l *NDNLPLinkService, frame []byte) { l.handleIncomingFrame(frame) }

// VerifC10SetCongestionMarking sets the package-level switch normally set by Configure().
func VerifC10SetCongestionMarking(on bool) { congestionMarking = on }

// VerifC10ArmCongestion puts the sender into the state "more than the threshold sent since the
// last queue check, last congestion mark long ago": the next sendPacket consults the transport's
// send queue size and, if that exceeds the threshold, adds the link service's own congestion mark.
func VerifC10ArmCongestion(l *NDNLPLinkService) {
	l.congestionCheck = l.options.DefaultCongestionThresholdBytes + 1
	l.lastTimeCongestionMarked = time.Time{}
}

// VerifC10SetNextSequence sets the next fragment sequence number of the sender.
func VerifC10SetNextSequence(l *NDNLPLinkService, seq uint64) { l.nextSequence = seq }

// VerifC10NextSequence returns the next fragment sequence number of the sender.
func VerifC10NextSequence(l *NDNLPLinkService) uint64 { return l.nextSequence }

// VerifC10HeaderOverhead returns the link service's per-frame header reserve (informational).
func VerifC10HeaderOverhead(l *NDNLPLinkService) int { return l.headerOverhead }

// VerifC10StoreEntry describes one entry of the reassembly buffer.
type VerifC10StoreEntry struct {
	BaseSequence uint64
	Slots        int
	Filled       int
	Bytes        int
}

// VerifC10DumpStore returns the content of partialMessageStore, sorted by base sequence.
func VerifC10DumpStore(l *NDNLPLinkService) []VerifC10StoreEntry {
	out := make([]VerifC10StoreEntry, 0, len(l.partialMessageStore))
	for k, v := range l.partialMessageStore {
		e := VerifC10StoreEntry{BaseSequence: k, Slots: len(v)}
		for _, f := range v {
			if len(f) != 0 {
				e.Filled++
				e.Bytes += len(f)
			}
		}
		out = append(out, e)
	}
	sort.Slice(out, func(i, j int) bool { return out[i].BaseSequence < out[j].BaseSequence })
	return out
}

// VerifC10StoreLen is len(partialMessageStore).
func VerifC10StoreLen(l *NDNLPLinkService) int { return len(l.partialMessageStore) }

// VerifC10ClearStore empties the reassembly buffer (between independent cases).
func VerifC10ClearStore(l *NDNLPLinkService) {
	for k := range l.partialMessageStore {
		delete(l.partialMessageStore, k)
	}
}
