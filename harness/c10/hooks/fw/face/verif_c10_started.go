//go:build verif

// White-box access for the C10 check, "started face" family: a transport whose runReceive is a
// real receive loop (one receive buffer, handleIncomingFrame per frame) fed by the harness, so
// that a link service can be brought up the way the daemon does it - NDNLPLinkService.Run(initial
// frame), then the transport's receive goroutine. Never part of a normal build.
package face

import defn "github.com/named-data/ndnd/fw/defn"

// VerifC10LoopTransport is VerifC10Transport with a receive loop.
type VerifC10LoopTransport struct {
	VerifC10Transport
	in   chan []byte
	buf  []byte
	Done chan struct{} // closed when the receive loop has handled every fed frame and seen EOF
}

// VerifC10MakeLoopTransport makes the transport; frames fed before or after the face is started
// are handled in order by the receive loop.
func VerifC10MakeLoopTransport(mtu int, scope defn.Scope, linkType defn.LinkType, queue int) *VerifC10LoopTransport {
	t := &VerifC10LoopTransport{in: make(chan []byte, queue), buf: make([]byte, defn.MaxNDNPacketSize*2), Done: make(chan struct{})}
	t.makeTransportBase(defn.MakeNullFaceURI(), defn.MakeNullFaceURI(), PersistencyPermanent, scope, linkType, mtu)
	t.running.Store(true)
	return t
}

// runReceive is what every datagram transport's receive loop does: read a frame into THE receive
// buffer, hand the slice to the link service, read the next one over it.
func (t *VerifC10LoopTransport) runReceive() {
	for f := range t.in {
		n := copy(t.buf, f)
		t.nInBytes += uint64(n)
		t.linkService.handleIncomingFrame(t.buf[:n])
		for i := 0; i < n; i++ {
			t.buf[i] = 0xdb
		}
	}
	close(t.Done)
}

// VerifFeed queues one frame for the receive loop; VerifEOF ends the loop (the peer went away).
func (t *VerifC10LoopTransport) VerifFeed(frame []byte) { t.in <- append([]byte{}, frame...) }
func (t *VerifC10LoopTransport) VerifEOF()              { close(t.in) }

// VerifC10MakeLinkServiceOn makes an NDNLPLinkService on the loop transport (not started).
func VerifC10MakeLinkServiceOn(t *VerifC10LoopTransport, options NDNLPLinkServiceOptions) *NDNLPLinkService {
	return MakeNDNLPLinkService(t, options)
}

// VerifC10SetNextFaceID sets the id the face table hands to the next face that is started.
func VerifC10SetNextFaceID(id uint64) { FaceTable.nextFaceID.Store(id) }
