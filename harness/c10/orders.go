package main

import (
	"bytes"
	"fmt"
	"os"
	"sync/atomic"
	"time"

	defn "github.com/named-data/ndnd/fw/defn"
	"github.com/named-data/ndnd/fw/dispatch"
	"github.com/named-data/ndnd/fw/face"
	spec "github.com/named-data/ndnd/std/ndn/spec_2022"
	"verif/mc/enum"
	"verif/mc/report"
)

// Enumeration B: every arrival order of the frames of 1..3 concurrent messages.

type bMsg struct {
	raw    []byte
	l3     *spec.Packet
	isData bool
	tok    []byte  // token attached on output (Data tokens start with thread id 0)
	mark   *uint64 // upstream congestion mark
	want   int     // wanted number of fragments
}

// per-message attachments: message 0 carries token and mark, message 1 nothing, message 2 a token
func msgAttach(j int) (tok []byte, mark *uint64) {
	switch j {
	case 0:
		return []byte{0, 0, 1, 2, 3, 4}, &one64
	case 2:
		return []byte{0, 0, 9, 9, 9, 9}, nil
	}
	return nil, nil
}

func mkOut(m *bMsg) dispatch.OutPkt {
	pk := &defn.Pkt{Raw: m.raw, L3: m.l3, CongestionMark: m.mark}
	if m.tok != nil {
		pk.PitToken = []byte{0, 5, 5, 5, 5, 5} // what the packet arrived with (agrees in presence with the out token)
	}
	return dispatch.OutPkt{Pkt: pk, PitToken: m.tok}
}

// probe: number of frames the real sender produces for a Data packet of each size under message j's attachments
func probeFrameCounts(ctx *wctx, mtu, j int) []int {
	p := newPair(ctx, mtu, cfg{fragOn: true})
	tok, mark := msgAttach(j)
	counts := make([]int, maxPacket+1)
	for s := 1; s <= maxPacket; s++ {
		tp := &tblPkts[s]
		if tp.kind != 'D' {
			continue
		}
		m := &bMsg{raw: tp.raw, l3: tp.l3, isData: true, tok: tok, mark: mark}
		p.stx.VerifReset()
		if safely("sendPacket", func() { face.VerifC10Send(p.snd, mkOut(m)) }) != "" {
			continue
		}
		counts[s] = len(p.stx.VerifFrames())
	}
	return counts
}

// pickSize: a Data size giving k frames with the last fragment smallest ("min"), largest ("max") or in between ("mid")
func pickSize(counts []int, k int, last string) int {
	lo, hi := 0, 0
	for s := 1; s < len(counts); s++ {
		if counts[s] == k {
			if lo == 0 {
				lo = s
			}
			hi = s
		}
	}
	if lo == 0 {
		return 0
	}
	switch last {
	case "min":
		return lo
	case "max":
		return hi
	}
	for s := (lo + hi) / 2; s <= hi; s++ {
		if counts[s] == k { // sizes without a well-formed packet (255, 256) have count 0
			return s
		}
	}
	return lo
}

func factorial(n int) int64 {
	f := int64(1)
	for i := 2; i <= n; i++ {
		f *= int64(i)
	}
	return f
}

// nthPerm decodes index i (factorial number system) into a permutation of 0..n-1; index 0 is the identity.
func nthPerm(i int64, n int, out []int) {
	var pool [8]int
	for k := 0; k < n; k++ {
		pool[k] = k
	}
	rem := n
	for k := 0; k < n; k++ {
		f := factorial(rem - 1)
		d := int(i / f)
		i %= f
		out[k] = pool[d]
		copy(pool[d:], pool[d+1:rem])
		rem--
	}
}

func enumB(thorough bool, samples *report.Samples) map[string]any {
	budget := 30 * time.Second
	mtus := []int{128, 1500}
	lasts := []string{"min", "mid", "max"}
	if thorough {
		budget = 5 * time.Minute
		mtus = []int{128, 200, 300, 1500, 2300}
	}
	if v := os.Getenv("VERIF_C10_BUDGET_B_S"); v != "" {
		var s int
		fmt.Sscan(v, &s)
		budget = time.Duration(s) * time.Second
	}
	deadline := time.Now().Add(budget)
	shapes := [][]int{{2}, {3}, {4}, {1, 2}, {2, 2}, {2, 3}, {1, 4}, {3, 3}, {2, 4}, {1, 1, 2}, {1, 2, 3}, {2, 2, 2}, {3, 4}, {2, 2, 3}, {1, 2, 4}, {4, 4}, {2, 2, 4}, {2, 3, 3}, {1, 3, 4}}
	var orders, classesRun, classesSkipped int64
	complete := true
	var skipped []string
	ctx0 := getCtx()
	defer putCtx(ctx0)
	base := cfg{fragOn: true}
	for _, mtu := range mtus {
		var counts [3][]int
		for j := 0; j < 3; j++ {
			counts[j] = probeFrameCounts(ctx0, mtu, j)
		}
		for _, shape := range shapes {
			for _, last := range lasts {
				// ---- build the messages
				var want []int
				ok := true
				for j, k := range shape {
					size := pickSize(counts[j], k, last)
					if size == 0 {
						ok = false
						break
					}
					want = append(want, size)
				}
				if !ok {
					classesSkipped++
					skipped = append(skipped, fmt.Sprintf("MTU=%d shape=%v last=%s: the sender never produces that many frames for a packet <= %d", mtu, shape, last, maxPacket))
					continue
				}
				msgs := buildMsgs(shape, want)
				var sizes []int
				for _, m := range msgs {
					sizes = append(sizes, len(m.raw))
				}
				for _, source := range []string{"sender", "reference", "reference-bare"} {
					msgs := msgs
					if source == "reference-bare" {
						ones, nf := 0, 0
						for _, k := range shape {
							nf += k
							if k == 1 {
								ones++
							}
						}
						if ones == 0 || (!thorough && nf > 6) {
							continue // no single-frame message in this class / quick tier: classes of up to 6 frames
						}
						msgs = msgsForSource(msgs, source)
					}
					// ---- frames
					frames, pn := buildFrames(ctx0, mtu, msgs, source)
					if pn != "" {
						addVio("C10.order", pn, base, mtu, 0, pn, func() map[string]any { return map[string]any{"enumeration": "B", "mtu": mtu, "sizes": sizes} })
						continue
					}
					n := len(frames)
					if n > 8 || n == 0 {
						classesSkipped++
						skipped = append(skipped, fmt.Sprintf("MTU=%d shape=%v last=%s source=%s: %d frames", mtu, shape, last, source, n))
						continue
					}
					// does any multi-fragment frame lack the fragmentation fields? (diagnosis only)
					lacking := false
					for _, f := range frames {
						if v, err := scanFrame(f); err == nil && v.isLp && v.hasSeq && !(v.hasIdx && v.hasCnt) {
							lacking = true
						}
					}
					total := factorial(n)
					var bad int64
					done, all := enum.Range(total, deadline, func(i int64) {
						ctx := getCtx()
						defer putCtx(ctx)
						if ctx.rcv == nil {
							tr := face.VerifC10MakeTransport(mtu, defn.NonLocal, defn.PointToPoint)
							ctx.rcv = face.VerifC10MakeLinkService(tr, face.MakeNDNLPLinkServiceOptions(), ctx.id)
						}
						var perm [8]int
						nthPerm(i, n, perm[:n])
						sl := ctx.slot
						sl.got = sl.got[:0]
						replay := func() map[string]any {
							return map[string]any{"enumeration": "B", "mtu": mtu, "sizes": sizes, "shape": shape, "source": source, "order": append([]int{}, perm[:n]...)}
						}
						for _, fi := range perm[:n] {
							f := frames[fi]
							if pn := safely("handleIncomingFrame", func() { recvReused(ctx, ctx.rcv, f) }); pn != "" {
								addVio("C10.order", source+" frames: "+pn, base, mtu, int(i), pn, replay)
								face.VerifC10ClearStore(ctx.rcv)
								atomic.AddInt64(&bad, 1)
								return
							}
						}
						if sym, det := judgeOrder(sl.got, msgs); sym != "" {
							if lacking {
								sym = "sender: fragments carry no FragIndex/FragCount (peer cannot deliver the packet)"
							}
							addVio("C10.order", source+" frames: "+sym, base, mtu, int(i),
								fmt.Sprintf("%s; message sizes %v, fragments %v, arrival order %v", det, sizes, shape, perm[:n]), replay)
							atomic.AddInt64(&bad, 1)
						}
						if face.VerifC10StoreLen(ctx.rcv) != 0 {
							if !lacking {
								addVio("C10.order", source+" frames: reassembly store not empty after all frames arrived", base, mtu, int(i),
									fmt.Sprintf("store %+v; arrival order %v", face.VerifC10DumpStore(ctx.rcv), perm[:n]), replay)
							}
							face.VerifC10ClearStore(ctx.rcv)
						}
						sl.got = sl.got[:0]
					})
					orders += done
					if !all {
						complete = false
					} else {
						classesRun++
					}
					if n >= 7 || (mtu == 128 && len(shape) == 1) {
						samples.Offer(fmt.Sprintf("B: MTU=%d sizes=%v fragments=%v last=%s source=%s: %d of %d orders run, %d orders mis-delivered",
							mtu, sizes, shape, last, source, done, total, bad))
					}
				}
			}
		}
		// forget the cached receivers: the next MTU gets new ones
		ctxMu.Lock()
		for _, c := range ctxFree {
			c.rcv = nil
		}
		ctxMu.Unlock()
		ctx0.rcv = nil
	}
	if len(skipped) > 6 {
		skipped = append(skipped[:6], fmt.Sprintf("… %d more", len(skipped)-6))
	}
	return map[string]any{"orders": orders, "classes_run": classesRun, "classes_skipped": classesSkipped, "skipped": skipped,
		"complete": complete, "mtus": mtus, "shapes_fragments_per_message": shapes, "last_fragment_classes": lasts,
		"sources": []string{"sender (real sendPacket output)", "reference (harness-built NDNLPv2 frames)",
			"reference-bare (as reference, but a message that fits in one frame is sent as the bare Interest/Data without link-layer header, hence without token and mark; classes with a single-frame message" + map[bool]string{false: ", up to 6 frames", true: ""}[thorough] + ")"},
		"receive_buffer": "every frame is handed to handleIncomingFrame in ONE receive buffer per receiver that is overwritten as soon as the call returns (as every transport does); deliveries are judged after all frames"}
}

// judgeOrder: every message delivered exactly once, byte-identical, with its token and mark; nothing else.
func judgeOrder(got []delivered, msgs []*bMsg) (symptom, detail string) {
	used := make([]bool, len(got))
	for j, m := range msgs {
		hit := false
		for gi, g := range got {
			if used[gi] || g.data != m.isData || !bytes.Equal(g.pkt.Raw, m.raw) {
				continue
			}
			used[gi] = true
			hit = true
			if !bytes.Equal(g.pkt.PitToken, m.tok) {
				return "PIT token of a re-assembled message differs", fmt.Sprintf("message %d: attached %x delivered %x", j, m.tok, g.pkt.PitToken)
			}
			if (m.mark == nil) != (g.pkt.CongestionMark == nil) || (m.mark != nil && *m.mark != *g.pkt.CongestionMark) {
				return "congestion mark of a re-assembled message differs", fmt.Sprintf("message %d: sent %s delivered %s", j, ptrStr(m.mark), ptrStr(g.pkt.CongestionMark))
			}
			if want, have := l3Name(m.l3), l3Name(g.pkt.L3); !bytes.Equal(want, have) {
				return "decoded form of a delivered message is not the packet that was sent (its bytes are)", fmt.Sprintf("message %d: name sent %s, name of the delivered packet object %s", j, hexHead(want, 24), hexHead(have, 24))
			}
			break
		}
		if !hit {
			det := fmt.Sprintf("message %d (%d bytes) not delivered (%d deliveries in total)", j, len(m.raw), len(got))
			for gi, g := range got {
				if !used[gi] && g.data == m.isData && len(g.pkt.Raw) == len(m.raw) {
					det = fmt.Sprintf("message %d (%d bytes) delivered with other bytes: first differing byte at offset %d", j, len(m.raw), firstDiff(g.pkt.Raw, m.raw))
				}
			}
			return "peer loses or corrupts a message in some arrival order", det
		}
	}
	for gi := range got {
		if !used[gi] {
			for j, m := range msgs {
				if got[gi].data == m.isData && bytes.Equal(got[gi].pkt.Raw, m.raw) {
					return "message delivered more than once in some arrival order", fmt.Sprintf("message %d delivered again", j)
				}
			}
			return "a packet that was never sent is delivered in some arrival order", fmt.Sprintf("delivery %d: %s", gi, hexHead(got[gi].pkt.Raw, 24))
		}
	}
	return "", ""
}

// l3Name: the encoded name of a decoded Interest/Data (nil for anything else).
func l3Name(p *spec.Packet) []byte {
	switch {
	case p == nil:
		return nil
	case p.Interest != nil:
		return p.Interest.NameV.Bytes()
	case p.Data != nil:
		return p.Data.NameV.Bytes()
	}
	return nil
}

// msgsForSource: what the receiver must deliver for a frame source. "reference-bare" sends a
// message that fits in one frame as the bare packet: no LpPacket, so no PIT token and no mark.
func msgsForSource(msgs []*bMsg, source string) []*bMsg {
	if source != "reference-bare" {
		return msgs
	}
	out := make([]*bMsg, len(msgs))
	for i, m := range msgs {
		c := *m
		if c.want == 1 {
			c.tok, c.mark = nil, nil
		}
		out[i] = &c
	}
	return out
}

func firstDiff(a, b []byte) int {
	for i := 0; i < len(a) && i < len(b); i++ {
		if a[i] != b[i] {
			return i
		}
	}
	return -1
}

// buildMsgs: message j of the class has sizes[j] bytes and is wanted in shape[j] fragments.
// Message 1 is an Interest (several name components) when an Interest of that size exists, the
// others are Data packets with distinct contents.
func buildMsgs(shape, sizes []int) []*bMsg {
	var msgs []*bMsg
	for j, size := range sizes {
		tok, mark := msgAttach(j)
		m := &bMsg{tok: tok, mark: mark, want: shape[j]}
		if j == 1 {
			if raw, l3, err := bigInterest(size, j); err == nil {
				m.raw, m.l3, m.isData = raw, l3, false
			}
		}
		if m.raw == nil {
			raw, l3, err := dataOfSize(size, 1000+j)
			if err != nil {
				report.Fatal("%v", err)
			}
			m.raw, m.l3, m.isData = raw, l3, true
		}
		msgs = append(msgs, m)
	}
	return msgs
}

// buildFrames: the frames of all messages in emission order, from the real sender ("sender") or
// from the harness's reference fragmenter ("reference").
func buildFrames(ctx *wctx, mtu int, msgs []*bMsg, source string) (frames [][]byte, panicked string) {
	if source == "sender" {
		p := newPair(ctx, mtu, cfg{fragOn: true})
		p.stx.VerifReset()
		for _, m := range msgs {
			if pn := safely("sendPacket", func() { face.VerifC10Send(p.snd, mkOut(m)) }); pn != "" {
				return nil, pn
			}
		}
		for _, f := range p.stx.VerifFrames() {
			frames = append(frames, append([]byte{}, f...))
		}
		return frames, ""
	}
	seq := uint64(1000)
	for _, m := range msgs {
		if source == "reference-bare" && m.want == 1 {
			frames = append(frames, append([]byte{}, m.raw...))
			continue
		}
		// as many fragments as wanted
		ch := mtu - 60
		if m.want > 1 {
			ch = (len(m.raw) + m.want - 1) / m.want
		} else if len(m.raw) > ch {
			ch = len(m.raw)
		}
		fr := refFragment(m.raw, ch, seq, m.tok, m.mark)
		seq += uint64(len(fr))
		frames = append(frames, fr...)
	}
	return frames, ""
}

func buildOrderClass(ctx *wctx, mtu int, shape, sizes []int, source string) ([]*bMsg, [][]byte, error) {
	if len(shape) != len(sizes) || len(shape) == 0 {
		return nil, nil, fmt.Errorf("replay: shape %v and sizes %v do not match", shape, sizes)
	}
	msgs := msgsForSource(buildMsgs(shape, sizes), source)
	frames, pn := buildFrames(ctx, mtu, msgs, source)
	if pn != "" {
		return nil, nil, fmt.Errorf("%s", pn)
	}
	return msgs, frames, nil
}
