package main

import (
	"errors"
)

// Independent (harness-side) reader/writer for the NDNLPv2 frame layout, used to inspect what
// the sender emitted without going through the repository's decoder, and to build the reference
// frames of the receiver-only order enumeration.

type lpView struct {
	isLp       bool
	hasSeq     bool
	seq        uint64
	hasIdx     bool
	idx        uint64
	hasCnt     bool
	cnt        uint64
	token      []byte
	hasMark    bool
	mark       uint64
	hasInFace  bool
	inFace     uint64
	hasPayload bool
	payload    []byte
	other      int // number of fields not listed above
}

var errShort = errors.New("truncated")

func rdNum(b []byte) (v uint64, n int, err error) {
	if len(b) < 1 {
		return 0, 0, errShort
	}
	switch x := b[0]; {
	case x <= 0xfc:
		return uint64(x), 1, nil
	case x == 0xfd:
		n = 3
	case x == 0xfe:
		n = 5
	default:
		n = 9
	}
	if len(b) < n {
		return 0, 0, errShort
	}
	for _, c := range b[1:n] {
		v = v<<8 | uint64(c)
	}
	return v, n, nil
}

func natural(b []byte) (uint64, bool) {
	switch len(b) {
	case 1, 2, 4, 8:
		var v uint64
		for _, c := range b {
			v = v<<8 | uint64(c)
		}
		return v, true
	}
	return 0, false
}

// scanFrame parses one frame. A frame that is not an LpPacket (bare Interest/Data) gives isLp=false.
func scanFrame(f []byte) (lpView, error) {
	var v lpView
	t, n, err := rdNum(f)
	if err != nil {
		return v, err
	}
	l, m, err := rdNum(f[n:])
	if err != nil {
		return v, err
	}
	if uint64(len(f)-n-m) != l {
		return v, errors.New("outer TLV length does not match the frame length")
	}
	if t != 0x64 {
		return v, nil
	}
	v.isLp = true
	b := f[n+m:]
	for len(b) > 0 {
		ft, n, err := rdNum(b)
		if err != nil {
			return v, err
		}
		fl, m, err := rdNum(b[n:])
		if err != nil {
			return v, err
		}
		if uint64(len(b)-n-m) < fl {
			return v, errors.New("field overruns the LpPacket")
		}
		val := b[n+m : n+m+int(fl)]
		b = b[n+m+int(fl):]
		ok := true
		switch ft {
		case 0x51:
			v.hasSeq = true
			if len(val) != 8 {
				return v, errors.New("Sequence is not 8 bytes")
			}
			v.seq, _ = natural(val)
		case 0x52:
			v.hasIdx = true
			v.idx, ok = natural(val)
		case 0x53:
			v.hasCnt = true
			v.cnt, ok = natural(val)
		case 0x62:
			v.token = val
		case 0x0340:
			v.hasMark = true
			v.mark, ok = natural(val)
		case 0x032c:
			v.hasInFace = true
			v.inFace, ok = natural(val)
		case 0x50:
			v.hasPayload = true
			v.payload = val
		default:
			v.other++
		}
		if !ok {
			return v, errors.New("bad non-negative integer field")
		}
	}
	return v, nil
}

func putNat(b []byte, v uint64) []byte {
	switch {
	case v <= 0xff:
		return append(b, 1, byte(v))
	case v <= 0xffff:
		return append(b, 2, byte(v>>8), byte(v))
	case v <= 0xffffffff:
		return append(b, 4, byte(v>>24), byte(v>>16), byte(v>>8), byte(v))
	default:
		return append(b, 8, byte(v>>56), byte(v>>48), byte(v>>40), byte(v>>32), byte(v>>24), byte(v>>16), byte(v>>8), byte(v))
	}
}

// refFrame encodes one NDNLPv2 frame (fields in increasing type order, Fragment last, which is
// also what the repository's encoder does).
func refFrame(seq *uint64, idx, cnt *uint64, token []byte, mark *uint64, payload []byte) []byte {
	var h []byte
	if seq != nil {
		s := *seq
		h = append(h, 0x51, 8, byte(s>>56), byte(s>>48), byte(s>>40), byte(s>>32), byte(s>>24), byte(s>>16), byte(s>>8), byte(s))
	}
	if idx != nil {
		h = append(h, 0x52)
		h = putNat(h, *idx)
	}
	if cnt != nil {
		h = append(h, 0x53)
		h = putNat(h, *cnt)
	}
	if len(token) > 0 {
		h = append(h, 0x62, byte(len(token)))
		h = append(h, token...)
	}
	if mark != nil {
		h = append(h, 0xfd, 0x03, 0x40)
		h = putNat(h, *mark)
	}
	h = append(h, 0x50)
	h = tlNum(h, len(payload))
	h = append(h, payload...)
	var f []byte
	f = append(f, 0x64)
	f = tlNum(f, len(h))
	return append(f, h...)
}

// refFragment splits a packet into n frames the way a conforming NDNLPv2 sender with this
// repository's header conventions does (Sequence, FragIndex, FragCount on every fragment; PIT
// token and congestion mark repeated on every fragment; a single frame carries no
// fragmentation fields). chunk is the payload size of all fragments but the last.
func refFragment(raw []byte, chunk int, baseSeq uint64, token []byte, mark *uint64) [][]byte {
	if len(raw) <= chunk {
		return [][]byte{refFrame(nil, nil, nil, token, mark, raw)}
	}
	n := (len(raw) + chunk - 1) / chunk
	out := make([][]byte, 0, n)
	for i := 0; i < n; i++ {
		lo, hi := i*chunk, (i+1)*chunk
		if hi > len(raw) {
			hi = len(raw)
		}
		s, ix, c := baseSeq+uint64(i), uint64(i), uint64(n)
		out = append(out, refFrame(&s, &ix, &c, token, mark, raw[lo:hi]))
	}
	return out
}
