package main

import (
	"fmt"
	"sync/atomic"
	"time"

	defn "github.com/named-data/ndnd/fw/defn"
	"github.com/named-data/ndnd/fw/dispatch"
	"github.com/named-data/ndnd/fw/face"
	"verif/mc/enum"
	"verif/mc/report"
)

// Enumeration B, "concurrent maximum-size messages" family. The property quantifies over ANY packet
// up to the maximum size, ANY MTU from 128 up, and fragments "interleaved with the fragments of
// other packets". The order enumeration (orders.go) covers every order of up to 8 frames; this
// family covers the other end of the same space: k = 2, 3, 4 messages of (nearly) the maximum
// packet size at the smallest MTUs - with the largest link-layer header a sender can attach, so
// that each message has the largest possible number of fragments - all in reassembly at once.
// Everything that bounds, indexes or accounts the reassembly state per link rather than per
// message (a total fragment budget, a byte budget, a table size, an eviction rule) shows up only
// here. All frames come from the REAL sender.
//
//	dimensions: MTU x k x header profile x size profile x first sequence number x interleaving
//	interleavings (all deterministic, every frame delivered exactly once):
//	  sequential      message after message (no concurrency: the baseline)
//	  round-robin     fragment i of every message before fragment i+1 of any
//	  reverse         messages in reverse order, fragments last-to-first, round-robin
//	  first-held-back round-robin without fragment 0 of any message, then the held-back fragments
//	                  (every message stays incomplete until all others have all but one fragment)
//	  one-last        all of the other messages round-robin around one fragment of message 0 at a
//	                  time: message 0 is open from the first to the last frame
//	afterwards, on the same link: a further small fragmented message and a further maximum-size
//	message, each delivered in order (a link whose accounting did not return to its initial state
//	loses them).
//
// Oracle (C10.order): every message delivered exactly once, byte-identical, with its token and
// mark; the reassembly store is empty when all frames have arrived.

type mcProfile struct {
	name string
	tok  []byte
	mark *uint64
	ifi  bool
}

func mcProfiles() []mcProfile {
	tok32 := make([]byte, 32)
	for i := range tok32 {
		tok32[i] = byte(i*5 + 1)
	}
	tok32[0], tok32[1] = 0, 0
	return []mcProfile{
		{"no link-layer fields", nil, nil, false},
		{"6-byte token, mark", []byte{0, 0, 7, 7, 7, 7}, &one64, false},
		{"32-byte token, mark with 8-byte value", tok32, &big64, false},
		{"32-byte token, mark with 8-byte value, incoming-face indication", tok32, &big64, true},
	}
}

var mcOrders = []string{"sequential", "round-robin", "reverse", "first-held-back", "one-last"}

// mcOrder returns the arrival order as (message, fragment) pairs; n[j] = fragments of message j.
func mcOrder(kind string, n []int) []sdRef {
	var o []sdRef
	k := len(n)
	maxN := 0
	for _, x := range n {
		if x > maxN {
			maxN = x
		}
	}
	switch kind {
	case "sequential":
		for j := 0; j < k; j++ {
			for i := 0; i < n[j]; i++ {
				o = append(o, sdRef{j, i})
			}
		}
	case "round-robin":
		for i := 0; i < maxN; i++ {
			for j := 0; j < k; j++ {
				if i < n[j] {
					o = append(o, sdRef{j, i})
				}
			}
		}
	case "reverse":
		for i := 0; i < maxN; i++ {
			for j := k - 1; j >= 0; j-- {
				if i < n[j] {
					o = append(o, sdRef{j, n[j] - 1 - i})
				}
			}
		}
	case "first-held-back":
		for i := 1; i < maxN; i++ {
			for j := 0; j < k; j++ {
				if i < n[j] {
					o = append(o, sdRef{j, i})
				}
			}
		}
		for j := k - 1; j >= 0; j-- {
			o = append(o, sdRef{j, 0})
		}
	case "one-last":
		// the fragments of messages 1..k-1 round-robin; one fragment of message 0 after every
		// ceil(rest/n0) of them, its last fragment at the very end
		var rest []sdRef
		for i := 0; i < maxN; i++ {
			for j := 1; j < k; j++ {
				if i < n[j] {
					rest = append(rest, sdRef{j, i})
				}
			}
		}
		o = append(o, sdRef{0, 0})
		per := 1
		if n[0] > 2 {
			per = (len(rest) + n[0] - 3) / (n[0] - 2)
			if per < 1 {
				per = 1
			}
		}
		next := 1
		for i, r := range rest {
			o = append(o, r)
			if (i+1)%per == 0 && next < n[0]-1 {
				o = append(o, sdRef{0, next})
				next++
			}
		}
		for ; next < n[0]; next++ {
			o = append(o, sdRef{0, next})
		}
	}
	return o
}

type mcCase struct {
	mtu, k, prof, sizeProf int
	start                  uint64
}

func enumMaxConcurrent(thorough bool, samples *report.Samples) map[string]any {
	mtus := []int{128, 129, 160}
	sizeProfiles := []string{"maximum"}
	starts := []uint64{0, 1<<32 - 100, 1<<64 - 100}
	budget := 15 * time.Second
	if thorough {
		mtus = []int{128, 129, 130, 131, 132, 133, 134, 135, 136, 140, 150, 160, 200, 256, 300}
		sizeProfiles = []string{"maximum", "mixed"}
		starts = []uint64{0, 1000, 1<<32 - 100, 1<<64 - 300, 1<<64 - 100, 1<<64 - 2}
		budget = 4 * time.Minute
	}
	profs := mcProfiles()
	var cases []mcCase
	for _, m := range mtus {
		for k := 2; k <= 4; k++ {
			for pi := range profs {
				for si := range sizeProfiles {
					for _, st := range starts {
						cases = append(cases, mcCase{m, k, pi, si, st})
					}
				}
			}
		}
	}
	base := cfg{fragOn: true}
	var runs, frames, maxFragsPerMsg, maxInFlight int64
	upd := func(p *int64, v int64) {
		for {
			old := atomic.LoadInt64(p)
			if v <= old || atomic.CompareAndSwapInt64(p, old, v) {
				return
			}
		}
	}
	done, complete := enum.Range(int64(len(cases)), time.Now().Add(budget), func(ci int64) {
		c := cases[ci]
		pr := profs[c.prof]
		ctx := getCtx()
		defer putCtx(ctx)
		// ---- the real sender
		p := newPair(ctx, c.mtu, cfg{fragOn: true, ifi: pr.ifi})
		face.VerifC10SetNextSequence(p.snd, c.start)
		send := func(size, salt int) (*sdMsg, string) {
			raw, l3, err := dataOfSize(size, salt)
			if err != nil {
				return nil, err.Error()
			}
			m := &bMsg{raw: raw, l3: l3, isData: true, tok: pr.tok, mark: pr.mark}
			pk := &defn.Pkt{Raw: raw, L3: l3, CongestionMark: pr.mark}
			out := dispatch.OutPkt{Pkt: pk, PitToken: pr.tok}
			if pr.ifi {
				out.InFace = &p.inID
			}
			p.stx.VerifReset()
			if pn := safely("sendPacket", func() { face.VerifC10Send(p.snd, out) }); pn != "" {
				return nil, pn
			}
			sm := &sdMsg{m: m}
			for _, f := range p.stx.VerifFrames() {
				sm.frames = append(sm.frames, append([]byte{}, f...))
			}
			return sm, ""
		}
		size := func(j int) int {
			if sizeProfiles[c.sizeProf] == "mixed" {
				return []int{maxPacket, maxPacket / 2, maxPacket - 1, 3 * c.mtu}[j]
			}
			return maxPacket - j
		}
		replayBase := func() map[string]any {
			return map[string]any{"enumeration": "B-concurrent-maximum-size", "mtu": c.mtu, "messages": c.k, "link_layer_fields": pr.name,
				"size_profile": sizeProfiles[c.sizeProf], "first_sequence": c.start}
		}
		var msgs []*sdMsg
		var n []int
		for j := 0; j < c.k; j++ {
			m, why := sdSend2(send, size(j), 9000+10*j+c.k)
			if why != "" {
				addVio("C10.order", "concurrent maximum-size messages: "+why, base, c.mtu, 0, why, replayBase)
				return
			}
			if len(m.frames) == 0 {
				return // the sender refuses this packet at this MTU with these fields (no room for payload): nothing to deliver
			}
			msgs = append(msgs, m)
			n = append(n, len(m.frames))
			upd(&maxFragsPerMsg, int64(len(m.frames)))
		}
		after := []*sdMsg{}
		for i, sz := range []int{3*c.mtu - 40, maxPacket - 7} {
			m, why := sdSend2(send, sz, 9500+i)
			if why != "" || len(m.frames) == 0 {
				continue
			}
			after = append(after, m)
		}
		total := 0
		for _, x := range n {
			total += x
		}
		upd(&maxInFlight, int64(total-c.k))
		var bm []*bMsg
		for _, m := range msgs {
			bm = append(bm, m.m)
		}
		// ---- every interleaving on a fresh receiver
		for _, kind := range mcOrders {
			order := mcOrder(kind, n)
			if len(order) != total {
				report.Fatal("interleaving %s yields %d of %d frames", kind, len(order), total)
			}
			tr := face.VerifC10MakeTransport(c.mtu, defn.NonLocal, defn.PointToPoint)
			rcv := face.VerifC10MakeLinkService(tr, face.MakeNDNLPLinkServiceOptions(), ctx.id)
			sl := ctx.slot
			sl.got = sl.got[:0]
			replay := func() map[string]any {
				r := replayBase()
				r["interleaving"], r["fragments_per_message"] = kind, n
				return r
			}
			atomic.AddInt64(&runs, 1)
			atomic.AddInt64(&frames, int64(total))
			failed := false
			for _, r := range order {
				f := msgs[r.msg].frames[r.idx]
				if pn := safely("handleIncomingFrame", func() { recvReused(ctx, rcv, f) }); pn != "" {
					addVio("C10.order", "concurrent maximum-size messages: "+pn, base, c.mtu, 0, pn, replay)
					failed = true
					break
				}
			}
			if failed {
				continue
			}
			where := fmt.Sprintf("%d messages of %v fragments (%s; %s sizes) at MTU %d, interleaving %s, first sequence number %d", c.k, n, pr.name, sizeProfiles[c.sizeProf], c.mtu, kind, c.start)
			if sym, det := judgeOrder(sl.got, bm); sym != "" {
				addVio("C10.order", "concurrent maximum-size messages: "+sym, base, c.mtu, 0, det+"; "+where, replay)
				failed = true
			} else if face.VerifC10StoreLen(rcv) != 0 {
				addVio("C10.order", "concurrent maximum-size messages: reassembly store not empty after all frames arrived", base, c.mtu, 0,
					fmt.Sprintf("store %+v; %s", face.VerifC10DumpStore(rcv), where), replay)
				failed = true
			}
			if failed {
				continue // one report per run: what follows on this link is a consequence
			}
			// ---- afterwards, on the same link
			for ai, am := range after {
				sl.got = sl.got[:0]
				for _, f := range am.frames {
					if pn := safely("handleIncomingFrame", func() { recvReused(ctx, rcv, f) }); pn != "" {
						addVio("C10.order", "concurrent maximum-size messages: "+pn, base, c.mtu, 0, pn+" (a further message afterwards)", replay)
						failed = true
						break
					}
				}
				if failed {
					break
				}
				atomic.AddInt64(&frames, int64(len(am.frames)))
				if sym, det := judgeOrder(sl.got, []*bMsg{am.m}); sym != "" {
					addVio("C10.order", "a further message on the same link after concurrent maximum-size messages: "+sym, base, c.mtu, 0,
						fmt.Sprintf("%s (further message %d: %d bytes, %d fragments, in order); before it: %s, all delivered", det, ai, len(am.m.raw), len(am.frames), where), replay)
					break
				}
			}
			sl.got = sl.got[:0]
		}
		if c.mtu == minMTU && c.k == 4 && c.start == 0 && c.sizeProf == 0 {
			samples.Offer(fmt.Sprintf("B-concurrent: MTU=%d, %d messages of %v fragments (%s): %d interleavings, each followed by %d further messages on the same link",
				c.mtu, c.k, n, pr.name, len(mcOrders), len(after)))
		}
	})
	var pn []string
	for _, p := range profs {
		pn = append(pn, p.name)
	}
	return map[string]any{"mtus": mtus, "concurrent_messages": []int{2, 3, 4}, "link_layer_field_profiles": pn, "size_profiles": sizeProfiles,
		"first_sequence_numbers": fmt.Sprint(starts), "interleavings": mcOrders, "message_sets": int64(len(cases)), "message_sets_done": done,
		"arrival_orders_run": runs, "frames_delivered": frames, "max_fragments_of_one_message": maxFragsPerMsg,
		"max_fragments_buffered_at_once(first-held-back)": maxInFlight, "complete": complete,
		"afterwards": "a 3-fragment message and a maximum-size message, in order, on the same receiver"}
}

// sdSend2 adapts the per-case send closure (kept separate from sdSend: other link-layer fields).
func sdSend2(send func(size, salt int) (*sdMsg, string), size, salt int) (*sdMsg, string) {
	if size > maxPacket {
		size = maxPacket
	}
	return send(size, salt)
}
