package main

import (
	"fmt"
	"sort"
	"sync/atomic"
	"time"

	"verif/mc/enum"
)

// Block 4 of enumeration A: the MTU of a LIVE face is changed. The sender is created at MTU m0,
// sends, its MTU is changed to m1 through LinkService.SetMTU (the setter management faces/update
// calls on the selected face), and it sends again; every case goes through the same oracle as
// the other blocks with the MTU that is in force at that moment. All ordered pairs (m0, m1) of the
// quick MTU list, raise and lower.

// newPairChanged: sender created at m0; warm-up sends at m0 (judged); then SetMTU(m1).
func newPairChanged(ctx *wctx, m0, m1 int, c cfg, st *caseStats) *pair {
	base := c
	base.mtuChange = 0
	p := newPair(ctx, m0, base)
	for _, s := range []int{40, m0 - 60, m0 + 40} {
		if s >= 1 && s <= maxPacket {
			p.runCase(s, st)
		}
	}
	p.snd.SetMTU(m1)
	p.c, p.mtu, p.mtu0 = c, m1, m0
	return p
}

// changeSizes: packet sizes straddling both MTUs (and their one-frame / two-frame limits).
func changeSizes(m0, m1 int, thorough bool) []int {
	set := map[int]bool{20: true, maxPacket: true}
	for _, m := range []int{m0, m1} {
		if thorough {
			for d := -110; d <= 60; d++ {
				set[m+d] = true
			}
			for d := -120; d <= 10; d += 5 {
				set[2*m+d] = true
			}
		} else {
			for _, d := range []int{-100, -87, -86, -60, -40, -27, -26, -22, -9, -8, -1, 0, 1, 50} {
				set[m+d] = true
			}
			for _, d := range []int{-60, -52, 0} {
				set[2*m+d] = true
			}
		}
	}
	var out []int
	for s := range set {
		if s >= 1 && s <= maxPacket {
			out = append(out, s)
		}
	}
	sort.Ints(out)
	return out
}

func enumMTUChange(thorough bool, deadline time.Time) (map[string]any, int64, int64) {
	mtus := quickMTUs()
	cfgs := []cfg{{fragOn: true}, {fragOn: false}, {fragOn: true, ifi: true, tok: 1, mark: 1}}
	var cases, pairsDone int64
	var tot caseStats
	_, complete := enum.Range(int64(len(mtus)), deadline, func(i int64) {
		m0 := mtus[i]
		ctx := getCtx()
		defer putCtx(ctx)
		var st caseStats
		for _, m1 := range mtus {
			if m1 == m0 {
				continue
			}
			for _, c := range cfgs {
				c.mtuChange = 1
				if m1 < m0 {
					c.mtuChange = 2
				}
				p := newPairChanged(ctx, m0, m1, c, &st)
				for _, s := range changeSizes(m0, m1, thorough) {
					p.runCase(s, &st)
				}
			}
			atomic.AddInt64(&pairsDone, 1)
		}
		atomic.AddInt64(&cases, st.nCases)
		atomic.AddInt64(&tot.nFrames, st.nFrames)
		atomic.AddInt64(&tot.nFrag, st.nFrag)
	})
	n := len(mtus)
	return map[string]any{"what": "MTU of a live sender changed with LinkService.SetMTU between sends (raise and lower), then the packet sizes straddling both MTUs",
		"mtu_list_size": n, "ordered_pairs_total": n * (n - 1), "ordered_pairs_done": pairsDone, "configurations": fmt.Sprint(cfgs),
		"sizes_per_pair_example(128->1500)": len(changeSizes(128, 1500, thorough)), "cases": cases, "fragmented": tot.nFrag, "frames": tot.nFrames, "complete": complete}, cases, pairsDone
}
