package main

// Enumeration B, "started face" family: the receiver is brought up the way the daemon brings a
// face up - NDNLPLinkService.Run(initial frame) (what a datagram listener does with the first
// frame of a new peer: it is handled BEFORE the face's goroutines exist), the remaining frames
// through the transport's own receive loop in its goroutine (ONE receive buffer, overwritten
// between frames). The frames come from the real sender. Dimensions: messages x fragments per
// message x which frame is the initial one (none, the first, a middle one, the last - i.e. every
// rotation of the arrival order) x first sequence number.
//
// The goroutines are real, but the receive loop is the only one that touches the receiver and it
// handles the fed frames in order: what is delivered is a function of the frame order alone. The
// harness waits for the loop to finish on a channel; a (very generous) timer only turns a hang of
// the code under test into a verdict.

import (
	"fmt"
	"time"

	defn "github.com/named-data/ndnd/fw/defn"
	"github.com/named-data/ndnd/fw/face"
	"verif/mc/report"
)

const startedFaceIDBase = 2000 // rec.slots index range reserved for started faces (worker contexts use 1..)

func enumStartedFace(thorough bool) map[string]any {
	ctx := getCtx()
	defer putCtx(ctx)
	mtus := []int{128, 1500}
	starts := []uint64{0, 1<<64 - 2}
	fragCounts := []int{1, 2, 3}
	if thorough {
		// (bounded by the recording slots reserved for started faces: at most ~2000 cases)
		mtus = []int{128, 256, 1500}
		starts = []uint64{0, 1<<64 - 2, 1<<64 - 1}
		fragCounts = []int{1, 2, 3, 4}
	}
	base := cfg{fragOn: true}
	var cases, delivered int64
	next := uint64(startedFaceIDBase)
	for _, mtu := range mtus {
		counts := probeFrameCounts(ctx, mtu, 1)
		maxFrags := 0
		for _, c := range counts {
			if c > maxFrags {
				maxFrags = c
			}
		}
		for _, start := range starts {
			for _, fa := range fragCounts {
				for _, fb := range fragCounts {
					if fa > maxFrags || fb > maxFrags {
						continue
					}
					// two messages A (fa fragments) and B (fb fragments) from the real sender
					p := newPair(ctx, mtu, base)
					face.VerifC10SetNextSequence(p.snd, start)
					var msgs []*sdMsg
					bad := ""
					for i, fr := range []int{fa, fb} {
						sz := pickSize(counts, fr, "mid")
						if fr == 1 {
							sz = 60
						}
						m, why := sdSend(p, sz, 40+i)
						if why != "" || len(m.frames) != fr {
							bad = fmt.Sprintf("could not build a %d-fragment message at MTU %d (%s)", fr, mtu, why)
							break
						}
						msgs = append(msgs, m)
					}
					if bad != "" {
						continue
					}
					var order []sdRef
					for mi, m := range msgs {
						for i := range m.frames {
							order = append(order, sdRef{mi, i})
						}
					}
					// initial = -1: Run(nil); otherwise the arrival order is rotated so that frame
					// `initial` of the in-order sequence arrives first and is the initial frame
					for initial := -1; initial < len(order); initial++ {
						if next >= maxSlots {
							report.Fatal("started-face family: more cases than recording slots")
						}
						cases++
						id := next
						next++
						sl := &slot{}
						rec.slots[id] = sl
						arr := order
						if initial > 0 {
							arr = append(append([]sdRef{}, order[initial:]...), order[:initial]...)
						}
						tr := face.VerifC10MakeLoopTransport(mtu, defn.NonLocal, defn.PointToPoint, len(arr)+1)
						rcv := face.VerifC10MakeLinkServiceOn(tr, face.MakeNDNLPLinkServiceOptions())
						replay := func() map[string]any {
							return map[string]any{"enumeration": "B-started-face", "mtu": mtu, "first_sequence": start, "fragments_per_message": []int{fa, fb},
								"arrival_order(msg,fragment)": fmt.Sprint(arr), "initial_frame": map[bool]string{true: "none (Run(nil))", false: "the first of the arrival order"}[initial < 0]}
						}
						face.VerifC10SetNextFaceID(id)
						var first []byte
						rest := arr
						if initial >= 0 {
							first = append([]byte{}, msgs[arr[0].msg].frames[arr[0].idx]...)
							rest = arr[1:]
						}
						if pn := safely("NDNLPLinkService.Run", func() { rcv.Run(first) }); pn != "" {
							addVio("C10.order", "started face: "+pn, base, mtu, 0, pn, replay)
							continue
						}
						if rcv.FaceID() != id {
							report.Fatal("started-face family: the face table assigned id %d, expected %d", rcv.FaceID(), id)
						}
						for _, r := range rest {
							tr.VerifFeed(msgs[r.msg].frames[r.idx])
						}
						tr.VerifEOF()
						select {
						case <-tr.Done:
						case <-time.After(2 * time.Minute):
							addVio("C10.order", "started face: the receive loop does not finish", base, mtu, 0, "the transport's receive loop did not return from handleIncomingFrame within 2 minutes", replay)
							continue
						}
						var bm []*bMsg
						for _, m := range msgs {
							bm = append(bm, m.m)
						}
						if sym, det := judgeOrder(sl.got, bm); sym != "" {
							addVio("C10.order", "started face (first frame through Run(initial), the rest through the transport's receive loop): "+sym, base, mtu, 0,
								fmt.Sprintf("%s; MTU %d, messages of %d and %d fragments, first sequence number %d, %v", det, mtu, fa, fb, start, replay()["initial_frame"]), replay)
						} else {
							delivered += int64(len(sl.got))
						}
						rec.slots[id] = nil
					}
				}
			}
		}
	}
	return map[string]any{"mtus": mtus, "first_sequence_numbers": fmt.Sprint(starts), "fragments_per_message": fragCounts,
		"cases": cases, "packets_delivered": delivered,
		"seam": "NDNLPLinkService.Run(initial) + the face's own receive goroutine on a harness transport with a real receive loop (one receive buffer)"}
}
