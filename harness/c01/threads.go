package main

// Every forwarding thread alive (C01.each / C01.only / C01.consume across threads).
//
// The daemon runs several forwarding threads (8 by default). A pending Interest lives in the PIT of
// the thread its name hashes to; the Interest that thread forwards carries a PIT token; the upstream
// echoes the token and the link service hands the Data to the thread the token names. Whatever a
// thread needs for that round trip - its strategies, its PIT and token map, the thread id in the
// tokens it attaches - must be its own. This pass is exhaustive over thread counts, both shipped
// strategies, a family of names that spreads over the threads and every prefix of each name, with
// ALL threads alive (fwsim.InjectAll: the real NDNLPLinkService dispatches, every thread processes
// what was queued on it):
//
//	single  one Interest (exact, or CanBePrefix on a proper prefix) from N3, forwarded to N2; the
//	        Data arrives on N2 echoing exactly the token bytes N2 was handed -> N3 receives exactly
//	        one copy; the same Data again -> nobody.
//	crowd   every name of the family pending at once, from N3 and (aggregated) from L1, so that
//	        every thread holds entries; the Data arrive in reverse order, each echoing its own token
//	        -> N3 and L1 receive exactly one copy of exactly that Data, nothing else is sent; at the
//	        end no thread holds an in-record, and a second round of the same Data reaches nobody.

import (
	"fmt"
	"strings"

	"github.com/named-data/ndnd/fw/fw"
	"verif/harness/fwsim"
	"verif/mc/report"
)

func threadsPass(rep *report.Reporter) map[string]any {
	single, crowd, delivered := 0, 0, 0
	counts := []int{1, 2, 3, 4, 5, 8, 16}
	holders := map[string]bool{}
	for _, st := range []string{fwsim.BestRoute, fwsim.Multicast} {
		stName := "best-route"
		if st == fwsim.Multicast {
			stName = "multicast"
		}
		for _, n := range counts {
			for _, link := range []bool{true, false} {
				cfg := fwsim.Config{Threads: n, RealLinkService: link,
					Strategies: []fwsim.StrategyChoice{{Prefix: "/", Strategy: st}},
					Routes:     []fwsim.Route{{Prefix: "/", Face: fwsim.N2, Cost: 1}}}
				where := fmt.Sprintf("%d forwarding threads, all alive, %s", n, stName)
				replay := func(kind, interest, data string) map[string]any {
					return map[string]any{"pass": "threads", "kind": kind, "threads": n, "strategy": stName, "real_link_service": link, "interest": interest, "data": data}
				}
				// ---- single ----
				for _, name := range dispatchNames() {
					comps := strings.Split(strings.TrimPrefix(name, "/"), "/")
					for l := 1; l <= len(comps); l++ {
						prefix := "/" + strings.Join(comps[:l], "/")
						single++
						sim := fwsim.New(cfg)
						holder := fw.HashNameToFwThread(fwsim.Name(prefix))
						holders[fmt.Sprintf("%d/%d", holder, n)] = true
						sends, _ := sim.InjectAll(fwsim.N3, fwsim.MakeInterest(fwsim.InterestSpec{Name: prefix, CanBePrefix: l < len(comps), Nonce: fwsim.U32(7)}), fwsim.LP{})
						var tok []byte
						for _, s := range sends {
							if s.Kind == fwsim.KInterest && s.Face == fwsim.N2 {
								tok = s.PitToken
							}
						}
						if len(tok) == 0 {
							rep.Add(report.Violation{Clause: "C01.each", Key: "with several forwarding threads alive an Interest is not forwarded with a PIT token",
								Detail: fmt.Sprintf("%s: Interest %s from N3 (thread %d by name hash) produced %v", where, prefix, holder, sends), Replay: replay("single", prefix, name)})
							continue
						}
						got, other := deliver(sim, fwsim.N2, name, tok, fwsim.N3)
						if got != 1 || other != 0 {
							th, _, _ := fwsim.IssuedToken(tok)
							rep.Add(report.Violation{Clause: "C01.each", Key: "with several forwarding threads alive, Data echoing the PIT token attached to the forwarded Interest does not reach the face holding the pending Interest",
								Detail: fmt.Sprintf("%s: Interest %s from N3 is pending on thread %d (name hash) and was forwarded to N2 with PIT token %x (thread id %d); Data %s arriving on N2 echoing exactly that token: N3 received %d copies, other faces %d", where, prefix, holder, tok, th, name, got, other),
								Replay: replay("single", prefix, name)})
							continue
						}
						delivered++
						if got, other := deliver(sim, fwsim.N2, name, tok, fwsim.N3); got+other != 0 {
							rep.Add(report.Violation{Clause: "C01.consume", Key: "with several forwarding threads alive, a repeated copy of the Data is delivered again",
								Detail: fmt.Sprintf("%s: Interest %s, Data %s echoing token %x arriving a second time: N3 received %d copies, other faces %d", where, prefix, name, tok, got, other),
								Replay: replay("single", prefix, name)})
						}
					}
				}
				// ---- crowd ----
				sim := fwsim.New(cfg)
				names := dispatchNames()
				toks := map[string][]byte{}
				for _, name := range names {
					for k, f := range []uint64{fwsim.N3, fwsim.L1} {
						sends, _ := sim.InjectAll(f, fwsim.MakeInterest(fwsim.InterestSpec{Name: name, Nonce: fwsim.U32(uint32(100 + k))}), fwsim.LP{PitToken: []byte{byte(0xD0 + f), 1}})
						for _, s := range sends {
							if s.Kind == fwsim.KInterest && s.Face == fwsim.N2 {
								toks[name] = s.PitToken
							}
						}
					}
				}
				failed := false
				for round := 0; round < 2 && !failed; round++ {
					for i := len(names) - 1; i >= 0; i-- {
						name := names[i]
						crowd++
						sends, _ := sim.InjectAll(fwsim.N2, fwsim.MakeData(fwsim.DataSpec{Name: name, Content: "x"}), fwsim.LP{PitToken: toks[name]})
						perFace := map[uint64]int{}
						bad := ""
						for _, s := range sends {
							if s.Kind != fwsim.KData {
								continue
							}
							perFace[s.Face]++
							if s.NameStr != name {
								bad = fmt.Sprintf("a copy of %s", s.NameStr)
							}
							if s.Face != fwsim.N3 && s.Face != fwsim.L1 {
								bad = fmt.Sprintf("a copy on face %d", s.Face)
							} else if string(s.PitToken) != string([]byte{byte(0xD0 + s.Face), 1}) {
								bad = fmt.Sprintf("a copy on face %d carrying PIT token %x, which that face did not supply", s.Face, s.PitToken)
							}
						}
						want := 1
						if round == 1 {
							want = 0
						}
						if bad != "" || perFace[fwsim.N3] != want || perFace[fwsim.L1] != want {
							clause, key := "C01.each", "with several forwarding threads alive and entries pending on every thread, Data echoing its PIT token is not delivered exactly to the faces holding that pending Interest"
							if round == 1 {
								clause, key = "C01.consume", "with several forwarding threads alive, a repeated copy of the Data is delivered again"
							}
							th, _, _ := fwsim.IssuedToken(toks[name])
							rep.Add(report.Violation{Clause: clause, Key: key,
								Detail: fmt.Sprintf("%s: %d names pending at once from N3 and L1 (each name on the thread its hash picks; %s on thread %d, forwarded with token %x naming thread %d); Data %s echoing its token, round %d: N3 received %d, L1 %d copies (expected %d each) %s", where, len(names), name, fw.HashNameToFwThread(fwsim.Name(name)), toks[name], th, name, round+1, perFace[fwsim.N3], perFace[fwsim.L1], want, bad),
								Replay: replay("crowd", name, name)})
							failed = true
							break
						}
					}
				}
				left := 0
				for t := 0; t < sim.NumThreads(); t++ {
					for _, e := range sim.DumpThread(t).Pit {
						left += len(e.In)
					}
				}
				if left > 0 && !failed {
					rep.Add(report.Violation{Clause: "C01.consume", Key: "with several forwarding threads alive, in-records survive the Data that satisfied them (white-box)",
						Detail: fmt.Sprintf("%s: after every pending Interest was answered by Data echoing its token, %d in-records remain in the threads' PITs", where, left), Replay: replay("crowd", "", "")})
				}
			}
		}
	}
	hl := make([]string, 0, len(holders))
	for h := range holders {
		hl = append(hl, h)
	}
	return map[string]any{"thread_counts": counts, "strategies": 2, "arrival_paths": "real NDNLPLinkService, field-by-field copy",
		"single round trips (threads x strategy x path x name x prefix)": single, "delivered": delivered, "crowd Data arrivals": crowd, "distinct (holder thread / threads) pairs": len(hl)}
}

// deliver injects Data `name` echoing `tok` on face `from` with every thread alive and counts the
// copies face `to` and all other faces receive.
func deliver(sim *fwsim.Sim, from uint64, name string, tok []byte, to uint64) (got, other int) {
	sends, _ := sim.InjectAll(from, fwsim.MakeData(fwsim.DataSpec{Name: name, Content: "x"}), fwsim.LP{PitToken: tok})
	for _, s := range sends {
		if s.Kind != fwsim.KData {
			continue
		}
		if s.Face == to {
			got++
		} else {
			other++
		}
	}
	return
}
