package main

// Dispatch agreement (C01.each across forwarding threads). With more than one forwarding thread
// a pending Interest lives in the PIT of the thread its name hashes to (dispatchInterest ->
// fw.HashNameToFwThread). A producer on a local face answers without a PIT token, so its Data is
// handed to every thread fw.HashNameToAllPrefixFwThreads returns for the Data name; the face that
// holds the pending Interest receives its copy only if that set contains the thread holding the
// Interest - for the Data name itself and for every shorter CanBePrefix Interest.
//
// This pass is exhaustive over thread counts 1..8 and 16, a family of names (the universe of the
// search plus siblings, so that the hashes spread over the threads) and every prefix of
// each name and the empty prefix "/". It uses the REAL code end to end: both packets arrive through a real
// NDNLPLinkService (fwsim.Config.RealLinkService), i.e. dispatchInterest / dispatchData choose the
// thread; the driven thread is the one fw.HashNameToFwThread picks for the Interest.

import (
	"fmt"
	"strings"

	"github.com/named-data/ndnd/fw/fw"
	"verif/harness/fwsim"
	"verif/mc/report"
)

func dispatchNames() []string {
	names := []string{"/a", "/a/b", "/a/b/c"}
	for k := 0; k < 24; k++ {
		names = append(names, fmt.Sprintf("/a/b/c%d", k), fmt.Sprintf("/p%d/q/r", k))
	}
	return names
}

func dispatchPass(rep *report.Reporter) map[string]any {
	cases, delivered, agree := 0, 0, 0
	counts := []int{1, 2, 3, 4, 5, 6, 7, 8, 16}
	for _, n := range counts {
		fwsim.New(fwsim.Config{Threads: n}) // fw.Threads has n entries from here on
		for _, name := range dispatchNames() {
			comps := strings.Split(strings.TrimPrefix(name, "/"), "/")
			// l = 0: the zero-component name "/" with CanBePrefix is a pending Interest every Data
			// name extends
			for l := 0; l <= len(comps); l++ {
				prefix := "/" + strings.Join(comps[:l], "/")
				cases++
				// which thread does the real dispatch pick for the Interest?
				holder := fw.HashNameToFwThread(fwsim.Name(prefix))
				set := fw.HashNameToAllPrefixFwThreads(fwsim.Name(name))
				if holder < len(set) && set[holder] {
					agree++
				}
				// end to end through the real link service, driving the holder thread
				sim := fwsim.New(fwsim.Config{Threads: n, ThreadID: holder, RealLinkService: true,
					Routes: []fwsim.Route{{Prefix: "/", Face: fwsim.N2, Cost: 1}}})
				sim.Interest(fwsim.N3, fwsim.InterestSpec{Name: prefix, CanBePrefix: l < len(comps), Nonce: fwsim.U32(7)}, fwsim.LP{})
				pending := false
				for _, e := range sim.Dump().Pit {
					if e.Name == prefix && len(e.In) == 1 {
						pending = true
					}
				}
				if !pending {
					rep.Add(report.Violation{Clause: "C01.each", Key: "Interest is not dispatched to the forwarding thread its name hashes to",
						Detail: fmt.Sprintf("%d threads: Interest %s from N3 through the real link service did not become pending on thread %d = HashNameToFwThread", n, prefix, holder),
						Replay: map[string]any{"pass": "dispatch", "threads": n, "interest": prefix, "data": name}})
					continue
				}
				sends := sim.Data(fwsim.L1, fwsim.DataSpec{Name: name, Content: "x"}, fwsim.LP{})
				got := 0
				for _, s := range sends {
					if s.Kind == fwsim.KData && s.Face == fwsim.N3 {
						got++
					}
				}
				if got == 1 {
					delivered++
					continue
				}
				key := "token-less Data from a local producer face is not dispatched to the forwarding thread holding the pending Interest"
				if l == 0 {
					key += " for the zero-component name /"
				}
				rep.Add(report.Violation{Clause: "C01.each", Key: key,
					Detail: fmt.Sprintf("%d forwarding threads: Interest %s (pending on thread %d = HashNameToFwThread(%s), face N3) is satisfied by Data %s arriving without PIT token on local face L1, but N3 received %d copies; HashNameToAllPrefixFwThreads(%s) = %v", n, prefix, holder, prefix, name, got, name, set),
					Replay: map[string]any{"pass": "dispatch", "threads": n, "interest": prefix, "data": name}})
			}
		}
	}
	return map[string]any{"thread_counts": counts, "names": len(dispatchNames()), "cases (threads x name x prefix)": cases,
		"delivered_end_to_end": delivered, "hash_functions_agree": agree}
}
