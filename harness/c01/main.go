// C01: Data is delivered exactly to the faces with a matching pending Interest.
//
// Explicit-state search (verif/mc/explore) over histories of Interest arrivals, Data arrivals and
// clock steps, executed on ONE real fw.Thread (verif/harness/fwsim) with its real PIT-CS, dead
// nonce list, FIB and strategies. After every transition the packets the thread handed to the
// (recording) faces are compared with a reference model of "who holds an unsatisfied pending
// Interest" kept by this harness. The oracle is three-valued (must / may / must-not) and states
// only what the property text states; see oracle.go.
package main

import (
	"fmt"
	"os"
	"runtime/debug"
	"runtime/pprof"
	"sort"
	"strconv"
	"strings"
	"time"

	"github.com/named-data/ndnd/fw/defn"
	"github.com/named-data/ndnd/fw/table"
	"verif/harness/fwsim"
	"verif/mc/explore"
	"verif/mc/report"
)

const (
	lifeShort   = 500 * time.Millisecond
	lifeMid     = time.Second
	lifeDefault = 4 * time.Second
)

// ---- alphabet ----

type iOp struct {
	face            uint64
	name            string
	cbp, mbf        bool
	tok, short, dup bool
	zero            bool // explicit InterestLifetime of 0: the Interest expires the moment it arrives
	// rep: an unchanged retransmission - the nonce of the latest Interest THIS face sent for this name
	// (dup: the latest fresh nonce ANY face sent for the name); mid: InterestLifetime 1 s
	rep, mid bool
	// tokLen: length of the PIT token the downstream supplies (with tok; 0 = the 2-byte default).
	// A downstream chooses its own format: 1 byte, 6 bytes that LOOK like a token of this forwarder
	// (another YaNFD downstream), 8 bytes (NDN-DPDK), 32 bytes (the NDNLPv2 maximum)
	tokLen int
	label  string
}

type dOp struct {
	face  uint64
	name  string
	fresh bool // FreshnessPeriod 1 s (else absent)
	// none | empty | echo0 | echo1 | echoGone | foreign | four | wrongthread | len<N> | echo0+<k> | echo0-<k>
	// (see inst.dataToken)
	tok   string
	label string
}

type tOp struct {
	dt   time.Duration
	tick bool
	// run: the clock moves in steps of the reaper interval (100 ms) and the periodic arms run after
	// every step, as in a running thread (tick: one run at the end of the step only)
	run   bool
	label string
}

// bOp: a burst of k Interests with distinct names <base>/z0 .. <base>/z<k-1>, fresh nonces and the
// short lifetime, from one face within one step (scale: k PIT entries fall due together).
type bOp struct {
	face  uint64
	base  string
	k     int
	label string
}

type opDef struct {
	i    *iOp
	d    *dOp
	t    *tOp
	b    *bOp
	down uint64 // != 0: the face is destroyed (removed from the forwarder's face tables)
}

// queued is a packet a backlogged face was handed and has not serialised yet ("defer" mode).
type queued struct {
	send fwsim.Send // as judged when the thread's pipeline call returned; holds the OutPkt
	key  recKey     // Interest: the entry it was forwarded for
	e    *entry     // ... and its incarnation in the reference at that time
	// Data: PIT tokens the face supplied for the pending Interests the copy may answer
	allowed map[string]bool
}

// slice is one focused alphabet; every slice is explored exhaustively to the depth bound.
type slice struct {
	inames []string
	ifaces []uint64
	shapes []string // "+"-joined subsets of cbp,mbf,tok,short,dup ("" = plain)
	// extra Interests outside the product (e.g. /localhost/x from selected faces)
	iextra []iOp
	dnames []string
	dfaces []uint64
	dtoks  []string
	dfresh []bool
	dextra []dOp
	tops   []tOp
	bursts []bOp
	// faces that can be destroyed; packets they delivered before may still arrive afterwards
	down []uint64
	// routine: if non-empty, only these ops are routine; every other op of the slice is a
	// deviation counted against Config.MaxDev (deviation-bounded deeper chains)
	routine []string
}

var faceLabel = map[uint64]string{fwsim.L1: "L1", fwsim.N2: "N2", fwsim.N3: "N3", fwsim.N4: "N4", fwsim.L5: "L5", fwsim.A6: "A6"}

func scopeOf(f uint64) defn.Scope {
	if f == fwsim.L1 || f == fwsim.L5 {
		return defn.Local
	}
	return defn.NonLocal
}

var (
	t100 = tOp{dt: 100 * time.Millisecond, tick: true}
	t600 = tOp{dt: 600 * time.Millisecond, tick: true}
	t5s  = tOp{dt: 5 * time.Second, tick: true}
	a600 = tOp{dt: 600 * time.Millisecond, tick: false}
	r700 = tOp{dt: 700 * time.Millisecond, tick: true, run: true}
	r300 = tOp{dt: 300 * time.Millisecond, tick: true, run: true}
)

var slices = map[string]slice{
	// all four names, both match rules, three faces, name- and token-addressed Data
	"names": {
		inames: []string{"/", "/a", "/a/b", "/a/b/c"}, ifaces: []uint64{fwsim.L1, fwsim.N3}, shapes: []string{"", "cbp"},
		iextra: []iOp{{face: fwsim.L1, name: "/localhost/x"}, {face: fwsim.N3, name: "/localhost/x"}, {face: fwsim.L5, name: "/localhost/x", cbp: true}, {face: fwsim.N2, name: "/a/b", cbp: true}},
		dnames: []string{"/a", "/a/b", "/a/b/c", "/localhost/x"}, dfaces: []uint64{fwsim.N2, fwsim.L1}, dtoks: []string{"none", "echo0"}, dfresh: []bool{false},
		tops: []tOp{t100, t5s},
		down: []uint64{fwsim.N2},
	},
	// PIT tokens in both directions: downstream tokens per face, upstream echo of the first and
	// second live entry, foreign 6-byte token, 4-byte token (not this forwarder's format)
	"tokens": {
		inames: []string{"/a", "/a/b"}, ifaces: []uint64{fwsim.L1, fwsim.N3, fwsim.N4}, shapes: []string{"", "tok", "cbp+tok"},
		dnames: []string{"/a", "/a/b"}, dfaces: []uint64{fwsim.N2}, dtoks: []string{"none", "echo0", "echo1", "foreign", "four"}, dfresh: []bool{false},
		// a token-addressed Data may carry any name: /localhost/x from a local face towards
		// non-local downstreams is where "scope rules permitting" applies
		dextra: []dOp{{face: fwsim.N4, name: "/a/b", tok: "echo0"}, {face: fwsim.L1, name: "/a", tok: "echo1"},
			{face: fwsim.L1, name: "/localhost/x", tok: "echo0"}, {face: fwsim.N2, name: "/localhost/x", tok: "echo0"}},
		tops: []tOp{t100},
	},
	// CanBePrefix x MustBeFresh (up to four PIT entries per name: the multi-match branch),
	// freshness of the Data, cache hits
	"flags": {
		inames: []string{"/a", "/a/b"}, ifaces: []uint64{fwsim.L1, fwsim.N3}, shapes: []string{"", "cbp", "mbf", "cbp+mbf"},
		iextra: []iOp{{face: fwsim.A6, name: "/a"}, {face: fwsim.A6, name: "/a", cbp: true}, {face: fwsim.L1, name: "/a", mbf: true, tok: true},
			{face: fwsim.N3, name: "/", cbp: true}, {face: fwsim.L1, name: "/", cbp: true, mbf: true}},
		dnames: []string{"/a", "/a/b"}, dfaces: []uint64{fwsim.N2}, dtoks: []string{"none", "echo0"}, dfresh: []bool{false, true},
		dextra: []dOp{{face: fwsim.A6, name: "/a"}, {face: fwsim.A6, name: "/a/b"}},
		tops:   []tOp{t100, t600},
	},
	// PIT token SHAPES, both directions. Data: absent, empty, every length 1..8 and 32 with fixed
	// bytes, 6 bytes of this forwarder's format (never issued / naming another thread / naming no
	// thread), and the token of a live entry extended to 7, 8, 32 bytes or cut to 5, 4 bytes - only the
	// exact 6-byte echo is "the token this forwarder attached", every other length is "no token in this
	// forwarder's format" and the name rule applies. Interests: downstream tokens of 1, 2, 6 (looking
	// like one of ours), 8 and 32 bytes, which the Data copy must carry back unchanged.
	"tokshape": {
		iextra: []iOp{{face: fwsim.L1, name: "/a"}, {face: fwsim.N3, name: "/a", tok: true, tokLen: 6}, {face: fwsim.N4, name: "/a", cbp: true, tok: true, tokLen: 8},
			{face: fwsim.N3, name: "/a/b", tok: true, tokLen: 32}, {face: fwsim.L1, name: "/a/b", cbp: true, tok: true, tokLen: 1}},
		dnames: []string{"/a", "/a/b"}, dfaces: []uint64{fwsim.N2}, dfresh: []bool{false},
		dtoks: []string{"none", "empty", "len1", "len2", "len3", "four", "len5", "foreign", "len6", "wrongthread", "echo0",
			"len7", "len8", "len32", "echo0+1", "echo0+2", "echo0+26", "echo0-1", "echo0-2"},
		tops: []tOp{t100},
	},
	// the ROOT of the name tree: the zero-component name "/" is a legal Interest name; with
	// CanBePrefix it is extended by every Data name (also /localhost names: scope), without it only
	// Data named "/" matches; next to it a one-component name, both match rules, Data by name and by
	// token, a MustBeFresh twin on the root node (multi-match branch), expiry
	"root": {
		inames: []string{"/", "/a"}, ifaces: []uint64{fwsim.L1, fwsim.N3}, shapes: []string{"", "cbp"},
		iextra: []iOp{{face: fwsim.N4, name: "/", cbp: true, mbf: true}, {face: fwsim.L1, name: "/", cbp: true, tok: true}},
		dnames: []string{"/a", "/a/b"}, dfaces: []uint64{fwsim.N2}, dtoks: []string{"none", "echo0"}, dfresh: []bool{false},
		dextra: []dOp{{face: fwsim.N2, name: "/"}, {face: fwsim.L1, name: "/localhost/x"}, {face: fwsim.N2, name: "/a", tok: "echo1"}, {face: fwsim.N2, name: "/a", tok: "len8"}},
		tops:   []tOp{t100, t5s},
	},
	// lifetimes, expiry with and without the reaper having run, retransmissions with fresh and
	// with repeated nonces (loop detection, dead nonce list)
	// request/response chains: routine traffic (two consumers, one producer answering by token or
	// by name, clock steps) explored deep, with a bounded number of deviations taken from the
	// union of the other alphabets
	// the smallest alphabet that still has both match rules, both branches of the Data pipeline,
	// aggregation over two faces and token-addressed Data: explored deepest
	"core": {
		inames: []string{"/a", "/a/b"}, ifaces: []uint64{fwsim.L1, fwsim.N3}, shapes: []string{"", "cbp"},
		dnames: []string{"/a", "/a/b"}, dfaces: []uint64{fwsim.N2}, dtoks: []string{"none", "echo0"}, dfresh: []bool{false},
		tops: []tOp{t100},
	},
	// a handful of ops that interact (two faces on one name, a CanBePrefix + token variant, Data by
	// name and by token, a reaper tick, expiry): explored DEEP and WITHOUT state de-duplication, so
	// that neither a too coarse canonical form nor state hidden from it can prune a history
	"tiny": {
		iextra: []iOp{{face: fwsim.L1, name: "/a"}, {face: fwsim.N3, name: "/a"}, {face: fwsim.N3, name: "/a", cbp: true, tok: true}},
		dextra: []dOp{{face: fwsim.N2, name: "/a"}, {face: fwsim.N2, name: "/a", tok: "echo0"}},
		tops:   []tOp{t100, t5s},
	},
	"chain": {
		inames: []string{"/a", "/a/b"}, ifaces: []uint64{fwsim.L1, fwsim.N3}, shapes: []string{"", "cbp", "mbf", "tok", "short", "dup", "cbp+tok", "zero"},
		dnames: []string{"/a", "/a/b"}, dfaces: []uint64{fwsim.N2}, dtoks: []string{"none", "echo0", "echo1", "foreign", "four"}, dfresh: []bool{false},
		dextra:  []dOp{{face: fwsim.N2, name: "/a/b", fresh: true}, {face: fwsim.L1, name: "/a/b"}, {face: fwsim.N3, name: "/a", tok: "echo0"}},
		tops:    []tOp{t100, t5s, t600, a600},
		routine: []string{"I(L1,/a,plain)", "I(N3,/a/b,plain)", "I(L1,/a/b,plain)", "D(N2,/a,f0,echo0)", "D(N2,/a/b,f0,none)", "T(100ms)", "T(5s)"},
	},
	// the cache next to the PIT: Data without FreshnessPeriod is stale at once, so a MustBeFresh
	// Interest stays pending on the very name-tree node that holds the cached Data (with "csa",
	// admit without serve, every Interest does); three Data names against small content-store
	// capacities (cap=0|1|2): Data, solicited or not, evicts entries at, below and above nodes that
	// hold pending Interests, and the Data that answers them arrives afterwards by name or by token
	"cache": {
		inames: []string{"/a", "/a/b"}, ifaces: []uint64{fwsim.L1, fwsim.N3}, shapes: []string{"", "mbf", "cbp"},
		dnames: []string{"/a", "/a/b", "/a/b/c"}, dfaces: []uint64{fwsim.N2}, dtoks: []string{"none"}, dfresh: []bool{false, true},
		dextra: []dOp{{face: fwsim.N2, name: "/a/b", tok: "echo0"}},
		iextra: []iOp{{face: fwsim.N3, name: "/", cbp: true}, {face: fwsim.L1, name: "/", cbp: true, mbf: true}},
		tops:   []tOp{t100, t600},
	},
	// scale: k = 101 / 250 Interests with distinct names and the short lifetime arrive from one face
	// within one step, so k PIT entries fall due in the same reaper period; one of the names is also
	// asked for by a second face (long and short lifetime); Data for the first, a middle and the last
	// name of the burst by name, by live token and by the token of an entry that is gone
	"burst": {
		iextra: []iOp{{face: fwsim.N3, name: "/a/z0"}, {face: fwsim.N3, name: "/a/z249", short: true}},
		bursts: []bOp{{face: fwsim.L1, base: "/a", k: 101}, {face: fwsim.L1, base: "/a", k: 250}},
		dextra: []dOp{{face: fwsim.N2, name: "/a/z0"}, {face: fwsim.N2, name: "/a/z100"}, {face: fwsim.N2, name: "/a/z249"},
			{face: fwsim.N2, name: "/a/z0", tok: "echo0"}, {face: fwsim.N2, name: "/a/z249", tok: "echoGone"}},
		tops: []tOp{t100, t600},
	},
	// expiry EXTENSION: an entry that already sits in the expiry queue gets a later expiry (a
	// retransmission from the same face or the Interest of another face with the 4 s lifetime joins a
	// 500 ms one) while other entries with short remaining lifetimes sit behind it in the queue - three
	// names, so that the queue has a root and both children, short and long lifetimes arriving in
	// every order; the reaper at its true cadence (R = a run of 100 ms steps, the periodic arms after
	// each) and as single late runs; late Data by name, by live token and by the token of an entry
	// that is gone, for the entries behind the extended one
	"extend": {
		inames: []string{"/a", "/a/b", "/a/b/c"}, ifaces: []uint64{fwsim.L1}, shapes: []string{"short"},
		iextra: []iOp{{face: fwsim.N3, name: "/a"}, {face: fwsim.N3, name: "/a/b"}, {face: fwsim.L1, name: "/a"}, {face: fwsim.L1, name: "/a/b/c"}},
		dextra: []dOp{{face: fwsim.N2, name: "/a/b"}, {face: fwsim.N2, name: "/a/b/c"}, {face: fwsim.N2, name: "/a/b", tok: "echo1"}, {face: fwsim.N2, name: "/a/b/c", tok: "echoGone"}},
		tops:   []tOp{r700, r300, t600, t5s},
	},
	// RETRANSMISSIONS: one name, two consumer faces; every Interest again from the same face with the
	// same nonce (rep: an unchanged retransmission) or a fresh one, with a lifetime that ends before, at
	// or after the earlier deadline (500 ms | 1 s | 4 s in every order), inside (100 ms) and outside
	// (600 ms) the 500 ms suppression interval; the same nonce from the other face (dup: a loop) and on
	// the CanBePrefix twin entry; then Data by name / by token at instants between the earlier and the
	// renewed deadline, with the reaper having run in between. "Pending at that moment" follows the
	// lifetime of the Interest the face sent LAST.
	"retx": {
		inames: []string{"/a"}, ifaces: []uint64{fwsim.L1, fwsim.N3}, shapes: []string{"", "short", "rep", "rep+short", "rep+mid", "dup"},
		iextra: []iOp{{face: fwsim.L1, name: "/a", cbp: true, rep: true}, {face: fwsim.L1, name: "/a", tok: true, rep: true, mid: true}},
		dnames: []string{"/a"}, dfaces: []uint64{fwsim.N2}, dtoks: []string{"none", "echo0"}, dfresh: []bool{false},
		tops: []tOp{t100, t600, t5s},
	},
	"time": {
		inames: []string{"/a", "/a/b"}, ifaces: []uint64{fwsim.L1, fwsim.N3}, shapes: []string{"", "short", "cbp+short", "dup", "short+tok", "dup+tok", "zero"},
		dnames: []string{"/a", "/a/b"}, dfaces: []uint64{fwsim.N2, fwsim.N3}, dtoks: []string{"none", "echo0"}, dfresh: []bool{false},
		// late Data echoing the token of an Interest whose entry has already expired
		dextra: []dOp{{face: fwsim.N2, name: "/a", tok: "echoGone"}, {face: fwsim.N2, name: "/a/b", tok: "echoGone"}},
		iextra: []iOp{{face: fwsim.N3, name: "/", cbp: true, short: true}, {face: fwsim.L1, name: "/", cbp: true}},
		tops:   []tOp{t100, t600, t5s, a600},
	},
}

// rename returns a copy of the slice with every name equal to or under `from` moved under `to`.
func (s slice) rename(from, to string) slice {
	rn := func(n string) string {
		if n == from || strings.HasPrefix(n, from+"/") {
			return to + n[len(from):]
		}
		return n
	}
	rl := func(l []string) []string {
		out := make([]string, len(l))
		for i, n := range l {
			out[i] = rn(n)
		}
		return out
	}
	s.inames, s.dnames = rl(s.inames), rl(s.dnames)
	ie := append([]iOp{}, s.iextra...)
	for i := range ie {
		ie[i].name = rn(ie[i].name)
	}
	de := append([]dOp{}, s.dextra...)
	for i := range de {
		de[i].name = rn(de[i].name)
	}
	s.iextra, s.dextra = ie, de
	if len(s.bursts) > 0 {
		report.Fatal("rename: slices with bursts are not supported")
	}
	if len(s.routine) > 0 {
		report.Fatal("rename: slices with routine op labels are not supported")
	}
	return s
}

func (s slice) ops() (names []string, defs map[string]opDef) {
	defs = map[string]opDef{}
	add := func(n string, d opDef) {
		if _, dup := defs[n]; dup {
			return
		}
		names = append(names, n)
		defs[n] = d
	}
	addI := func(o iOp) {
		fl := []string{}
		if o.cbp {
			fl = append(fl, "cbp")
		}
		if o.mbf {
			fl = append(fl, "mbf")
		}
		if o.tok && o.tokLen > 0 {
			fl = append(fl, fmt.Sprintf("tok%d", o.tokLen))
		} else if o.tok {
			fl = append(fl, "tok")
		}
		if o.short {
			fl = append(fl, "short")
		}
		if o.dup {
			fl = append(fl, "dup")
		}
		if o.zero {
			fl = append(fl, "zero")
		}
		if o.rep {
			fl = append(fl, "rep")
		}
		if o.mid {
			fl = append(fl, "mid")
		}
		sh := strings.Join(fl, "+")
		if sh == "" {
			sh = "plain"
		}
		o.label = fmt.Sprintf("I(%s,%s,%s)", faceLabel[o.face], o.name, sh)
		oo := o
		add(o.label, opDef{i: &oo})
	}
	addD := func(o dOp) {
		fr := "f0"
		if o.fresh {
			fr = "f1s"
		}
		if o.tok == "" {
			o.tok = "none"
		}
		o.label = fmt.Sprintf("D(%s,%s,%s,%s)", faceLabel[o.face], o.name, fr, o.tok)
		oo := o
		add(o.label, opDef{d: &oo})
	}
	// simplest first: plain Interests, then Data, then clock, then the richer shapes
	for pass := 0; pass < 2; pass++ {
		for _, sh := range s.shapes {
			if (sh == "") != (pass == 0) {
				continue
			}
			for _, n := range s.inames {
				for _, f := range s.ifaces {
					o := iOp{face: f, name: n}
					for _, x := range strings.Split(sh, "+") {
						switch x {
						case "cbp":
							o.cbp = true
						case "mbf":
							o.mbf = true
						case "tok":
							o.tok = true
						case "short":
							o.short = true
						case "dup":
							o.dup = true
						case "zero":
							o.zero = true
						case "rep":
							o.rep = true
						case "mid":
							o.mid = true
						default:
							var n int
							if _, err := fmt.Sscanf(x, "tok%d", &n); err != nil || n < 1 || n > 32 {
								if x != "" {
									report.Fatal("unknown Interest shape %q", x)
								}
							} else {
								o.tok, o.tokLen = true, n
							}
						}
					}
					addI(o)
				}
			}
		}
		if pass == 0 {
			for _, tk := range s.dtoks {
				for _, fr := range s.dfresh {
					for _, n := range s.dnames {
						for _, f := range s.dfaces {
							addD(dOp{face: f, name: n, fresh: fr, tok: tk})
						}
					}
				}
			}
			for _, t := range s.tops {
				t := t
				if t.run {
					t.label = fmt.Sprintf("R(%s)", t.dt)
				} else if t.tick {
					t.label = fmt.Sprintf("T(%s)", t.dt)
				} else {
					t.label = fmt.Sprintf("A(%s)", t.dt)
				}
				add(t.label, opDef{t: &t})
			}
		}
	}
	for _, o := range s.iextra {
		addI(o)
	}
	for _, o := range s.dextra {
		addD(o)
	}
	for _, o := range s.bursts {
		o.label = fmt.Sprintf("B(%s,%s/z0..z%d,short)", faceLabel[o.face], o.base, o.k-1)
		oo := o
		add(o.label, opDef{b: &oo})
	}
	for _, f := range s.down {
		add(fmt.Sprintf("Down(%s)", faceLabel[f]), opDef{down: f})
	}
	return
}

// ---- system ----

type sys struct {
	cfgName string
	cfg     fwsim.Config
	names   []string
	defs    map[string]opDef
	allOps  []explore.Op
	// deferred: every face is backlogged ("defer" in the configuration name), see inst.flush
	deferred bool
	// all: "t<K>/<N>" - N forwarding threads, all alive; the names of the universe are dispatched to
	// thread K, whose PIT the reference is cross-checked against
	all bool
	// trackOwn: the alphabet has unchanged retransmissions ("rep"): the latest nonce per (face, name)
	// and its dead-nonce status are part of the canonical state
	trackOwn bool
}

type inst struct {
	sim   *fwsim.Sim
	ref   *ref
	lastD *dOp   // last op if it was a Data arrival (for the C01.consume closure)
	lastW []byte // its wire
	lastT []byte // its token
	live  []liveTok
	gone  []uint32 // issued tokens whose PIT entry no longer exists (oldest first)
	dump  table.VerifPitCsDump
	queue []queued // "defer" mode: what the backlogged faces hold
	all   bool     // every forwarding thread is alive (fwsim.InjectAll / TickAll)
}

// liveTok is an upstream-issued token whose PIT entry still exists in the real token map.
type liveTok struct {
	tok uint32
	key recKey
}

func build(cfgName string) explore.System {
	debug.SetGCPercent(400)
	var sl, st, cs, fib string
	if _, err := fmt.Sscanf(cfgName, "%s %s %s %s", &sl, &st, &cs, &fib); err != nil {
		report.Fatal("bad config name %q", cfgName)
	}
	s := &sys{cfgName: cfgName}
	slc, ok := slices[sl]
	if !ok {
		report.Fatal("unknown slice %q", sl)
	}
	// optional flags after the four fields: "link" = arrivals through a real NDNLPLinkService;
	// "t1" = the driven thread is thread 1 of 2 (the names /a... are replaced by ones that the
	// link service dispatches to that thread; tokens carry thread id 1)
	// "late" = the faces read what they were handed (PIT token, bytes) only after the thread's
	// pipeline call has returned; "defer" = late, and every face is backlogged: it serialises its
	// queue only at the next clock step
	link, t1, nameA := false, false, "/a"
	tk, tn := 0, 0
	late := false
	capacity := -1
	for _, x := range strings.Fields(cfgName)[4:] {
		switch {
		case x == "late":
			late = true
		case x == "defer":
			late, s.deferred = true, true
		case x == "link":
			link = true
		case x == "t1":
			t1 = true
			nameA = fwsim.New(fwsim.Config{ThreadID: 1}).NameForThread("a", "/b", "/b/c")
			slc = slc.rename("/a", nameA)
		case scan2(x, "t%d/%d", &tk, &tn) && tk >= 0 && tk < tn:
			// every one of tn forwarding threads alive; the universe lives on thread tk
			s.all = true
			nameA = fwsim.New(fwsim.Config{ThreadID: tk, Threads: tn}).NameForThreadOf(tk, "a", "/b", "/b/c")
			slc = slc.rename("/a", nameA)
		case strings.HasPrefix(x, "dev<="):
		case strings.HasPrefix(x, "cap="):
			// content-store capacity (management-configurable; default 1024 never evicts here)
			if _, err := fmt.Sscanf(x, "cap=%d", &capacity); err != nil || capacity < 0 {
				report.Fatal("bad config name %q", cfgName)
			}
		default:
			report.Fatal("bad config name %q", cfgName)
		}
	}
	s.names, s.defs = slc.ops()
	hasRoot := false
	for _, d := range s.defs {
		if d.i != nil && d.i.name == "/" {
			hasRoot = true
		}
		if d.i != nil && d.i.rep {
			s.trackOwn = true
		}
	}
	if hasRoot && (t1 || s.all) {
		report.Fatal("config %q: the root name is dispatched by hash, not renamed for thread 1", cfgName)
	}
	routine := map[string]bool{}
	for _, n := range slc.routine {
		if _, ok := s.defs[n]; !ok {
			report.Fatal("slice %s: routine op %q is not in the alphabet", sl, n)
		}
		routine[n] = true
	}
	for _, n := range s.names {
		s.allOps = append(s.allOps, explore.Op{Name: n, Dev: len(routine) > 0 && !routine[n]})
	}
	s.cfg = fwsim.Config{
		RealLinkService: link,
		LateRead:        late,
		Routes: []fwsim.Route{
			{Prefix: nameA, Face: fwsim.N2, Cost: 1}, {Prefix: nameA, Face: fwsim.N3, Cost: 2},
			{Prefix: "/localhost", Face: fwsim.L5, Cost: 1},
		},
	}
	if hasRoot {
		// a default route, so that Interests for "/" are forwarded (and their tokens can be echoed);
		// longest-prefix match keeps it away from every other name of the universe
		s.cfg.Routes = append(s.cfg.Routes, fwsim.Route{Prefix: "/", Face: fwsim.N2, Cost: 7})
	}
	if t1 {
		s.cfg.ThreadID = 1
	}
	if s.all {
		s.cfg.ThreadID, s.cfg.Threads = tk, tn
	}
	switch st {
	case "br":
		s.cfg.Strategies = []fwsim.StrategyChoice{{Prefix: "/", Strategy: fwsim.BestRoute}}
	case "mc":
		s.cfg.Strategies = []fwsim.StrategyChoice{{Prefix: "/", Strategy: fwsim.Multicast}}
	default:
		report.Fatal("unknown strategy %q", st)
	}
	// cs1 = admit + serve, cs0 = neither, csa = admit only (Data is cached, nothing is served)
	if cs != "cs1" && cs != "cs0" && cs != "csa" {
		report.Fatal("unknown cache mode %q", cs)
	}
	s.cfg.CsAdmit, s.cfg.CsServe = cs == "cs1" || cs == "csa", cs == "cs1"
	if capacity >= 0 {
		s.cfg.CsCapacity, s.cfg.CsCapacityExact = capacity, true
	}
	switch fib {
	case "tree":
		s.cfg.FibAlgo = "nametree"
	case "ht":
		s.cfg.FibAlgo = "hashtable"
		s.cfg.HashtableM = 2
	default:
		report.Fatal("unknown fib %q", fib)
	}
	return s
}

// inject: one arrival. With every forwarding thread alive ("t<K>/<N>") the packet is processed by
// whichever thread(s) the real dispatch rule hands it to; otherwise by the driven thread only.
func (in *inst) inject(face uint64, wire []byte, lp fwsim.LP) []fwsim.Send {
	if in.all {
		sends, _ := in.sim.InjectAll(face, wire, lp)
		return sends
	}
	return in.sim.Inject(face, wire, lp)
}

// tick: the periodic arms (of every thread that is alive).
func (in *inst) tick() []fwsim.Send {
	if in.all {
		return in.sim.TickAll()
	}
	return in.sim.Tick()
}

// echoTok: the bytes of the PIT token this forwarder attached when it forwarded the Interest of the
// entry with entry token t - exactly what the upstream face was handed (whatever thread id they
// carry); sim.Token(t) for a token that never left (cannot happen for live / gone tokens).
func (in *inst) echoTok(t uint32) []byte {
	if b, ok := in.ref.full[t]; ok {
		return append([]byte{}, b...)
	}
	return in.sim.Token(t)
}

func (s *sys) New() any {
	in := &inst{sim: fwsim.New(s.cfg), ref: newRef(s.cfg.CsAdmit && s.cfg.CsServe), all: s.all}
	in.ref.deferIssue = s.deferred
	in.ref.trackOwn = s.trackOwn
	in.refresh()
	return in
}

// refresh takes the white-box dump and recomputes the list of live issued tokens
// (entries in canonical dump order whose token was revealed upstream).
func (in *inst) refresh() {
	in.dump = in.sim.Dump()
	in.live = in.live[:0]
	for _, e := range in.dump.Pit {
		if !e.InTokenMap {
			continue
		}
		if k, ok := in.ref.issued[e.Token]; ok {
			in.live = append(in.live, liveTok{tok: e.Token, key: k})
		}
	}
	// issued tokens whose entry has left the PIT (satisfied and reaped, or expired): a late Data
	// may still echo them
	liveSet := map[uint32]bool{}
	for _, lt := range in.live {
		liveSet[lt.tok] = true
	}
	in.gone = in.gone[:0]
	for t := range in.ref.issued {
		if !liveSet[t] {
			in.gone = append(in.gone, t)
		}
	}
	sort.Slice(in.gone, func(a, b int) bool { return in.gone[a] < in.gone[b] })
}

func (s *sys) Ops(i any) []explore.Op {
	in := i.(*inst)
	out := make([]explore.Op, 0, len(s.allOps))
	for _, op := range s.allOps {
		d := s.defs[op.Name]
		if d.down != 0 && !in.sim.FaceRegistered(d.down) {
			continue
		}
		if d.i != nil && d.i.dup {
			if _, ok := in.ref.lastNonce[d.i.name]; !ok {
				continue
			}
		}
		if d.i != nil && d.i.rep {
			if _, ok := in.ref.lastOwn[ownKey(d.i.face, d.i.name)]; !ok {
				continue
			}
		}
		if d.d != nil {
			if len(in.live) < needsLive(d.d.tok) {
				continue
			}
			if d.d.tok == "echoGone" && len(in.gone) < 1 {
				continue
			}
		}
		out = append(out, op)
	}
	return out
}

func (s *sys) Apply(i any, op explore.Op) []report.Violation {
	return s.step(i.(*inst), op, true)
}

func (s *sys) Do(i any, op explore.Op) { s.step(i.(*inst), op, false) }

// tokenOf: the PIT token a downstream face supplies with its Interests. Downstream tokens are
// chosen by the downstream node: distinct per face, any length 1..32. n = 0 is the 2-byte default.
// With n = 6 the token LOOKS like one of this forwarder's (thread id of the driven thread, then four
// bytes): the downstream is another forwarder of the same kind.
func tokenOf(face uint64, n int, thread int) []byte {
	switch n {
	case 0:
		return []byte{0xD0 | byte(face), 0x01}
	case 6:
		return fwsim.MakeToken(uint16(thread), 0x5A5A5A00|uint32(face))
	}
	b := make([]byte, n)
	b[0] = 0xD0 | byte(face)
	for i := 1; i < n; i++ {
		b[i] = byte(0x20 + i)
	}
	return b
}

// dataToken: the PIT token an arriving Data carries. The property distinguishes three classes: a
// token this forwarder attached (echo*), a token in this forwarder's format that it never attached
// (foreign, wrongthread), and everything that is not in this forwarder's format - absent, empty, or
// of any length other than 6 - for which the name rule applies.
//
//	none         no PIT token field
//	empty        a PIT token field of length 0 (only the real link service can tell it from none)
//	echo0|echo1  the token attached to the 1st / 2nd live entry; echoGone: to an entry that is gone
//	foreign      6 bytes naming the driven thread and an entry token that was never issued
//	wrongthread  6 bytes: the entry token of the 1st live entry under ANOTHER thread id
//	four         4 bytes (kept from the first alphabet)
//	len<N>       N fixed bytes (N = 6: names a thread that does not exist)
//	echo0+<k>    the token of the 1st live entry followed by k more bytes (7, 8, 32 bytes in all): NOT
//	             an echo - it is not in this forwarder's format
//	echo0-<k>    the token of the 1st live entry without its last k bytes
func (in *inst) dataToken(tok string) []byte {
	var n int
	switch {
	case tok == "none" || tok == "":
		return nil
	case tok == "empty":
		return []byte{}
	case tok == "echo0":
		return in.echoTok(in.live[0].tok)
	case tok == "echo1":
		return in.echoTok(in.live[1].tok)
	case tok == "echoGone":
		// a token this forwarder did attach, to an Interest whose PIT entry is gone by now
		return in.echoTok(in.gone[len(in.gone)-1])
	case tok == "foreign":
		return in.sim.Token(0xFFFFFFF1)
	case tok == "wrongthread":
		return fwsim.MakeToken(uint16(in.sim.ThreadID()+5), in.live[0].tok)
	case tok == "four":
		return []byte{0xde, 0xad, 0xbe, 0xef}
	case scan(tok, "len%d", &n) && n >= 1 && n <= 32:
		b := []byte{0xde, 0xad, 0xbe, 0xef}
		for i := 4; i < n; i++ {
			b = append(b, byte(0x10+i))
		}
		return b[:n]
	case scan(tok, "echo0+%d", &n) && n >= 1 && n <= 26:
		b := in.echoTok(in.live[0].tok)
		for i := 0; i < n; i++ {
			b = append(b, byte(0x31+i))
		}
		return b
	case scan(tok, "echo0-%d", &n) && n >= 1 && n <= 5:
		return in.echoTok(in.live[0].tok)[:6-n]
	}
	report.Fatal("unknown Data token shape %q", tok)
	return nil
}

func scan2(s, format string, a, b *int) bool {
	_, err := fmt.Sscanf(s, format, a, b)
	return err == nil
}

func scan(s, format string, n *int) bool {
	_, err := fmt.Sscanf(s, format, n)
	return err == nil
}

// needsLive: number of live issued tokens a Data token shape needs.
func needsLive(tok string) int {
	switch {
	case tok == "echo1":
		return 2
	case tok == "wrongthread" || strings.HasPrefix(tok, "echo0"):
		return 1
	}
	return 0
}

func (s *sys) step(in *inst, op explore.Op, check bool) (v []report.Violation) {
	d, ok := s.defs[op.Name]
	if !ok {
		report.Fatal("unknown op %q", op.Name)
	}
	in.lastD = nil
	in.ref.allowed = map[uint64]map[string]bool{}
	now := in.sim.Now()
	var stepSends []fwsim.Send
	switch {
	case d.b != nil:
		// k Interest arrivals in one step; each is judged like a single arrival
		o := d.b
		for i := 0; i < o.k; i++ {
			in.ref.nonceCtr++
			nonce := 0x1000 + in.ref.nonceCtr
			io := &iOp{face: o.face, name: fmt.Sprintf("%s/z%d", o.base, i), short: true}
			sends := in.inject(o.face, fwsim.MakeInterest(fwsim.InterestSpec{Name: io.name, Nonce: fwsim.U32(nonce), Lifetime: fwsim.Dur(lifeShort)}), fwsim.LP{})
			stepSends = append(stepSends, sends...)
			in.ref.dumpStale = true
			v = append(v, in.ref.onInterest(in, io, nonce, lifeShort, nil, sends, now, false)...)
			in.ref.dumpStale = false
		}
		in.refresh()
	case d.i != nil:
		o := d.i
		var nonce uint32
		if o.rep {
			nonce = in.ref.lastOwn[ownKey(o.face, o.name)]
		} else if o.dup {
			nonce = in.ref.lastNonce[o.name]
		} else {
			in.ref.nonceCtr++
			nonce = 0x1000 + in.ref.nonceCtr
		}
		life := lifeDefault
		is := fwsim.InterestSpec{Name: o.name, CanBePrefix: o.cbp, MustBeFresh: o.mbf, Nonce: fwsim.U32(nonce)}
		if o.short {
			life = lifeShort
			is.Lifetime = fwsim.Dur(lifeShort)
		}
		if o.mid {
			life = lifeMid
			is.Lifetime = fwsim.Dur(lifeMid)
		}
		if o.zero {
			life = 0
			is.Lifetime = fwsim.Dur(0)
		}
		var lp fwsim.LP
		if o.tok {
			lp.PitToken = tokenOf(o.face, o.tokLen, in.sim.ThreadID())
		}
		// "a nonce recorded as dead" (C02) - asked before the arrival, of the thread that will process it
		deadBefore := in.sim.DnlHas(fwsim.Name(o.name), nonce)
		sends := in.inject(o.face, fwsim.MakeInterest(is), lp)
		stepSends = sends
		in.refresh()
		v = in.ref.onInterest(in, o, nonce, life, lp.PitToken, sends, now, deadBefore)
	case d.d != nil:
		o := d.d
		ds := fwsim.DataSpec{Name: o.name, Content: "x"}
		if o.fresh {
			ds.Freshness = fwsim.Dur(time.Second)
		}
		var lp fwsim.LP
		lp.PitToken = in.dataToken(o.tok)
		wire := fwsim.MakeData(ds)
		var sends []fwsim.Send
		if o.tok == "empty" && s.cfg.RealLinkService {
			// a PitToken field of length zero exists only on the wire: the real link service decodes it
			sends = in.sim.InjectFrame(o.face, fwsim.EncodeFrameToken(wire, []byte{}))
		} else {
			sends = in.inject(o.face, wire, lp)
		}
		stepSends = sends
		in.refresh()
		v = in.ref.onData(in, o.face, o.name, lp.PitToken, wire, sends, now, false)
		in.lastD, in.lastW, in.lastT = o, wire, lp.PitToken
	case d.down != 0:
		in.sim.RemoveFace(d.down)
		in.refresh()
	case d.t != nil:
		// time passes: the backlogged faces get round to serialising what they hold
		v = append(v, in.flush()...)
		var sends []fwsim.Send
		if d.t.run {
			for el := time.Duration(0); el < d.t.dt; el += 100 * time.Millisecond {
				in.sim.Advance(100 * time.Millisecond)
				sends = append(sends, in.tick()...)
				in.ref.ticks = append(in.ref.ticks, in.sim.Now())
			}
		} else {
			in.sim.Advance(d.t.dt)
			if d.t.tick {
				sends = in.tick()
				in.ref.ticks = append(in.ref.ticks, in.sim.Now())
			}
		}
		in.refresh()
		for _, sd := range sends {
			if sd.Kind == fwsim.KData {
				v = append(v, report.Violation{Clause: "C01.only", Key: "Data emitted by the periodic reaper (no arrival)", Detail: fmt.Sprintf("tick sent %v", sd)})
			}
		}
	}
	if s.deferred {
		// Data copies handed to a (backlogged) face in this step: serialised later, judged again then
		for _, sd := range stepSends {
			if sd.Kind == fwsim.KData {
				in.queue = append(in.queue, queued{send: sd, allowed: in.ref.allowed[sd.Face]})
			}
		}
	}
	v = append(v, in.ref.sync(in)...)
	if !check {
		return nil
	}
	return v
}

// flush ("defer" mode): every backlogged face serialises its queue NOW, reading the PIT token and
// the bytes through the OutPkt it was handed (fwsim.Send.Reread), as the real link service's send
// goroutine does some time after Face.SendPacket returned.
//   - An Interest: the token it carries now is the token this forwarder attached when it
//     forwarded that Interest; from here on the upstream may echo it.
//   - A Data copy: it must (still) carry a PIT token the face supplied for a pending Interest
//     the Data answered (C01.each) and the bytes that were received (C01.bytes).
func (in *inst) flush() (v []report.Violation) {
	r := in.ref
	for _, q := range in.queue {
		late := q.send.Reread()
		if q.send.Kind == fwsim.KInterest {
			if _, t, ok := fwsim.IssuedToken(late.PitToken); ok {
				e := q.e
				if e == nil || r.pend[q.key] != e {
					e = nil // that incarnation of the entry is gone (satisfied or expired meanwhile)
				}
				r.attach(t, q.key, e)
				r.full[t] = append([]byte{}, late.PitToken...)
			}
			continue
		}
		if !bytesEq(late.PitToken, q.send.PitToken) && q.allowed != nil && !q.allowed[string(late.PitToken)] {
			v = append(v, report.Violation{Clause: "C01.each", Key: "Data copy queued on a face carries, when the face serialises it, a PIT token the face did not supply",
				Detail: fmt.Sprintf("Data %s handed to face %d with PIT token %s; read again when the backlogged face serialised its queue the token is %s, which face %d never supplied for a pending Interest this Data answered", q.send.NameStr, q.send.Face, tokStr(q.send.PitToken), tokStr(late.PitToken), q.send.Face)})
		}
		if !bytesEq(late.Wire, q.send.Wire) {
			v = append(v, report.Violation{Clause: "C01.bytes", Key: "Data copy queued on a face changed before the face serialised it",
				Detail: fmt.Sprintf("Data %s handed to face %d: the %d bytes read when the backlogged face serialised its queue differ from the %d bytes that were received and handed over", q.send.NameStr, q.send.Face, len(late.Wire), len(q.send.Wire))})
		}
	}
	in.queue = in.queue[:0]
	return v
}

func bytesEq(a, b []byte) bool { return string(a) == string(b) }

// CheckState: C01.consume closure — the Data that just arrived is delivered to nobody when it
// arrives again immediately (run after the canonical state was taken; destroys the instance).
func (s *sys) CheckState(i any) (v []report.Violation) {
	in := i.(*inst)
	if in.lastD == nil {
		return nil
	}
	o := in.lastD
	now := in.sim.Now()
	sends := in.inject(o.face, in.lastW, fwsim.LP{PitToken: in.lastT})
	in.refresh()
	for _, x := range in.ref.onData(in, o.face, o.name, in.lastT, in.lastW, sends, now, true) {
		x.Clause = "C01.consume"
		x.Key = "repeated Data: " + x.Key
		x.Detail = "the same Data arriving again immediately: " + x.Detail
		v = append(v, x)
	}
	return v
}

// ---- canonical state ----

func (s *sys) Canon(i any) string {
	in := i.(*inst)
	r := in.ref
	now := in.sim.Now()
	liveIdx := map[uint32]int{}
	for k, lt := range in.live {
		liveIdx[lt.tok] = k
	}
	tokName := func(t uint32) string {
		if k, ok := liveIdx[t]; ok {
			return fmt.Sprintf("T%d", k)
		}
		return "u"
	}
	var b strings.Builder
	for _, f := range []uint64{fwsim.L1, fwsim.N2, fwsim.N3, fwsim.N4, fwsim.L5, fwsim.A6} {
		if !in.sim.FaceRegistered(f) {
			fmt.Fprintf(&b, "down(%s)|", faceLabel[f])
		}
	}
	// reference: pending records
	keys := make([]recKey, 0, len(r.pend))
	for k := range r.pend {
		keys = append(keys, k)
	}
	sort.Slice(keys, func(a, c int) bool { return keys[a].less(keys[c]) })
	for _, k := range keys {
		e := r.pend[k]
		fmt.Fprintf(&b, "R[%s", k)
		if e.fwdTok != nil {
			fmt.Fprintf(&b, " fwd=%s", tokName(*e.fwdTok))
		}
		if dl := e.deadline.Sub(now); dl > 0 {
			fmt.Fprintf(&b, " dl=%s", dl)
		} else {
			fmt.Fprintf(&b, " dl=x/%d", r.ticksSince(e))
		}
		faces := make([]uint64, 0, len(e.recs))
		for f := range e.recs {
			faces = append(faces, f)
		}
		sort.Slice(faces, func(a, c int) bool { return faces[a] < faces[c] })
		for _, f := range faces {
			rc := e.recs[f]
			ex := rc.expiry.Sub(now)
			if ex <= 0 {
				ex = 0
			}
			toks := append([]string{}, rc.tokens...)
			sort.Strings(toks)
			fmt.Fprintf(&b, " %d:%s:%x:%s", f, ex, toks, s.nonceClass(r, k.name, rc.nonce))
		}
		b.WriteString("]")
	}
	// live issued tokens and the entries they belong to
	for k, lt := range in.live {
		fmt.Fprintf(&b, "T%d=%s;", k, lt.key)
	}
	fmt.Fprintf(&b, "gone=%v;", len(in.gone) > 0)
	// what the backlogged faces still hold: Interests whose token the upstream cannot know yet
	for _, q := range in.queue {
		if q.send.Kind == fwsim.KInterest {
			fmt.Fprintf(&b, "Q[%s>%d cur=%v]", q.key, q.send.Face, q.e != nil && r.pend[q.key] == q.e)
		} else {
			fmt.Fprintf(&b, "QD[%s>%d]", q.send.NameStr, q.send.Face)
		}
	}
	// nonce relations and dead-nonce status per name
	nn := make([]string, 0, len(r.lastNonce))
	for n := range r.lastNonce {
		nn = append(nn, n)
	}
	sort.Strings(nn)
	for _, n := range nn {
		fmt.Fprintf(&b, "N[%s", n)
		if t, ok := r.deadSince[n]; ok {
			fmt.Fprintf(&b, " dead=%s", fwsim.Saturate(now.Sub(t), 0, s.cfgDnl()+time.Second))
		}
		b.WriteString("]")
	}
	// unchanged retransmissions: the latest nonce per (face, name) and whether it is recorded as dead
	if s.trackOwn {
		on := make([]string, 0, len(r.lastOwn))
		for ok := range r.lastOwn {
			on = append(on, ok)
		}
		sort.Strings(on)
		for _, ok := range on {
			fmt.Fprintf(&b, "O[%s %s", ok, s.nonceClass(r, ok[strings.Index(ok, "|")+1:], r.lastOwn[ok]))
			if t, dead := r.deadOwn[ok]; dead {
				fmt.Fprintf(&b, " dead=%s", fwsim.Saturate(now.Sub(t), 0, s.cfgDnl()+time.Second))
			}
			b.WriteString("]")
		}
	}
	// reference cache model
	cn := make([]string, 0, len(r.csWires))
	for n := range r.csWires {
		cn = append(cn, n)
	}
	sort.Strings(cn)
	for _, n := range cn {
		ws := make([]string, 0, len(r.csWires[n]))
		for w := range r.csWires[n] {
			ws = append(ws, fmt.Sprintf("%d", len(w)))
		}
		sort.Strings(ws)
		fmt.Fprintf(&b, "W[%s %v]", n, ws)
	}
	// implementation
	b.WriteString("|")
	b.WriteString(fwsim.CanonPitCs(in.dump, in.sim.Queue(), fwsim.CanonOpts{
		Token: tokName,
		Nonce: func(name string, nonce uint32) string { return s.nonceClass(r, name, nonce) },
	}))
	return b.String()
}

// nonceClass renames a stored nonce: nonces matter only through equality with the nonces future
// Interests can carry - the latest fresh nonce of the name ("L", what dup repeats) and, in alphabets
// with unchanged retransmissions, the latest nonce of each face for the name (what rep repeats).
func (s *sys) nonceClass(r *ref, name string, nonce uint32) string {
	c := "o"
	if l, ok := r.lastNonce[name]; ok && l == nonce {
		c = "L"
	}
	if s.trackOwn {
		for _, f := range []uint64{fwsim.L1, fwsim.N2, fwsim.N3, fwsim.N4, fwsim.L5, fwsim.A6} {
			if l, ok := r.lastOwn[ownKey(f, name)]; ok && l == nonce {
				c += "=" + faceLabel[f]
			}
		}
	}
	return c
}

func (s *sys) cfgDnl() time.Duration {
	if s.cfg.DnlLifetime != 0 {
		return s.cfg.DnlLifetime
	}
	return 6 * time.Second
}

// ---- main ----

// devDepth lets a developer override the depth bound (VERIF_DEPTH) while sizing the tiers.
func devDepth(d int) int {
	if v, err := strconv.Atoi(os.Getenv("VERIF_DEPTH")); err == nil && v > 0 {
		return v
	}
	return d
}

func configs(th bool) (c []explore.Config) {
	add := func(sl, st, cs, fib string, depth int) {
		c = append(c, explore.Config{Name: fmt.Sprintf("%s %s %s %s", sl, st, cs, fib), MaxDepth: devDepth(depth), MaxDev: -1})
	}
	chain := func(st, cs, fib string, depth, maxDev int) {
		c = append(c, explore.Config{Name: fmt.Sprintf("chain %s %s %s dev<=%d", st, cs, fib, maxDev), MaxDepth: devDepth(depth), MaxDev: maxDev})
	}
	if os.Getenv("VERIF_ONLY") == "chain" {
		chain("br", "cs1", "tree", 6, 1)
		return c
	}
	if only := os.Getenv("VERIF_ONLY"); only != "" {
		// development aid: VERIF_ONLY=<prefix> keeps the configurations whose name starts with it
		defer func() {
			var k []explore.Config
			for _, x := range c {
				if strings.HasPrefix(x.Name, only) {
					k = append(k, x)
				}
			}
			c = k
		}()
	}
	if !th {
		// scale (bursts of 101 / 250 distinct names falling due in one reaper period) and backlogged
		// faces (what a face was handed is read when it serialises its queue, at the next clock step):
		// small alphabets first, what they leave of their share of the budget goes to the others
		add("retx", "br", "cs0", "tree", 5)
		add("retx", "mc", "cs1", "ht", 4)
		add("burst", "br", "cs0", "tree", 3)
		// token shapes (both directions) and the root name: small alphabets, both strategies
		add("tokshape", "br", "cs1", "tree", 4)
		add("tokshape", "mc", "cs0", "ht link", 3)
		add("root", "mc", "cs1", "tree", 4)
		add("root", "br", "cs0", "ht", 4)
		add("core", "br", "cs1", "tree defer", 5)
		add("tokens", "mc", "cs0", "ht defer", 4)
		// quick: every slice to depth 4; the eight {strategy} x {cache} x {FIB} combinations are
		// spread over the slices so that each combination is exercised by at least one slice;
		// the small core alphabet to depth 6; request/response chains with <=1 deviation to depth 7
		// small content-store capacities (eviction while Interests are pending) on the cache alphabet
		add("cache", "br", "cs1", "tree cap=1", 4)
		add("cache", "mc", "csa", "ht cap=0", 4)
		add("names", "br", "cs1", "tree", 4)
		add("names", "mc", "cs0", "ht", 4)
		add("tokens", "br", "cs0", "ht late", 4) // late: the faces read token and bytes after the pipeline call returned
		add("tokens", "mc", "cs1", "tree", 4)
		add("flags", "br", "cs1", "ht", 4)
		add("flags", "mc", "cs0", "tree late", 4)
		add("time", "mc", "cs1", "ht late", 4)
		add("time", "br", "cs0", "tree", 4)
		add("tokens", "mc", "cs1", "tree link", 4) // arrivals through the real NDNLPLinkService
		add("tokens", "br", "cs1", "ht t1", 4)     // the driven thread is thread 1 of 2
		// every forwarding thread ALIVE (2 and 3 threads): the universe lives on the first / a middle
		// thread, what the real dispatch hands to another thread is processed there
		add("tokens", "mc", "cs1", "tree t0/2", 4)
		add("core", "br", "cs0", "ht t1/3 link", 5)
		// expiry extension of queued entries
		add("extend", "br", "cs0", "tree", 5)
		add("extend", "mc", "cs1", "ht", 4)
		add("core", "br", "cs1", "tree", 6)
		add("core", "mc", "cs0", "ht", 6)
		// audit of the canonical form, and a deep history search, both WITHOUT de-duplication
		c = append(c, explore.Config{Name: "audit(no dedup) core br cs1 tree", BuildName: "core br cs1 tree", MaxDepth: devDepth(4), MaxDev: -1, NoDedup: true})
		c = append(c, explore.Config{Name: "history search (no dedup) tiny br cs1 tree", BuildName: "tiny br cs1 tree", MaxDepth: devDepth(6), MaxDev: -1, NoDedup: true})
		c = append(c, explore.Config{Name: "history search (no dedup) tiny mc cs0 ht", BuildName: "tiny mc cs0 ht", MaxDepth: devDepth(6), MaxDev: -1, NoDedup: true})
		chain("mc", "cs1", "tree", 7, 1)
		chain("br", "cs0", "ht", 7, 1)
		return c
	}
	// thorough: every slice x every combination to depth 5 (the widest alphabet, flags, to depth 4
	// on the hash-table FIB), the core alphabet to depth 7, chains with <=1 deviation to depth 8
	// and with <=2 deviations to depth 6
	for _, st := range []string{"br", "mc"} {
		for _, cs := range []string{"cs1", "cs0"} {
			for _, fib := range []string{"tree", "ht"} {
				for _, sl := range []string{"names", "tokens", "time"} {
					add(sl, st, cs, fib, 5)
				}
				if fib == "tree" {
					add("flags", st, cs, fib, 5)
					chain(st, cs, fib, 8, 1)
					chain(st, cs, fib, 6, 2)
				} else {
					add("flags", st, cs, fib, 4)
				}
				add("core", st, cs, fib, 7)
			}
		}
	}
	// scale (bursts) and backlogged / late-reading faces, both strategies
	for _, st := range []string{"br", "mc"} {
		add("retx", st, "cs0", "tree", 6)
		add("retx", st, "cs1", "ht", 5)
		add("retx", st, "cs0", "ht t0/2 link", 5)
		add("burst", st, "cs0", "tree", 4)
		add("core", st, "cs1", "tree defer", 6)
		add("tokens", st, "cs0", "ht defer", 5)
		add("flags", st, "cs1", "tree defer", 4)
		add("tokens", st, "cs1", "tree late", 5)
		add("time", st, "cs0", "ht late", 5)
	}
	add("burst", "mc", "cs1", "ht", 3)
	// token shapes and the root name x strategy x cache x FIB x arrival path
	for _, st := range []string{"br", "mc"} {
		for _, cs := range []string{"cs1", "cs0"} {
			add("tokshape", st, cs, "tree", 5)
			add("tokshape", st, cs, "ht link", 4)
			add("root", st, cs, "tree", 5)
			add("root", st, cs, "ht link", 5)
		}
		add("tokshape", st, "cs1", "tree t1", 4)
		add("tokshape", st, "cs0", "tree t0/2", 4)
		add("tokens", st, "cs1", "ht t0/2", 5)
		add("tokens", st, "cs0", "tree t1/3 link", 5)
		add("core", st, "cs1", "tree t2/4", 6)
		add("extend", st, "cs0", "tree", 6)
		add("extend", st, "cs1", "ht late", 6)
		add("extend", st, "cs1", "tree t0/2", 5)
		add("tokshape", st, "cs0", "ht defer", 4)
		add("root", st, "cs1", "tree late", 5)
	}
	// content-store capacity 0 / 1 / 2 x cache mode x strategy
	for _, st := range []string{"br", "mc"} {
		add("cache", st, "cs1", "tree cap=1", 5)
		add("cache", st, "csa", "ht cap=0", 5)
		add("cache", st, "cs1", "ht cap=2", 5)
		add("cache", st, "csa", "tree cap=1", 5)
		add("cache", st, "cs1", "tree cap=0", 4)
		add("flags", st, "cs1", "tree cap=1", 4)
	}
	c = append(c, explore.Config{Name: "audit(no dedup) core br cs1 tree", BuildName: "core br cs1 tree", MaxDepth: 5, MaxDev: -1, NoDedup: true})
	for _, b := range []string{"tiny br cs1 tree", "tiny mc cs0 ht", "tiny mc cs1 tree", "tiny br cs0 ht"} {
		c = append(c, explore.Config{Name: "history search (no dedup) " + b, BuildName: b, MaxDepth: 7, MaxDev: -1, NoDedup: true})
	}
	// the other arrival path (real NDNLPLinkService) and the other thread identity
	for _, st := range []string{"br", "mc"} {
		add("tokens", st, "cs1", "tree link", 5)
		add("names", st, "cs1", "ht link", 5)
		add("tokens", st, "cs1", "tree t1", 5)
		add("tokens", st, "cs0", "ht link t1", 5)
	}
	return c
}

// bench: `harness --bench <config>` times fresh-instance + history + canon in-process (with a CPU
// profile in /tmp/c01-bench.prof); a development aid, not part of the check.
func bench(cfg string) {
	s := build(cfg).(*sys)
	f, _ := os.Create("/tmp/c01-bench.prof")
	pprof.StartCPUProfile(f)
	defer pprof.StopCPUProfile()
	n := 0
	t0 := time.Now()
	root := s.New()
	l1 := s.Ops(root)
	for _, a := range l1 {
		i1 := s.New()
		s.Do(i1, a)
		for _, b := range s.Ops(i1) {
			i2 := s.New()
			s.Do(i2, a)
			s.Do(i2, b)
			for _, c := range s.Ops(i2) {
				i3 := s.New()
				s.Do(i3, a)
				s.Do(i3, b)
				s.Apply(i3, c)
				_ = s.Canon(i3)
				s.CheckState(i3)
				n++
			}
		}
	}
	el := time.Since(t0)
	fmt.Printf("%d transitions at depth 3 in %s: %.1f us each\n", n, el, float64(el.Microseconds())/float64(n))
}

// sweep enumerates, in-process, every history of the given depth of one configuration and
// returns the oracle statistics: a measured account of which oracle branches (must / may /
// adopted / cache / scope) the search exercises. Violations found here are reported too.
func sweep(rep *report.Reporter, cfg string, depth int) map[string]int {
	for k := range stats {
		delete(stats, k)
	}
	s := build(cfg).(*sys)
	var rec func(h []explore.Op)
	rec = func(h []explore.Op) {
		in := s.New()
		for i, op := range h {
			if i < len(h)-1 {
				s.Do(in, op)
				continue
			}
			for _, v := range s.Apply(in, op) {
				names := []string{}
				for _, o := range h {
					names = append(names, o.Name)
				}
				v.Detail = "[" + cfg + "] after " + strings.Join(names, " ; ") + " :: " + v.Detail
				v.Replay = map[string]any{"config": cfg, "ops": names}
				rep.Add(v)
			}
		}
		if len(h) == depth {
			return
		}
		for _, op := range s.Ops(in) {
			rec(append(append([]explore.Op{}, h...), op))
		}
	}
	rec(nil)
	out := map[string]int{}
	for k, v := range stats {
		out[k] = v
	}
	return out
}

func main() {
	fwsim.ReplayIfRequested("C01", "C01.panic", build)
	if len(os.Args) >= 3 && os.Args[1] == "--bench" {
		bench(os.Args[2])
		return
	}
	explore.Main(explore.Spec{
		ID: "C01", PanicClause: "C01.panic", Build: build,
		Configs: configs,
		Budget: func(th bool) time.Duration {
			if th {
				return 25 * time.Minute
			}
			return 86 * time.Second
		},
		Extra: func(rep *report.Reporter, cov report.Coverage) {
			if os.Getenv("VERIF_ONLY") != "" {
				return
			}
			o := map[string]any{}
			for _, c := range []string{"core br cs1 tree", "tokens mc cs1 tree", "time br cs0 tree"} {
				o[c+" (all histories of length 3, before de-duplication)"] = sweep(rep, c, 3)
			}
			cov["oracle_branches_exercised"] = o
			cov["dispatch_agreement_pass"] = dispatchPass(rep)
			cov["threads_alive_pass"] = threadsPass(rep)
		},
		Rule: "BFS over histories of Interest arrivals I(face,name,CanBePrefix,MustBeFresh,nonce fresh|repeating the latest fresh nonce of the name (dup)|repeating the latest nonce of the SAME face for the name (rep: unchanged retransmission),lifetime 4s|1s|500ms|0,PIT token), Data arrivals D(face,name,freshness,token none|echo of a live upstream token|foreign 6-byte|4-byte; alphabet tokshape: every token shape - absent, empty field, fixed bytes of length 1..8 and 32, 6 bytes never issued / naming another thread / naming no thread, a live token extended to 7, 8, 32 bytes or cut to 5, 4 bytes - against downstream tokens of 1, 2, 6 (own-looking), 8, 32 bytes) and clock steps T(dt)+reaper tick / A(dt) without tick, on one real fw.Thread with real PIT-CS, dead nonce list, FIB (tree, hash table) and strategies (best-route, multicast), cache on/off/admit-only, content-store capacity 1024 (never evicts) and 0|1|2 on the cache alphabet; focused alphabets (names, tokens, flags, time, cache, burst = B(face,k): k in {101,250} Interests with distinct names and the 500 ms lifetime arriving in one step); recording faces that read what they were handed (PIT token, bytes) at the SendPacket call, or only after the pipeline call returned ('late'), or - backlogged faces, 'defer' - only at the next clock step, the token read THEN being the one the upstream can echo and the Data copy read THEN being judged again; after every transition every SendPacket is compared with a three-valued reference of pending Interests and the reference is cross-checked against the white-box PIT dump; alphabet retx: one name, two consumer faces, every Interest retransmitted by the same face with the same or a fresh nonce and a lifetime ending before / at / after the earlier deadline (500 ms, 1 s, 4 s in every order), inside and outside the 500 ms suppression interval, the same nonce from the other face and on the CanBePrefix twin entry, then Data by name / token at instants between the earlier and the renewed deadline; an Interest repeating a (name, nonce) must become pending with ITS lifetime unless another face holds a pending Interest of that name with the nonce or the nonce was recorded as dead before the arrival; alphabet extend: 500 ms Interests for three names whose queued expiry is moved later by a 4 s retransmission / aggregation in every order, with the reaper at its true cadence R(dt) = dt/100 ms steps each followed by the periodic arms; configurations t<K>/<N>: N real forwarding threads ALL alive, the universe on thread K, every arrival processed by the thread(s) the real dispatch rule picks, an echoed token being exactly the six bytes the upstream face was handed; plus the threads-alive pass (thread counts 1,2,3,4,5,8,16 x both strategies x both arrival paths x 51 names x every prefix: token round trip per name, and all names pending at once on all threads answered in reverse order); states de-duplicated on reference + white-box dump (clock-relative, tokens renamed by entry, nonces by equality with the last nonce per name)",
		Assumptions: []string{
			"'a token in this forwarder's format' = exactly six bytes; it echoes a token this forwarder attached only if its first two bytes name the driven thread and the last four are an entry token that left on a forwarded Interest; six bytes naming another thread satisfy nothing; every other length (also 7..32 bytes that START with a live token) is matched by name",
			"faces are simulated at the dispatch.Face seam: a received frame is turned into defn.Pkt exactly as NDNLPLinkService.handleIncomingFrame + dispatchInterest/dispatchData do (copied field by field in verif/harness/fwsim), one driven forwarding thread (id 0; 't1': thread 1 of 2 with the other thread idle); in the configurations 't<K>/<N>' and in the threads-alive pass all N threads are alive and a packet is processed by every thread the real dispatch rule (name hash / thread id in a 6-byte token / all prefix threads for token-less Data of a local face) hands it to, in thread order",
			"the clock is virtual (verif/shim/vtime) and PIT tokens come from verif/shim/vrand; the reaper runs only in T(dt) steps, once, after the clock moved",
			"equal canonical state (reference records + live tokens + per-name nonce/dead-nonce status + private PIT-CS dump with queue priorities, all times relative to now) implies equal futures; out-record ages are saturated at the 500 ms suppression window, expired times at 0",
			"where the property leaves a choice the observed behaviour is adopted into the reference: whether an Interest of a non-local face whose cache answer (/localhost Data matching '/' + CanBePrefix) a scope rule withholds counts as answered or stays pending; whether an Interest repeating a (name, nonce) is recorded WHEN it may be a loop in the words of C02 - another face holds a pending Interest for that name carrying the nonce, or the nonce was on the dead nonce list just before the arrival (white-box) - and only then: a retransmission repeating a nonce only its own face holds (or nobody any more) that is not recorded as dead must become pending until arrival + its lifetime, like a fresh one; whether a record past its own lifetime still exists; whether Data echoing a token that was not attached to the currently pending Interest of that entry matches",
			"a record whose own lifetime elapsed may or may not receive a copy until the latest lifetime among all Interests that ever arrived for its PIT entry has elapsed and the reaper has run twice since (the 'shortly after' of C08); from then on a copy, or a surviving in-record, is a C01.only violation",
			"name universe {/,/a,/a/b,/a/b/c,/localhost/x} (+ /a/z0../a/z249 in the burst alphabet; the zero-component name / is in the alphabets root, names, flags, cache, time and in the dispatch pass, with a default route so that it is forwarded); lifetimes {4 s default, 1 s (retx alphabet), 500 ms, explicit 0}; clock steps {100 ms, 600 ms, 5 s}; faces L1,L5 local, N2,N3,N4 non-local, A6 ad-hoc",
			"a face keeps the dispatch.OutPkt it was handed the way the real link service keeps it in its send queue (the struct value; nothing it points to is copied) and may serialise it any time after SendPacket returned: at once, when the pipeline call has returned ('late'), or at the next clock step ('defer', all faces backlogged; until then the upstream cannot echo the token). 'The PIT token this forwarder attached when it forwarded that Interest' is the token the face reads when it serialises; a token that left attached to the Interests of several PIT entries makes an echoing Data satisfy each of them",
		},
	})
}
