package main

// Reference model of "which face holds an unsatisfied pending Interest" and the three-valued
// oracle of C01. The property text, clause by clause:
//
//  (match)   A Data packet satisfies a pending Interest if it echoes the PIT token this forwarder
//            attached when it forwarded that Interest or, when it carries no token in this
//            forwarder's format (6 bytes), if its name equals the Interest's name or extends it
//            and CanBePrefix was set.
//  C01.only  Data arriving on a face is emitted only on faces that at that moment hold an
//            unsatisfied pending Interest it satisfies, never elsewhere.
//  C01.each  every such face other than the arrival face receives, scope rules permitting,
//            exactly one copy per pending Interest, carrying the PIT token (if any) that face
//            supplied.
//  C01.consume the pending Interest is thereby consumed: a repeated copy is delivered to nobody.
//  C01.cs    Data served from the cache in answer to an Interest goes to that Interest's face alone.
//  C01.bytes what is sent is the packet that was received (same wire).
//
// Three values. For one Data arrival every (entry, face) record of the reference is
//   must  : unexpired, face != arrival face, scope permits           -> exactly one copy
//   may   : the arrival face itself (the text only speaks of faces "other than the arrival
//           face"); a record whose own lifetime has elapsed but which still exists (the text
//           speaks of pending Interests, C08 bounds only the removal of the whole entry); a face
//           a scope rule forbids (C09 decides that one)                  -> zero or one copy
// and every face without a record on a satisfied entry is must-not.
// Legal choices the text leaves open are ADOPTED from the white-box PIT dump instead of being
// prescribed (see the list of assumptions in main.go); everything else is decided by the
// reference alone and the dump is only compared with it.

import (
	"bytes"
	"fmt"
	"sort"
	"strings"
	"time"

	"github.com/named-data/ndnd/fw/defn"
	"github.com/named-data/ndnd/fw/table"
	"verif/harness/fwsim"
	"verif/mc/report"
)

// stats counts what the oracle actually exercised (filled in-process by the coverage sweep in
// main.go; worker processes count too but nobody reads theirs).
var stats = map[string]int{}

type recKey struct {
	name     string
	cbp, mbf bool
}

func (k recKey) String() string {
	s := k.name
	if k.cbp {
		s += ",cbp"
	}
	if k.mbf {
		s += ",mbf"
	}
	return s
}

func (k recKey) less(o recKey) bool {
	if k.name != o.name {
		return k.name < o.name
	}
	if k.cbp != o.cbp {
		return !k.cbp
	}
	if k.mbf != o.mbf {
		return !k.mbf
	}
	return false
}

// rec = one face's pending Interest on one entry.
type rec struct {
	expiry time.Time
	tokens []string // tokens this face supplied while the record existed ("" = none)
	nonce  uint32   // nonce of the latest Interest of this face that was recorded
}

// entry = one pending Interest in the PIT sense (name + selectors), aggregated over faces.
type entry struct {
	recs   map[uint64]*rec
	fwdTok *uint32 // entry token attached to the last upstream transmission while the entry existed
	// latest arrival + lifetime among ALL Interests that arrived for this entry since it came into
	// being (recorded or not, superseded by a retransmission or not): past it, no Interest recorded
	// in the entry is pending any more
	deadline time.Time
	dlTicks  int // number of reaper runs that had happened when the deadline was last raised
}

type ref struct {
	cache  bool
	pend   map[recKey]*entry
	issued map[uint32]recKey // every entry token revealed upstream -> the entry it was (last) attached to
	// attached: every entry whose forwarded Interest left carrying the token (the property's "the
	// PIT token this forwarder attached when it forwarded that Interest": what the face put on the
	// wire). One entry per token in a correct forwarder.
	attached map[uint32][]recKey
	// full: entry token -> the six bytes the upstream face was handed with the forwarded Interest
	// (thread id + entry token). A Data echoes "the PIT token this forwarder attached" iff it carries
	// exactly these bytes - whichever thread id this forwarder wrote into them.
	full map[uint32][]byte
	// deferIssue: the faces are backlogged - an upstream transmission reveals its token only when
	// the face serialises its queue (inst.flush), not when the thread hands the packet over
	deferIssue bool
	// allowed: PIT tokens a Data copy to a face could legitimately carry, per face, for the Data
	// sends of the last arrival (what a backlogged face serialises later is judged against it)
	allowed   map[uint64]map[string]bool
	lastNonce map[string]uint32
	// lastOwn: "face|name" -> nonce of the latest Interest that face sent for that name (whatever
	// became of it): what an unchanged retransmission of that Interest carries (shape "rep")
	lastOwn map[string]uint32
	// deadOwn: "face|name" -> since when lastOwn's nonce is on the dead nonce list (canonical state)
	deadOwn   map[string]time.Time
	trackOwn  bool            // the alphabet has "rep" Interests: lastOwn is part of the state
	dumpStale bool            // in.dump predates the arrival being judged (inside a burst)
	seen      map[string]bool // name|nonce seen in an earlier Interest
	deadSince map[string]time.Time
	nonceCtr  uint32
	csWires   map[string]map[string]bool // Data name -> wires received and admissible to the cache
	ticks     []time.Time                // when the periodic reaper ran
}

// lateTicks is the number of reaper runs after which an entry past its deadline is no longer
// excused: "shortly after" of C08 (two reaper intervals).
const lateTicks = 2

// ticksSince counts the reaper runs at or after the entry's deadline that happened after the
// Interest setting that deadline arrived (saturated at lateTicks).
func (r *ref) ticksSince(e *entry) int {
	n := 0
	for _, x := range r.ticks[e.dlTicks:] {
		if !x.Before(e.deadline) {
			n++
		}
	}
	if n > lateTicks {
		n = lateTicks
	}
	return n
}

// lapsed: every Interest that ever arrived for the entry has outlived its lifetime AND the reaper
// has run lateTicks times since. Until then a record past its own lifetime is "may" (the entry
// may legitimately live on for a longer-lived Interest of another face or an earlier, longer-lived
// Interest of the same face, and the reaper needs its chance); from then on no face holds a
// pending Interest there in any reading of the text.
func (r *ref) lapsed(e *entry, now time.Time) bool {
	return !now.Before(e.deadline) && r.ticksSince(e) >= lateTicks
}

func newRef(cache bool) *ref {
	return &ref{cache: cache, pend: map[recKey]*entry{}, issued: map[uint32]recKey{}, attached: map[uint32][]recKey{}, full: map[uint32][]byte{}, lastNonce: map[string]uint32{}, lastOwn: map[string]uint32{}, deadOwn: map[string]time.Time{},
		seen: map[string]bool{}, deadSince: map[string]time.Time{}, csWires: map[string]map[string]bool{}}
}

func isLocalhostStr(n string) bool { return n == "/localhost" || strings.HasPrefix(n, "/localhost/") }

func comps(n string) []string {
	if n == "/" {
		return nil
	}
	return strings.Split(strings.TrimPrefix(n, "/"), "/")
}

// nameMatch: Data name equals the Interest name, or extends it and CanBePrefix was set.
func nameMatch(k recKey, dataName string) bool {
	if k.name == dataName {
		return true
	}
	if !k.cbp {
		return false
	}
	ic, dc := comps(k.name), comps(dataName)
	if len(ic) > len(dc) {
		return false
	}
	for i := range ic {
		if ic[i] != dc[i] {
			return false
		}
	}
	return true
}

func implRec(d table.VerifPitCsDump, k recKey, face uint64) *table.VerifInRec {
	for i := range d.Pit {
		e := &d.Pit[i]
		if e.Name == k.name && e.CanBePrefix == k.cbp && e.MustBeFresh == k.mbf && e.Hint == "" {
			for j := range e.In {
				if e.In[j].Face == face {
					return &e.In[j]
				}
			}
		}
	}
	return nil
}

func viol(clause, key, detail string) report.Violation {
	return report.Violation{Clause: clause, Key: key, Detail: detail}
}

func tokStr(t []byte) string {
	if len(t) == 0 {
		return "none"
	}
	return fmt.Sprintf("%x", t)
}

func sendsStr(s []fwsim.Send) string {
	x := make([]string, 0, len(s))
	for _, e := range s {
		x = append(x, e.String())
	}
	sort.Strings(x)
	return "[" + strings.Join(x, "; ") + "]"
}

// ---- Interest arrival ----

func ownKey(face uint64, name string) string { return fmt.Sprintf("%d|%s", face, name) }

// onInterest: deadBefore = the (name, nonce) was on the dead nonce list just before the arrival
// (white-box; "a nonce recorded as dead" in the words of C02).
func (r *ref) onInterest(in *inst, o *iOp, nonce uint32, life time.Duration, tok []byte, sends []fwsim.Send, now time.Time, deadBefore bool) (v []report.Violation) {
	k := recKey{o.name, o.cbp, o.mbf}
	seenBefore := r.seen[fmt.Sprintf("%s|%d", o.name, nonce)]
	r.seen[fmt.Sprintf("%s|%d", o.name, nonce)] = true
	if !o.dup && !o.rep {
		r.lastNonce[o.name] = nonce
		delete(r.deadSince, o.name)
	}
	if ok := ownKey(o.face, o.name); r.lastOwn[ok] != nonce {
		r.lastOwn[ok] = nonce
		delete(r.deadOwn, ok)
	}
	// does ANOTHER face hold a pending Interest for this name that carries the same nonce? Then the
	// arrival may be a loop ("repeating the nonce of one still pending from another face", C02)
	otherHolds := false
	for k2, e2 := range r.pend {
		if k2.name != o.name {
			continue
		}
		for f2, rc2 := range e2.recs {
			if f2 != o.face && rc2.nonce == nonce {
				otherHolds = true
			}
		}
	}
	var dataSends, intSends []fwsim.Send
	for _, s := range sends {
		if s.Kind == fwsim.KData {
			dataSends = append(dataSends, s)
		} else {
			intSends = append(intSends, s)
		}
	}
	stats["interest arrivals"]++
	if !in.sim.FaceRegistered(o.face) {
		// the face was destroyed before this (queued) packet is processed: nothing is pending on
		// a face that does not exist, nothing can be answered to it
		stats["interest arrivals from a destroyed face"]++
		if len(sends) > 0 {
			v = append(v, viol("C01.only", "a packet from a face that no longer exists caused a transmission", fmt.Sprintf("Interest %s attributed to destroyed face %d: %s", o.name, o.face, sendsStr(sends))))
		}
		return
	}
	if scopeOf(o.face) == defn.NonLocal && isLocalhostStr(o.name) {
		stats["interest arrivals rejected by scope"]++
		// C09: never accepted from a non-local face -> no pending Interest, nothing to answer.
		if len(dataSends) > 0 {
			v = append(v, viol("C01.cs", "Data emitted in answer to a scope-rejected Interest", fmt.Sprintf("Interest %s from non-local face %d must not be accepted (C09), yet %s", o.name, o.face, sendsStr(dataSends))))
		}
		return
	}
	// upstream transmissions reveal the entry token
	qmark := len(in.queue)
	for _, s := range intSends {
		if r.deferIssue {
			// ... once the backlogged face serialises it (inst.flush); the entry it belongs to is
			// filled in below
			in.queue = append(in.queue, queued{send: s, key: k})
			continue
		}
		if _, t, ok := fwsim.IssuedToken(s.PitToken); ok {
			e := r.pend[k]
			if e == nil {
				e = &entry{recs: map[uint64]*rec{}}
				r.pend[k] = e
			}
			r.attach(t, k, e)
			r.full[t] = append([]byte{}, s.PitToken...)
		}
	}
	defer func() {
		for i := qmark; i < len(in.queue); i++ {
			in.queue[i].e = r.pend[k]
		}
	}()
	if len(dataSends) > 0 {
		// can only be an answer from the cache
		stats["interest arrivals answered from the cache (C01.cs checked)"]++
		v = append(v, r.checkCacheAnswer(o, k, tok, dataSends)...)
		// the Interest is answered: it is not pending
		if e := r.pend[k]; e != nil {
			delete(e.recs, o.face)
		}
		r.gc(k)
		return
	}
	ir := implRec(in.dump, k, o.face)
	if r.cache && ir == nil && scopeOf(o.face) == defn.NonLocal {
		// A cached /localhost Data matches the Interest of a non-local face (only "/" with
		// CanBePrefix can do that): "scope rules permitting" withholds the copy. Whether the Interest
		// then counts as answered (consumed, like a pending Interest whose copy a scope rule withholds
		// when the Data arrives) or stays pending is not fixed by the text. Adopt.
		for n := range r.csWires {
			if isLocalhostStr(n) && nameMatch(k, n) {
				stats["interest arrivals whose cache answer a scope rule withholds: consumed (adopted)"]++
				if e := r.pend[k]; e != nil {
					delete(e.recs, o.face)
				}
				r.gc(k)
				return
			}
		}
	}
	e := r.pend[k]
	accepted := true
	if seenBefore && (otherHolds || deadBefore) {
		// An Interest repeating the nonce of one still pending from ANOTHER face, or a nonce recorded
		// as dead, may be a loop: whether it is recorded is the forwarder's choice (C02 speaks about
		// forwarding only). Adopt.
		accepted = ir != nil && ir.Nonce == nonce && ir.ExpireIn == life
		if accepted {
			stats["repeated (name,nonce), possibly looping: recorded (adopted)"]++
		} else {
			stats["repeated (name,nonce), possibly looping: dropped (adopted)"]++
		}
	} else {
		// A fresh nonce - or a nonce that only this face used, or that no face holds any more, and
		// that is not recorded as dead: a retransmission, not a loop. The face holds a pending
		// Interest from now until now + lifetime.
		if seenBefore {
			stats["repeated (name,nonce) that is no loop (own retransmission / nonce no longer held, not dead): must become pending"]++
		} else {
			stats["interest arrivals that must become pending"]++
		}
		if !r.dumpStale && (ir == nil || ir.ExpireIn < life) {
			what, left := "Interest with a fresh nonce", "no in-record at all"
			if seenBefore {
				what = "retransmission repeating a nonce that no other face holds and that is not recorded as dead"
			}
			if ir != nil {
				left = fmt.Sprintf("an in-record that expires in %s", ir.ExpireIn)
			}
			key := "Interest just received is not recorded with its lifetime: the PIT in-record of the arrival face is missing or expires earlier (white-box)"
			if seenBefore {
				key = "same-nonce retransmission is not recorded: the PIT in-record of the arrival face keeps the earlier, shorter deadline (white-box)"
			}
			v = append(v, viol("C01.each", key, fmt.Sprintf("%s %s from face %d with lifetime %s: afterwards the PIT holds %s for that face - the face holds a pending Interest until the lifetime of the Interest it sent last has elapsed, Data arriving after the in-record's end and before that moment would not be delivered", what, k, o.face, life, left)))
		}
	}
	if accepted {
		if e == nil {
			e = &entry{recs: map[uint64]*rec{}}
			r.pend[k] = e
		}
		rc := e.recs[o.face]
		if rc == nil {
			rc = &rec{}
			e.recs[o.face] = rc
		}
		rc.expiry = now.Add(life)
		rc.nonce = nonce
		ts := string(tok)
		found := false
		for _, x := range rc.tokens {
			if x == ts {
				found = true
			}
		}
		if !found {
			rc.tokens = append(rc.tokens, ts)
		}
	}
	r.gc(k)
	if e := r.pend[k]; e != nil {
		if dl := now.Add(life); dl.After(e.deadline) {
			e.deadline, e.dlTicks = dl, len(r.ticks)
		}
	}
	return
}

// attach: an Interest forwarded for entry k (incarnation e, nil = gone) left carrying token t.
func (r *ref) attach(t uint32, k recKey, e *entry) {
	r.issued[t] = k
	known := false
	for _, x := range r.attached[t] {
		if x == k {
			known = true
		}
	}
	if !known {
		r.attached[t] = append(r.attached[t], k)
	}
	if e != nil {
		tt := t
		e.fwdTok = &tt
	}
}

func (r *ref) gc(k recKey) {
	if e := r.pend[k]; e != nil && len(e.recs) == 0 {
		delete(r.pend, k)
	}
}

func (r *ref) allow(face uint64, tok string) {
	if r.allowed[face] == nil {
		r.allowed[face] = map[string]bool{}
	}
	r.allowed[face][tok] = true
}

func (r *ref) checkCacheAnswer(o *iOp, k recKey, tok []byte, ds []fwsim.Send) (v []report.Violation) {
	if !r.cache {
		v = append(v, viol("C01.cs", "Data emitted on Interest arrival although the cache is off", fmt.Sprintf("Interest %s on face %d: %s", k, o.face, sendsStr(ds))))
		return
	}
	if len(ds) > 1 {
		v = append(v, viol("C01.cs", "more than one Data emitted in answer to one Interest", fmt.Sprintf("Interest %s on face %d: %s", k, o.face, sendsStr(ds))))
	}
	for _, s := range ds {
		if s.Face != o.face {
			v = append(v, viol("C01.cs", "cache answer sent to a face other than the Interest's face", fmt.Sprintf("Interest %s arrived on face %d, cached Data went to face %d", k, o.face, s.Face)))
			continue
		}
		okTok := bytes.Equal(s.PitToken, tok) || (len(s.PitToken) == 0 && len(tok) == 0)
		if e := r.pend[k]; e != nil && !okTok {
			if rc := e.recs[o.face]; rc != nil {
				for _, t := range rc.tokens {
					if t == string(s.PitToken) {
						okTok = true
					}
				}
			}
		}
		if !okTok {
			v = append(v, viol("C01.cs", "cache answer carries a PIT token the face did not supply", fmt.Sprintf("Interest %s on face %d supplied token %s, cached Data carries %s", k, o.face, tokStr(tok), tokStr(s.PitToken))))
		}
		if !nameMatch(k, s.NameStr) {
			v = append(v, viol("C01.cs", "cache answer does not match the Interest name", fmt.Sprintf("Interest %s answered with cached Data %s", k, s.NameStr)))
		} else if !r.csWires[s.NameStr][string(s.Wire)] {
			v = append(v, viol("C01.bytes", "cache answer differs from every Data received under that name", fmt.Sprintf("Interest %s answered with %d bytes named %s that were never received", k, len(s.Wire), s.NameStr)))
		}
	}
	return
}

// ---- Data arrival ----

type cand struct {
	key  recKey
	face uint64
	rc   *rec
	must bool
	why  string // why only "may"
	// lapsed: the entry is past the lifetime of every Interest ever recorded in it and the reaper
	// has had its runs: the face holds no pending Interest, a copy is forbidden
	lapsed bool
}

func (r *ref) onData(in *inst, face uint64, name string, tok []byte, wire []byte, sends []fwsim.Send, now time.Time, repeat bool) (v []report.Violation) {
	var ds []fwsim.Send
	for _, s := range sends {
		if s.Kind == fwsim.KData {
			ds = append(ds, s)
		}
	}
	stats["data arrivals"]++
	if !in.sim.FaceRegistered(face) {
		// Data from an unknown face is delivered to nobody (and consumes nothing)
		stats["data arrivals from a destroyed face"]++
		if len(ds) > 0 {
			v = append(v, viol("C01.only", "a packet from a face that no longer exists caused a transmission", fmt.Sprintf("Data %s attributed to destroyed face %d: %s", name, face, sendsStr(ds))))
		}
		return
	}
	if scopeOf(face) == defn.NonLocal && isLocalhostStr(name) {
		stats["data arrivals rejected by scope"]++
		// C09: not accepted. Nothing arrives as far as C01 is concerned.
		if len(ds) > 0 {
			v = append(v, viol("C01.only", "scope-rejected Data was emitted", fmt.Sprintf("Data %s from non-local face %d must not be accepted (C09), yet %s", name, face, sendsStr(ds))))
		}
		return
	}
	if r.cache {
		if r.csWires[name] == nil {
			r.csWires[name] = map[string]bool{}
		}
		r.csWires[name][string(wire)] = true
	}
	// which pending Interests does it satisfy?
	var cands []cand
	tokClass := "no token"
	adopt := map[recKey]bool{} // consumption of non-must records follows the implementation
	matched := map[recKey]bool{}
	classify := func(k recKey, e *entry, sure bool) {
		matched[k] = true
		for f, rc := range e.recs {
			c := cand{key: k, face: f, rc: rc, must: sure}
			switch {
			case !sure:
				c.must, c.why = false, "token not attached to the currently pending Interest"
			case !in.sim.FaceRegistered(f):
				c.must, c.why = false, "face no longer exists"
			case f == face:
				c.must, c.why = false, "arrival face"
			case !now.Before(rc.expiry) && r.lapsed(e, now):
				c.must, c.lapsed, c.why = false, true, "every lifetime recorded in the entry elapsed, reaper ran"
			case !now.Before(rc.expiry):
				c.must, c.why = false, "own lifetime elapsed"
			case scopeOf(f) == defn.NonLocal && isLocalhostStr(name):
				c.must, c.why = false, "scope"
			}
			cands = append(cands, c)
		}
	}
	if th, t, ok := fwsim.IssuedToken(tok); ok && int(th) != in.sim.ThreadID() && !bytes.Equal(r.full[t], tok) {
		// six bytes, i.e. this forwarder's format, but not a token this forwarder (this thread)
		// attached to anything, whatever the last four bytes are: it echoes nothing, and the name
		// rule is reserved for Data that "carries no token in this forwarder's format"
		tokClass = "6-byte token naming another thread"
		_ = t
	} else if ok {
		tokClass = "token-addressed"
		// every pending Interest that was forwarded carrying this token (one entry in a correct
		// forwarder)
		for _, k := range r.attached[t] {
			if e := r.pend[k]; e != nil {
				sure := e.fwdTok != nil && *e.fwdTok == t
				if !sure {
					adopt[k] = true
				}
				classify(k, e, sure)
			}
		}
		if len(r.attached[t]) == 0 {
			tokClass = "foreign 6-byte token"
		}
	} else {
		if len(tok) > 0 {
			// (the exact bytes are in the detail; the class keeps one root cause under few keys)
			tokClass = "token shorter than 6 bytes (not this forwarder's format)"
			if len(tok) > 6 {
				tokClass = "token longer than 6 bytes (not this forwarder's format)"
			}
		}
		for k, e := range r.pend {
			if nameMatch(k, name) {
				classify(k, e, true)
			}
		}
	}
	matchClass := "no entry matches"
	if len(matched) == 1 {
		matchClass = "one entry matches"
	} else if len(matched) > 1 {
		matchClass = "several entries match"
	}
	ctx := tokClass + ", " + matchClass
	stats["data arrivals: "+ctx]++
	if len(adopt) > 0 {
		stats["data arrivals echoing a token not attached to the pending Interest (adopted)"]++
	}
	for _, c := range cands {
		if !c.lapsed {
			for _, t := range c.rc.tokens {
				r.allow(c.face, t)
			}
		}
		if c.must {
			stats["copies demanded (must)"]++
		} else if c.lapsed {
			stats["records allowed no copy (must-not): "+c.why]++
		} else {
			stats["records allowed 0 or 1 copy (may): "+c.why]++
		}
	}
	stats["copies observed"] += len(ds)
	hist := fmt.Sprintf("Data %s (token %s) arriving on face %d; reference pending: %s; sent: %s", name, tokStr(tok), face, r.pendStr(now), sendsStr(ds))

	// per face: assign sends to candidate records
	byFace := map[uint64][]fwsim.Send{}
	for _, s := range ds {
		byFace[s.Face] = append(byFace[s.Face], s)
		if !bytes.Equal(s.Wire, wire) {
			v = append(v, viol("C01.bytes", "forwarded Data differs from the received wire", fmt.Sprintf("face %d got %d bytes, received %d bytes; %s", s.Face, len(s.Wire), len(wire), hist)))
		}
	}
	candByFace := map[uint64][]cand{}
	lapsedByFace := map[uint64]int{}
	for _, c := range cands {
		if c.lapsed {
			lapsedByFace[c.face]++
			continue
		}
		candByFace[c.face] = append(candByFace[c.face], c)
	}
	faces := map[uint64]bool{}
	for f := range byFace {
		faces[f] = true
	}
	for f := range candByFace {
		faces[f] = true
	}
	fl := make([]uint64, 0, len(faces))
	for f := range faces {
		fl = append(fl, f)
	}
	sort.Slice(fl, func(a, b int) bool { return fl[a] < fl[b] })
	for _, f := range fl {
		ss, cs := byFace[f], candByFace[f]
		if len(cs) == 0 && lapsedByFace[f] > 0 {
			v = append(v, viol("C01.only", "copy sent to a face whose Interest expired: every lifetime recorded in the PIT entry elapsed and the reaper ran since ("+ctx+")", fmt.Sprintf("face %d received %d copies; %s", f, len(ss), hist)))
			continue
		}
		if len(cs) == 0 {
			v = append(v, viol("C01.only", "copy sent to a face holding no pending Interest the Data satisfies ("+ctx+")", fmt.Sprintf("face %d received %d copies; %s", f, len(ss), hist)))
			continue
		}
		nMust := 0
		for _, c := range cs {
			if c.must {
				nMust++
			}
		}
		if len(ss) > len(cs) {
			v = append(v, viol("C01.each", "more copies than pending Interests on a face ("+ctx+")", fmt.Sprintf("face %d holds %d pending Interests the Data satisfies but received %d copies; %s", f, len(cs), len(ss), hist)))
			continue
		}
		if len(ss) < nMust {
			v = append(v, viol("C01.each", "face with a pending Interest received no copy ("+ctx+")", fmt.Sprintf("face %d holds %d pending Interests that must be answered but received %d copies; %s", f, nMust, len(ss), hist)))
			continue
		}
		if !assign(ss, cs) {
			want := []string{}
			for _, c := range cs {
				t := []string{}
				for _, x := range c.rc.tokens {
					t = append(t, tokStr([]byte(x)))
				}
				want = append(want, fmt.Sprintf("%s:{%s}", c.key, strings.Join(t, ",")))
			}
			v = append(v, viol("C01.each", "copy carries a PIT token the face did not supply for that pending Interest ("+ctx+")", fmt.Sprintf("face %d: tokens supplied per pending Interest %v; %s", f, want, hist)))
		}
	}
	// consumption
	for k := range matched {
		e := r.pend[k]
		for f := range e.recs {
			if adopt[k] {
				if implRec(in.dump, k, f) != nil {
					continue // the implementation did not treat the token as matching: still pending
				}
			}
			delete(e.recs, f)
		}
		r.gc(k)
	}
	return
}

// assign: is there an injective assignment of sends to candidate records such that every must
// record gets a send and each send's token is one the record's face supplied?
func assign(ss []fwsim.Send, cs []cand) bool {
	used := make([]bool, len(cs))
	var rec func(i int) bool
	rec = func(i int) bool {
		if i == len(ss) {
			for j, c := range cs {
				if c.must && !used[j] {
					return false
				}
			}
			return true
		}
		for j, c := range cs {
			if used[j] {
				continue
			}
			ok := false
			for _, t := range c.rc.tokens {
				if t == string(ss[i].PitToken) {
					ok = true
				}
			}
			if !ok {
				continue
			}
			used[j] = true
			if rec(i + 1) {
				return true
			}
			used[j] = false
		}
		return false
	}
	return rec(0)
}

func (r *ref) pendStr(now time.Time) string {
	keys := make([]recKey, 0, len(r.pend))
	for k := range r.pend {
		keys = append(keys, k)
	}
	sort.Slice(keys, func(a, b int) bool { return keys[a].less(keys[b]) })
	var out []string
	for _, k := range keys {
		e := r.pend[k]
		fs := make([]uint64, 0, len(e.recs))
		for f := range e.recs {
			fs = append(fs, f)
		}
		sort.Slice(fs, func(a, b int) bool { return fs[a] < fs[b] })
		x := []string{}
		for _, f := range fs {
			rc := e.recs[f]
			t := []string{}
			for _, tk := range rc.tokens {
				t = append(t, tokStr([]byte(tk)))
			}
			x = append(x, fmt.Sprintf("f%d(%s left, tok %s)", f, rc.expiry.Sub(now), strings.Join(t, "|")))
		}
		out = append(out, fmt.Sprintf("{%s: %s}", k, strings.Join(x, " ")))
	}
	return "[" + strings.Join(out, " ") + "]"
}

// ---- reference vs white-box dump, after every step ----

func (r *ref) sync(in *inst) (v []report.Violation) {
	now := in.sim.Now()
	d := in.dump
	for k, e := range r.pend {
		for f, rc := range e.recs {
			if ir := implRec(d, k, f); ir != nil {
				if r.lapsed(e, now) {
					v = append(v, viol("C01.only", "PIT keeps an in-record after every Interest lifetime recorded in the entry elapsed and the reaper ran (white-box)", fmt.Sprintf("PIT entry %s still has an in-record for face %d (expires in %s) although the latest lifetime among all Interests that arrived for it elapsed %s ago and the reaper ran %d times since: a matching Data would be delivered to a face that holds no pending Interest", k, f, ir.ExpireIn, now.Sub(e.deadline), r.ticksSince(e))))
				}
				continue
			}
			if !now.Before(rc.expiry) {
				delete(e.recs, f) // lifetime elapsed and the forwarder dropped it: no longer pending
				continue
			}
			v = append(v, viol("C01.each", "pending Interest missing from the PIT (white-box)", fmt.Sprintf("face %d has an unexpired (%s left), unsatisfied Interest %s but the PIT holds no in-record for it: a matching Data would not be delivered", f, rc.expiry.Sub(now), k)))
			delete(e.recs, f)
		}
		r.gc(k)
	}
	for i := range d.Pit {
		e := &d.Pit[i]
		if e.Hint != "" {
			continue
		}
		k := recKey{e.Name, e.CanBePrefix, e.MustBeFresh}
		for _, ir := range e.In {
			if re := r.pend[k]; re != nil && re.recs[ir.Face] != nil {
				continue
			}
			v = append(v, viol("C01.only", "PIT holds an in-record for a face without pending Interest (white-box)", fmt.Sprintf("PIT entry %s has an in-record for face %d (expires in %s) although that face's Interest was satisfied, rejected or never sent: a matching Data would be delivered there", k, ir.Face, ir.ExpireIn)))
		}
	}
	// dead-nonce status of the last nonce of every name (part of the canonical state)
	for n, nonce := range r.lastNonce {
		if in.sim.DnlHas(fwsim.Name(n), nonce) {
			if _, ok := r.deadSince[n]; !ok {
				r.deadSince[n] = now
			}
		} else {
			delete(r.deadSince, n)
		}
	}
	if r.trackOwn {
		for ok, nonce := range r.lastOwn {
			n := ok[strings.Index(ok, "|")+1:]
			if in.sim.DnlHas(fwsim.Name(n), nonce) {
				if _, was := r.deadOwn[ok]; !was {
					r.deadOwn[ok] = now
				}
			} else {
				delete(r.deadOwn, ok)
			}
		}
	}
	return
}
