//go:build verif

package table

import "sort"

// VerifFibRow2 is one installed entry list keyed by the prefix hash (read-only dump for the
// component-level search of C19; cheaper than VerifDump: no name formatting).
type VerifFibRow2 struct {
	NameH   uint64
	Named   bool // Fib.names has the name of this hash
	Entries []FibEntry
}

func (fib *Fib) VerifRows() []VerifFibRow2 {
	out := make([]VerifFibRow2, 0, len(fib.prefixes))
	for h, es := range fib.prefixes {
		_, ok := fib.names[h]
		out = append(out, VerifFibRow2{NameH: h, Named: ok, Entries: es})
	}
	sort.Slice(out, func(i, j int) bool { return out[i].NameH < out[j].NameH })
	return out
}

// VerifNamesLen: size of the hash -> name table (entries must go away with their prefixes).
func (fib *Fib) VerifNamesLen() int { return len(fib.names) }
