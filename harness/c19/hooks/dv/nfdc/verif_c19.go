//go:build verif

package nfdc

// VerifQueueCap is the capacity of the command queue between the routing daemon and its management
// goroutine (a literal in NewNfdMgmtThread, so it is read from the live object, not from a constant).
func (m *NfdMgmtThread) VerifQueueCap() int { return cap(m.channel) }

// VerifQueueLen is the number of commands currently queued (read-only).
func (m *NfdMgmtThread) VerifQueueLen() int { return len(m.channel) }
