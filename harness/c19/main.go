// C19: (A) the routes the DV daemon holds registered in the forwarder mirror its tables after
// every sequence of table changes; (B) what peers reconstruct from a router's prefix operation
// log equals that router's announced set.
//
// Same simulation as C18 (N real dv.Router objects, harness engine / task queue / clock), started
// from the converged state of a small topology, plus prefix, face and fault events. After EVERY
// transition the nfdc command queue of every router is drained and replayed into a reference
// route table keyed (name, face), which is compared with a from-scratch computation from the
// router's current RIB x neighbour table x prefix table (C19.mirror, C19.cmd); every peer's
// reconstructed prefix set is compared with the publisher's announced set at the log position the
// peer has reached (C19.log); a closure of sync + fetch steps with no further publisher operation
// must reach the end of every reachable publisher's log (C19.progress).
//
// Component level (fibunit.go, fiblarge.go, localbfs.go, component.go): the installer (real
// table.Fib + nfdc queue) is also searched on its own, in the parent process, over exhaustive
// next-hop list universes and over passes larger than the command queue (C19.mirror, C19.cmd).
package main

import (
	"fmt"
	"os"
	"runtime/debug"
	"strings"
	"time"

	"verif/harness/dvsim"
	"verif/mc/explore"
	"verif/mc/report"
	"verif/shim/vsched"
)

type cfgDef struct {
	graph        string
	downFirst    [][2]int         // links that are down in the initial state (late joiners)
	prefixes     map[int][]string // router -> prefixes it may announce / withdraw
	routerPrefix string           // router name prefix (default /ndn: two-component router names)
	announced    bool             // the prefixes are already announced and propagated in the initial state
	faces        [][2]int         // directed (i,j): i may hear j on an alternate face
	passive      [][2]int         // directed (i,j): i hears j's regular sync Interests under the passive prefix
	faults       [][2]int         // links that may fail and come back
	restarts     []int            // routers that may stop and restart
	burstAt      int              // router that may publish a burst of operations on /p3 (-1: none)
	bursts       []int
	failFetch    bool  // fetch-timeout deviation
	failMgmt     []int // routers whose forwarder may reject one management command (deviation Fm)
	exchange     bool  // X(i<j) events in the alphabet
	// holds: task-delay deviations. One operation per history runs with the tasks spawned from one
	// `go` statement site (and everything queued behind them or spawned later in that operation)
	// held back: Xh(i<j) the ribUpdate spawned by advertDataHandler (advertisement stored, not yet
	// processed), Xr(i<j) the fibUpdate/notify/prefix-fetch closure spawned by ribUpdate (RIB changed,
	// routes not yet), Dh(i) the fibUpdate closure spawned by checkDeadNeighbors (neighbour removed,
	// routes not yet), Fsh(i<d) the fibUpdate spawned by processPrefixData (prefix table changed,
	// routes not yet), Fah/Fbh(i<j) the fibUpdate and advertisement fetch spawned by
	// advertSyncOnInterest (neighbour face changed, routes not yet). Whatever events follow (exchanges, faults, dead checks, prefix operations),
	// the held tasks run only at the default event Rl, or at DcR(i): they race checkDeadNeighbors
	// for dv.mutex. The mirror clause is evaluated when nothing is held.
	holds bool
	// lateUp: links that are down while the network converges and come up just before the initial
	// state, with only their two end points having exchanged advertisements: the other routers have
	// not yet fetched their neighbours' newest advertisement (a non-fresh initial state)
	lateUp [][2]int
	dq, dt int // depth quick / thorough
	dev    int // deviation bound (faults, restarts, bursts, fetch failures)
}

var defs = map[string]cfgDef{
	// installer: line r0 - r1 - r2, /p1 multi-homed at r0 and r2, /p2 at r2; r1 may hear r2 on another face
	"mirror-line3": {graph: "n3:01-12", prefixes: map[int][]string{0: {"/p1"}, 2: {"/p1", "/p2"}}, faces: [][2]int{{1, 2}}, passive: [][2]int{{1, 2}},
		faults: [][2]int{{1, 2}}, burstAt: -1, exchange: true, dq: 6, dt: 8, dev: 2},
	// installer: triangle, /p1 at r1 and r2: r0 has equal-cost exits, second-best hops, cost changes on faults
	"mirror-tri": {graph: "n3:01-02-12", prefixes: map[int][]string{1: {"/p1"}, 2: {"/p1"}}, faces: [][2]int{{0, 1}},
		faults: [][2]int{{0, 1}, {1, 2}}, burstAt: -1, exchange: true, dq: 6, dt: 8, dev: 2},
	// installer: square, r2 opposite of r0 (two equal-cost faces), fault and router restart
	"mirror-square": {graph: "n4:01-03-12-23", prefixes: map[int][]string{2: {"/p1"}, 1: {"/p1"}}, faults: [][2]int{{0, 1}, {2, 3}},
		restarts: []int{2}, burstAt: -1, exchange: true, dq: 5, dt: 7, dev: 2},
	// installer: star, observer = hub r0, three single-path routers, three two-homed prefixes that
	// pairwise share one exit router (r1:{p1,p2} r2:{p1,p3} r3:{p2,p3}), announced in the initial state
	"mirror-star3": {graph: "n4:01-02-03", prefixes: map[int][]string{1: {"/p1", "/p2"}, 2: {"/p1", "/p3"}, 3: {"/p2", "/p3"}}, announced: true,
		faults: [][2]int{{0, 1}}, burstAt: -1, exchange: true, dq: 4, dt: 6, dev: 2},
	// installer: diamond, observer r0 with three neighbours; r1 is reached directly and at equal
	// second-best cost over r2 and r3 (tie on the second-best hop); links 1-2 / 1-3 may fail
	"mirror-diamond": {graph: "n4:01-02-03-12-13", prefixes: map[int][]string{1: {"/p1"}}, announced: true,
		faults: [][2]int{{1, 2}, {1, 3}}, burstAt: -1, exchange: true, dq: 4, dt: 6, dev: 2},
	// installer: kite, observer r0 - r1 - {r2, r3} plus the direct link r0 - r3; /p1 multi-homed at r2
	// and r3, which sit at the same distance behind r1: when the direct link fails (and the dead
	// neighbour is removed) or comes back, r3 moves between its own face and the face r2 is behind,
	// so the next-hop list handed to the installer holds the same (face, cost) more than once
	"mirror-kite": {graph: "n4:01-03-12-13", prefixes: map[int][]string{2: {"/p1"}, 3: {"/p1"}}, announced: true,
		faults: [][2]int{{0, 3}}, burstAt: -1, exchange: true, dq: 4, dt: 6, dev: 2},
	// installer under a failing forwarder: publisher r0 (/p1 announced), observer r1; the forwarder
	// of r1 rejects one rib command (deviation Fm(1,k): the (k+1)-th next one); retries that the
	// management thread defers run when time passes (Tk)
	"mirror-retry": {graph: "n2:01", prefixes: map[int][]string{0: {"/p1"}}, announced: true, failMgmt: []int{1}, burstAt: -1, dq: 8, dt: 10, dev: 2},
	// installer under delayed tasks: line r0 - r1 - r2 whose link 1-2 came up just before the initial
	// state (r0 has not yet fetched r1's newest advertisement), /p1 announced at r2; one operation per
	// history runs with the tasks of one go-statement site held back (Xh, Xr, Dh, Fh) past arbitrary
	// later events (link 0-1 failing, dead checks, prefix operations) until Rl / DcR
	"mirror-hold": {graph: "n3:01-12", lateUp: [][2]int{{1, 2}}, prefixes: map[int][]string{2: {"/p1"}}, announced: true, faces: [][2]int{{0, 1}},
		faults: [][2]int{{0, 1}}, burstAt: -1, exchange: true, holds: true, dq: 5, dt: 7, dev: 2},
	// installer, boundary names of the announced-prefix universe: r1 announces / withdraws the
	// zero-component default prefix "/", the network name (a prefix of every router name), its own
	// router name and its own routing prefix (the name the installer derives itself for r1); observer
	// r0 hears r1 on either face, the link may fail (everything of r1 has to go)
	"mirror-names": {graph: "n2:01", prefixes: map[int][]string{1: {"/", "/ndn", "/ndn/r1", "/ndn/r1/32=DV"}}, faces: [][2]int{{0, 1}},
		faults: [][2]int{{0, 1}}, burstAt: -1, exchange: true, dq: 5, dt: 7, dev: 2},
	// boundary names across routers: line r0 - r1 - r2; "/" multi-homed at r1 and r2 (both behind the
	// same face of r0, at different costs); r2 also announces r1's routing prefix (the name the
	// installer derives for r1 collides with a prefix announced by another router) and r0's own
	"mirror-names3": {graph: "n3:01-12", prefixes: map[int][]string{1: {"/"}, 2: {"/", "/ndn/r1/32=DV", "/ndn/r0/32=DV"}},
		faults: [][2]int{{1, 2}}, burstAt: -1, exchange: true, dq: 4, dt: 6, dev: 2},
	// log: publisher r1, peer r0; bursts across the snapshot threshold; failing fetches; publisher restart
	"log-pair": {graph: "n2:01", routerPrefix: "/ndn/site/dept", prefixes: map[int][]string{1: {"/p1", "/p2"}}, burstAt: 1, bursts: []int{98, 99, 100, 101},
		restarts: []int{1}, failFetch: true, dq: 7, dt: 9, dev: 2},
	// log: publisher r0, peer r1, late joiner r2 (link 1-2 down at first)
	"log-join": {graph: "n3:01-12", downFirst: [][2]int{{1, 2}}, prefixes: map[int][]string{0: {"/p1", "/p2"}}, faults: [][2]int{{1, 2}},
		burstAt: 0, bursts: []int{101}, exchange: true, dq: 7, dt: 9, dev: 2},
}

type sys struct {
	name     string
	d        cfgDef
	g        dvsim.Graph
	m        *dvsim.Machine
	opsCache map[string][]explore.Op
}

func (y *sys) initSim(s *dvsim.Sim) {
	for _, ps := range y.d.prefixes {
		for _, p := range ps {
			s.Universe[p] = true
		}
	}
	s.Universe["/p3"] = true
	for _, e := range y.d.passive {
		s.Passive[e] = true
	}
	for _, e := range y.d.downFirst {
		s.LinkDown(e[0], e[1])
	}
	for _, e := range y.d.lateUp {
		s.LinkDown(e[0], e[1])
	}
	// converge: round-robin exchanges, then prefix sync
	for round := 0; round < 40; round++ {
		for a := 0; a < s.G.N; a++ {
			for b := 0; b < s.G.N; b++ {
				if a != b && s.LinkLive(a, b) {
					s.Exchange(a, b)
					s.EndOp()
				}
			}
		}
		if q, _ := s.RoutingQuiescent(); q {
			break
		}
	}
	if q, why := s.RoutingQuiescent(); !q {
		report.Fatal("C19 %s: initial convergence failed: %s", y.name, why)
	}
	if y.d.announced {
		for r := 0; r < s.G.N; r++ {
			for _, p := range y.d.prefixes[r] {
				s.Readvertise(r, p, true)
				s.EndOp()
			}
		}
	}
	for _, e := range y.d.lateUp {
		s.LinkUp(e[0], e[1])
		for k := 0; k < 3; k++ {
			s.Exchange(e[k%2], e[1-k%2])
			s.EndOp()
		}
	}
	s.CheckProgress(50) // a failure here is reported by the closure check of the first transitions
}

func (y *sys) New() any { return y.m.New() }

func (y *sys) Ops(i any) []explore.Op {
	l := i.(*dvsim.Lazy)
	key := l.Key()
	if ops, ok := y.opsCache[key]; ok {
		return ops
	}
	ops := y.ops(l.Sim())
	l.Checkpoint()
	if len(y.opsCache) > 50000 {
		y.opsCache = map[string][]explore.Op{}
	}
	y.opsCache[key] = ops
	return ops
}

func (y *sys) ops(s *dvsim.Sim) []explore.Op {
	var ops []explore.Op
	add := func(dev bool, f string, a ...any) {
		ops = append(ops, explore.Op{Name: fmt.Sprintf(f, a...), Dev: dev})
	}
	n := s.G.N
	for r := 0; r < n; r++ {
		if !s.Nodes[r].Up {
			continue
		}
		for _, p := range y.d.prefixes[r] {
			add(false, "An(%d,%s)", r, p)
			add(false, "Wd(%d,%s)", r, p)
		}
	}
	for a := 0; a < n; a++ {
		if s.Nodes[a].Up {
			add(false, "Sy(%d)", a)
		}
	}
	for a := 0; a < n; a++ {
		if s.Nodes[a].Up {
			for _, d := range s.PfxTargets(a) {
				add(false, "Fs(%d<%d)", a, d)
			}
		}
	}
	if y.d.exchange {
		sn := s.Snap()
		for a := 0; a < n; a++ {
			for b := 0; b < n; b++ {
				// an exchange that brings nothing new maps the state to itself: not generated
				if a != b && s.LinkLive(a, b) && !sn.Fresh(a, b) {
					add(false, "X(%d<%d)", a, b)
				}
			}
		}
	}
	for _, f := range y.d.faces {
		if s.LinkLive(f[0], f[1]) {
			if !s.Alt[f] {
				add(false, "Fa(%d<%d)", f[0], f[1])
			} else {
				add(false, "Fb(%d<%d)", f[0], f[1])
			}
			add(false, "Fp(%d<%d)", f[0], f[1])
			if s.Passive[f] {
				add(false, "Fx(%d<%d)", f[0], f[1])
			}
		}
	}
	for a := 0; a < n; a++ {
		if s.Nodes[a].Up && s.HasSilentNeighbor(a) {
			add(false, "Dc(%d)", a)
		}
	}
	if y.d.holds {
		if len(s.Held) > 0 {
			add(false, "Rl")
			for a := 0; a < n; a++ {
				if s.Nodes[a].Up && s.HasSilentNeighbor(a) && s.HeldAt(a) {
					add(false, "DcR(%d)", a)
				}
			}
		} else {
			sn := s.Snap()
			for a := 0; a < n; a++ {
				for b := 0; b < n; b++ {
					if a != b && s.LinkLive(a, b) && !sn.Fresh(a, b) {
						add(true, "Xh(%d<%d)", a, b)
						add(true, "Xr(%d<%d)", a, b)
					}
				}
			}
			for a := 0; a < n; a++ {
				if s.Nodes[a].Up && s.HasSilentNeighbor(a) {
					add(true, "Dh(%d)", a)
				}
			}
			for a := 0; a < n; a++ {
				if s.Nodes[a].Up {
					for _, d := range s.PfxTargets(a) {
						add(true, "Fsh(%d<%d)", a, d)
					}
				}
			}
			for _, f := range y.d.faces {
				if s.LinkLive(f[0], f[1]) {
					if !s.Alt[f] {
						add(true, "Fah(%d<%d)", f[0], f[1])
					} else {
						add(true, "Fbh(%d<%d)", f[0], f[1])
					}
				}
			}
		}
	}
	for _, e := range y.d.faults {
		if !s.Nodes[e[0]].Up || !s.Nodes[e[1]].Up {
			continue
		}
		if s.Live[e] {
			add(true, "LD(%d,%d)", e[0], e[1])
		} else {
			add(true, "LU(%d,%d)", e[0], e[1])
		}
	}
	for _, r := range y.d.restarts {
		if s.Nodes[r].Up {
			add(true, "RD(%d)", r)
		} else {
			add(true, "RU(%d)", r)
		}
	}
	if y.d.failFetch {
		for a := 0; a < n; a++ {
			if s.Nodes[a].Up {
				for _, d := range s.PfxTargets(a) {
					add(true, "Ft(%d<%d)", a, d)
				}
			}
		}
	}
	maxFails := 1
	if os.Getenv("VERIF_TIER") == "thorough" {
		maxFails = 2
	}
	for _, r := range y.d.failMgmt {
		if s.Nodes[r].Up && !s.MgmtFailureArmed(r) && s.MgmtFailures() < maxFails {
			for k := 0; k < 3; k++ {
				add(true, "Fm(%d,%d)", r, k)
			}
		}
	}
	if s.TimersPending() {
		add(false, "Tk")
	}
	if y.d.burstAt >= 0 && s.Nodes[y.d.burstAt].Up {
		for _, k := range y.d.bursts {
			add(true, "Bu(%d,%d)", y.d.burstAt, k)
		}
	}
	return ops
}

func applyOp(s *dvsim.Sim, nm string) {
	var a, b, k int
	var p string
	switch {
	case strings.HasPrefix(nm, "An("):
		fmt.Sscanf(strings.TrimSuffix(nm, ")"), "An(%d,%s", &a, &p)
		s.Readvertise(a, p, true)
	case strings.HasPrefix(nm, "Wd("):
		fmt.Sscanf(strings.TrimSuffix(nm, ")"), "Wd(%d,%s", &a, &p)
		s.Readvertise(a, p, false)
	case strings.HasPrefix(nm, "Bu("):
		fmt.Sscanf(nm, "Bu(%d,%d)", &a, &k)
		for x := 0; x < k; x++ {
			s.Readvertise(a, "/p3", x%2 == 0)
		}
	case strings.HasPrefix(nm, "Fm("):
		fmt.Sscanf(nm, "Fm(%d,%d)", &a, &k)
		s.ArmMgmtFailure(a, k)
	case nm == "Tk":
		s.AdvanceClock(200 * time.Millisecond) // deferred retries of management commands fire
	case strings.HasPrefix(nm, "Sy("):
		fmt.Sscanf(nm, "Sy(%d)", &a)
		s.PfxSync(a)
	case strings.HasPrefix(nm, "Fs("):
		fmt.Sscanf(nm, "Fs(%d<%d)", &a, &b)
		s.PfxFetchStep(a, b, false)
	case strings.HasPrefix(nm, "Ft("):
		fmt.Sscanf(nm, "Ft(%d<%d)", &a, &b)
		s.PfxFetchStep(a, b, true)
	case strings.HasPrefix(nm, "X("):
		fmt.Sscanf(nm, "X(%d<%d)", &a, &b)
		if s.LinkLive(a, b) {
			s.Exchange(a, b)
		}
	case strings.HasPrefix(nm, "Xh("), strings.HasPrefix(nm, "Xr("):
		// the exchange with the tasks spawned by advertDataHandler (Xh: the ribUpdate for the stored
		// advertisement) / by ribUpdate (Xr: fibUpdate, notification, prefix fetches) held back
		fmt.Sscanf(nm[2:], "(%d<%d)", &a, &b)
		if s.LinkLive(a, b) && len(s.Held) == 0 {
			if nm[1] == 'h' {
				s.HoldBefore("advertDataHandler", nm)
				s.HeldNbr = b
			} else {
				s.HoldBefore(".ribUpdate", nm)
			}
			s.Exchange(a, b)
		}
	case strings.HasPrefix(nm, "Dh("):
		// the dead-neighbour check with the fibUpdate it spawns held back
		fmt.Sscanf(nm, "Dh(%d)", &a)
		if len(s.Held) == 0 {
			s.HoldBefore("checkDeadNeighbors", nm)
		}
		s.DeadCheck(a)
	case strings.HasPrefix(nm, "Fah("), strings.HasPrefix(nm, "Fbh("):
		// the neighbour is heard on the other face; the tasks spawned by advertSyncOnInterest held back
		fmt.Sscanf(nm[3:], "(%d<%d)", &a, &b)
		if len(s.Held) == 0 {
			s.HoldBefore("advertSyncOnInterest", nm)
		}
		if nm[1] == 'a' {
			s.Alt[[2]int{a, b}] = true
		} else {
			delete(s.Alt, [2]int{a, b})
		}
		s.Ping(a, b, !s.Passive[[2]int{a, b}])
	case strings.HasPrefix(nm, "Fsh("):
		// prefix data applied to the prefix table, the fibUpdate spawned for it held back
		fmt.Sscanf(nm, "Fsh(%d<%d)", &a, &b)
		if len(s.Held) == 0 {
			s.HoldBefore("processPrefixData", nm)
		}
		s.PfxFetchStep(a, b, false)
	case nm == "Rl":
		s.Release()
	case strings.HasPrefix(nm, "DcR("):
		fmt.Sscanf(nm, "DcR(%d)", &a)
		s.DeadCheckRace(a)
	case strings.HasPrefix(nm, "Fa("):
		fmt.Sscanf(nm, "Fa(%d<%d)", &a, &b)
		s.Alt[[2]int{a, b}] = true
		s.Ping(a, b, !s.Passive[[2]int{a, b}])
	case strings.HasPrefix(nm, "Fb("):
		fmt.Sscanf(nm, "Fb(%d<%d)", &a, &b)
		delete(s.Alt, [2]int{a, b})
		s.Ping(a, b, !s.Passive[[2]int{a, b}])
	case strings.HasPrefix(nm, "Fp("), strings.HasPrefix(nm, "Fx("):
		// a passive (Fp) / active (Fx) sync Interest of b reaches a over the face that is NOT the
		// one b's regular sync Interests arrive on
		active := nm[1] == 'x'
		fmt.Sscanf(nm[2:], "(%d<%d)", &a, &b)
		was := s.Alt[[2]int{a, b}]
		if was {
			delete(s.Alt, [2]int{a, b})
		} else {
			s.Alt[[2]int{a, b}] = true
		}
		s.Ping(a, b, active)
		if was {
			s.Alt[[2]int{a, b}] = true
		} else {
			delete(s.Alt, [2]int{a, b})
		}
	case strings.HasPrefix(nm, "Dc("):
		fmt.Sscanf(nm, "Dc(%d)", &a)
		s.DeadCheck(a)
	case strings.HasPrefix(nm, "LD("):
		fmt.Sscanf(nm, "LD(%d,%d)", &a, &b)
		s.LinkDown(a, b)
	case strings.HasPrefix(nm, "LU("):
		fmt.Sscanf(nm, "LU(%d,%d)", &a, &b)
		s.LinkUp(a, b)
	case strings.HasPrefix(nm, "RD("):
		fmt.Sscanf(nm, "RD(%d)", &a)
		if s.Nodes[a].Up {
			s.RouterDown(a)
		}
	case strings.HasPrefix(nm, "RU("):
		fmt.Sscanf(nm, "RU(%d)", &a)
		if !s.Nodes[a].Up {
			s.RouterUp(a)
		}
	default:
		panic("unknown op " + nm)
	}
	s.EndOp()
	if os.Getenv("VERIF_C19_TRACE") != "" { // development aid: what an operation left held / parked
		fmt.Fprintf(os.Stderr, "C19 trace: %s -> held=%d timers=%v\n", nm, len(s.Held), s.TimersPending())
	}
}

func (y *sys) Do(i any, op explore.Op) { i.(*dvsim.Lazy).Do(op.Name) }

func (y *sys) Canon(i any) string {
	l := i.(*dvsim.Lazy)
	if l.Canon == "" {
		sn := l.Sim().Snap()
		l.Canon = sn.CanonRouting() + sn.CanonPrefix()
	}
	return l.Canon
}

func toViolations(fs []dvsim.Finding, seen map[string]bool) (v []report.Violation) {
	for _, f := range fs {
		if !seen[f.Clause+f.Key] {
			seen[f.Clause+f.Key] = true
			v = append(v, report.Violation{Clause: f.Clause, Key: f.Key, Detail: f.Detail})
		}
	}
	return
}

func (y *sys) Apply(i any, op explore.Op) []report.Violation {
	l := i.(*dvsim.Lazy)
	l.Do(op.Name)
	s := l.Sim()
	var v []report.Violation
	for _, p := range s.Problems {
		v = append(v, report.Violation{Clause: "C19.quiesce", Key: strings.SplitN(p, " after ", 2)[0], Detail: p})
	}
	// Histories that are not reproducible on re-execution (Go map order leaking into the tables of
	// the code under test) are not a C19 matter by themselves: the state at hand is a real execution
	// and is checked like any other.
	y.m.Nondet = nil
	seen := map[string]bool{}
	sn := s.Snap()
	if !s.TimersPending() && len(s.Held) == 0 { // the mirror clause speaks about the routes held once retries and spawned tasks have run
		v = append(v, toViolations(sn.CheckMirror(), seen)...)
	}
	v = append(v, toViolations(sn.CheckLog(), seen)...)
	l.Canon = sn.CanonRouting() + sn.CanonPrefix()
	return v
}

// CheckState: closure for C19.progress (and the mirror / log clauses once more at the end of it).
func (y *sys) CheckState(i any) []report.Violation {
	l := i.(*dvsim.Lazy)
	s := l.Sim()
	seen := map[string]bool{}
	if len(s.Held) > 0 {
		s.Release() // a fair schedule does not delay a task for ever
		s.EndOp()
	}
	v := toViolations(s.CheckProgress(400), seen)
	s.RunTimers() // deferred retries of management commands
	v = append(v, toViolations(s.Snap().CheckMirror(), seen)...)
	l.Invalidate()
	return v
}

func build(cfg string) explore.System {
	if y := buildLocal(cfg, os.Getenv("VERIF_TIER") == "thorough"); y != nil {
		return y // component-level configurations (searched in the parent process; built here for --replay)
	}
	d, ok := defs[cfg]
	if !ok {
		report.Fatal("unknown config %q", cfg)
	}
	g, err := dvsim.ParseGraph(d.graph)
	if err != nil {
		report.Fatal("%v", err)
	}
	y := &sys{name: cfg, d: d, g: g, opsCache: map[string][]explore.Op{}}
	if d.holds {
		vsched.RecordSites = true // the hold deviations cut the task queue by spawning site
	}
	y.m = dvsim.NewMachineOpt(g, y.initSim, applyOp, dvsim.Options{RouterPrefix: d.routerPrefix}, "C19|"+cfg)
	y.m.Probe(func(s *dvsim.Sim) []string {
		var def, dev []string
		for _, o := range y.ops(s) {
			if strings.HasPrefix(o.Name, "Bu(") {
				continue
			}
			if o.Dev {
				dev = append(dev, o.Name)
			} else {
				def = append(def, o.Name)
			}
		}
		return append(def, dev...)
	}, 6)
	return y
}

func main() {
	debug.SetGCPercent(400)
	if _, w := explore.IsWorker(); !w {
		dvsim.ResetFallbackDir("C19")
	}
	// cheapest first, the two most expensive configurations last: the budget is shared evenly over the configurations
	// still to run, so on a loaded machine they get whatever the cheap ones did not need
	order := []string{"mirror-diamond", "mirror-kite", "mirror-retry", "mirror-hold", "mirror-names", "mirror-names3", "mirror-star3", "mirror-tri", "mirror-square", "log-pair", "mirror-line3", "log-join"}
	explore.Main(explore.Spec{
		ID: "C19", PanicClause: "C19.panic", Build: build,
		Configs: func(th bool) []explore.Config {
			var c []explore.Config
			if only := os.Getenv("VERIF_C19_ONLY"); only != "" {
				order = strings.Split(only, ";") // development aid
			}
			for _, n := range order {
				d, ok := defs[n]
				if !ok {
					continue // a component-level configuration (component.go)
				}
				depth := d.dq
				if th {
					depth = d.dt
				}
				c = append(c, explore.Config{Name: n, MaxDepth: depth, MaxDev: d.dev})
			}
			return c
		},
		Budget: func(th bool) time.Duration {
			if v, err := time.ParseDuration(os.Getenv("VERIF_DV_BUDGET")); err == nil && v > 0 {
				return v // development aid
			}
			if th {
				return 25 * time.Minute
			}
			return 100 * time.Second
		},
		Rule: "BFS over histories of prefix announce/withdraw/burst, prefix sync, prefix fetch (success/timeout), advertisement exchange, neighbour face change (active/passive), link failure/repair + dead-neighbour check and router restart on real dv.Router objects, from the converged state of 12 small configurations (one of them with a multi-homed prefix whose two announcers sit behind the same face at the same cost; two whose announced-prefix universe consists of boundary names: the zero-component prefix \"/\", the network name, the announcer's router name, routing prefixes of the announcer / another router / the observer; one that starts from a non-fresh state and delays the tasks of one go-statement site - advertDataHandler, ribUpdate, checkDeadNeighbors, processPrefixData, advertSyncOnInterest - of one operation per history past arbitrary later events until a release event or a race with the dead-neighbour check); after every transition: drained nfdc command stream replayed into a (name,face) route table vs from-scratch computation from the current tables; peers' reconstructed prefix sets vs publisher's set at the peer's log position; closure of sync+fetch steps must reach the end of the log; PLUS component level (in-process BFS on the real table.Fib + nfdc queue, driven as Router.fibUpdate drives them: UnmarkAll, UpdateH/MarkH per name, RemoveUnmarked): every pass history to a fixpoint over exhaustive next-hop list universes (raw lists of <= 3 entries over 3 faces x costs {1,2,infinity}; concatenations of <= 2 (best, second-best) pairs, duplicates included), the same without state merging to depth 3/4 passes, and passes that change more routes than the command queue holds with the real management loop in a goroutine and the slowest admissible forwarder",
		Extra: func(rep *report.Reporter, cov report.Coverage) {
			cov["configs_computed_by_plain_reexecution_after_restore_mismatch"] = dvsim.FallbackConfigs("C19")
			runComponentLevel(rep, cov)
		},
		Assumptions: []string{
			"harness network: prefix sync state vectors and prefix data Interests reach any router connected over live links; a fetch for an unreachable or stopped router times out",
			"tasks spawned by one event run to quiescence in FIFO order before the next event, except in mirror-hold, where ONE operation per history (deviation) runs with the tasks spawned from one go-statement site (the ribUpdate of advertDataHandler; the fibUpdate/notify/fetch closure of ribUpdate; the fibUpdate closure of checkDeadNeighbors; the fibUpdate of processPrefixData; the fetch and fibUpdate of advertSyncOnInterest) and everything queued behind them held back past arbitrary later events until the event Rl, or DcR (the held tasks race checkDeadNeighbors for dv.mutex with real goroutines: pre-lock part, dead check, rest); other preemption points and other task orders are not modelled; the mirror clause is evaluated at quiescence (nothing queued, nothing held), and the closure releases held tasks first",
			"the publisher model (announced set per sequence number) is read from the publisher's own prefix table right after each readvertise command returns",
			"a restarted router boots with a millisecond clock more than 100 beyond every prefix sequence number of its previous incarnation",
			"equal canonical state (C18 routing canon + prefix tables with log positions as saturated distances, installed entries, reference routes, parked fetches, unfetched log suffix) implies equal futures; SvSync suppression state is not part of it (it only gates the emission of Sync Interests, which are harness events)",
			"the route table is replayed from the commands the REAL nfdc management loop (NfdMgmtThread.Start, one real goroutine per router, synchronised by a barrier command after every event) hands to the engine's ExecMgmtCmd, not from the queue contents",
			"where per-neighbour costs tie, every tied neighbour is accepted as best / second-best next hop; the from-scratch computation uses the per-neighbour costs of the RIB entries, not their stored next-hop fields",
			"the forwarder accepts every management command except under the deviation Fm (one rib command of one router rejected once; quick: <= 1 per history, thorough: <= 2); the mirror clause is evaluated when no retry timer of the code under test is pending (virtual time is advanced until they have run)",
			"router names have two components (/ndn/rN) except in log-pair (/ndn/site/dept/rN); announced prefixes are /p1../p3 except in mirror-names / mirror-names3 (\"/\", /ndn, /ndn/r1, /ndn/rN/32=DV) and fib-steps-names (\"/\", a name with one empty component, a two-component name)",
			"component level (fib-*): the installer is driven with the call sequence of Router.fibUpdate (UnmarkAll; once per name of the desired map: UpdateH, MarkH if it returned true; RemoveUnmarked); the mirror clause is evaluated at the end of each pass (the pass runs under the router mutex), against the lists of that pass alone; the canonical state leaves out the private previous-cost field (overwritten before it is read by the next UpdateH) - audited by fib-steps-prevcost, which includes it, and by the searches without state merging",
			"component level, small universes: the commands are taken from the queue without the management goroutine (VerifDrain); fib-large runs the real NfdMgmtThread.Start in a goroutine on a harness engine that holds the first command of a pass until the goroutine running the pass is blocked on the queue (runtime.Stack state 'chan send' / 'select') or the pass has returned - a forced schedule, no wall-clock oracle (two wall-clock hang guards of 30 s / 60 s exist; their trips are counted in the evidence and are 0); the queue capacity is a literal in NewNfdMgmtThread, so it is read from the live object (cap of the channel) and the table is sized capacity + 9 names",
			"successor states are computed by restoring saved table contents into the live router objects and executing one operation; restores are cross-checked against plain re-execution (first 25 and every 400th per worker)",
		},
	})
}
