// Glue: the component-level configurations (fibunit.go, fiblarge.go) are searched in the parent
// process after the router-level ones (explore.Spec.Extra) and accounted for in the coverage.
package main

import (
	"fmt"
	"os"
	"runtime/pprof"
	"strconv"
	"strings"
	"time"

	"verif/mc/explore"
	"verif/mc/report"
)

const largeName = "fib-large"

// buildLocal returns the component-level system of that name (nil: not one of them).
func buildLocal(cfg string, thorough bool) explore.System {
	if cfg == largeName || cfg == largeName+"-nodedup" {
		return newLargeSys(cfg)
	}
	if !strings.HasPrefix(cfg, "fib-") {
		return nil
	}
	_, defs := unitDefs(thorough)
	if d, ok := defs[cfg]; ok {
		return newUnitSys(cfg, d)
	}
	return nil
}

func runComponentLevel(rep *report.Reporter, cov report.Coverage) {
	only := os.Getenv("VERIF_C19_ONLY") // development aid
	want := func(n string) bool {
		if only == "" {
			return true
		}
		for _, x := range strings.Split(only, ";") {
			if x == n || x == "fib" {
				return true
			}
		}
		return false
	}
	if pf := os.Getenv("VERIF_C19_PROF"); pf != "" { // development aid
		if f, err := os.Create(pf); err == nil {
			pprof.StartCPUProfile(f)
			defer pprof.StopCPUProfile()
		}
	}
	thorough := rep.Thorough()
	workers := 6
	if v, err := strconv.Atoi(os.Getenv("VERIF_WORKERS")); err == nil && v > 0 {
		workers = v
	}
	budget := 30 * time.Second
	if thorough {
		budget = 5 * time.Minute
	}
	start := time.Now()
	var results []explore.Result
	what := map[string]string{}
	names, defs := unitDefs(thorough)
	type job struct {
		cfg  localCfg
		what string
	}
	var jobs, heavy []job
	for _, n := range names {
		d := defs[n]
		j := job{localCfg{name: n, sys: newUnitSys(n, d), maxDepth: d.depth, dedup: d.dedup, workers: workers}, d.what}
		if thorough && (n == "fib-pass-nodedup" || n == "fib-steps-rich-two") {
			heavy = append(heavy, j) // the two long ones last: they get what the others leave of the budget
		} else {
			jobs = append(jobs, j)
		}
	}
	large := newLargeSys(largeName)
	ld := 2
	if thorough {
		ld = 3
	}
	jobs = append(jobs,
		job{localCfg{name: largeName, sys: large, maxDepth: 12, dedup: true, workers: 1},
			"passes that give every one of queue-capacity+9 names the same entry pair (5 kinds: face 5, faces 5+6, face 6, face 5 at cost 2, nothing), real management loop in a goroutine, forwarder held until the installer blocks on the queue or the pass is over"},
		job{localCfg{name: largeName + "-nodedup", sys: large, maxDepth: ld, dedup: false, workers: 1},
			"the same, every history of that many passes expanded"})
	jobs = append(jobs, heavy...)
	for k, j := range jobs {
		if !want(j.cfg.name) {
			continue
		}
		remaining := budget - time.Since(start)
		share := remaining / time.Duration(len(jobs)-k)
		if share < 2*time.Second {
			share = 2 * time.Second
		}
		j.cfg.deadline = time.Now().Add(share)
		t0 := time.Now()
		r := runLocal(j.cfg, rep)
		fmt.Printf("config %-28s states=%-8d transitions=%-9d depth=%d fixpoint=%v cap=%q (component level, %d ms)\n", j.cfg.name, r.States, r.Transitions, r.DepthDone, r.Fixpoint, r.CapHit, time.Since(t0).Milliseconds())
		results = append(results, r)
		what[j.cfg.name] = j.what
	}
	st, tr := 0, 0
	exh := true
	var samples []string
	for _, r := range results {
		st += r.States
		tr += r.Transitions
		exh = exh && r.Exhaustive
		samples = append(samples, r.Samples...)
	}
	if v, ok := cov["states"].(int); ok {
		cov["states"] = v + st
	}
	if v, ok := cov["transitions"].(int); ok {
		cov["transitions"] = v + tr
		cov["traces_validated_against_impl"] = v + tr
	}
	if v, ok := cov["exhaustive"].(bool); ok {
		cov["exhaustive"] = v && exh
	}
	if v, ok := cov["samples"].([]string); ok {
		cov["samples"] = append(v, samples...)
	}
	cov["component_level"] = map[string]any{
		"configs":  results,
		"universe": what,
		"large_table": map[string]any{
			"queue_capacity_read_from_live_object": large.queue,
			"names":                                large.n,
			"passes_first_command_held_until_installer_blocked_on_queue": large.held.Load(),
			"passes_first_command_held_until_pass_over":                  large.doneCnt.Load(),
			"hang_guard_trips": large.guards.Load(),
		},
		"explanation": "in-process breadth-first search on the real table.Fib + nfdc queue (fresh instance + replay of the history + one operation per transition; every expanded state is re-executed and its canonical state compared with the one recorded at discovery); fixpoint=true: every history of any length over the universe is covered under the canonical-state assumption, which fib-steps-prevcost and the -nodedup configurations audit",
	}
}
