// In-process breadth-first driver for the component-level systems of C19 (fibunit.go,
// fiblarge.go). Same contract as verif/mc/explore (a state is its operation history; a successor is
// computed on a FRESH instance by replaying the history and applying one operation; states reached
// by a violating transition are not expanded), but the instances live in goroutines of the parent
// process instead of worker processes: the systems explored here have no process-global state and
// one transition costs microseconds, so millions of transitions fit into seconds.
package main

import (
	"fmt"
	"runtime/debug"
	"strings"
	"sync"
	"sync/atomic"
	"time"

	"verif/mc/explore"
	"verif/mc/report"
)

// closer is implemented by systems whose instances hold resources (queues, goroutines).
type closer interface{ Close(inst any) }

type localCfg struct {
	name     string
	sys      explore.System
	maxDepth int
	dedup    bool
	workers  int
	deadline time.Time
}

type lnode struct {
	h     []int32
	canon string
}

type lsucc struct {
	op    int32
	name  string
	canon string
	v     []report.Violation
	dead  bool
}

type lexp struct {
	names  []string // op names of the history of the expanded node
	succ   []lsucc
	nondet string
}

func localClose(sys explore.System, inst any) {
	if c, ok := sys.(closer); ok && inst != nil {
		c.Close(inst)
	}
}

// localReplay builds a fresh instance and re-executes a history given as indices into Ops().
func localReplay(sys explore.System, h []int32) (inst any, names []string) {
	inst = sys.New()
	rp, _ := sys.(explore.Replayer)
	for _, i := range h {
		ops := sys.Ops(inst)
		op := ops[i]
		names = append(names, op.Name)
		if rp != nil {
			rp.Do(inst, op)
		} else {
			sys.Apply(inst, op)
		}
	}
	return inst, names
}

func localApply(sys explore.System, inst any, op explore.Op) (v []report.Violation, dead bool) {
	defer func() {
		if r := recover(); r != nil {
			st := strings.Split(string(debug.Stack()), "\n")
			where := ""
			for _, l := range st {
				if strings.Contains(l, "github.com/named-data/ndnd/") && !strings.HasPrefix(l, "\t") {
					where = strings.TrimSpace(l)
					if k := strings.LastIndex(where, "("); k > 0 {
						where = where[:k]
					}
					break
				}
			}
			v = append(v, report.Violation{Clause: "C19.panic", Key: fmt.Sprintf("panic %v @ %s", r, where), Detail: fmt.Sprintf("panic: %v", r)})
			dead = true
		}
	}()
	return sys.Apply(inst, op), false
}

func localExpand(sys explore.System, n lnode) lexp {
	var out lexp
	base, names := localReplay(sys, n.h)
	out.names = names
	if n.canon != "" {
		if c := sys.Canon(base); c != n.canon {
			out.nondet = fmt.Sprintf("after %s: canonical state at discovery and at re-execution differ", strings.Join(names, " ; "))
		}
	}
	ops := sys.Ops(base)
	localClose(sys, base)
	out.succ = make([]lsucc, 0, len(ops))
	for i, op := range ops {
		inst, _ := localReplay(sys, n.h)
		v, dead := localApply(sys, inst, op)
		s := lsucc{op: int32(i), name: op.Name, v: v, dead: dead}
		if !dead {
			s.canon = sys.Canon(inst)
		}
		localClose(sys, inst)
		out.succ = append(out.succ, s)
	}
	return out
}

// runLocal explores one configuration. Violations are added to rep (first = shortest history per
// clause and key, because levels are processed in order and merged deterministically).
func runLocal(cfg localCfg, rep *report.Reporter) explore.Result {
	res := explore.Result{Config: cfg.name}
	visited := map[string]bool{}
	root := cfg.sys.New()
	rc := cfg.sys.Canon(root)
	localClose(cfg.sys, root)
	visited[rc] = true
	res.States = 1
	frontier := []lnode{{canon: rc}}
	if cfg.workers < 1 {
		cfg.workers = 1
	}
	for depth := 0; depth < cfg.maxDepth && len(frontier) > 0; depth++ {
		res.LevelSizes = append(res.LevelSizes, len(frontier))
		var next []lnode
		// workers expand the frontier in index order, at most `ahead` states ahead of the merger,
		// which consumes the results strictly in index order (deterministic outcome)
		const ahead = 192
		tokens := make(chan struct{}, ahead)
		resCh := make([]chan lexp, len(frontier))
		for k := range resCh {
			resCh[k] = make(chan lexp, 1)
		}
		var idx atomic.Int64
		var stop atomic.Bool
		var wg sync.WaitGroup
		for w := 0; w < min(cfg.workers, len(frontier)); w++ {
			wg.Add(1)
			go func() {
				defer wg.Done()
				for !stop.Load() {
					tokens <- struct{}{}
					k := int(idx.Add(1)) - 1
					if k >= len(frontier) || stop.Load() {
						<-tokens
						return
					}
					resCh[k] <- localExpand(cfg.sys, frontier[k])
				}
			}()
		}
		for k := range frontier {
			if k%16 == 0 && time.Now().After(cfg.deadline) {
				stop.Store(true)
				go func() { // let blocked workers finish
					for range tokens {
					}
				}()
				wg.Wait()
				close(tokens)
				res.CapHit = fmt.Sprintf("deadline during depth %d (%d of %d frontier states expanded)", depth+1, k, len(frontier))
				return res
			}
			ex := <-resCh[k]
			<-tokens
			resCh[k] = nil
			res.ReplaysChecked++
			if ex.nondet != "" {
				res.NondetTransitions++
				if len(res.NondetSamples) < 3 {
					res.NondetSamples = append(res.NondetSamples, ex.nondet)
				}
			}
			for _, s := range ex.succ {
				res.Transitions++
				if len(s.v) > 0 || (len(res.Samples) < 3 && len(ex.names) >= 1 && (res.Transitions%9973 == 1 || len(res.Samples) == 0)) {
					hist := append(append([]string{}, ex.names...), s.name)
					for _, v := range s.v {
						if v.Key == "" {
							v.Key = strings.Join(hist, " ; ")
						}
						if v.Replay == nil {
							v.Replay = map[string]any{"config": cfg.name, "ops": hist}
						}
						v.Detail = "[" + cfg.name + "] after " + strings.Join(hist, " ; ") + " :: " + v.Detail
						rep.Add(v)
					}
					if len(s.v) == 0 {
						res.Samples = append(res.Samples, "["+cfg.name+"] "+strings.Join(hist, " ; "))
					}
				}
				if s.dead || len(s.v) > 0 {
					res.PrunedViolating++
					continue
				}
				if visited[s.canon] && cfg.dedup {
					continue
				}
				if !visited[s.canon] {
					visited[s.canon] = true
					res.States++
				}
				nh := append(append(make([]int32, 0, len(frontier[k].h)+1), frontier[k].h...), s.op)
				next = append(next, lnode{h: nh, canon: s.canon})
			}
		}
		wg.Wait()
		res.DepthDone = depth + 1
		frontier = next
	}
	if len(frontier) == 0 {
		res.Fixpoint = true
	}
	res.Exhaustive = true
	return res
}
