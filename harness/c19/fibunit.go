// Component-level part of C19.mirror: explicit-state search directly on the REAL dv/table.Fib (the
// incremental installer: previous cost, mark / sweep) and the real nfdc command queue, driven the
// way Router.fibUpdate drives them:
//
//	UnmarkAll; for every name in the desired map: if UpdateH(hash, name, list) { MarkH(hash) }; RemoveUnmarked
//
// The router-level configurations reach the installer only through whole routers, so the next-hop
// lists it sees there are the few a 3-4 node topology produces. Here the list universe is
// exhaustive within a bound: every concatenation of <= K (best, second-best) pairs as
// Rib.GetFibEntries produces them (best finite; second-best either absent = (face 0, infinity) or
// a face at a cost >= best; the two may share a face; two exit routers of a multi-homed prefix may
// sit behind the same face at the same cost, so a list can hold one (face, cost) twice), plus every
// raw list of <= L entries over faces x costs {1, 2, infinity}. After every pass the queued
// commands are taken from the queue and replayed into a reference route table, which must equal
// what the property prescribes for the lists of THIS pass alone: per name, each face at the lowest
// cost among the finite entries, nothing else; nothing for a name that is not in the pass.
package main

import (
	"fmt"
	"sort"
	"strconv"
	"strings"
	"sync"

	"github.com/named-data/ndnd/dv/config"
	"github.com/named-data/ndnd/dv/nfdc"
	"github.com/named-data/ndnd/dv/table"
	enc "github.com/named-data/ndnd/std/encoding"

	"verif/harness/dvsim"
	"verif/mc/explore"
	"verif/mc/report"
)

const costInf = config.CostInfinity

type fe struct{ face, cost uint64 }

func listStr(l []fe) string {
	var b strings.Builder
	for i, e := range l {
		if i > 0 {
			b.WriteByte(',')
		}
		fmt.Fprintf(&b, "%d:%d", e.face, e.cost)
	}
	return b.String()
}

// rawLists: every sequence of <= maxLen entries over faces x costs.
func rawLists(faces, costs []uint64, maxLen int) [][]fe {
	var alpha []fe
	for _, f := range faces {
		for _, c := range costs {
			alpha = append(alpha, fe{f, c})
		}
	}
	out := [][]fe{{}}
	prev := [][]fe{{}}
	for n := 1; n <= maxLen; n++ {
		var cur [][]fe
		for _, p := range prev {
			for _, a := range alpha {
				cur = append(cur, append(append([]fe{}, p...), a))
			}
		}
		out = append(out, cur...)
		prev = cur
	}
	return out
}

// pairLists: every concatenation of 1..k (best, second-best) pairs as Rib.GetFibEntries returns
// them for a reachable destination.
func pairLists(faces, finite []uint64, k int) [][]fe {
	var pairs [][]fe
	for _, f1 := range faces {
		for _, c1 := range finite {
			pairs = append(pairs, []fe{{f1, c1}, {0, costInf}})
			for _, f2 := range faces {
				for _, c2 := range finite {
					if c2 >= c1 {
						pairs = append(pairs, []fe{{f1, c1}, {f2, c2}})
					}
				}
			}
		}
	}
	var out [][]fe
	prev := [][]fe{{}}
	for n := 1; n <= k; n++ {
		var cur [][]fe
		for _, p := range prev {
			for _, a := range pairs {
				cur = append(cur, append(append([]fe{}, p...), a...))
			}
		}
		out = append(out, cur...)
		prev = cur
	}
	return out
}

func unionLists(ls ...[][]fe) [][]fe {
	seen := map[string]bool{}
	var out [][]fe
	for _, l := range ls {
		for _, x := range l {
			if k := listStr(x); !seen[k] {
				seen[k] = true
				out = append(out, x)
			}
		}
	}
	sort.SliceStable(out, func(i, j int) bool { return len(out[i]) < len(out[j]) }) // simplest first
	return out
}

// prescription: what the property prescribes for one name given the concatenated (best,
// second-best) entries of all exit routers: each face at the lowest finite cost, nothing else.
func prescription(l []fe) map[uint64]uint64 {
	w := map[uint64]uint64{}
	for _, e := range l {
		if e.cost >= costInf {
			continue
		}
		if c, ok := w[e.face]; !ok || e.cost < c {
			w[e.face] = e.cost
		}
	}
	return w
}

func faceCostStr(m map[uint64]uint64) string {
	fs := make([]uint64, 0, len(m))
	for f := range m {
		fs = append(fs, f)
	}
	sort.Slice(fs, func(i, j int) bool { return fs[i] < fs[j] })
	var b strings.Builder
	for i, f := range fs {
		if i > 0 {
			b.WriteByte(' ')
		}
		b.WriteByte('f')
		b.WriteString(strconv.FormatUint(f, 10))
		b.WriteByte('=')
		b.WriteString(strconv.FormatUint(m[f], 10))
	}
	return b.String()
}

type unitDef struct {
	names     []string
	lists     [][][]fe // universe per name
	atomic    bool     // one operation = one whole pass (every name: absent or one list)
	fullCanon bool     // previous-cost field part of the canonical state
	depth     int
	dedup     bool
	what      string
}

type uop struct {
	kind   byte // 'U' one UpdateH(+MarkH) inside a pass (begins the pass if none is open), 'E' end of pass, 'P' whole pass
	n, l   int
	assign []int
}

type unitSys struct {
	name    string
	d       unitDef
	nm      []enc.Name
	hash    []uint64
	hname   map[uint64]int
	cfg     *config.Config
	opDefs  map[string]*uop
	opCache map[uint][]explore.Op // key: inPass | updated<<1
	poolMu  sync.Mutex
	pool    []*nfdc.NfdMgmtThread // free list (a sync.Pool is emptied by every GC; a queue is 200 KB)
}

type unitInst struct {
	fib         *table.Fib
	nf          *nfdc.NfdMgmtThread
	routes      map[dvsim.RouteKey]uint64
	inPass      bool
	updated     uint
	desired     [][]fe
	boundary    bool // the last operation ended a pass
	cmdProblems []string
}

func newUnitSys(name string, d unitDef) *unitSys {
	u := &unitSys{name: name, d: d, hname: map[uint64]int{}, cfg: config.DefaultConfig(), opDefs: map[string]*uop{}, opCache: map[uint][]explore.Op{}}
	for i, s := range d.names {
		n, err := enc.NameFromStr(s)
		if err != nil {
			report.Fatal("C19 %s: name %q: %v", name, s, err)
		}
		u.nm = append(u.nm, n)
		u.hash = append(u.hash, n.Hash())
		u.hname[n.Hash()] = i
		nameStrings[n.Hash()] = n.String()
	}
	letter := func(n int) string { return string(rune('A' + n)) }
	if d.atomic {
		// product over the names: absent (-1) or one list
		assign := make([]int, len(d.names))
		for i := range assign {
			assign[i] = -1
		}
		var ops []explore.Op
		for {
			var parts []string
			for n, l := range assign {
				if l >= 0 {
					parts = append(parts, letter(n)+"="+listStr(d.lists[n][l]))
				}
			}
			nmz := "P(" + strings.Join(parts, ";") + ")"
			u.opDefs[nmz] = &uop{kind: 'P', assign: append([]int{}, assign...)}
			ops = append(ops, explore.Op{Name: nmz})
			k := 0
			for k < len(assign) {
				assign[k]++
				if assign[k] < len(d.lists[k]) {
					break
				}
				assign[k] = -1
				k++
			}
			if k == len(assign) {
				break
			}
		}
		u.opCache[0] = ops
		return u
	}
	for mask := uint(0); mask < 1<<len(d.names); mask++ {
		for _, inPass := range []uint{0, 1} {
			if inPass == 0 && mask != 0 {
				continue
			}
			ops := []explore.Op{{Name: "E"}}
			for n := range d.names {
				if mask&(1<<n) != 0 {
					continue // fibUpdate calls UpdateH once per name and pass
				}
				for l, x := range d.lists[n] {
					nmz := "U(" + letter(n) + ";" + listStr(x) + ")"
					u.opDefs[nmz] = &uop{kind: 'U', n: n, l: l}
					ops = append(ops, explore.Op{Name: nmz})
				}
			}
			u.opCache[inPass|mask<<1] = ops
		}
	}
	u.opDefs["E"] = &uop{kind: 'E'}
	return u
}

func (u *unitSys) New() any {
	var nf *nfdc.NfdMgmtThread
	u.poolMu.Lock()
	if k := len(u.pool); k > 0 {
		nf, u.pool = u.pool[k-1], u.pool[:k-1]
	}
	u.poolMu.Unlock()
	if nf == nil {
		nf = nfdc.NewNfdMgmtThread(nil)
	}
	return &unitInst{fib: table.NewFib(u.cfg, nf), nf: nf, routes: map[dvsim.RouteKey]uint64{}, desired: make([][]fe, len(u.d.names))}
}

func (u *unitSys) Close(inst any) {
	i := inst.(*unitInst)
	if i.nf != nil {
		i.nf.VerifDrain()
		u.poolMu.Lock()
		u.pool = append(u.pool, i.nf)
		u.poolMu.Unlock()
		i.nf, i.fib = nil, nil
	}
}

func (u *unitSys) Ops(inst any) []explore.Op {
	i := inst.(*unitInst)
	if u.d.atomic {
		return u.opCache[0]
	}
	k := i.updated << 1
	if i.inPass {
		k |= 1
	}
	return u.opCache[k]
}

func (u *unitSys) update(i *unitInst, n int, l []fe) {
	if !i.inPass {
		i.fib.UnmarkAll()
		i.inPass, i.updated = true, 0
	}
	es := make([]table.FibEntry, len(l))
	for k, e := range l {
		es[k] = table.FibEntry{FaceId: e.face, Cost: e.cost}
	}
	if i.fib.UpdateH(u.hash[n], u.nm[n], es) {
		i.fib.MarkH(u.hash[n])
	}
	i.updated |= 1 << n
	i.desired[n] = l
}

func (u *unitSys) end(i *unitInst) {
	if !i.inPass {
		i.fib.UnmarkAll() // a pass whose desired map is empty
		i.updated = 0
	}
	i.fib.RemoveUnmarked()
	for n := range i.desired {
		if i.updated&(1<<n) == 0 {
			i.desired[n] = nil
		}
	}
	i.inPass, i.updated = false, 0
}

// replayCmd replays one rib command into a (name, face) -> cost table; shape problems are C19.cmd.
// nameStrings caches Name.String() of the names the harness itself uses (read-only after start-up).
var nameStrings = map[uint64]string{}

func nameString(n enc.Name) string {
	if s, ok := nameStrings[n.Hash()]; ok {
		return s
	}
	return n.String()
}

func replayCmd(routes map[dvsim.RouteKey]uint64, c nfdc.NfdMgmtCmd, bad func(string)) {
	if c.Module != "rib" {
		bad(fmt.Sprintf("command of module %q from the installer", c.Module))
		return
	}
	if c.Args == nil || c.Args.Name == nil {
		bad(fmt.Sprintf("rib %s without a name", c.Cmd))
		return
	}
	name := nameString(c.Args.Name)
	var face uint64
	if c.Args.FaceId != nil {
		face = *c.Args.FaceId
	}
	if c.Args.Origin == nil || *c.Args.Origin != config.NlsrOrigin {
		bad(fmt.Sprintf("rib %s %s face=%d: origin is not NLSR(128)", c.Cmd, name, face))
	}
	switch c.Cmd {
	case "register":
		if c.Args.Cost == nil {
			bad(fmt.Sprintf("rib register %s face=%d without a cost", name, face))
			return
		}
		routes[dvsim.RouteKey{Name: name, Face: face}] = *c.Args.Cost
	case "unregister":
		delete(routes, dvsim.RouteKey{Name: name, Face: face})
	default:
		bad(fmt.Sprintf("rib command %q is neither register nor unregister", c.Cmd))
	}
}

func (u *unitSys) Do(inst any, op explore.Op) {
	i := inst.(*unitInst)
	d := u.opDefs[op.Name]
	if d == nil {
		panic("unknown op " + op.Name)
	}
	i.boundary = false
	switch d.kind {
	case 'U':
		u.update(i, d.n, u.d.lists[d.n][d.l])
	case 'E':
		u.end(i)
		i.boundary = true
	case 'P':
		for n, l := range d.assign {
			if l >= 0 {
				u.update(i, n, u.d.lists[n][l])
			}
		}
		u.end(i)
		i.boundary = true
	}
	for _, c := range i.nf.VerifDrain() {
		replayCmd(i.routes, c, func(s string) { i.cmdProblems = append(i.cmdProblems, s) })
	}
}

// mirrorFindings compares the replayed routes of one name with the prescription.
func mirrorFindings(who, name string, have, want map[uint64]uint64) (v []report.Violation) {
	for f, c := range want {
		hc, ok := have[f]
		switch {
		case !ok:
			v = append(v, report.Violation{Clause: "C19.mirror", Key: "route prescribed by the tables is not registered",
				Detail: fmt.Sprintf("%s: tables prescribe %s via face %d cost %d, not registered; registered {%s} prescribed {%s}", who, name, f, c, faceCostStr(have), faceCostStr(want))})
		case hc != c:
			v = append(v, report.Violation{Clause: "C19.mirror", Key: "route registered with a cost other than the lowest prescribed cost",
				Detail: fmt.Sprintf("%s: %s via face %d registered with cost %d, tables prescribe %d; registered {%s} prescribed {%s}", who, name, f, hc, c, faceCostStr(have), faceCostStr(want))})
		}
	}
	for f, c := range have {
		if _, ok := want[f]; !ok {
			v = append(v, report.Violation{Clause: "C19.mirror", Key: "stale route: registered but not prescribed by the tables",
				Detail: fmt.Sprintf("%s: %s via face %d cost %d is registered but the tables prescribe {%s}; registered {%s}", who, name, f, c, faceCostStr(want), faceCostStr(have))})
		}
	}
	sort.Slice(v, func(a, b int) bool { return v[a].Key+v[a].Detail < v[b].Key+v[b].Detail })
	return v
}

func (u *unitSys) Apply(inst any, op explore.Op) []report.Violation {
	i := inst.(*unitInst)
	u.Do(inst, op)
	var v []report.Violation
	for _, p := range i.cmdProblems {
		v = append(v, report.Violation{Clause: "C19.cmd", Key: "malformed management command", Detail: "installer: " + p})
	}
	if !i.boundary {
		return v // the pass runs under the router mutex: its intermediate states are not observable
	}
	known := map[string]bool{}
	for n := range u.d.names {
		known[u.nm[n].String()] = true
		have := map[uint64]uint64{}
		for k, c := range i.routes {
			if k.Name == u.nm[n].String() {
				have[k.Face] = c
			}
		}
		v = append(v, mirrorFindings("installer", u.nm[n].String(), have, prescription(i.desired[n]))...)
	}
	for k := range i.routes {
		if !known[k.Name] {
			v = append(v, report.Violation{Clause: "C19.mirror", Key: "stale route: registered but not prescribed by the tables",
				Detail: fmt.Sprintf("installer: route %s via face %d registered for a name no pass ever named", k.Name, k.Face)})
		}
	}
	return v
}

func (u *unitSys) Canon(inst any) string {
	i := inst.(*unitInst)
	b := make([]byte, 0, 160)
	num := func(x uint64) { b = strconv.AppendUint(b, x, 10) }
	if i.inPass {
		b = append(b, "pass upd="...)
	} else {
		b = append(b, "idle upd="...)
	}
	num(uint64(i.updated))
	if i.inPass {
		for n := range u.d.names {
			if i.updated&(1<<n) != 0 {
				b = append(b, " want"...)
				num(uint64(n))
				b = append(b, '{')
				b = append(b, faceCostStr(prescription(i.desired[n]))...)
				b = append(b, '}')
			}
		}
	}
	b = append(b, " |fib"...)
	for _, r := range i.fib.VerifRows() {
		b = append(b, ' ')
		if n, ok := u.hname[r.NameH]; ok && r.Named {
			b = append(b, byte('A'+n))
		} else {
			b = append(b, '#')
			b = strconv.AppendUint(b, r.NameH, 16)
			if !r.Named {
				b = append(b, '?')
			}
		}
		b = append(b, '[')
		for _, e := range r.Entries {
			num(e.FaceId)
			b = append(b, ':')
			num(e.Cost)
			if u.d.fullCanon {
				b = append(b, '<')
				num(e.VerifPrevCost())
			}
			b = append(b, ' ')
		}
		b = append(b, ']')
	}
	b = append(b, " |names="...)
	num(uint64(i.fib.VerifNamesLen()))
	b = append(b, " |mark"...)
	for _, h := range i.fib.VerifMarks() {
		b = append(b, ' ')
		if n, ok := u.hname[h]; ok {
			b = append(b, byte('A'+n))
		} else {
			b = append(b, '#')
			b = strconv.AppendUint(b, h, 16)
		}
	}
	b = append(b, " |routes"...)
	ks := make([]dvsim.RouteKey, 0, len(i.routes))
	for k := range i.routes {
		ks = append(ks, k)
	}
	sort.Slice(ks, func(a, c int) bool {
		if ks[a].Name != ks[c].Name {
			return ks[a].Name < ks[c].Name
		}
		return ks[a].Face < ks[c].Face
	})
	for _, k := range ks {
		b = append(b, ' ')
		b = append(b, k.Name...)
		b = append(b, '@')
		num(k.Face)
		b = append(b, '=')
		num(i.routes[k])
	}
	return string(b)
}

// ---------------------------------------------------------------------------------------------

var (
	unitFaces  = []uint64{5, 6, 7}
	unitFinite = []uint64{1, 2}
	unitCosts  = []uint64{1, 2, costInf}
	unitNames  = []string{"/p1", "/ndn/r2/32=DV"}
	// names at the edges of the name space (see fib-steps-names)
	unitBoundaryNames = []string{"/", "/8=", "/p1/x"}
)

// unitDefs: the component-level configurations (bounds per tier).
func unitDefs(thorough bool) (names []string, defs map[string]unitDef) {
	rich := unionLists(rawLists(unitFaces, unitCosts, 3), pairLists(unitFaces, unitFinite, 2))
	mid := unionLists(rawLists(unitFaces, unitCosts, 2), pairLists(unitFaces, unitFinite, 1))
	small := rawLists(unitFaces, unitCosts, 1)
	two := unionLists(rawLists(unitFaces[:2], unitCosts, 2), pairLists(unitFaces[:2], unitFinite, 1))
	defs = map[string]unitDef{
		// passes as separate steps; one name, the richest list universe
		"fib-steps": {names: unitNames[:1], lists: [][][]fe{rich}, depth: 40, dedup: true,
			what: "one name: every raw list of <= 3 entries over faces {5,6,7} x costs {1,2,16} and every concatenation of <= 2 (best, second-best) pairs over faces {5,6,7} x costs {1,2}"},
		// two names: either order inside a pass, one-name passes (the other name is swept), empty passes
		"fib-steps-two": {names: unitNames, lists: [][][]fe{mid, mid}, depth: 40, dedup: true,
			what: "two names, each: every raw list of <= 2 entries and every single (best, second-best) pair over faces {5,6,7}"},
		// audit of the canonical form: previous-cost field included
		"fib-steps-prevcost": {names: unitNames, lists: [][][]fe{two, small[:4]}, depth: 40, dedup: true, fullCanon: true,
			what: "canonical state includes the private previous-cost field; faces {5,6}; name A: raw lists of <= 2 entries and single pairs; name B: lists of <= 1 entry over face 5"},
		// every history of whole passes, no state de-duplication
		"fib-pass-nodedup": {names: unitNames[:1], lists: [][][]fe{two}, atomic: true, depth: 3, dedup: false,
			what: "one name, every history of 3 whole passes (absent or a list of <= 2 raw entries / one pair over faces {5,6}), every history expanded (no canonical-state merging)"},
	}
	// boundary names: the zero-component default prefix "/", a name whose only component is empty, a
	// name that extends another name of the pass; whole-name removal (sweep) and per-face removal for each
	tiny := unionLists(rawLists(unitFaces[:2], []uint64{1, costInf}, 1), pairLists(unitFaces[:2], unitFinite[:1], 1))
	defs["fib-steps-names"] = unitDef{names: unitBoundaryNames, lists: [][][]fe{tiny, tiny, tiny}, depth: 40, dedup: true,
		what: "three boundary names (\"/\" with zero components, \"/8=\" one empty component, \"/p1/x\"), each: every list of <= 1 raw entry over faces {5,6} x costs {1,16} and every single (best, second-best) pair at cost 1 over faces {5,6}"}
	names = []string{"fib-steps", "fib-steps-two", "fib-steps-prevcost", "fib-pass-nodedup", "fib-steps-names"}
	if thorough {
		defs["fib-steps-rich-two"] = unitDef{names: unitNames, lists: [][][]fe{rich, mid}, depth: 40, dedup: true,
			what: "name A: as in fib-steps; name B: as in fib-steps-two"}
		names = append(names, "fib-steps-rich-two")
		dn := defs["fib-steps-names"]
		dn.names = []string{"/", "/8=", "/p1", "/p1/x"}
		dn.lists = append(dn.lists, dn.lists[0])
		dn.what = "as fib-steps-names with four names: \"/\", \"/8=\", \"/p1\" and its extension \"/p1/x\""
		defs["fib-steps-names4"] = dn
		names = append(names, "fib-steps-names4")
		d := defs["fib-pass-nodedup"]
		d.depth = 4
		d.what = strings.Replace(d.what, "3 whole passes", "4 whole passes", 1)
		defs["fib-pass-nodedup"] = d
	}
	return names, defs
}
