// Component-level part of C19.mirror, large tables: one pass of the installer changes MORE routes
// than the command queue between the routing daemon and its management goroutine holds.
//
// Real table.Fib, real nfdc.NfdMgmtThread with its REAL loop (Start) running in a real goroutine -
// the role it plays in production - on a harness engine that stands for the forwarder. The
// forwarder is as slow as it can be without stopping the daemon for ever: it accepts the first
// command of a pass only once the pass has finished or the installer cannot go on without it (the
// goroutine running the pass is blocked on the queue). That schedule is forced, not sampled: the
// engine holds the management goroutine inside ExecMgmtCmd and inspects the state of the installer
// goroutine (runtime.Stack) until one of the two conditions holds. From then on everything runs
// freely; the result does not depend on the schedule as long as no command is lost. After the
// pass a barrier command is queued behind the real ones (only once there is room for it) and the
// executed command stream is replayed into the reference route table (same oracle as fibunit.go).
package main

import (
	"fmt"
	"runtime"
	"strconv"
	"strings"
	"sync/atomic"
	"time"

	"github.com/named-data/ndnd/dv/config"
	"github.com/named-data/ndnd/dv/nfdc"
	"github.com/named-data/ndnd/dv/table"
	enc "github.com/named-data/ndnd/std/encoding"
	"github.com/named-data/ndnd/std/ndn"
	mgmt "github.com/named-data/ndnd/std/ndn/mgmt_2022"

	"verif/harness/dvsim"
	"verif/mc/explore"
	"verif/mc/report"
)

const largeBarrier = "verif-barrier"

// largeEngine is the forwarder side of the management goroutine. Only ExecMgmtCmd is ever called
// by nfdc (the embedded interface is nil: anything else panics and is reported).
type largeEngine struct {
	ndn.Engine
	execd    []nfdc.NfdMgmtCmd // written by the management goroutine, read after the barrier
	barrier  chan struct{}
	gate     atomic.Bool  // the next command is the first of a pass: hold it
	holding  atomic.Bool  // the management goroutine is inside ExecMgmtCmd with the first command of the pass
	passDone atomic.Bool  // the installer has returned from the pass
	producer atomic.Int64 // goroutine id of the installer
	// statistics
	heldUntilBlocked, heldUntilDone, guardTrips int
}

func goid() int64 {
	var buf [64]byte
	n := runtime.Stack(buf[:], false)
	f := strings.Fields(string(buf[:n])) // "goroutine 123 [running]:"
	if len(f) < 2 {
		return -1
	}
	id, _ := strconv.ParseInt(f[1], 10, 64)
	return id
}

// goroutineWaitState returns the bracketed state of goroutine id in a full stack dump ("" if not found).
func goroutineWaitState(id int64) string {
	buf := make([]byte, 1<<16)
	for {
		n := runtime.Stack(buf, true)
		if n < len(buf) {
			buf = buf[:n]
			break
		}
		buf = make([]byte, 2*len(buf))
	}
	s := string(buf)
	tag := fmt.Sprintf("goroutine %d [", id)
	k := strings.Index(s, tag)
	if k != 0 {
		k = strings.Index(s, "\n"+tag)
		if k < 0 {
			return ""
		}
		k++
	}
	rest := s[k+len(tag):]
	if e := strings.IndexByte(rest, ']'); e >= 0 {
		return rest[:e]
	}
	return ""
}

func (e *largeEngine) ExecMgmtCmd(module string, cmd string, args any) error {
	if module == largeBarrier {
		e.barrier <- struct{}{}
		return nil
	}
	if e.gate.Load() {
		e.holding.Store(true)
		start := time.Now()
		for spins := 0; ; spins++ {
			if e.passDone.Load() {
				e.heldUntilDone++
				break
			}
			if st := goroutineWaitState(e.producer.Load()); strings.HasPrefix(st, "chan send") || strings.HasPrefix(st, "select") {
				e.heldUntilBlocked++
				break
			}
			if spins%64 == 63 && time.Since(start) > 30*time.Second {
				// hang guard only (never observed): let everything run freely
				e.guardTrips++
				break
			}
			runtime.Gosched()
		}
		e.gate.Store(false)
		e.holding.Store(false)
	}
	a, _ := args.(*mgmt.ControlArgs)
	e.execd = append(e.execd, nfdc.NfdMgmtCmd{Module: module, Cmd: cmd, Args: a})
	return nil
}

// A pass kind gives every one of the N names the same (best, second-best) pair, or no entry.
type largePass struct {
	name string
	list []fe // nil: the name is not in the desired map
}

var largePasses = []largePass{
	{"I5", []fe{{5, 1}, {0, costInf}}}, // everything reachable over face 5
	{"I56", []fe{{5, 1}, {6, 2}}},      // best and second-best hop
	{"I6", []fe{{6, 1}, {0, costInf}}}, // everything moves to face 6
	{"C5", []fe{{5, 2}, {0, costInf}}}, // face 5 at another cost
	{"W", nil},                         // everything withdrawn / unreachable: swept
}

type largeSys struct {
	name    string
	n       int
	nm      []enc.Name
	str     []string
	hash    []uint64
	cfg     *config.Config
	queue   int
	ops     []explore.Op
	held    atomic.Int64 // passes whose first command was held until the installer blocked
	doneCnt atomic.Int64 // passes whose first command was held until the pass was over
	guards  atomic.Int64
}

type largeInst struct {
	fib     *table.Fib
	nf      *nfdc.NfdMgmtThread
	eng     *largeEngine
	routes  map[dvsim.RouteKey]uint64
	last    string
	desired []fe
	lost    bool
	bad     []string
}

func newLargeSys(name string) *largeSys {
	y := &largeSys{name: name, cfg: config.DefaultConfig()}
	probe := nfdc.NewNfdMgmtThread(nil)
	y.queue = probe.VerifQueueCap()
	// more names than the queue holds plus the one command the management goroutine has in hand
	y.n = y.queue + 9
	for i := 0; i < y.n; i++ {
		n, err := enc.NameFromStr(fmt.Sprintf("/big/%d", i))
		if err != nil {
			report.Fatal("C19 %s: %v", name, err)
		}
		y.nm = append(y.nm, n)
		y.str = append(y.str, n.String())
		y.hash = append(y.hash, n.Hash())
		nameStrings[n.Hash()] = n.String()
	}
	for _, p := range largePasses {
		y.ops = append(y.ops, explore.Op{Name: "P(" + p.name + ")"})
	}
	return y
}

func (y *largeSys) New() any {
	e := &largeEngine{barrier: make(chan struct{}, 1)}
	nf := nfdc.NewNfdMgmtThread(e)
	go nf.Start() // as Router.Start does
	return &largeInst{fib: table.NewFib(y.cfg, nf), nf: nf, eng: e, routes: map[dvsim.RouteKey]uint64{}}
}

func (y *largeSys) Close(inst any) {
	i := inst.(*largeInst)
	if i.nf != nil {
		y.held.Add(int64(i.eng.heldUntilBlocked))
		y.doneCnt.Add(int64(i.eng.heldUntilDone))
		y.guards.Add(int64(i.eng.guardTrips))
		i.eng.gate.Store(false)
		i.eng.passDone.Store(true)
		i.nf.Stop()
		i.nf = nil
	}
}

func (y *largeSys) Ops(inst any) []explore.Op {
	if inst.(*largeInst).lost {
		return nil
	}
	return y.ops
}

func (y *largeSys) Do(inst any, op explore.Op) {
	i := inst.(*largeInst)
	var p *largePass
	for k := range largePasses {
		if "P("+largePasses[k].name+")" == op.Name {
			p = &largePasses[k]
		}
	}
	if p == nil {
		panic("unknown op " + op.Name)
	}
	e := i.eng
	e.producer.Store(goid())
	e.passDone.Store(false)
	e.gate.Store(true)
	// --- the pass, exactly as Router.fibUpdate runs it
	i.fib.UnmarkAll()
	if p.list != nil {
		for k := 0; k < y.n; k++ {
			es := make([]table.FibEntry, len(p.list))
			for j, x := range p.list {
				es[j] = table.FibEntry{FaceId: x.face, Cost: x.cost}
			}
			if i.fib.UpdateH(y.hash[k], y.nm[k], es) {
				i.fib.MarkH(y.hash[k])
			}
			// the management goroutine picks up the first command right away (it is idle); wait
			// until it has, so that "one command in hand, the queue behind it" holds in every run
			for t0 := time.Now(); k == 0 && e.gate.Load() && !e.holding.Load() && i.nf.VerifQueueLen() > 0 && time.Since(t0) < 30*time.Second; {
				runtime.Gosched()
			}
		}
	}
	i.fib.RemoveUnmarked()
	// ---
	e.passDone.Store(true)
	i.last, i.desired = p.name, p.list
	// barrier behind the real commands; queued only when there is room for it, so that an Exec
	// that does not wait for room cannot lose it
	for t0 := time.Now(); i.nf.VerifQueueLen() >= y.queue && time.Since(t0) < 300*time.Second; {
		runtime.Gosched()
	}
	i.nf.Exec(nfdc.NfdMgmtCmd{Module: largeBarrier, Cmd: "sync", Args: &mgmt.ControlArgs{}, Retries: 1})
	select {
	case <-e.barrier:
	case <-time.After(300 * time.Second): // hang guard only (far above anything load can cause: 4105 in-memory commands take milliseconds)
		i.lost = true
		return
	}
	e.gate.Store(false)
	for _, c := range e.execd {
		replayCmd(i.routes, c, func(s string) {
			if len(i.bad) < 4 {
				i.bad = append(i.bad, s)
			}
		})
	}
	e.execd = e.execd[:0]
}

func (y *largeSys) Apply(inst any, op explore.Op) []report.Violation {
	i := inst.(*largeInst)
	y.Do(inst, op)
	var v []report.Violation
	if i.lost {
		return []report.Violation{{Clause: "C19.mirror", Key: "management commands queued by a pass never reach the forwarder",
			Detail: "a barrier command queued behind the commands of the pass (with room in the queue) was not executed within 300 s"}}
	}
	for _, p := range i.bad {
		v = append(v, report.Violation{Clause: "C19.cmd", Key: "malformed management command", Detail: "installer: " + p})
	}
	want := prescription(i.desired)
	have := make(map[string]map[uint64]uint64, y.n)
	for k, c := range i.routes {
		m := have[k.Name]
		if m == nil {
			m = map[uint64]uint64{}
			have[k.Name] = m
		}
		m[k.Face] = c
	}
	wrong := 0
	seen := map[string]bool{}
	for k := 0; k < y.n; k++ {
		fs := mirrorFindings("installer", y.str[k], have[y.str[k]], want)
		if len(fs) > 0 {
			wrong++
		}
		for _, f := range fs {
			if !seen[f.Key] {
				seen[f.Key] = true
				v = append(v, f)
			}
		}
		delete(have, y.str[k])
	}
	for n := range have {
		if !seen["other"] {
			seen["other"] = true
			v = append(v, report.Violation{Clause: "C19.mirror", Key: "stale route: registered but not prescribed by the tables",
				Detail: fmt.Sprintf("installer: routes registered for %s, a name no pass ever named", n)})
		}
	}
	for k := range v {
		v[k].Detail += fmt.Sprintf(" (%d of %d names wrong; one pass changes more routes than the %d-entry command queue holds, forwarder slower than the installer)", wrong, y.n, y.queue)
	}
	return v
}

// Canon: the pass kinds give every name the same list, so the installed state is a function of
// the per-name state of the first name unless something went wrong (then the transition is a
// violation and the state is not expanded).
func (y *largeSys) Canon(inst any) string {
	i := inst.(*largeInst)
	var b strings.Builder
	rows := i.fib.VerifDump()
	fmt.Fprintf(&b, "rows=%d marks=%d routes=%d |", len(rows), len(i.fib.VerifMarks()), len(i.routes))
	for _, r := range rows {
		if r.Name == y.str[0] {
			for _, e := range r.Entries {
				fmt.Fprintf(&b, "%d:%d ", e.FaceId, e.Cost)
			}
		}
	}
	return b.String()
}
