package main

// Discovery: scan every zz_generated.go of the tree under test and list the generated TLV models
// with everything the worker needs to drive them (no hand-written list; the number found is
// evidence). A model X is recognised by the generated method
//
//	func (context *XParsingContext) Parse(reader enc.ParseReader, ignoreCritical bool) (*X, error)
//
// together with the generated type XEncoder and its methods Init and Encode. For every model we
// read, from the *generated* source:
//   - the field list, in definition order (the `var handled_<Field> bool` declarations),
//   - the TLV type number the parser recognises for each field (the `case N:` clauses of the
//     top-level `switch typ`),
//   - whether the parser is `ordered` (progress loop) or not,
//   - the encoder's struct fields (length, wirePlan, <F>_estLen, <F>_needDigest, <F>_wireIdx),
//   - whether the public API (value.Encode(), value.Bytes(), ParseX()) was generated.

import (
	"bufio"
	"fmt"
	"go/ast"
	"go/parser"
	"go/token"
	"os"
	"path/filepath"
	"sort"
	"strconv"
	"strings"
)

type scanField struct {
	Name    string
	TypeNum uint64
	HasCase bool
}

type scanModel struct {
	Dir        string // repository relative directory
	ImportPath string
	PkgName    string
	Name       string
	Ordered    bool
	Fields     []scanField
	EncFields  []string
	HasEncInit bool
	HasEncode  bool
	HasCtxInit bool
	// EncodeInto, the exported entry point that encodes into memory supplied by the caller:
	// "buf" = EncodeInto(value, []byte), "wire" = EncodeInto(value, enc.Wire), "" = not generated
	EncodeInto string
	PubEncode  bool
	PubBytes   bool
	PubParse   bool
	StructSeen bool // a struct type X is declared in a non-generated file of the package
}

type scanResult struct {
	Files    []string // zz_generated.go files found (repo relative)
	Models   []*scanModel
	Skipped  []string // "pkg.Model: reason"
	GenDirs  []string // directories with a //go:generate gondn_tlv_gen line
	Module   string
	RepoRoot string
}

func modulePath(root string) (string, error) {
	f, err := os.Open(filepath.Join(root, "go.mod"))
	if err != nil {
		return "", err
	}
	defer f.Close()
	sc := bufio.NewScanner(f)
	for sc.Scan() {
		l := strings.TrimSpace(sc.Text())
		if strings.HasPrefix(l, "module ") {
			return strings.TrimSpace(strings.TrimPrefix(l, "module ")), nil
		}
	}
	return "", fmt.Errorf("no module line in go.mod")
}

func recvTypeName(fd *ast.FuncDecl) string {
	if fd.Recv == nil || len(fd.Recv.List) != 1 {
		return ""
	}
	t := fd.Recv.List[0].Type
	if s, ok := t.(*ast.StarExpr); ok {
		t = s.X
	}
	if id, ok := t.(*ast.Ident); ok {
		return id.Name
	}
	return ""
}

func scanRepo(root string) (*scanResult, error) {
	mod, err := modulePath(root)
	if err != nil {
		return nil, err
	}
	res := &scanResult{Module: mod, RepoRoot: root}
	var genFiles []string
	genDirSet := map[string]bool{}
	err = filepath.WalkDir(root, func(p string, d os.DirEntry, err error) error {
		if err != nil {
			return err
		}
		if d.IsDir() {
			n := d.Name()
			if n == ".git" || n == "node_modules" || n == "vendor" || (strings.HasPrefix(n, ".") && p != root) {
				return filepath.SkipDir
			}
			return nil
		}
		if !strings.HasSuffix(p, ".go") {
			return nil
		}
		if d.Name() == "zz_generated.go" {
			genFiles = append(genFiles, p)
			return nil
		}
		// go:generate directive?
		b, err := os.ReadFile(p)
		if err != nil {
			return err
		}
		for _, l := range strings.Split(string(b), "\n") {
			if strings.HasPrefix(l, "//go:generate ") && strings.Contains(l, "gondn_tlv_gen") {
				rel, _ := filepath.Rel(root, filepath.Dir(p))
				genDirSet[rel] = true
			}
		}
		return nil
	})
	if err != nil {
		return nil, err
	}
	sort.Strings(genFiles)
	for d := range genDirSet {
		res.GenDirs = append(res.GenDirs, d)
	}
	sort.Strings(res.GenDirs)

	for _, gf := range genFiles {
		rel, _ := filepath.Rel(root, gf)
		res.Files = append(res.Files, rel)
		dir := filepath.Dir(gf)
		relDir := filepath.Dir(rel)
		fset := token.NewFileSet()
		f, err := parser.ParseFile(fset, gf, nil, 0)
		if err != nil {
			return nil, fmt.Errorf("cannot parse %s: %v", rel, err)
		}
		// struct types declared in the other (non-test) files of the directory
		structs := map[string]bool{}
		ents, _ := os.ReadDir(dir)
		for _, e := range ents {
			n := e.Name()
			if e.IsDir() || !strings.HasSuffix(n, ".go") || strings.HasSuffix(n, "_test.go") || n == "zz_generated.go" {
				continue
			}
			of, err := parser.ParseFile(token.NewFileSet(), filepath.Join(dir, n), nil, 0)
			if err != nil {
				return nil, fmt.Errorf("cannot parse %s: %v", filepath.Join(relDir, n), err)
			}
			if of.Name.Name != f.Name.Name {
				continue
			}
			ast.Inspect(of, func(nd ast.Node) bool {
				if ts, ok := nd.(*ast.TypeSpec); ok {
					if _, ok := ts.Type.(*ast.StructType); ok {
						structs[ts.Name.Name] = true
					}
				}
				return true
			})
		}
		models := map[string]*scanModel{}
		var order []string
		get := func(name string) *scanModel {
			if m, ok := models[name]; ok {
				return m
			}
			m := &scanModel{Dir: relDir, ImportPath: mod + "/" + filepath.ToSlash(relDir), PkgName: f.Name.Name, Name: name}
			models[name] = m
			order = append(order, name)
			return m
		}
		encStructs := map[string][]string{}
		ctxStructs := map[string]bool{}
		for _, d := range f.Decls {
			switch dd := d.(type) {
			case *ast.GenDecl:
				if dd.Tok != token.TYPE {
					continue
				}
				for _, sp := range dd.Specs {
					ts := sp.(*ast.TypeSpec)
					st, ok := ts.Type.(*ast.StructType)
					if !ok {
						continue
					}
					if strings.HasSuffix(ts.Name.Name, "Encoder") {
						var names []string
						for _, fl := range st.Fields.List {
							for _, n := range fl.Names {
								names = append(names, n.Name)
							}
						}
						encStructs[strings.TrimSuffix(ts.Name.Name, "Encoder")] = names
					}
					if strings.HasSuffix(ts.Name.Name, "ParsingContext") {
						ctxStructs[strings.TrimSuffix(ts.Name.Name, "ParsingContext")] = true
					}
				}
			case *ast.FuncDecl:
				rt := recvTypeName(dd)
				switch {
				case rt != "" && strings.HasSuffix(rt, "ParsingContext") && dd.Name.Name == "Parse":
					m := get(strings.TrimSuffix(rt, "ParsingContext"))
					scanParse(dd, m)
				case rt != "" && strings.HasSuffix(rt, "ParsingContext") && dd.Name.Name == "Init":
					get(strings.TrimSuffix(rt, "ParsingContext")).HasCtxInit = true
				case rt != "" && strings.HasSuffix(rt, "Encoder") && dd.Name.Name == "Init":
					get(strings.TrimSuffix(rt, "Encoder")).HasEncInit = true
				case rt != "" && strings.HasSuffix(rt, "Encoder") && dd.Name.Name == "Encode":
					get(strings.TrimSuffix(rt, "Encoder")).HasEncode = true
				case rt != "" && strings.HasSuffix(rt, "Encoder") && dd.Name.Name == "EncodeInto" && dd.Type.Params.NumFields() == 2:
					var pt ast.Expr
					if l := dd.Type.Params.List; len(l) == 2 {
						pt = l[1].Type
					}
					switch t := pt.(type) {
					case *ast.ArrayType:
						if id, ok := t.Elt.(*ast.Ident); ok && t.Len == nil && id.Name == "byte" {
							get(strings.TrimSuffix(rt, "Encoder")).EncodeInto = "buf"
						}
					case *ast.SelectorExpr:
						if t.Sel.Name == "Wire" {
							get(strings.TrimSuffix(rt, "Encoder")).EncodeInto = "wire"
						}
					}
				case rt != "" && dd.Name.Name == "Encode" && dd.Type.Params.NumFields() == 0:
					get(rt).PubEncode = true
				case rt != "" && dd.Name.Name == "Bytes" && dd.Type.Params.NumFields() == 0:
					get(rt).PubBytes = true
				case rt == "" && strings.HasPrefix(dd.Name.Name, "Parse") && dd.Type.Params.NumFields() == 2:
					get(strings.TrimPrefix(dd.Name.Name, "Parse")).PubParse = true
				}
			}
		}
		for _, name := range order {
			m := models[name]
			m.EncFields = encStructs[name]
			m.StructSeen = structs[name]
			_, hasEnc := encStructs[name]
			var why []string
			if m.Fields == nil {
				why = append(why, "no generated Parse method")
			}
			if !hasEnc || !m.HasEncInit || !m.HasEncode {
				why = append(why, "no generated encoder")
			}
			if !ctxStructs[name] || !m.HasCtxInit {
				why = append(why, "no generated parsing context")
			}
			if !m.StructSeen {
				why = append(why, "struct type not found next to the generated file")
			}
			if len(why) > 0 {
				res.Skipped = append(res.Skipped, fmt.Sprintf("%s.%s: %s", m.ImportPath, name, strings.Join(why, "; ")))
				continue
			}
			res.Models = append(res.Models, m)
		}
	}
	return res, nil
}

// scanParse reads field order, ordered-ness and the type number of each field from a generated
// Parse method.
func scanParse(fd *ast.FuncDecl, m *scanModel) {
	m.Fields = []scanField{}
	idx := map[string]int{}
	for _, st := range fd.Body.List {
		ds, ok := st.(*ast.DeclStmt)
		if !ok {
			continue
		}
		gd, ok := ds.Decl.(*ast.GenDecl)
		if !ok || gd.Tok != token.VAR {
			continue
		}
		for _, sp := range gd.Specs {
			vs := sp.(*ast.ValueSpec)
			for _, n := range vs.Names {
				if strings.HasPrefix(n.Name, "handled_") {
					idx[strings.TrimPrefix(n.Name, "handled_")] = len(m.Fields)
					m.Fields = append(m.Fields, scanField{Name: strings.TrimPrefix(n.Name, "handled_")})
				}
			}
		}
	}
	var topSwitch *ast.SwitchStmt
	ast.Inspect(fd.Body, func(n ast.Node) bool {
		if topSwitch != nil {
			return false
		}
		switch s := n.(type) {
		case *ast.ForStmt:
			if as, ok := s.Init.(*ast.AssignStmt); ok && len(as.Lhs) == 1 {
				if id, ok := as.Lhs[0].(*ast.Ident); ok && id.Name == "handled" {
					m.Ordered = true
				}
			}
		case *ast.SwitchStmt:
			if id, ok := s.Tag.(*ast.Ident); ok && id.Name == "typ" {
				topSwitch = s
				return false
			}
		}
		return true
	})
	if topSwitch == nil {
		return
	}
	for _, cc := range topSwitch.Body.List {
		c := cc.(*ast.CaseClause)
		if len(c.List) != 1 {
			continue
		}
		bl, ok := c.List[0].(*ast.BasicLit)
		if !ok || bl.Kind != token.INT {
			continue
		}
		tn, err := strconv.ParseUint(bl.Value, 0, 64)
		if err != nil {
			continue
		}
		// the first `handled_<F> = true` in the clause names the field
		found := ""
		for _, st := range c.Body {
			ast.Inspect(st, func(n ast.Node) bool {
				if found != "" {
					return false
				}
				if as, ok := n.(*ast.AssignStmt); ok && len(as.Lhs) == 1 {
					if id, ok := as.Lhs[0].(*ast.Ident); ok && strings.HasPrefix(id.Name, "handled_") {
						found = strings.TrimPrefix(id.Name, "handled_")
						return false
					}
				}
				return true
			})
		}
		if i, ok := idx[found]; ok && found != "" {
			m.Fields[i].TypeNum = tn
			m.Fields[i].HasCase = true
		}
	}
}

// registrySource emits the Go source that links every discovered model into the worker.
func registrySource(res *scanResult) string {
	var b strings.Builder
	b.WriteString("//go:build verif\n\n// Code generated at check time by harness/c13 (discovery step). DO NOT EDIT.\npackage main\n\nimport (\n\t\"reflect\"\n\n\tenc \"" + res.Module + "/std/encoding\"\n")
	alias := map[string]string{}
	var paths []string
	for _, m := range res.Models {
		if _, ok := alias[m.ImportPath]; !ok {
			alias[m.ImportPath] = fmt.Sprintf("p%d", len(alias))
			paths = append(paths, m.ImportPath)
		}
	}
	for _, p := range paths {
		fmt.Fprintf(&b, "\t%s %q\n", alias[p], p)
	}
	b.WriteString(")\n\nvar _ = enc.Wire(nil)\n\nfunc init() {\n\tregistry = []*Model{\n")
	for _, m := range res.Models {
		a := alias[m.ImportPath]
		fmt.Fprintf(&b, "\t\t{\n\t\t\tPkg: %q, ImportPath: %q, Dir: %q, Name: %q, Ordered: %v,\n", m.PkgName, m.ImportPath, m.Dir, m.Name, m.Ordered)
		fmt.Fprintf(&b, "\t\t\tType: reflect.TypeOf(%s.%s{}),\n", a, m.Name)
		b.WriteString("\t\t\tFields: []FieldInfo{")
		for _, f := range m.Fields {
			fmt.Fprintf(&b, "{Name: %q, TypeNum: %d, HasCase: %v}, ", f.Name, f.TypeNum, f.HasCase)
		}
		b.WriteString("},\n\t\t\tEncFields: []string{")
		for _, f := range m.EncFields {
			fmt.Fprintf(&b, "%q, ", f)
		}
		b.WriteString("},\n")
		fmt.Fprintf(&b, "\t\t\tNewEnc: func() any { return &%s.%sEncoder{} },\n", a, m.Name)
		fmt.Fprintf(&b, "\t\t\tInit: func(e, v any) { e.(*%s.%sEncoder).Init(v.(*%s.%s)) },\n", a, m.Name, a, m.Name)
		fmt.Fprintf(&b, "\t\t\tEncode: func(e, v any) enc.Wire { return e.(*%s.%sEncoder).Encode(v.(*%s.%s)) },\n", a, m.Name, a, m.Name)
		fmt.Fprintf(&b, "\t\t\tParse: func(r enc.ParseReader, ic bool) (any, error) {\n\t\t\t\tc := &%s.%sParsingContext{}\n\t\t\t\tc.Init()\n\t\t\t\tv, err := c.Parse(r, ic)\n\t\t\t\tif v == nil {\n\t\t\t\t\treturn nil, err\n\t\t\t\t}\n\t\t\t\treturn v, err\n\t\t\t},\n", a, m.Name)
		switch m.EncodeInto {
		case "buf":
			fmt.Fprintf(&b, "\t\t\tEncodeIntoBuf: func(e, v any, buf []byte) { e.(*%s.%sEncoder).EncodeInto(v.(*%s.%s), buf) },\n", a, m.Name, a, m.Name)
		case "wire":
			fmt.Fprintf(&b, "\t\t\tEncodeIntoWire: func(e, v any, w enc.Wire) { e.(*%s.%sEncoder).EncodeInto(v.(*%s.%s), w) },\n", a, m.Name, a, m.Name)
		}
		fmt.Fprintf(&b, "\t\t\tNewCtx: func() any { return &%s.%sParsingContext{} },\n", a, m.Name)
		fmt.Fprintf(&b, "\t\t\tCtxInit: func(c any) { c.(*%s.%sParsingContext).Init() },\n", a, m.Name)
		fmt.Fprintf(&b, "\t\t\tCtxParse: func(c any, r enc.ParseReader, ic bool) (any, error) {\n\t\t\t\tv, err := c.(*%s.%sParsingContext).Parse(r, ic)\n\t\t\t\tif v == nil {\n\t\t\t\t\treturn nil, err\n\t\t\t\t}\n\t\t\t\treturn v, err\n\t\t\t},\n", a, m.Name)
		if m.PubEncode {
			fmt.Fprintf(&b, "\t\t\tPubEncode: func(v any) enc.Wire { return v.(*%s.%s).Encode() },\n", a, m.Name)
		}
		if m.PubBytes {
			fmt.Fprintf(&b, "\t\t\tPubBytes: func(v any) []byte { return v.(*%s.%s).Bytes() },\n", a, m.Name)
		}
		if m.PubParse {
			fmt.Fprintf(&b, "\t\t\tPubParse: func(r enc.ParseReader, ic bool) (any, error) {\n\t\t\t\tv, err := %s.Parse%s(r, ic)\n\t\t\t\tif v == nil {\n\t\t\t\t\treturn nil, err\n\t\t\t\t}\n\t\t\t\treturn v, err\n\t\t\t},\n", a, m.Name)
		}
		b.WriteString("\t\t},\n")
	}
	b.WriteString("\t}\n}\n")
	return b.String()
}
